import Ecal.Model.Engine
import Ecal.Lemmas.EngineBasic
import Ecal.Lemmas.EngineScope
import Ecal.Lemmas.EngineRoot
import Ecal.Lemmas.EngineBits
import Ecal.Lemmas.EngineLeaf
import Ecal.Gen.C01Facts
/-!
# C01 — exactly the matching, in-scope, unsuppressed rules fire once per event

Theorems about `Ecal.Engine` (the model of engine/rule.go, util.go, processor.go that the driver
runs). `rx` — the answer of a regular expression on the text of a value — is universally
quantified everywhere.
-/
namespace Ecal.Props.C01
open Ecal.Engine

/-! ## the quick pre-check and its cache -/

/-- In the model `IsTriggering` cannot look at anything but the kind (`trigAt` receives the kind only):
    true by construction, kept as an example. That Go's `isTriggeringAtLevel` reads only `event.kind` is
    carried by the tie (same-kind events with different names and states share histories). -/
example (rt : Root) (e1 e2 : Event) (h : e1.kind = e2.kind) : rt.isTriggering e1 = rt.isTriggering e2 := by
  simp [Root.isTriggering, h]

/-- the pre-check over-approximates the full match at every level of the tree -/
theorem trigAt_of_matchAt (rx : Nat → Val → Bool) (ev : Event) :
    ∀ (ks : List Seg) (t : Idx) (l : List Rule), matchAt rx ev ks t = .ok l → l ≠ [] → trigAt ks t = true := by
  intro ks
  induction ks with
  | nil =>
    intro t l h hne
    cases t with
    | kind all single => simp [matchAt] at h; exact absurd h.symm (by simpa using hne)
    | state rules keys => simp [trigAt]
    | allLeaf rules => simp [trigAt]
  | cons k ks ih =>
    intro t l h hne
    cases t with
    | kind all single =>
      simp only [matchAt] at h
      simp only [trigAt]
      generalize all ++ (alookup k single).getD [] = subs at h
      induction subs generalizing l with
      | nil => simp [Out.flat] at h; exact absurd h.symm (by simpa using hne)
      | cons i rest ihs =>
        simp only [List.map_cons] at h
        obtain ⟨a, b, ha, hb, hl⟩ := Out.flat_ok_cons h
        simp only [List.any_cons, Bool.or_eq_true]
        by_cases hae : a = []
        · right
          apply ihs b _ hb
          intro hbe; apply hne; simp [hl, hae, hbe]
        · left; exact ih i a ha hae
    | state rules keys => simp [matchAt] at h; exact absurd h.symm (by simpa using hne)
    | allLeaf rules => simp [matchAt] at h; exact absurd h.symm (by simpa using hne)

/-- An event that matches at least one rule is reported as triggering. -/
theorem isTriggering_of_match (rx : Nat → Val → Bool) (rt : Root) (ev : Event) (l : List Rule)
    (h : rt.matchEv rx ev = .ok l) (hne : l ≠ []) : rt.isTriggering ev = true :=
  trigAt_of_matchAt rx ev ev.kind rt.idx l h hne

/-- every cached answer is the answer of the index for that kind -/
def CacheOK (p : Proc) : Prop := ∀ k b, alookup k p.cache = some b → b = trigAt k p.root.idx

theorem isTriggering_spec (p : Proc) (ev : Event) (h : CacheOK p) :
    (p.isTriggering ev).1 = p.root.isTriggering ev ∧ (p.isTriggering ev).2.root = p.root ∧
      CacheOK (p.isTriggering ev).2 := by
  unfold Proc.isTriggering
  cases hc : alookup ev.kind p.cache with
  | some b => exact ⟨by simp [Root.isTriggering, h _ _ hc], rfl, h⟩
  | none =>
    refine ⟨rfl, rfl, ?_⟩
    intro k b hk
    simp only [alookup_aset] at hk
    split at hk
    · next heq => subst heq; simp at hk; simp [← hk, Root.isTriggering]
    · exact h k b hk

theorem addEvent_inv (rx : Nat → Val → Bool) (p : Proc) (sc : Scope) (ev : Event) (h : CacheOK p) :
    (p.addEvent rx sc ev).2.root = p.root ∧ CacheOK (p.addEvent rx sc ev).2 := by
  have := isTriggering_spec p ev h
  unfold Proc.addEvent
  simp only
  split <;> exact ⟨this.2.1, this.2.2⟩

theorem after_inv (rx : Nat → Val → Bool) (sc : Scope) (hist : List Event) :
    ∀ (p : Proc), CacheOK p → (p.after rx sc hist).root = p.root ∧ CacheOK (p.after rx sc hist) := by
  induction hist with
  | nil => intro p h; exact ⟨rfl, h⟩
  | cons ev rest ih =>
    intro p h
    have h1 := addEvent_inv rx p sc ev h
    have h2 := ih _ h1.2
    simp only [Proc.after, List.foldl_cons] at h2 ⊢
    exact ⟨h2.1.trans h1.1, h2.2⟩

/-- Side obligation on the code (regenerated fact, `go/cmd/harness/c01facts.go`): the model keys the cache
    by the kind itself; that is the real cache exactly if the real key is an injective rendering of
    `event.Kind()`. The extractor reads the key expression of `eventProcessor.IsTriggering`: established
    for `fmt.Sprintf("%q", event.Kind())`, refuted for a hash, a truncation, an unquoted join, a key that is
    not a function of the kind; anything else is "not established" and only amplifies the search. -/
theorem cacheKey_not_refuted : Ecal.Gen.C01.cacheKey ≠ 2 := by decide

/-- After any history of added events (same or different names, kinds, states) the processor's
    cached pre-check answers exactly what the index answers for the event at hand — this is what
    the name-keyed cache violated. -/
theorem cache_sound (rx : Nat → Val → Bool) (sc : Scope) (rt : Root) (hist : List Event) (ev : Event) :
    (((({ root := rt } : Proc).after rx sc hist).isTriggering ev).1) = rt.isTriggering ev := by
  have h0 : CacheOK ({ root := rt } : Proc) := by intro k b hk; simp [alookup] at hk
  have h := after_inv rx sc hist _ h0
  have := (isTriggering_spec _ ev h.2).1
  rw [this, h.1]

/-- Whatever was added before: the event is skipped (nil monitor) iff the index says it does not
    trigger; otherwise it is processed against the unchanged rule index. -/
theorem addEvent_after_history (rx : Nat → Val → Bool) (sc : Scope) (rt : Root) (hist : List Event) (ev : Event) :
    ((({ root := rt } : Proc).after rx sc hist).addEvent rx sc ev).1 =
      (if rt.isTriggering ev then some (processEvent rx rt sc ev) else none) := by
  have h0 : CacheOK ({ root := rt } : Proc) := by intro k b hk; simp [alookup] at hk
  have h := after_inv rx sc hist _ h0
  have hs := isTriggering_spec _ ev h.2
  unfold Proc.addEvent
  simp only
  rw [hs.1, h.1]
  split
  · simp [hs.2.1, h.1]
  · rfl

/-! ## the scope trie -/

/-- After any sequence of `Add` calls, `IsAllowed p` is the flag that the last definition gave to the
    longest prefix of `p` that has a definition; `false` if no prefix has one. -/
theorem scope_longest_prefix (defs : List (List Seg × Bool)) (p : List Seg) :
    (Scope.build defs).isAllowed p = (Spec.longest (Spec.lastDef defs) p).getD false := by
  rw [Scope.isAllowed_eq]
  congr 2
  funext q
  simp [Scope.build, Scope.flagAt_foldl, Scope.flagAt_empty]

example : (Scope.build [([], true), (["p", "q"], false), (["p", "q", "r"], true)]).isAllowed ["p", "q", "z"] = false := by decide
example : (Scope.build [([], true), (["p", "q"], false), (["p", "q", "r"], true)]).isAllowed ["p", "q", "r", "s"] = true := by decide
example : (Scope.build [(["p"], true)]).isAllowed ["z"] = false := by decide

/-! ## the index and the execution -/

section
variable {rx : Nat → Val → Bool} {LI : List Rule → List (String × KeyMatcher) → Prop}

/-
The three exactness theorems are first proved for any invariant `LI` of state leaves that satisfies
`LeafLaw` (`*_of_law`: everything around the leaves — tree, spilling of full leaves, counts, dedupe,
scope, suppression, cache), then the law is discharged for the concrete bit-level invariant `LeafInv`
(`bitmask_faithful`, `Lemmas/EngineLeaf.lean`), which gives the statements without any hypothesis
about leaves: `match_eq_spec`, `processEvent_exact`, `fired_event_not_skipped`.
-/

/-- The index returns rule `x` exactly `Spec.matchCount` times: once per kind pattern of `x` that
    matches the event's kind if the state pattern of `x` admits the event's state, else never —
    for every rule list (the rules actually indexed are `(Root.build rules).indexed`, which is all
    of `rules` when the names are distinct: `indexed_all`). -/
theorem match_eq_spec_of_law (law : LeafLaw rx LI) (rules : List Rule) (hwf : ∀ r ∈ rules, r.WF) (ev : Event) :
    ∃ l, (Root.build rules).matchEv rx ev = .ok l ∧
      ∀ x, l.count x = Spec.matchCount rx (Root.build rules).indexed ev x := by
  have hinv := Root.build_inv rules
  unfold Root.matchEv
  rw [hinv.idx]
  exact buildIdx_spec law _ (fun r hr => hwf r (hinv.sub r hr)) ev

/-- `ProcessEvent` runs a duplicate-free sequence of rules whose set of names is exactly
    `Spec.fires`: kind, state and scope satisfied and not named in the suppression list of any rule
    satisfying those three. -/
theorem processEvent_exact_of_law (law : LeafLaw rx LI) (rules : List Rule) (hwf : ∀ r ∈ rules, r.WF)
    (sc : Scope) (ev : Event) :
    ∃ l, processEvent rx (Root.build rules) sc ev = .ok l ∧ (l.map (·.name)).Nodup ∧
      ∀ n, n ∈ l.map (·.name) ↔ Spec.fires rx (Root.build rules).indexed sc.isAllowed ev n := by
  obtain ⟨cands, hm, hc⟩ := match_eq_spec_of_law law rules hwf ev
  have hinv := Root.build_inv rules
  -- membership in the candidate list
  have hmem : ∀ r, r ∈ cands ↔ (r ∈ (Root.build rules).indexed ∧ Spec.kindOK r ev = true ∧ Spec.stateOK rx r ev = true) := by
    intro r
    rw [← List.count_pos_iff, hc r]
    simp only [Spec.matchCount, Spec.kindOK]
    by_cases hs : Spec.stateOK rx r ev = true
    · simp only [hs, if_true, and_true]
      rw [Nat.pos_iff_ne_zero, Nat.mul_ne_zero_iff, ← Nat.pos_iff_ne_zero, ← Nat.pos_iff_ne_zero,
          List.count_pos_iff, List.countP_pos_iff]
      simp [List.any_eq_true]
    · simp [hs]
  have H := eq_of_name_eq hinv.nodup
  have Hc : ∀ a ∈ cands, ∀ b ∈ cands, a.name = b.name → a = b :=
    fun a ha b hb => H a ((hmem a).mp ha).1 b ((hmem b).mp hb).1
  obtain ⟨hnd, hex⟩ := execOrder_spec sc cands Hc
  refine ⟨execOrder sc cands, by simp [processEvent, hm], hnd, ?_⟩
  intro n
  simp only [List.mem_map, hex, hmem, Spec.fires, Spec.triggers, Spec.scopeOK, Bool.and_eq_true,
    Scope.isAllowedAll]
  constructor
  · rintro ⟨r, ⟨⟨hi, hk, hs⟩, hal, hno⟩, rfl⟩
    refine ⟨⟨r, hi, rfl, ⟨hk, hs⟩, hal⟩, ?_⟩
    rintro ⟨r', hi', ⟨⟨hk', hs'⟩, hal'⟩, hsup⟩
    exact hno ⟨r', ⟨hi', hk', hs'⟩, hal', hsup⟩
  · rintro ⟨⟨r, hi, rfl, ⟨hk, hs⟩, hal⟩, hno⟩
    refine ⟨r, ⟨⟨hi, hk, hs⟩, hal, ?_⟩, rfl⟩
    rintro ⟨r', ⟨hi', hk', hs'⟩, hal', hsup⟩
    exact hno ⟨r', hi', ⟨⟨hk', hs'⟩, hal'⟩, hsup⟩

/-- An event for which `Spec.fires` is non-empty is never skipped, whatever was added before, and
    runs exactly `Spec.fires`. -/
theorem fired_event_not_skipped_of_law (law : LeafLaw rx LI) (rules : List Rule) (hwf : ∀ r ∈ rules, r.WF)
    (sc : Scope) (hist : List Event) (ev : Event) (n : String)
    (hf : Spec.fires rx (Root.build rules).indexed sc.isAllowed ev n) :
    ∃ l, ((({ root := Root.build rules } : Proc).after rx sc hist).addEvent rx sc ev).1 = some (.ok l) ∧
      (l.map (·.name)).Nodup ∧
      ∀ m, m ∈ l.map (·.name) ↔ Spec.fires rx (Root.build rules).indexed sc.isAllowed ev m := by
  obtain ⟨l, hp, hnd, hex⟩ := processEvent_exact_of_law law rules hwf sc ev
  refine ⟨l, ?_, hnd, hex⟩
  rw [addEvent_after_history]
  have hl : l ≠ [] := by
    intro hc
    have := (hex n).mpr hf
    simp [hc] at this
  have htrig : (Root.build rules).isTriggering ev = true := by
    unfold processEvent at hp
    cases hm : (Root.build rules).matchEv rx ev with
    | ok cands =>
      rw [hm] at hp
      refine isTriggering_of_match rx _ ev cands hm ?_
      intro hc
      subst hc
      simp [execOrder, executing, triggering] at hp
      exact hl hp
    | panic => rw [hm] at hp; simp at hp
    | hang => rw [hm] at hp; simp at hp
  simp [htrig, hp]
end

/-! ### the leaf law holds: full-strength statements -/

/-- `bitmask_faithful`: the `BitVec 64` computation of a state leaf equals the set computation.
    The invariant `LeafInv` (at most 63 rules; for every state key the masks `bits`, `bitsAny`,
    `bitsValue v`, `bitsDeep v`, `bitsRegexes` have bit `i` set exactly when rule `i` of the leaf has a
    pattern / a nil-or-regex pattern / the value `v` / the list-or-map `v` / that regex for the key —
    `KMOK`) holds for the empty leaf, is kept by `addRule` into a leaf with fewer than 63 rules, and
    makes `match` return exactly the rules of the leaf whose state pattern admits the event, in rule
    order (regex loop, early exit and collection loop included; no hang, no panic). -/
theorem bitmask_faithful (rx : Nat → Val → Bool) :
    LeafInv [] [] ∧
    (∀ (r : Rule) rules keys, LeafInv rules keys → rules.length < capacity →
      ((r.state.getD []).map (·.1)).Nodup →
      LeafInv (rules ++ [r]) ((r.state.getD []).foldl (keyAdd ((1 : W) <<< rules.length)) keys)) ∧
    (∀ ev rules keys, LeafInv rules keys →
      stateMatch rx ev rules keys = .ok (rules.filter (Spec.stateOK rx · ev))) :=
  ⟨LeafInv.empty, LeafInv.add, fun ev rules keys h => LeafInv.sem rx ev rules keys h⟩

/-- The index returns rule `x` exactly `Spec.matchCount` times — once per kind pattern of `x` that
    matches the event's kind if the state pattern of `x` admits the event's state, else never — for
    every list of rules (any number of state rules on one kind, any values incl. lists/maps, regexes). -/
theorem match_eq_spec (rx : Nat → Val → Bool) (rules : List Rule) (hwf : ∀ r ∈ rules, r.WF) (ev : Event) :
    ∃ l, (Root.build rules).matchEv rx ev = .ok l ∧
      ∀ x, l.count x = Spec.matchCount rx (Root.build rules).indexed ev x :=
  match_eq_spec_of_law (leafLaw rx) rules hwf ev

/-- `ProcessEvent` runs a duplicate-free sequence of rules whose set of names is exactly `Spec.fires`
    (kind, state, scope satisfied; not named in the suppression list of a rule satisfying those). -/
theorem processEvent_exact (rx : Nat → Val → Bool) (rules : List Rule) (hwf : ∀ r ∈ rules, r.WF)
    (sc : Scope) (ev : Event) :
    ∃ l, processEvent rx (Root.build rules) sc ev = .ok l ∧ (l.map (·.name)).Nodup ∧
      ∀ n, n ∈ l.map (·.name) ↔ Spec.fires rx (Root.build rules).indexed sc.isAllowed ev n :=
  processEvent_exact_of_law (leafLaw rx) rules hwf sc ev

/-- An event for which `Spec.fires` is non-empty is never skipped, whatever events were added before
    it, and runs exactly `Spec.fires`, each rule once. -/
theorem fired_event_not_skipped (rx : Nat → Val → Bool) (rules : List Rule) (hwf : ∀ r ∈ rules, r.WF)
    (sc : Scope) (hist : List Event) (ev : Event) (n : String)
    (hf : Spec.fires rx (Root.build rules).indexed sc.isAllowed ev n) :
    ∃ l, ((({ root := Root.build rules } : Proc).after rx sc hist).addEvent rx sc ev).1 = some (.ok l) ∧
      (l.map (·.name)).Nodup ∧
      ∀ m, m ∈ l.map (·.name) ↔ Spec.fires rx (Root.build rules).indexed sc.isAllowed ev m :=
  fired_event_not_skipped_of_law (leafLaw rx) rules hwf sc hist ev n hf

/-! ### which rules run: the execution loop with `failOnFirstError` and failing actions -/

/-- `ProcessEvent` calls the actions of a prefix of a duplicate-free list `l` whose name set is exactly
    `Spec.fires`: all of `l` when the flag is off or no action of `l` returns an error, otherwise the rules
    up to and including the first one whose action fails. (The order of `l` — ascending priority — is C10's.) -/
theorem processEvent_runs (rx : Nat → Val → Bool) (rules : List Rule) (hwf : ∀ r ∈ rules, r.WF)
    (sc : Scope) (ev : Event) (failFirst : Bool) (fails : Rule → Bool) :
    ∃ l, processEvent rx (Root.build rules) sc ev = .ok l ∧ (l.map (·.name)).Nodup ∧
      (∀ n, n ∈ l.map (·.name) ↔ Spec.fires rx (Root.build rules).indexed sc.isAllowed ev n) ∧
      runRules failFirst fails l <+: l ∧
      ((failFirst = false ∨ ∀ r ∈ l, fails r = false) → runRules failFirst fails l = l) ∧
      (failFirst = true → runRules failFirst fails l =
        l.takeWhile (fun r => !fails r) ++ (l.dropWhile (fun r => !fails r)).take 1) := by
  obtain ⟨l, h1, h2, h3⟩ := processEvent_exact rx rules hwf sc ev
  refine ⟨l, h1, h2, h3, runRules_prefix _ _ _, ?_, ?_⟩
  · rintro (h | h)
    · subst h; exact runRules_off _ _
    · exact runRules_noerr _ _ _ h
  · intro h; subst h; exact runRules_on _ _


/-- The same with the scope written out: for a cascade scope built by any sequence of definitions, a
    scope path is allowed iff the last definition of its longest defined prefix says so. -/
theorem processEvent_exact_scope (rx : Nat → Val → Bool) (rules : List Rule) (hwf : ∀ r ∈ rules, r.WF)
    (defs : List (List Seg × Bool)) (ev : Event) :
    ∃ l, processEvent rx (Root.build rules) (Scope.build defs) ev = .ok l ∧ (l.map (·.name)).Nodup ∧
      ∀ n, n ∈ l.map (·.name) ↔ Spec.fires rx (Root.build rules).indexed
        (fun p => (Spec.longest (Spec.lastDef defs) p).getD false) ev n := by
  have h := processEvent_exact rx rules hwf (Scope.build defs) ev
  have he : (Scope.build defs).isAllowed = fun p => (Spec.longest (Spec.lastDef defs) p).getD false :=
    funext fun p => scope_longest_prefix defs p
  rw [he] at h
  exact h

/-! ### rules added between events -/

theorem step_inv (rx : Nat → Val → Bool) (p : Proc) (op : Op) (h : CacheOK p) : CacheOK (p.step rx op) := by
  cases op with
  | addRule r => intro k b hk; simp [Proc.step, Proc.addRule, alookup] at hk
  | addEvent sc ev => exact (addEvent_inv rx p sc ev h).2
  | reset => intro k b hk; simp [Proc.step, Proc.reset, alookup] at hk

theorem run_inv (rx : Nat → Val → Bool) (ops : List Op) : ∀ (p : Proc) (acc : List Rule), CacheOK p →
    p.root = Root.build acc →
    CacheOK (p.run rx ops) ∧ (p.run rx ops).root = Root.build (ops.foldl (fun acc op =>
      match op with | .addRule r => acc ++ [r] | .addEvent _ _ => acc | .reset => []) acc) := by
  induction ops with
  | nil => intro p acc h hr; exact ⟨h, hr⟩
  | cons op rest ih =>
    intro p acc h hr
    simp only [Proc.run, List.foldl_cons]
    cases op with
    | addRule r =>
      exact ih _ _ (step_inv rx p (.addRule r) h) (by simp [Proc.step, Proc.addRule, hr, Root.build, List.foldl_append])
    | addEvent sc ev =>
      exact ih _ _ (step_inv rx p (.addEvent sc ev) h) (by simp [Proc.step, (addEvent_inv rx p sc ev h).1, hr])
    | reset =>
      exact ih _ _ (step_inv rx p .reset h) (by simp [Proc.step, Proc.reset, Root.build])

/-- After ANY history — events (each with the scope of its own cascade), `AddRule` calls (the processor
    having been finished in between) and `Reset`s in any interleaving — the cached pre-check answers what
    the index of the rules added since the last reset answers. -/
theorem cache_sound_ops (rx : Nat → Val → Bool) (ops : List Op) (ev : Event) :
    ((({ root := {} } : Proc).run rx ops).isTriggering ev).1 = (Root.build (Op.rules ops)).isTriggering ev := by
  have h0 : CacheOK ({ root := {} } : Proc) := by intro k b hk; simp [alookup] at hk
  have h := run_inv rx ops _ [] h0 (by simp [Root.build])
  have := (isTriggering_spec _ ev h.1).1
  rw [this, h.2]; rfl

/-- ... and an event for which `Spec.fires` (over the rules present at that moment) is non-empty is never
    skipped and runs exactly `Spec.fires`. -/
theorem fired_event_not_skipped_ops (rx : Nat → Val → Bool) (ops : List Op) (hwf : ∀ r ∈ Op.rules ops, r.WF)
    (sc : Scope) (ev : Event) (n : String)
    (hf : Spec.fires rx (Root.build (Op.rules ops)).indexed sc.isAllowed ev n) :
    ∃ l, ((({ root := {} } : Proc).run rx ops).addEvent rx sc ev).1 = some (.ok l) ∧
      (l.map (·.name)).Nodup ∧
      ∀ m, m ∈ l.map (·.name) ↔ Spec.fires rx (Root.build (Op.rules ops)).indexed sc.isAllowed ev m := by
  have h0 : CacheOK ({ root := {} } : Proc) := by intro k b hk; simp [alookup] at hk
  have h := run_inv rx ops _ [] h0 (by simp [Root.build])
  have hroot : (({ root := {} } : Proc).run rx ops).root = Root.build (Op.rules ops) := h.2
  obtain ⟨l, hp, hnd, hex⟩ := fired_event_not_skipped rx (Op.rules ops) hwf sc [] ev n hf
  refine ⟨l, ?_, hnd, hex⟩
  have hs := isTriggering_spec _ ev h.1
  simp only [Proc.after, List.foldl_nil] at hp
  unfold Proc.addEvent at hp ⊢
  simp only at hp ⊢
  rw [hs.1, hs.2.1, hroot]
  have h0' : CacheOK ({ root := Root.build (Op.rules ops) } : Proc) := by intro k b hk; simp [alookup] at hk
  have hs' := isTriggering_spec ({ root := Root.build (Op.rules ops) } : Proc) ev h0'
  rw [hs'.1, hs'.2.1] at hp
  by_cases hc : (Root.build (Op.rules ops)).isTriggering ev = true
  · simp only [hc, if_true] at hp ⊢; exact hp
  · simp only [hc] at hp; simp at hp

/-! ### Go's random iteration order over `keyMap` and `bitsRegexes` -/

/-- A state leaf answers the same whatever the order of its key matchers (Go ranges over a map; the early
    exit when no bit is left does not change the result). -/
theorem stateMatch_perm (rx : Nat → Val → Bool) (ev : Event) {rules keys keys'} (h : LeafInv rules keys)
    (hp : keys.Perm keys') :
    stateMatch rx ev rules keys' = .ok (rules.filter (Spec.stateOK rx · ev)) :=
  LeafInv.sem rx ev rules keys' (h.perm hp)

/-- ... and a key matcher answers the same whatever the order of its regex entries. -/
theorem kmMatch_regex_order {P km} (h : KMOK P km) {es : List (W × Nat)} (hp : km.bitsRegexes.Perm es)
    (rx : Nat → Val → Bool) (cur : W) (v : Val) :
    kmMatch rx { km with bitsRegexes := es } cur v = kmMatch rx km cur v := kmMatch_permRx h hp rx cur v

/-! ### the rule set and the executable specification -/

/-- The rules that enter the index are exactly those `AddRule` accepts one after the other: a rule with a
    kind and a scope match whose name no earlier ACCEPTED rule has (after fix b2c3167 a refused rule no
    longer blocks its name). -/
theorem indexed_characterised (rules : List Rule) : (Root.build rules).indexed = Spec.accepted rules [] :=
  Root.indexed_accepted rules

/-- The list the driver cross-checks the model against is `Spec.fires`. -/
theorem firesList_iff (rx : Nat → Val → Bool) (rules : List Rule) (allowed : List Seg → Bool) (ev : Event) (n : String) :
    n ∈ Spec.firesList rx rules allowed ev ↔ Spec.fires rx rules allowed ev n := mem_firesList rx rules allowed ev n

/-- Distinct names and non-empty kind matches: every rule of the list is indexed. -/
theorem indexed_all (rules : List Rule) (hn : (rules.map (·.name)).Nodup)
    (hk : ∀ r ∈ rules, r.kinds ≠ [] ∧ r.scopeNil = false) :
    (Root.build rules).indexed = rules := Root.indexed_eq rules hn hk

/-- The indexed rules always have distinct names and come from the list. -/
theorem indexed_nodup (rules : List Rule) :
    ((Root.build rules).indexed.map (·.name)).Nodup ∧ ∀ r ∈ (Root.build rules).indexed, r ∈ rules :=
  ⟨(Root.build_inv rules).nodup, (Root.build_inv rules).sub⟩

/-! ### non-vacuity: the model on concrete rule sets (kernel evaluation) -/

private def rA : Rule := { name := "r", kinds := [["a", "*"], ["*", "b"]], scope := [], state := none, prio := 0, suppress := [] }
private def rS : Rule := { name := "s", kinds := [["a", "b"]], scope := [], state := some [("k", .atom 1)], prio := 0, suppress := ["r"] }
private def rT : Rule := { name := "t", kinds := [["a", "b"]], scope := [["p"]], state := some [("k", .rx 0)], prio := 0, suppress := [] }
private def eAB : Event := { name := "e", kind := ["a", "b"], state := [("k", .atom 1)] }

/-- two patterns of one rule match: the index returns it twice, the processor runs it once -/
example : (Root.build [rA, rS, rT]).matchEv (fun _ _ => true) eAB = .ok [rA, rA, rS, rT] := by decide
example : (Root.build [rA, rS, rT]).matchEv (fun _ _ => false) eAB = .ok [rA, rA, rS] := by decide
example : Spec.matchCount (fun _ _ => true) [rA, rS, rT] eAB rA = 2 := by decide
example : triggering (Scope.build [([], true), (["p"], false)]) [rA, rA, rS, rT] [] = [rA, rS] := by decide
example : executing [rA, rS] = [rS] := by decide
example : runRules true (fun r => r.name == "s") [rA, rS, rT] = [rA, rS] := by decide
example : runRules false (fun r => r.name == "s") [rA, rS, rT] = [rA, rS, rT] := by decide
example : rA.WF ∧ rS.WF ∧ rT.WF := by simp [Rule.WF, rA, rS, rT]
/-- the hypothesis of `fired_event_not_skipped` is satisfiable: `s` fires (and suppresses `r`) -/
example : Spec.fires (fun _ _ => true) [rA, rS, rT] (fun _ => true) eAB "s" ∧
    ¬ Spec.fires (fun _ _ => true) [rA, rS, rT] (fun _ => true) eAB "r" := by
  unfold Spec.fires; decide
example : (Root.build [rA, rS, rT]).indexed = [rA, rS, rT] := by decide

/-- Negative witness (the defect repaired by b2c3167): with the name registered before validation, a rule
    refused for its nil scope match blocks the corrected rule of the same name — it never fires. -/
theorem addRule_old_blocks_name :
    ((Root.addRuleOld ((Root.addRuleOld {} { rA with scopeNil := true }).1) rA).1.indexed = []) ∧
    (Root.build [{ rA with scopeNil := true }, rA]).indexed = [rA] := by decide

/-! ## the 64-bit masks of a state leaf: per-bit facts used by `bitmask_faithful` -/

/-- `unmatch` (key missing in the event): rule `i` stays iff it does not constrain the key. -/
theorem bitmask_unmatch_bit (km : KeyMatcher) (cur : W) (i : Nat) :
    (kmUnmatch km cur).getLsbD i = (cur.getLsbD i && !km.bits.getLsbD i) := kmUnmatch_bit km cur i

/-- The mask step of `match` (key present): rule `i` stays iff it was in and does not constrain the
    key, or accepts any value (nil / regex, checked afterwards), or asks for exactly this value
    (`add` = the mask stored for the value; 0 if none). -/
theorem bitmask_match_bit (bits bitsAny add cur : W) (i : Nat)
    (hAny : bitsAny &&& bits = bitsAny) (hAdd : add &&& bits = add) :
    (cur ^^^ (cur &&& ((bitsAny ||| add) ^^^ bits))).getLsbD i =
      (cur.getLsbD i && (!bits.getLsbD i || bitsAny.getLsbD i || add.getLsbD i)) :=
  matchStep_bit bits bitsAny add cur i hAny hAdd

example : (0b0011#64 : W) &&& 0b0111#64 = 0b0011#64 := by decide

/-- The collection loop ends (no hang, no index panic) when bit 63 of the mask is clear and no bit
    beyond the leaf's rules is set — which the capacity of 63 rules per leaf guarantees. -/
theorem collect_terminates (rules : List Rule) (mb : W) (hmsb : mb.getLsbD 63 = false)
    (hlen : ∀ i, mb.getLsbD i = true → i < rules.length) :
    ∃ l, collect rules mb collectFuel 0 1 [] = .ok l := by
  have := collect_ok rules mb hmsb hlen 63 0 collectFuel [] (by omega) (by simp [collectFuel])
  simpa using this

example : (0b101#64 : W).getLsbD 63 = false ∧ ∀ i, (0b101#64 : W).getLsbD i = true → i < [rA, rS, rT].length := by
  refine ⟨by decide, ?_⟩
  intro i h
  by_cases hi : i < 3
  · simpa using hi
  · exfalso
    have h64 : i < 64 := by
      by_cases h' : i < 64
      · exact h'
      · simp [BitVec.getLsbD_of_ge _ _ (by omega : 64 ≤ i)] at h
    have : i ∈ List.range 64 := List.mem_range.mpr h64
    revert h hi
    revert i
    decide

/-- Negative witness (the defect repaired by 1d04360): with 64 rules in one leaf, bit 63 set, the
    loop never ends — no fuel suffices, here 100 rounds. -/
theorem collect_diverges_at_63 :
    collect (List.replicate 64 rA) ((1 : W) <<< 63) collectFuel 0 1 [] = .hang := by decide

end Ecal.Props.C01
