import Ecal.Model.Engine
/-!
# C01 — exactly the matching, in-scope, unsuppressed rules fire once per event
-/
namespace Ecal.Props.C01
open Ecal.Engine

/-- `isTriggering` looks at the kind of the event only. -/
theorem isTriggering_kind_only (rt : Root) (e1 e2 : Event) (h : e1.kind = e2.kind) :
    rt.isTriggering e1 = rt.isTriggering e2 := by
  simp [Root.isTriggering, h]

end Ecal.Props.C01
