import Ecal.Model.Conc
import Ecal.Gen.C13
/-!
# C13 — parsing is a pure, re-entrant function of its input

Model: `Ecal.Conc` — any number of parser / runtime-construction threads, each a
deterministic step function over its own state (token buffer, stack, tree under
construction, …) and the package-level variables (`String → V`, keyed by
`pkg.name`). The facts about the Go source are regenerated on every run
(`Ecal.Gen.C13`, extractor `harness C13 -tool extract`): the package-level
writes outside `init()` on the parse / runtime-construction path.
-/
namespace Ecal.Props.C13
open Ecal.Conc Ecal.Gen.C13

/-- The package-level writes that are allowed — an EXACT list of (variable, function, kind),
    each entry justified:
    * `interpreter.instanceCounter` updated by `sync/atomic` in `newBaseRuntime`: the update is
      atomic, and the value obtained flows only into the `instanceID` of the new runtime component
      (generated fact `counterFlows`, obligation `counter_flows_into_instanceID`), which is not part
      of a tree, of an error or of an evaluation result (hypothesis `hC`, exercised by the stress:
      sequential and concurrent results are computed at different counter values).
    Nothing else: a new `sync/atomic` cell, a `sync.Pool`, a `sync.Map`, a channel are free of data
    races but still carry information from one parse to another, and the property is purity. -/
def allowedWrites : List (String × String × String) := [
  ("interpreter.instanceCounter", "interpreter.newBaseRuntime", "atomic"),
  -- not writes: method calls on package-level values of another package's type are listed so that
  -- nothing of that shape goes unseen. `regexp.Regexp` is documented as safe for concurrent use by
  -- multiple goroutines and `MatchString` does not modify it.
  ("parser.NamePattern", "parser.lexToken", "extcall:regexp.?.MatchString"),
  ("parser.numberPattern", "parser.lexToken", "extcall:regexp.?.MatchString")]

/-- (variable, function, kind) must be listed; the function may be the enclosing one or — when the
    write sits in an unexported helper with exactly one caller — that caller (extracting a helper out
    of the listed function changes nothing). -/
def allowedWrite (w : Write) : Bool :=
  allowedWrites.contains (w.name, w.fn, w.kind) || allowedWrites.contains (w.name, w.caller, w.kind)

/-- cells with an allowed (atomic / lock-protected) update -/
def allowedCells (ws : List Write) : List String := (ws.filter allowedWrite).map (·.name)

/-- **Generated side obligation** (re-checked against the source on every run):
    every package-level write on the parse / runtime-construction path is allowed. -/
theorem writesOnParsePath_allowed : ∀ w ∈ writesOnParsePath, allowedWrite w = true := by decide

/-- **Generated side obligation**, wider: the same for *every* package-level write outside `init()`
    in parser, interpreter, scope, util — also off the parse path (code that parses at run time:
    imports, string interpolation, the debugger). Mutating method calls on container-like
    package-level variables (`sync.Pool` Put/Get, `sync.Map` Store/Delete/LoadOrStore, `atomic.Value`
    Store, container/list, channel send/receive) are writes too: such containers are free of data
    races but still shared state that can carry information from one parse to another, and the
    property is purity. None is allowed today. -/
theorem allWrites_allowed : ∀ w ∈ allWrites, allowedWrite w = true := by decide

example : ¬ (∀ w ∈ [Write.mk "parser.laBufferPool" "parser.LABuffer.release" "call:Put" "parser.LABuffer.release"], allowedWrite w = true) := by decide

/-- an atomic cell is not allowed because it is atomic (seeded changes C13-1, C13c-1) -/
example : allowedWrite ⟨"parser.pendingPre", "parser.parser.next", "atomic", "parser.parser.next"⟩ = false ∧
    allowedWrite ⟨"parser.guardExpressionDepth", "parser.ndGuard", "atomic", "parser.ndGuard"⟩ = false ∧
    allowedWrite ⟨"interpreter.instanceCounter", "interpreter.nextInstanceID", "atomic", "interpreter.newBaseRuntime"⟩ = true := by decide

/-- **Generated side obligation** (three-valued): the value obtained from the instance counter is not
    seen to flow anywhere but into `instanceID` (`unknown:…` entries are not judged; they are noted
    by the check). -/
theorem counter_flows_into_instanceID :
    counterFlows ≠ [] ∧ ∀ f ∈ counterFlows, f.2.1 = "instanceID" ∨ f.2.1 = "unknown" := by decide

/-- Package-level writes in the other packages a runtime provider reaches (stdlib, engine, engine/pool,
    engine/pubsub, config) that are allowed, justified one by one:
    * `engine.midcounter` / `pidcounter` / `ruleindexidcounter` in `newMonID` / `newProcID` /
      `newRuleIndexID`: incremented under their own mutex (`+lock` is part of the entry); the values
      name monitors, processors and rule indexes — not trees, errors or evaluation results;
    * the same three in `engine.UnitTestResetIDs`: a helper for unit tests, called from `_test.go`
      files only;
    * `stdlib.internalStdlibDocMap` / `internalStdlibFuncMap` in `AddStdlibPkg` / `AddStdlibFunc`: the
      host-side registration API, unsynchronised by design — a host registers its functions before it
      starts parsing and evaluating (assumption, listed in the evidence); not on the parse path. -/
def allowedOtherPackageWrites : List (String × String × String) := [
  ("engine.midcounter", "engine.UnitTestResetIDs", "assign"),
  ("engine.midcounter", "engine.newMonID", "incdec+lock"),
  ("engine.pidcounter", "engine.UnitTestResetIDs", "assign"),
  ("engine.pidcounter", "engine.newProcID", "incdec+lock"),
  ("engine.ruleindexidcounter", "engine.UnitTestResetIDs", "assign"),
  ("engine.ruleindexidcounter", "engine.newRuleIndexID", "incdec+lock"),
  ("stdlib.internalStdlibDocMap", "stdlib.AddStdlibPkg", "assign"),
  ("stdlib.internalStdlibFuncMap", "stdlib.AddStdlibFunc", "assign")]

/-- **Generated side obligation**: every package-level write in stdlib, engine, engine/pool,
    engine/pubsub, config is one of the justified entries. -/
theorem otherPackageWrites_allowed : ∀ w ∈ otherPackageWrites,
    (w.name, w.fn, w.kind) ∈ allowedOtherPackageWrites ∨ (w.name, w.caller, w.kind) ∈ allowedOtherPackageWrites := by decide

/-- **Generated side obligation**: `Validate` is only ever called by a `Validate` method on its own
    base component / children, or on a tree the calling function has just obtained from the parser —
    never on a component that other goroutines may already evaluate. (This is what makes the
    `Validate`-phase writes of `allowedObjectWrites` part of the initial state of evaluating threads.) -/
theorem validate_call_sites : ∀ c ∈ validateCallSites, c.2 = "recursion" ∨ c.2 = "fresh" := by decide

/-- **Generated side obligation**: no function on the parse / runtime-construction path looks at a
    clock (`time.After`, `time.Now`, `time.Sleep`, a timer): a parse that gives up waiting for its
    tokens after some milliseconds writes nothing and is still not a function of its input. -/
theorem no_clock_on_parse_path : timeOnParsePath = [] := by decide

/-- The extractor looked at the right code: the entry points exist and the
    functions that carried the defect are on the path it follows. -/
theorem extractor_probes :
    "parser.Parse" ∈ entryPoints ∧ "parser.ParseWithRuntime" ∈ entryPoints ∧
    "interpreter.ECALRuntimeProvider.Runtime" ∈ entryPoints ∧
    "interpreter.sinkRuntimeInst" ∈ entryPoints ∧ probes.all (·.2) = true := by decide

/-- **parse_reentrant.** Let the threads write (outside `init`) only the
    package-level variables the extractor lists (`hW`), let every listed write be
    allowed (`hA`), and let the parse result not look at the allowed cells (`hC`:
    instance ids are not part of a tree or an error). Then for every number of
    threads and every interleaving, every thread's result equals the result of
    the same parse running alone (sequentially) from the same initial state, and
    no other package-level variable ever changes. -/
theorem parse_reentrant {V L R : Type} (sys : Sys String V L) (result : L → R)
    (writes : List Write)
    (hW : WritesWithin sys (· ∈ writes.map (·.name)))
    (hA : ∀ w ∈ writes, allowedWrite w = true)
    (hC : Confined sys (· ∈ allowedCells writes) result)
    (s : State String V L) (sched : List Nat) :
    (∀ x, x ∉ allowedCells writes → (run sys s sched).shared x = s.shared x) ∧
    ∀ t, result ((run sys s sched).locals t)
        = result (alone sys t (sched.count t) s.shared (s.locals t)).2 := by
  have hsub : ∀ x, x ∈ writes.map (·.name) → x ∈ allowedCells writes := by
    intro x hx
    obtain ⟨w, hw, rfl⟩ := List.mem_map.mp hx
    exact List.mem_map.mpr ⟨w, List.mem_filter.mpr ⟨hw, hA w hw⟩, rfl⟩
  have hW' : WritesWithin sys (· ∈ allowedCells writes) :=
    fun t g l x hx => hW t g l x (fun h => hx (hsub x h))
  exact isolation_mod sys (· ∈ allowedCells writes) result hW' hC s sched

/-- `parse_reentrant` for the write set extracted from the source under test: the
    side obligation discharges `hA`. -/
theorem parse_reentrant_extracted {V L R : Type} (sys : Sys String V L) (result : L → R)
    (hW : WritesWithin sys (· ∈ writesOnParsePath.map (·.name)))
    (hC : Confined sys (· ∈ allowedCells writesOnParsePath) result)
    (s : State String V L) (sched : List Nat) (t : Nat) :
    result ((run sys s sched).locals t)
      = result (alone sys t (sched.count t) s.shared (s.locals t)).2 :=
  (parse_reentrant sys result writesOnParsePath hW writesOnParsePath_allowed hC s sched).2 t

/-- Consequence: a thread's result does not depend on what the other threads do —
    two schedules that give thread `t` the same number of steps give it the same result. -/
theorem schedule_independent {V L R : Type} (sys : Sys String V L) (result : L → R)
    (writes : List Write)
    (hW : WritesWithin sys (· ∈ writes.map (·.name)))
    (hA : ∀ w ∈ writes, allowedWrite w = true)
    (hC : Confined sys (· ∈ allowedCells writes) result)
    (s : State String V L) (sched sched' : List Nat) (t : Nat)
    (hn : sched.count t = sched'.count t) :
    result ((run sys s sched).locals t) = result ((run sys s sched').locals t) := by
  rw [(parse_reentrant sys result writes hW hA hC s sched).2 t,
      (parse_reentrant sys result writes hW hA hC s sched').2 t, hn]

/-- With an empty write set the whole thread state (not only the result) is that of
    the sequential run and the package-level state is untouched. -/
theorem parse_pure {V L : Type} (sys : Sys String V L)
    (hW : WritesWithin sys (· ∈ ([] : List Write).map (·.name)))
    (s : State String V L) (sched : List Nat) :
    (run sys s sched).shared = s.shared ∧
    ∀ t, (run sys s sched).locals t = (alone sys t (sched.count t) s.shared (s.locals t)).2 :=
  isolation sys (fun t g l x _ => hW t g l x (by simp)) s sched

/-- Non-vacuity: the repaired parser (per-parse `braceStartsBlock` counter) is such a
    system — with *any* write list, in particular the extracted one. -/
example (writes : List Write) : WritesWithin (parserSys true) (· ∈ writes.map (·.name)) :=
  fun t g l x _ => parserSys_repaired_readonly t g l x (fun h => h)

/-- Non-vacuity of `hC` for the extracted write list: the repaired parser reads only the
    grammar-table cell, which is not among the allowed (written) cells. -/
example : Confined (parserSys true) (· ∈ allowedCells writesOnParsePath) (fun l : PLoc => l) := by
  intro t g g' l l' hg hl
  simp only at hl
  subst hl
  exact parserStep_repaired_local g g' l (hg tableCell (by decide))

/-- (An instance, true by construction of the model — not a claim about parser.go.) The repaired parser model, end to end: any number of concurrent parses, any
    schedule — every parse ends exactly as it ends alone; the table is unchanged. -/
example (s : State String Brace PLoc) (sched : List Nat) :
    (run (parserSys true) s sched).shared = s.shared ∧
    ∀ t, (run (parserSys true) s sched).locals t
        = (alone (parserSys true) t (sched.count t) s.shared (s.locals t)).2 :=
  isolation (parserSys true) parserSys_repaired_readonly s sched

/-! ### State reached through objects shared between parses and evaluations -/

/-- Writes to fields of shared objects (the runtime provider, the runtime components attached to
    an AST) that are allowed, justified one by one. Everything else — in particular any
    non-atomic write inside an `Eval` method or a constructor — breaks the obligation below.

    * `ECALRuntimeProvider.Mutexes` / `.MutexeOwners` in `mutexRuntime.Eval`: every access is
      between `erp.MutexesMutex.Lock()` and `Unlock()` (lock-protected; the extractor's `+lock`
      hint is part of the entry, so removing the lock changes the fact). Subject of C12.
    * `ECALRuntimeProvider.MutexLog.Add` in `mutexRuntime.Eval`: a mutating method call on a field of
      the provider; the ring buffer is internally locked.
    * the five `Validate`-phase writes (`baseRuntime.validated`, `assignmentRuntime.leftSide`,
      `letRuntime.declared`, `loopRuntime.leftInVarName`, `numberValueRuntime.numValue`): a tree
      is validated once, by the goroutine that parsed it, before it is handed to any evaluating
      goroutine — every `.Validate()` call site in /repo is either the recursion into children or
      directly follows `ParseWithRuntime` on the fresh tree (host tools, `stringValueRuntime.Eval`,
      `importRuntime.Eval`, the debugger's `InjectValue`). The values are functions of the node
      alone and read-only afterwards. They are part of the initial state of the evaluating
      threads, not steps of them. -/
def allowedObjectWrites : List ObjWrite := [
  -- `datautil.RingBuffer.Add` takes the buffer's own lock (krotik/common datautil/ringbuffer.go); the log
  -- is only read by the debugger's lock-state command
  ⟨"ECALRuntimeProvider", "MutexLog", "interpreter.mutexRuntime.Eval", "call:Add", "run"⟩,
  ⟨"ECALRuntimeProvider", "MutexeOwners", "interpreter.mutexRuntime.Eval", "assign+lock", "run"⟩,
  ⟨"ECALRuntimeProvider", "Mutexes", "interpreter.mutexRuntime.Eval", "assign+lock", "run"⟩,
  ⟨"assignmentRuntime", "leftSide", "interpreter.assignmentRuntime.Validate", "assign", "validate"⟩,
  ⟨"baseRuntime", "validated", "interpreter.baseRuntime.Validate", "assign", "validate"⟩,
  ⟨"letRuntime", "declared", "interpreter.letRuntime.Validate", "assign", "validate"⟩,
  ⟨"loopRuntime", "leftInVarName", "interpreter.loopRuntime.Validate", "assign", "validate"⟩,
  ⟨"numberValueRuntime", "numValue", "interpreter.numberValueRuntime.Validate", "assign", "validate"⟩]

/-- **Generated side obligation**: every write to a field of a shared object found in the source
    is a `sync/atomic` update or one of the justified entries. -/
theorem sharedObjectWrites_allowed :
    ∀ w ∈ sharedObjectWrites, w ∈ allowedObjectWrites ∨ w.phase = "once" := by decide

/-- cells (object.field / package variable) that evaluating and parsing threads may update —
    atomically or under a lock — while they run -/
def runPhaseObjectCells : List (String × String) :=
  [("ECALRuntimeProvider", "Mutexes"), ("ECALRuntimeProvider", "MutexeOwners"), ("ECALRuntimeProvider", "MutexLog")]

def runPhaseCells : List String :=
  "interpreter.instanceCounter" :: runPhaseObjectCells.map (fun p => p.1 ++ "." ++ p.2)

/-- **Generated side obligation** (the link between the extracted facts and hypothesis `hW` of
    `shared_ast_reentrant`): every run-phase write to a field of a shared object found in the source
    is a write to one of `runPhaseObjectCells`; every package-level write is the instance counter
    (or a listed read-only ext call). `once`-phase writes (inside `sync.Once.Do`) are not steps of
    the evaluating threads in this sense: they happen once with a happens-before edge. -/
theorem run_phase_writes_within_cells :
    (∀ w ∈ sharedObjectWrites, w.phase = "run" → (w.obj, w.field) ∈ runPhaseObjectCells) ∧
    (∀ w ∈ allWrites, w.kind = "atomic" → w.name = "interpreter.instanceCounter") := by decide

/-- **shared_ast_reentrant.** Threads that evaluate one shared, validated AST (or parse with one
    shared provider) and write, among package-level variables and fields of shared objects,
    only the `runPhaseCells` (`hW` — tied to the source by `run_phase_writes_within_cells`,
    syntactically, not proved of the code), with results that do not look at those cells (`hC`): every thread's result in
    every interleaving equals its result alone; all other shared state is unchanged. -/
theorem shared_ast_reentrant {V L R : Type} (sys : Sys String V L) (result : L → R)
    (hW : WritesWithin sys (· ∈ runPhaseCells))
    (hC : Confined sys (· ∈ runPhaseCells) result)
    (s : State String V L) (sched : List Nat) :
    (∀ x, x ∉ runPhaseCells → (run sys s sched).shared x = s.shared x) ∧
    ∀ t, result ((run sys s sched).locals t)
        = result (alone sys t (sched.count t) s.shared (s.locals t)).2 :=
  isolation_mod sys (· ∈ runPhaseCells) result hW hC s sched

/-- non-vacuity: the repaired parser model writes nothing, so it writes within `runPhaseCells` -/
example : WritesWithin (parserSys true) (· ∈ runPhaseCells) :=
  fun t g l x _ => parserSys_repaired_readonly t g l x (fun h => h)

/-- **parse_with_ids_reentrant** — `parse_reentrant` with a NON-EMPTY write set, for a model that
    really writes: the product of the repaired parser model and the atomic id generator
    (`prodSys (parserSys true) (idSys true)`: every step parses and may draw an instance id). It
    writes exactly the counter cell, which is in the extracted, allowed write list (`hW`, `hA`
    discharged), and the parser part of the state does not look at it (`hC` discharged). So for
    every number of threads and every interleaving the parser part of every thread is what it is
    alone, although the counter — and the ids the thread received — differ from run to run. -/
theorem parse_with_ids_reentrant (s : State String (Brace × Nat) (PLoc × ILoc)) (sched : List Nat) (t : Nat) :
    ((run (prodSys (parserSys true) (idSys true)) s sched).locals t).1
      = ((alone (prodSys (parserSys true) (idSys true)) t (sched.count t) s.shared (s.locals t)).2).1 := by
  have hW : WritesWithin (prodSys (parserSys true) (idSys true)) (· ∈ writesOnParsePath.map (·.name)) := by
    apply prodSys_writesWithin
    · exact fun t g l x _ => parserSys_repaired_readonly t g l x (fun h => h)
    · intro t g l x hx
      apply idSys_writes_counter true t g l x
      intro hxc
      subst hxc
      exact hx (by decide)
  have hC : Confined (prodSys (parserSys true) (idSys true)) (· ∈ allowedCells writesOnParsePath)
      (fun l : PLoc × ILoc => l.1) := by
    apply prodSys_confined_fst
    intro t g g' l hg
    exact parserStep_repaired_local g g' l (hg tableCell (by decide))
  exact (parse_reentrant _ (fun l : PLoc × ILoc => l.1) writesOnParsePath hW writesOnParsePath_allowed hC s sched).2 t

/-- the id generator alone does write within the cells threads may update while running -/
example : WritesWithin (idSys true) (· ∈ runPhaseCells) := by
  intro t g l x hx
  apply idSys_writes_counter true t g l x
  intro hxc
  subst hxc
  exact hx (by decide)

/-- **instance_ids_distinct.** With the counter updated atomically (`atomic.AddUint64`), for every
    number of concurrent parses and every interleaving: the instance ids of the runtime
    components of one parse are pairwise distinct and two parses never share an id. -/
theorem instance_ids_distinct (g : String → Nat) (todo : Nat → Nat) (sched : List Nat) :
    let fin := run (idSys true) ⟨g, fun t => { todo := todo t }⟩ sched
    (∀ t, (fin.locals t).ids.Nodup) ∧
    (∀ t t' a, t ≠ t' → a ∈ (fin.locals t).ids → a ∉ (fin.locals t').ids) := by
  intro fin
  have h := idsInv_run sched ⟨g, fun t => { todo := todo t }⟩
    ⟨by intro t a ha; simp at ha, by intro t; simp, by intro t t' a _ ha; simp at ha⟩
  exact ⟨h.2.1, h.2.2⟩

/-- **nonatomic_ids_collide** (negative witness): with `counter++` on a shared field (read, then
    write) two parses interleave so that both components get instance id 1. -/
theorem nonatomic_ids_collide :
    let fin := run (idSys false) ⟨fun _ => 0, fun _ => { todo := 1 }⟩ [0, 1, 0, 1]
    (fin.locals 0).ids = [1] ∧ (fin.locals 1).ids = [1] := by decide

/-- the obligation rejects the writes of such variants: a counter field of the provider
    incremented in the constructor, a lazily filled cache map in an `Eval` method -/
example : ¬ (∀ w ∈ [ObjWrite.mk "ECALRuntimeProvider" "instanceCounter" "interpreter.newBaseRuntime" "incdec" "run",
                     ObjWrite.mk "stringValueRuntime" "interpolations" "interpreter.stringValueRuntime.interpolationAST" "assign" "run"],
              w ∈ allowedObjectWrites ∨ w.phase = "once") := by decide

/-- an atomic update of a field of a shared object is not allowed because it is atomic (seeded C13d-1) -/
example : ¬ (∀ w ∈ [ObjWrite.mk "ECALRuntimeProvider" "interpolations" "interpreter.stringValueRuntime.Eval" "atomic" "run"],
              w ∈ allowedObjectWrites ∨ w.phase = "once") := by decide

/-! ### Negative witnesses: the code before the repair (`parserSys false`) -/

/-- two parses: thread 0 parses `if a { … }`, thread 1 parses the map literal `{1:2}` -/
def twoParses : State String Brace PLoc :=
  ⟨fun _ => Brace.mapLit,
   fun t => if t = 0 then { prog := [.guardBegin, .other, .brace, .guardEnd] } else { prog := [.brace] }⟩

/-- **table_rewrite_interferes.** With the write set of the unrepaired code
    (`astNodeMap[TokenLBRACE]` saved / overwritten / restored by ndGuard, ndLoop) the
    map-literal parse reads its `{` as a map literal alone and under one schedule, and
    as a statement block under another schedule: its result depends on the schedule. -/
theorem table_rewrite_interferes :
    (alone (parserSys false) 1 1 twoParses.shared (twoParses.locals 1)).2.out = [Brace.mapLit] ∧
    ((run (parserSys false) twoParses [1, 0, 0, 0, 0]).locals 1).out = [Brace.mapLit] ∧
    ((run (parserSys false) twoParses [0, 1, 0, 0, 0]).locals 1).out = [Brace.block] := by
  decide

/-- A parse that is abandoned inside a guard (a recovered parser panic) never restores
    the entry: even a strictly sequential later parse of `{1:2}` reads a block. -/
theorem table_rewrite_poisons :
    ((run (parserSys false)
        ⟨fun _ => Brace.mapLit, fun t => if t = 0 then { prog := [.guardBegin] } else { prog := [.brace] }⟩
        [0, 1]).locals 1).out = [Brace.block] := by
  decide

/-- the unrepaired system does write the table cell, and that write is not allowed:
    the side obligation fails for the write set extracted from the unrepaired source -/
theorem unrepaired_writes_table : ¬ WritesWithin (parserSys false) (fun _ => False) := by
  intro h
  have := h 0 (fun _ => Brace.mapLit) { prog := [.guardBegin] } tableCell (fun h => h)
  revert this
  decide

example : ¬ (∀ w ∈ [Write.mk "parser.astNodeMap" "parser.ndGuard" "assign" "parser.ndGuard",
                     Write.mk "interpreter.instanceCounter" "interpreter.newBaseRuntime" "incdec" "interpreter.newBaseRuntime"],
              allowedWrite w = true) := by decide

end Ecal.Props.C13
