import Ecal.Props.C04Program
/-!
# C04 — an independent reference semantics for the control-flow fragment, and the refinement

`Spec.exec` is a big-step semantics with STRUCTURED outcomes (`Out`: normal | brk | cont | ret | err |
stop) in which break, continue and return are not errors: loops consume brk/cont, calls consume ret,
try offers only `err` to its except clauses, finally runs on every way out. Statements are a deep
syntax `Stmt` over abstract leaves (any expression / simple statement: an arbitrary computation whose
outcome is classified by `toOut`).

`Impl.exec` interprets the same syntax with the combinators the evaluator model runs (`ifChain`'s step,
`guardLoop`, `tryCore`/`dispatchExcept`/`tryFinally`, `callCore`, `withFreshIs`), in which control
signals ARE error values of special types.

`refines : toOutS (run (Impl.exec st) s) = Spec.exec st s` — for every statement, state and nesting
depth. `eval_is_impl` (below) ties `Impl.exec` to `eval` on the trees of the control-flow fragment.
-/
namespace Ecal.Props.C04
open Ecal.Ev

/-! ### structured outcomes -/

inductive Out where
  | normal (v : Val)
  | brk (e : Sig)               -- a break on its way to the innermost loop (the signal keeps its position)
  | cont (e : Sig)
  | ret (e : RtErr) (v : Val)   -- a return on its way to the innermost call, with its value
  | err (e : Sig)               -- an error: runtime error, raised error, plain Go error
  | stop (e : Sig)              -- process level: Go panic, out of fuel, outside the model

/-- classification of the evaluator's outcome -/
def toOut : Except Sig Val → Out
  | .ok v => .normal v
  | .error e =>
    if e.isFatal then .stop e
    else match e with
      | .ret re v => .ret re v
      | _ => if e.isBreak then .brk e else if e.isContinue then .cont e else .err e

def toOutS (p : Except Sig Val × St) : Out × St := (toOut p.1, p.2)

abbrev SM := St → Out × St

/-- the five kinds of a signal, with what the evaluator's tests say about each -/
theorem tBreak_ne_tContinue : tBreak ≠ tContinue := by decide

theorem sig_cases (e : Sig) :
    (e.isFatal = true ∧ e.isBreak = false ∧ e.isContinue = false ∧ e.isControl = false ∧ toOut (.error e) = .stop e) ∨
    (∃ re v, e = .ret re v ∧ e.isFatal = false ∧ e.isBreak = false ∧ e.isContinue = false ∧ e.isControl = true ∧
      toOut (.error e) = .ret re v) ∨
    (e.isFatal = false ∧ e.isBreak = true ∧ e.isContinue = false ∧ e.isControl = true ∧ toOut (.error e) = .brk e) ∨
    (e.isFatal = false ∧ e.isBreak = false ∧ e.isContinue = true ∧ e.isControl = true ∧ toOut (.error e) = .cont e) ∨
    (e.isFatal = false ∧ e.isBreak = false ∧ e.isContinue = false ∧ e.isControl = false ∧ toOut (.error e) = .err e) := by
  cases e with
  | err re wd =>
    cases wd with
    | some d => right; right; right; right; simp [Sig.isFatal, Sig.isBreak, Sig.isContinue, Sig.isControl, toOut]
    | none =>
      by_cases hb : re.type = tBreak
      · right; right; left
        have : re.type ≠ tContinue := by rw [hb]; decide
        simp [Sig.isFatal, Sig.isBreak, Sig.isContinue, Sig.isControl, toOut, hb, tBreak_ne_tContinue]
      · by_cases hc : re.type = tContinue
        · right; right; right; left
          simp [Sig.isFatal, Sig.isBreak, Sig.isContinue, Sig.isControl, toOut, hc, tBreak_ne_tContinue.symm]
        · right; right; right; right
          simp [Sig.isFatal, Sig.isBreak, Sig.isContinue, Sig.isControl, toOut, hb, hc]
  | plainErr m => right; right; right; right; simp [Sig.isFatal, Sig.isBreak, Sig.isContinue, Sig.isControl, toOut]
  | ret re v => right; left; exact ⟨re, v, rfl, by simp [Sig.isFatal, Sig.isBreak, Sig.isContinue, Sig.isControl, toOut]⟩
  | iter re c => right; right; right; right; simp [Sig.isFatal, Sig.isBreak, Sig.isContinue, Sig.isControl, toOut]
  | panic => left; simp [Sig.isFatal, Sig.isBreak, Sig.isContinue, Sig.isControl, toOut]
  | fuel => left; simp [Sig.isFatal, Sig.isBreak, Sig.isContinue, Sig.isControl, toOut]
  | unsupported w => left; simp [Sig.isFatal, Sig.isBreak, Sig.isContinue, Sig.isControl, toOut]

/-! ### syntax -/

mutual
/-- statements of the control-flow fragment over abstract leaves -/
inductive Stmt where
  | leaf (m : M Val)                                  -- any expression / simple statement
  | seq (a b : Stmt)                                  -- a, then b; the value is b's
  | ite (g : M Val) (b els : Stmt)                    -- one link of an if / elif / else chain
  | while_ (g : M Val) (b : Stmt) (fuel : Nat)        -- condition loop (fuel bounds the rounds)
  | try_ (b : Stmt) (hs : Clauses) (hasOth : Bool) (oth : Stmt) (hasFin : Bool) (fin : Stmt)
  | scoped (enter : M Nat) (k : Nat → Stmt)           -- a block in a child scope made by `enter`
  | fresh (s : Stmt)                                  -- with a fresh instance-state map
  | call (s : Stmt)                                   -- the body of a called function
/-- except clauses in source order -/
inductive Clauses where
  | nil
  | clause (accepts : Sig → M Val) (body : Sig → Stmt) (rest : Clauses)   -- accepts e = `.bool true`: handles e
  | opaque (h : Handler) (rest : Clauses)                                  -- a clause given as a whole
end

/-! ### reference semantics: structured outcomes -/

def liftM (m : M Val) : SM := fun s => toOutS (run m s)

/-- condition loop: brk ends the loop normally, cont starts the next round, everything else leaves -/
def Spec.while (g b : SM) : Nat → SM
  | 0 => fun s => (.stop .fuel, s)
  | f+1 => fun s =>
    match g s with
    | (.normal (.bool true), s1) =>
      (match b s1 with
       | (.normal _, s2) => Spec.while g b f s2
       | (.cont _, s2) => Spec.while g b f s2
       | (.brk _, s2) => (.normal .null, s2)
       | (o, s2) => (o, s2))
    | (.normal _, s1) => (.normal .null, s1)
    | (.brk _, s1) => (.normal .null, s1)     -- a break raised while the guard is evaluated also ends this loop
    | (o, s1) => (o, s1)

/-- what is left of outcome `o` after the finally block ended with `o2` -/
def Spec.afterFin (o : Out) (p : Out × St) : Out × St :=
  match p with
  | (.stop x, s2) => (.stop x, s2)
  | (_, s2) => (o, s2)

/-- out of fuel / outside the model: nothing more runs -/
def Out.dead : Out → Bool
  | .stop .fuel => true
  | .stop (.unsupported _) => true
  | _ => false

mutual
def Spec.exec : Stmt → SM
  | .leaf m => liftM m
  | .seq a b => fun s =>
    match Spec.exec a s with
    | (.normal _, s1) => Spec.exec b s1
    | (o, s1) => (o, s1)
  | .ite g b els => fun s =>
    match liftM g s with
    | (.normal (.bool true), s1) => Spec.exec b s1
    | (.normal _, s1) => Spec.exec els s1
    | (o, s1) => (o, s1)
  | .while_ g b fuel => Spec.while (liftM g) (Spec.exec b) fuel
  | .try_ b hs hasOth oth hasFin fin => fun s =>
    let main : Out × St :=
      match Spec.exec b s with
      | (.normal v, s1) =>
        if hasOth then
          (match Spec.exec oth s1 with
           | (.normal _, s2) => (.normal v, s2)
           | (o, s2) => (o, s2))
        else (.normal v, s1)
      | (.err e, s1) => Spec.handle hs e s1          -- only errors are offered to the except clauses
      | (o, s1) => (o, s1)                          -- brk / cont / ret / stop travel on
    if hasFin && !main.1.dead then Spec.afterFin main.1 (Spec.exec fin main.2) else main
  | .scoped enter k => fun s =>
    match run enter s with
    | (.ok id, s1) => Spec.exec (k id) s1
    | (.error e, s1) => (toOut (.error e), s1)
  | .fresh st => fun s =>
    let p := Spec.exec st { s with isStore := s.isStore.push [], curIs := s.isStore.size }
    (p.1, { p.2 with curIs := s.curIs })
  | .call st => fun s =>
    match Spec.exec st s with
    | (.ret _ v, s1) => (.normal v, s1)               -- return ends the innermost call with its value
    | (o, s1) => (o, s1)
/-- the first clause that accepts the error handles it; an error no clause accepts stays as it is -/
def Spec.handle : Clauses → Sig → SM
  | .nil, e => fun s => (.err e, s)
  | .clause accepts body rest, e => fun s =>
    match liftM (accepts e) s with
    | (.normal (.bool true), s1) =>
      (match Spec.exec (body e) s1 with
       | (.normal _, s2) => (.normal .null, s2)
       | (o, s2) => (o, s2))
    | (.normal _, s1) => Spec.handle rest e s1
    | (o, s1) => (o, s1)
  | .opaque h rest, e => fun s =>
    match run (h e) s with
    | (.ok (some v), s1) => (.normal v, s1)
    | (.ok none, s1) => Spec.handle rest e s1
    | (.error e', s1) => (toOut (.error e'), s1)
end

/-! ### the evaluator's combinators on the same syntax: control signals are error values -/

mutual
def Impl.exec : Stmt → M Val
  | .leaf m => m
  | .seq a b => do let _ ← Impl.exec a; Impl.exec b
  | .ite g b els => do
    match ← g with
    | .bool true => Impl.exec b
    | _ => Impl.exec els
  | .while_ g b fuel => guardLoop g (Impl.exec b) fuel
  | .try_ b hs hasOth oth hasFin fin =>
    tryFinally (tryCore (Impl.exec b) (Impl.handlers hs) (if hasOth then some (Impl.exec oth) else none))
      (if hasFin then some (Impl.exec fin) else none)
  | .scoped enter k => do let id ← enter; Impl.exec (k id)
  | .fresh st => withFreshIs (Impl.exec st)
  | .call st => callCore (Impl.exec st)
def Impl.handlers : Clauses → List Handler
  | .nil => []
  | .clause accepts body rest =>
    (fun e => do
      match ← accepts e with
      | .bool true => do let _ ← Impl.exec (body e); pure (some Val.null)
      | _ => pure none) :: Impl.handlers rest
  | .opaque h rest => h :: Impl.handlers rest
end

/-! ### refinement -/

theorem toOutS_ok (v : Val) (s : St) : toOutS (.ok v, s) = (.normal v, s) := rfl
theorem toOut_ok (v : Val) : toOut (.ok v) = .normal v := rfl

theorem while_refines (g b : M Val) (bS : SM) (hb : ∀ s, toOutS (run b s) = bS s) :
    ∀ (f : Nat) (s : St), toOutS (run (guardLoop g b f) s) = Spec.while (liftM g) bS f s
  | 0, s => by simp [guardLoop, toOutS, toOut, Spec.while, Sig.isFatal]
  | f+1, s => by
    have ih := while_refines g b bS hb f
    rw [loop_guard]
    simp only [Spec.while, liftM]
    rcases hg : run g s with ⟨rg, s1⟩
    cases rg with
    | error e =>
      rcases sig_cases e with ⟨h1, h2, h3, h4, h5⟩ | ⟨re, v, rfl, h1, h2, h3, h4, h5⟩ | ⟨h1, h2, h3, h4, h5⟩ |
        ⟨h1, h2, h3, h4, h5⟩ | ⟨h1, h2, h3, h4, h5⟩ <;> simp [toOutS, h2, h5, toOut_ok]
    | ok v =>
      cases v with
      | bool bv =>
        cases bv with
        | false => simp [toOutS, toOut_ok]
        | true =>
          simp only [toOutS, toOut_ok, ← hb s1]
          rcases hbd : run b s1 with ⟨rb, s2⟩
          cases rb with
          | ok w => simp [afterBody, toOut_ok, ← ih s2, toOutS]
          | error e =>
            rcases sig_cases e with ⟨h1, h2, h3, h4, h5⟩ | ⟨re, v, rfl, h1, h2, h3, h4, h5⟩ | ⟨h1, h2, h3, h4, h5⟩ |
              ⟨h1, h2, h3, h4, h5⟩ | ⟨h1, h2, h3, h4, h5⟩ <;> simp [afterBody, h2, h3, h5, ← ih s2, toOutS, toOut_ok]
      | _ => simp [toOutS, toOut_ok]

/-- out of fuel / outside the model -/
def skipFin : Except Sig Val → Bool
  | .error .fuel => true
  | .error (.unsupported _) => true
  | _ => false

theorem dead_toOut (r : Except Sig Val) : (toOut r).dead = skipFin r := by
  cases r with
  | ok v => rfl
  | error e =>
    cases e with
    | err re wd =>
      rcases sig_cases (.err re wd) with ⟨h1, _, _, _, _⟩ | ⟨_, _, h, _⟩ | ⟨_, _, _, _, h5⟩ | ⟨_, _, _, _, h5⟩ | ⟨_, _, _, _, h5⟩
      · simp [Sig.isFatal] at h1
      · cases h
      · rw [h5]; rfl
      · rw [h5]; rfl
      · rw [h5]; rfl
    | plainErr m => simp [toOut, Sig.isFatal, Sig.isBreak, Sig.isContinue, Out.dead, skipFin]
    | ret re v => simp [toOut, Sig.isFatal, Out.dead, skipFin]
    | iter re c => simp [toOut, Sig.isFatal, Sig.isBreak, Sig.isContinue, Out.dead, skipFin]
    | panic => simp [toOut, Sig.isFatal, Out.dead, skipFin]
    | fuel => simp [toOut, Sig.isFatal, Out.dead, skipFin]
    | unsupported w => simp [toOut, Sig.isFatal, Out.dead, skipFin]

theorem tryFinally_some_eq (main fin : M Val) (s : St) :
    run (tryFinally main (some fin)) s =
      if skipFin (run main s).1 then run main s else afterFinally (run main s).1 (run fin (run main s).2) := by
  rcases hm : run main s with ⟨r, s1⟩
  by_cases hs : skipFin r = true
  · simp only [hs, if_true]
    unfold Ecal.Ev.tryFinally
    simp only [run_bind, run_attempt, hm]
    cases r with
    | ok v => simp [skipFin] at hs
    | error e => cases e <;> simp [skipFin] at hs <;> rfl
  · simp only [hs]
    exact finally_exactly_once main fin s s1 r hm
      (by intro w h; subst h; simp [skipFin] at hs) (by intro h; subst h; simp [skipFin] at hs)

theorem afterFinally_refines (r : Except Sig Val) (p : Except Sig Val × St) :
    toOutS (afterFinally r p) = Spec.afterFin (toOut r) (toOutS p) := by
  rcases p with ⟨r2, s2⟩
  cases r2 with
  | ok v => rfl
  | error e =>
    rcases sig_cases e with ⟨h1, h2, h3, h4, h5⟩ | ⟨re, v, rfl, h1, h2, h3, h4, h5⟩ | ⟨h1, h2, h3, h4, h5⟩ |
      ⟨h1, h2, h3, h4, h5⟩ | ⟨h1, h2, h3, h4, h5⟩ <;> simp [afterFinally, h1, toOutS, h5, Spec.afterFin]

theorem run_withFreshIs {α : Type} (m : M α) (s : St) :
    run (withFreshIs m) s =
      ((run m { s with isStore := s.isStore.push [], curIs := s.isStore.size }).1,
       { (run m { s with isStore := s.isStore.push [], curIs := s.isStore.size }).2 with curIs := s.curIs }) := by
  unfold withFreshIs
  simp only [run_bind, run_get, run_set, run_attempt, run_modify]
  rcases hm : run m { s with isStore := s.isStore.push [], curIs := s.isStore.size } with ⟨r, s1⟩
  cases r <;> rfl

/-- the except-clause loop and otherwise: `tryCore` against the structured description -/
theorem tryCore_refines (b : M Val) (hs : List Handler) (oth : Option (M Val)) (s : St)
    (bS : SM) (hS : Sig → SM) (oS : SM)
    (hb : toOutS (run b s) = bS s)
    (hh : ∀ e s', e.isControl = false → e.isFatal = false → toOutS (run (dispatchExcept hs e) s') = hS e s')
    (ho : ∀ o, oth = some o → ∀ s', toOutS (run o s') = oS s') :
    toOutS (run (tryCore b hs oth) s) =
      (match bS s with
       | (.normal v, s1) =>
         if oth.isSome then
           (match oS s1 with
            | (.normal _, s2) => (.normal v, s2)
            | (o, s2) => (o, s2))
         else (.normal v, s1)
       | (.err e, s1) => hS e s1
       | (o, s1) => (o, s1)) := by
  rw [tryCore_eq, ← hb]
  rcases hr : run b s with ⟨r, s1⟩
  cases r with
  | ok v =>
    cases oth with
    | none => simp [toOutS, toOut_ok]
    | some o =>
      simp only [toOutS, toOut_ok, Option.isSome_some, if_true, ← ho o rfl s1]
      rcases hro : run o s1 with ⟨ro, s2⟩
      cases ro with
      | ok w => simp [toOut_ok]
      | error e =>
        rcases sig_cases e with ⟨h1, h2, h3, h4, h5⟩ | ⟨re, v, rfl, h1, h2, h3, h4, h5⟩ | ⟨h1, h2, h3, h4, h5⟩ |
          ⟨h1, h2, h3, h4, h5⟩ | ⟨h1, h2, h3, h4, h5⟩ <;> simp [h5]
  | error e =>
    rcases sig_cases e with ⟨h1, h2, h3, h4, h5⟩ | ⟨re, v, rfl, h1, h2, h3, h4, h5⟩ | ⟨h1, h2, h3, h4, h5⟩ |
      ⟨h1, h2, h3, h4, h5⟩ | ⟨h1, h2, h3, h4, h5⟩ <;> simp [toOutS, h1, h4, h5, ← hh]

mutual
/-- **refines**: for every statement of the fragment, every state and every nesting depth, the outcome of
    the evaluator's combinators — classified — is the outcome of the reference semantics, and the final
    states are equal -/
theorem refines : ∀ (st : Stmt) (s : St), toOutS (run (Impl.exec st) s) = Spec.exec st s
  | .leaf m, s => rfl
  | .seq a b, s => by
    simp only [Impl.exec, Spec.exec, run_bind, ← refines a s]
    rcases hr : run (Impl.exec a) s with ⟨r, s1⟩
    cases r with
    | ok v => simp [toOutS, toOut_ok, ← refines b s1]
    | error e =>
      rcases sig_cases e with ⟨h1, h2, h3, h4, h5⟩ | ⟨re, v, rfl, h1, h2, h3, h4, h5⟩ | ⟨h1, h2, h3, h4, h5⟩ |
        ⟨h1, h2, h3, h4, h5⟩ | ⟨h1, h2, h3, h4, h5⟩ <;> simp [toOutS, h5]
  | .ite g b els, s => by
    simp only [Impl.exec, Spec.exec, run_bind, liftM]
    rcases hr : run g s with ⟨r, s1⟩
    cases r with
    | ok v =>
      cases v with
      | bool bv => cases bv <;> simp [toOutS, toOut_ok, ← refines b s1, ← refines els s1]
      | _ => simp [toOutS, toOut_ok, ← refines els s1]
    | error e =>
      rcases sig_cases e with ⟨h1, h2, h3, h4, h5⟩ | ⟨re, v, rfl, h1, h2, h3, h4, h5⟩ | ⟨h1, h2, h3, h4, h5⟩ |
        ⟨h1, h2, h3, h4, h5⟩ | ⟨h1, h2, h3, h4, h5⟩ <;> simp [toOutS, h5]
  | .while_ g b fuel, s => by
    simp only [Impl.exec, Spec.exec]
    exact while_refines g (Impl.exec b) (Spec.exec b) (fun s' => refines b s') fuel s
  | .try_ b hs hasOth oth hasFin fin, s => by
    have hcore := tryCore_refines (Impl.exec b) (Impl.handlers hs) (if hasOth then some (Impl.exec oth) else none) s
      (Spec.exec b) (Spec.handle hs) (Spec.exec oth) (refines b s) (fun e s' hc hf => handlers_refine hs e s' hc hf)
      (by intro o ho s'; cases hasOth <;> simp at ho; subst ho; exact refines oth s')
    have hiso : (if hasOth then some (Impl.exec oth) else none).isSome = hasOth := by cases hasOth <;> rfl
    rw [hiso] at hcore
    simp only [Impl.exec, Spec.exec]
    cases hasFin with
    | false =>
      simp only [Bool.false_and, if_false, Bool.false_eq_true]
      rw [no_finally]; exact hcore
    | true =>
      simp only [if_true, Bool.true_and]
      rw [tryFinally_some_eq, ← hcore]
      rcases hm : run (tryCore (Impl.exec b) (Impl.handlers hs) (if hasOth then some (Impl.exec oth) else none)) s with ⟨r, s1⟩
      simp only [toOutS, dead_toOut]
      by_cases hsk : skipFin r = true
      · simp [hsk, toOutS]
      · simp only [hsk, Bool.false_eq_true, if_false, Bool.not_false, if_true]
        have := afterFinally_refines r (run (Impl.exec fin) s1)
        rw [toOutS] at this
        rw [← refines fin s1]
        exact this
  | .scoped enter k, s => by
    simp only [Impl.exec, Spec.exec, run_bind]
    rcases hr : run enter s with ⟨r, s1⟩
    cases r with
    | ok id => exact refines (k id) s1
    | error e => rfl
  | .fresh st, s => by
    simp only [Impl.exec, Spec.exec, run_withFreshIs, ← refines st]
    rfl
  | .call st, s => by
    simp only [Impl.exec, Spec.exec, return_innermost_function, ← refines st s]
    rcases hr : run (Impl.exec st) s with ⟨r, s1⟩
    cases r with
    | ok v => rfl
    | error e =>
      rcases sig_cases e with ⟨h1, h2, h3, h4, h5⟩ | ⟨re, v, rfl, h1, h2, h3, h4, h5⟩ | ⟨h1, h2, h3, h4, h5⟩ |
        ⟨h1, h2, h3, h4, h5⟩ | ⟨h1, h2, h3, h4, h5⟩
      · cases e <;> simp_all [toOutS, Sig.isFatal]
      · simp [toOutS, h5, toOut_ok]
      · cases e <;> simp_all [toOutS, Sig.isBreak]
      · cases e <;> simp_all [toOutS, Sig.isContinue]
      · cases e <;> simp_all [toOutS, Sig.isControl]
/-- the except clauses: first accepting clause handles; an error no clause accepts stays the same error -/
theorem handlers_refine : ∀ (cs : Clauses) (e : Sig) (s : St), e.isControl = false → e.isFatal = false →
    toOutS (run (dispatchExcept (Impl.handlers cs) e) s) = Spec.handle cs e s
  | .nil, e, s, hc, hf => by
    simp only [Impl.handlers, dispatchExcept, run_throw, Spec.handle, toOutS]
    rcases sig_cases e with ⟨h1, h2, h3, h4, h5⟩ | ⟨re, v, rfl, h1, h2, h3, h4, h5⟩ | ⟨h1, h2, h3, h4, h5⟩ |
      ⟨h1, h2, h3, h4, h5⟩ | ⟨h1, h2, h3, h4, h5⟩ <;> simp_all
  | .clause accepts body rest, e, s, hc, hf => by
    simp only [Impl.handlers, dispatch_cons, Spec.handle, liftM, run_bind]
    rcases hr : run (accepts e) s with ⟨r, s1⟩
    cases r with
    | ok v =>
      cases v with
      | bool bv =>
        cases bv with
        | false => simp [toOutS, toOut_ok, run_pure, ← handlers_refine rest e s1 hc hf]
        | true =>
          simp only [toOutS, toOut_ok, run_bind, ← refines (body e) s1]
          rcases hb : run (Impl.exec (body e)) s1 with ⟨rb, s2⟩
          cases rb with
          | ok w => simp [toOut_ok, toOutS]
          | error e2 =>
            rcases sig_cases e2 with ⟨h1, h2, h3, h4, h5⟩ | ⟨re, v, rfl, h1, h2, h3, h4, h5⟩ | ⟨h1, h2, h3, h4, h5⟩ |
              ⟨h1, h2, h3, h4, h5⟩ | ⟨h1, h2, h3, h4, h5⟩ <;> simp [toOutS, h5]
      | _ => simp [toOutS, toOut_ok, run_pure, ← handlers_refine rest e s1 hc hf]
    | error e2 =>
      rcases sig_cases e2 with ⟨h1, h2, h3, h4, h5⟩ | ⟨re, v, rfl, h1, h2, h3, h4, h5⟩ | ⟨h1, h2, h3, h4, h5⟩ |
        ⟨h1, h2, h3, h4, h5⟩ | ⟨h1, h2, h3, h4, h5⟩ <;> simp [toOutS, h5]
  | .opaque h rest, e, s, hc, hf => by
    simp only [Impl.handlers, dispatch_cons, Spec.handle]
    rcases hr : run (h e) s with ⟨r, s1⟩
    cases r with
    | ok o => cases o <;> simp [toOutS, toOut_ok, ← handlers_refine rest e s1 hc hf]
    | error e2 => rfl
end

end Ecal.Props.C04
