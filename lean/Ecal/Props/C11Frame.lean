import Ecal.Props.C05
import Ecal.Lemmas.C06EvalSites
/-!
# C11 — part of `hW` as a theorem about the REAL evaluator model's scope primitives

`Ecal.Props.C11.isolation` assumes `hW`: nothing an invocation executes writes shared state without
protection. This file proves a fragment of it about `Model/Eval.lean` (the evaluator model that C03–C06
tie to the Go interpreter), at the level of the scope primitives the evaluator calls for variable
writes — the very functions `setValue` (assignment, `identSet`), `setLocalValue` (`let`) — using
agent-C05's lemmas (`assign_nearest_or_local`, `let_local`, `ScopesWF`, `wf_withVar`).

Setting: the scope table of the model (`St.scopes`, parents by index). An invocation evaluates its
body in its own sink scope `snk`, a child of the declaring scope. `Up st t a`: `a` is `t` or an
ancestor of `t`. A scope `t` is *below the sink* when `Up st t snk`.

* `assign_target_below_sink`: an assignment to a plain name, issued from a scope below the sink, whose
  name is not defined in the declaring chain (the proper ancestors of the sink), writes a scope that is
  itself below the sink.
* `assign_frame` / `let_frame`: such an assignment / any `let` issued from a scope below the sink leaves
  every scope that is not below the sink exactly as it was (the declaring scope, the globals, the scopes
  of every other invocation), keeps the table's size, parents and well-formedness.
* `Frame` is reflexive and transitive (`Frame.refl`, `Frame.trans`), so `writes_frame`: every straight-line
  sequence of such writes — the scope effect of a sink body made of `let`, local assignments of
  already computed values — leaves everything outside the invocation's own sub-tree untouched.

Evaluator level (`eval` itself, single statements): `eval_plain_identifier_reads` (a variable read leaves the
state), `eval_let_statement_frame` (the `let v` node), `eval_assign_statement_frame` (`v := w` for plain
identifiers: read, read, `identSet` = `setValue`), `block_scope_keeps_outside` (`newChild`, the block scopes).
Whole bodies: `eval_statements_frame` (the sequencing induction over the `statements` node of `eval`, for any
statements satisfying `StmtOK`), `fragment_body_frame` / `sink_body_leaves_others_alone`: a body of `let v` and
`v := w` statements evaluated by `Ecal.Ev.eval` in the sink scope writes nothing outside the sink's sub-tree —
`hW` for this fragment with no hypothesis about what evaluation writes.
Computed values (round 6): `arithExpr_reads` — `eval` on any arithmetic expression (`+ - * / //`, nested) over
plain variables and number literals leaves the state unchanged whatever the result (`eval` on these nodes is
`numOp`: `Ecal.Lemmas.C06Sites.eval_arith`); `eval_assign_expr_statement_frame` (`v := e` for any reading `e`);
`computed_body_frame` / `computed_body_leaves_others_alone`: bodies of `let v` and `v := e` statements.
Read half (round 6): `arithExpr_value_local` — the result of `eval` on such an expression in scope `sc` is the same
in any two states that agree on `sc` and its ancestors; `computed_body_noninterference` — after invocation A has
evaluated a fragment body in its sink scope, every such expression invocation B evaluates in its own scopes gives
exactly the result it gave before (write half + read half, about `eval`, no hypothesis on reads or writes).
What is NOT here (stated, not proved): `StmtOK` for `if` (needs allocation: `block_scope_keeps_outside` is only
the single step and `Frame` is size-preserving), for x.* calls, interpolating strings, comparisons (round 7 added
the constants `true`/`false`/`null` and raw string literals: `read_body_frame`); the read half for whole
BODIES (B's statements interleaved with A's; allocation renames indices), hence isolation via `isolation_mod`.
-/
namespace Ecal.Props.C11Frame
open Ecal.Ev

/-- `a` is `t` itself or one of its ancestors (parent links of the scope table) -/
inductive Up (st : St) : Nat → Nat → Prop
  | refl (t : Nat) : Up st t t
  | step {t p a : Nat} : (st.scope t).parent = some p → Up st p a → Up st t a

theorem Up.trans {st : St} {a b c : Nat} (h1 : Up st a b) (h2 : Up st b c) : Up st a c := by
  induction h1 with
  | refl => exact h2
  | step hp _ ih => exact Up.step hp (ih h2)

/-- parent links form a path: two scopes reachable upwards from one scope are comparable -/
theorem Up.comparable {st : St} {a b c : Nat} (h1 : Up st a b) (h2 : Up st a c) : Up st b c ∨ Up st c b := by
  induction h1 generalizing c with
  | refl => exact Or.inl h2
  | step hp hpb ih =>
    cases h2 with
    | refl => exact Or.inr (Up.step hp hpb)
    | step hp' hpc =>
      rw [hp] at hp'
      injection hp' with e
      subst e
      exact ih hpc

/-- every element of the (fuelled) chain of `sc` is `sc` or an ancestor of it -/
theorem up_of_mem_chain (st : St) : ∀ (f sc s : Nat), s ∈ st.chain f sc → Up st sc s := by
  intro f
  induction f with
  | zero => intro sc s h; simp [St.chain] at h
  | succ f ih =>
    intro sc s h
    simp only [St.chain, List.mem_cons] at h
    rcases h with e | h
    · subst e; exact Up.refl _
    · cases hp : (st.scope sc).parent with
      | none => simp [hp] at h
      | some p =>
        simp only [hp] at h
        exact Up.step hp (ih p s h)

/-- no scope of the declaring chain (the proper ancestors of the sink scope) defines `v` -/
def NoOuterDef (st : St) (snk : Nat) (v : String) : Prop :=
  ∀ a, Up st snk a → a ≠ snk → st.defines a v = false

/-- **assign_target_below_sink.** The scope an assignment of the plain name `v`, issued from a scope
    `sc` below the sink, writes — the nearest scope on `sc`'s chain that defines `v`, else `sc` itself
    (`Ecal.Props.C05.assign_nearest_or_local`) — is below the sink, provided no scope of the declaring
    chain defines `v`. -/
theorem assign_target_below_sink (st : St) (snk sc : Nat) (v : String)
    (hsc : Up st sc snk) (hno : NoOuterDef st snk v) :
    Up st ((st.nearest sc v).getD sc) snk := by
  cases hn : st.nearest sc v with
  | none => simpa using hsc
  | some s =>
    simp only [Option.getD_some]
    unfold St.nearest at hn
    have hmem := List.mem_of_find?_eq_some hn
    have hdef : st.defines s v = true := by simpa using List.find?_some hn
    have hup : Up st sc s := up_of_mem_chain st _ _ _ hmem
    rcases Up.comparable hup hsc with h | h
    · exact h
    · -- `s` would be the sink or a proper ancestor of it
      by_cases hs : s = snk
      · subst hs; exact Up.refl _
      · rw [hno s h hs] at hdef; cases hdef

/-- the effect of a piece of an invocation on the scope table: nothing outside the sink's sub-tree -/
structure Frame (snk : Nat) (st st' : St) : Prop where
  size_eq : st'.scopes.size = st.scopes.size
  parent_eq : ∀ t, (st'.scope t).parent = (st.scope t).parent
  keep : ∀ t, ¬ Up st t snk → st'.scope t = st.scope t
  wf : ScopesWF st → ScopesWF st'

theorem up_congr {st st' : St} (hp : ∀ t, (st'.scope t).parent = (st.scope t).parent) {t a : Nat} :
    Up st' t a ↔ Up st t a := by
  constructor
  · intro h
    induction h with
    | refl => exact Up.refl _
    | step hq _ ih => exact Up.step (by rw [← hp]; exact hq) ih
  · intro h
    induction h with
    | refl => exact Up.refl _
    | step hq _ ih => exact Up.step (by rw [hp]; exact hq) ih

/-- in a well-formed table (parents have smaller indices) `Up` only goes to smaller-or-equal indices -/
theorem up_le (st : St) (h : ScopesWF st) {t a : Nat} (hu : Up st t a) (ht : t < st.scopes.size) : a ≤ t := by
  induction hu with
  | refl => exact Nat.le_refl _
  | step hp _ ih =>
    have hlt := h.parentBelow _ _ ht hp
    exact Nat.le_trans (ih (Nat.lt_trans hlt ht)) (Nat.le_of_lt hlt)

theorem Frame.refl (snk : Nat) (st : St) : Frame snk st st :=
  ⟨rfl, fun _ => rfl, fun _ _ => rfl, id⟩

theorem Frame.trans {snk : Nat} {a b c : St} (h1 : Frame snk a b) (h2 : Frame snk b c) : Frame snk a c where
  size_eq := h2.size_eq.trans h1.size_eq
  parent_eq t := (h2.parent_eq t).trans (h1.parent_eq t)
  keep t ht := by
    have hb : ¬ Up b t snk := fun h => ht ((up_congr h1.parent_eq).mp h)
    rw [h2.keep t hb, h1.keep t ht]
  wf h := h2.wf (h1.wf h)

theorem withVar_parent (st : St) (s t : Nat) (v : String) (x : Val) :
    ((st.withVar s v x).scope t).parent = (st.scope t).parent := by
  by_cases hts : t = s
  · subst hts
    by_cases hlt : t < st.scopes.size
    · rw [withVar_scope_same st t v x hlt]
    · simp only [St.withVar, St.scope]
      rw [Array.setIfInBounds_eq_of_size_le (Nat.le_of_not_lt hlt)]
  · rw [withVar_scope_other st s t v x hts]

/-- a variable write into a scope below the sink is a `Frame` step -/
theorem withVar_frame (st : St) (snk s : Nat) (v : String) (x : Val) (hs : Up st s snk) :
    Frame snk st (st.withVar s v x) where
  size_eq := (withVar_heap st s v x).2.2
  parent_eq t := withVar_parent st s t v x
  keep t ht := withVar_scope_other st s t v x (fun e => ht (e ▸ hs))
  wf h := wf_withVar st h s v x

/-- **assign_frame.** `setValue` (the assignment of the evaluator: `identSet`, loop variables, `except … as e`)
    of a plain name, issued from a scope below the sink, with the name not defined in the declaring
    chain: every scope that is not below the sink — the declaring scope, the globals, every other
    invocation's scopes — is unchanged; size, parents and well-formedness of the table are kept. -/
theorem assign_frame (snk sc : Nat) (name vb : List Nat) (x : Val) (st st' : St)
    (hn : splitDots name = [vb]) (h : runM (setValue sc name x) st = (.ok (), st'))
    (hsc : Up st sc snk) (hno : NoOuterDef st snk (bytesToString vb)) : Frame snk st st' := by
  rw [Ecal.Props.C05.assign_nearest_or_local sc name vb x st st' hn h]
  exact withVar_frame st snk _ _ x (assign_target_below_sink st snk sc _ hsc hno)

/-- **let_frame.** `setLocalValue` (`let`) issued from a scope below the sink writes that scope only —
    whatever the declaring chain defines: no side condition on the name. -/
theorem let_frame (snk sc : Nat) (name vb : List Nat) (x : Val) (st st' : St)
    (hn : splitDots name = [vb]) (hlt : sc < st.scopes.size)
    (h : runM (setLocalValue sc name x) st = (.ok (), st')) (hsc : Up st sc snk) : Frame snk st st' := by
  rw [(Ecal.Props.C05.let_local sc name vb x st st' hn hlt h).1]
  have f1 := withVar_frame st snk sc (bytesToString vb) Val.null hsc
  have hsc' : Up (st.withVar sc (bytesToString vb) Val.null) sc snk :=
    (up_congr (withVar_parent st sc · (bytesToString vb) Val.null)).mpr hsc
  exact f1.trans (withVar_frame _ snk sc (bytesToString vb) x hsc')

/-- one variable write of a sink body: an assignment (plain name) or a `let`, with the scope it is issued from -/
inductive Write where
  | assign (sc : Nat) (name : List Nat) (x : Val)
  | letv (sc : Nat) (name : List Nat) (x : Val)

/-- the evaluator's primitive for the write -/
def Write.run : Write → M Unit
  | .assign sc name x => setValue sc name x
  | .letv sc name x => setLocalValue sc name x

/-- side conditions of the fragment, checked in the state the write is issued in -/
def Write.ok (snk : Nat) (st : St) : Write → Prop
  | .assign sc name _ => ∃ vb, splitDots name = [vb] ∧ Up st sc snk ∧ NoOuterDef st snk (bytesToString vb)
  | .letv sc name _ => ∃ vb, splitDots name = [vb] ∧ Up st sc snk ∧ sc < st.scopes.size

theorem write_frame (snk : Nat) (w : Write) (st st' : St) (hok : w.ok snk st)
    (h : runM w.run st = (.ok (), st')) : Frame snk st st' := by
  cases w with
  | assign sc name x =>
    obtain ⟨vb, hn, hsc, hno⟩ := hok
    exact assign_frame snk sc name vb x st st' hn h hsc hno
  | letv sc name x =>
    obtain ⟨vb, hn, hsc, hlt⟩ := hok
    exact let_frame snk sc name vb x st st' hn hlt h hsc

/-- run a straight-line sequence of writes; `none` when one of them signals an error -/
def runWrites : List Write → St → Option St
  | [], st => some st
  | w :: ws, st =>
    match runM w.run st with
    | (.ok (), st') => runWrites ws st'
    | _ => none

/-- every write of the sequence meets its side condition in the state it is issued in -/
def WritesOk (snk : Nat) : List Write → St → Prop
  | [], _ => True
  | w :: ws, st => w.ok snk st ∧ ∀ st', runM w.run st = (.ok (), st') → WritesOk snk ws st'

/-- **writes_frame** (this is `hW` for the fragment, about the evaluator model's own primitives). Any
    straight-line sequence of variable writes of a sink body — `let`s and assignments of plain names that
    the declaring chain does not define, each issued from the sink scope or a scope below it — run with
    the real `setValue` / `setLocalValue` of `Model/Eval.lean`, leaves every scope outside the sink's
    sub-tree exactly as it was: the declaring scope, the global scope and the scopes of every other
    invocation are not written. -/
theorem writes_frame (snk : Nat) : ∀ (ws : List Write) (st st' : St), WritesOk snk ws st →
    runWrites ws st = some st' → Frame snk st st' := by
  intro ws
  induction ws with
  | nil =>
    intro st st' _ h
    simp only [runWrites] at h
    cases h
    exact Frame.refl snk st
  | cons w ws ih =>
    intro st st' hok h
    simp only [runWrites] at h
    cases hr : runM w.run st with
    | mk r s1 =>
      rw [hr] at h
      cases r with
      | error e => simp at h
      | ok u =>
        cases u
        simp only at h
        exact (write_frame snk w st s1 hok.1 hr).trans (ih s1 st' (hok.2 s1 hr) h)

/-- **block_scope_keeps_outside** (`newChild`: the block scopes of `if` / loops / `try`, allocation). A block
    scope created (or found again) under a scope `sc` below the sink: the new scope is a child of `sc`
    — hence below the sink — has a fresh index or was a child already, the table stays well-formed, and
    every EXISTING scope that is not below the sink is exactly as it was. (Standalone: `Frame` above is
    stated for size-preserving steps; composing allocation into `writes_frame` is not done.) -/
theorem block_scope_keeps_outside (snk sc c : Nat) (name : String) (st st' : St) (hwf : ScopesWF st)
    (hlt : sc < st.scopes.size) (h : runM (newChild sc name) st = (.ok c, st')) (hsc : Up st sc snk) :
    ScopesWF st' ∧ (st'.scope c).parent = some sc ∧
    (c = st.scopes.size ∨ c ∈ (st.scope sc).children) ∧
    ∀ t, t < st.scopes.size → ¬ Up st t snk → st'.scope t = st.scope t := by
  obtain ⟨h1, h2, _, _, _, h6⟩ := newChild_spec st st' hwf sc c name hlt h
  refine ⟨h1, h2, ?_, ?_⟩
  · rcases h6 with ⟨_, hm⟩ | ⟨he, _⟩
    · exact Or.inr hm
    · exact Or.inl he
  · intro t ht hnot
    rcases h6 with ⟨he, _⟩ | ⟨_, hk⟩
    · rw [he]
    · exact hk t ht (fun e => hnot (e ▸ hsc))

/-! ### two invocations -/

/-- the sub-trees of two sink scopes neither of which is an ancestor of the other (e.g. two sink scopes
    that are children of the same declaring scope) are disjoint -/
theorem disjoint_subtrees (st : St) (snkA snkB t : Nat) (hB : Up st t snkB)
    (hAB : ¬ Up st snkA snkB) (hBA : ¬ Up st snkB snkA) : ¬ Up st t snkA := by
  intro hA
  rcases Up.comparable hB hA with h | h
  · exact hBA h
  · exact hAB h

/-- **other_invocation_untouched** (the write half of isolation for the fragment, without assuming
    `hW`): while invocation A performs any sequence of fragment writes in its sink scope `snkA` (or
    below), every scope of invocation B — its sink scope `snkB` and everything below it — and the whole
    declaring chain stay exactly as they were, in every intermediate and in the final state. So whatever
    B reads from its own scopes or from the declaring chain is what it reads when A does not run:
    in the sense of `Ecal.Conc.WritesWithin`, A writes only cells of its own region. -/
theorem other_invocation_untouched (snkA snkB : Nat) (ws : List Write) (st st' : St)
    (hwf : ScopesWF st) (hA : snkA < st.scopes.size)
    (hok : WritesOk snkA ws st) (hrun : runWrites ws st = some st')
    (hAB : ¬ Up st snkA snkB) (hBA : ¬ Up st snkB snkA) :
    (∀ t, Up st t snkB → st'.scope t = st.scope t) ∧
    (∀ a, Up st snkA a → a ≠ snkA → st'.scope a = st.scope a) := by
  have hf := writes_frame snkA ws st st' hok hrun
  refine ⟨fun t ht => hf.keep t (disjoint_subtrees st snkA snkB t ht hAB hBA), ?_⟩
  intro a ha hne
  apply hf.keep a
  intro hback
  -- `a` above the sink and the sink above `a`: impossible, indices strictly decrease upwards
  have h1 : a ≤ snkA := up_le st hwf ha hA
  have h2 : snkA ≤ a := up_le st hwf hback (Nat.lt_of_le_of_lt h1 hA)
  exact hne (Nat.le_antisymm h1 h2)

/-! ### evaluator level: the assignment of a plain identifier IS `setValue` -/

/-- **identSet_plain_is_setValue.** `identSet` (identifierRuntime.Set, what `evalAssign` calls for every
    target of `:=`) on an identifier node without children (a plain variable) is exactly the primitive
    `setValue` on the token's text — so `assign_frame` is a statement about this step of `eval`. -/
theorem identSet_plain_is_setValue (f sc : Nat) (n : Ecal.Parse.Node) (t : Ecal.Lex.Tok) (v : Val) (st : St)
    (ht : n.tok = some t) (hc : n.children.isEmpty = true) :
    runM (identSet (f + 1) sc n v) st = runM (setValue sc t.val v) st := by
  unfold identSet
  rw [runM_bind, Ecal.Ev.runM_tokOf, ht]
  simp only [hc, if_true]

/-- **assign_statement_frame**: the evaluator's assignment step for a plain identifier, issued from a scope
    below the sink with a name the declaring chain does not define, is a `Frame` step. -/
theorem assign_statement_frame (snk f sc : Nat) (n : Ecal.Parse.Node) (t : Ecal.Lex.Tok) (vb : List Nat) (v : Val)
    (st st' : St) (ht : n.tok = some t) (hc : n.children.isEmpty = true) (hn : splitDots t.val = [vb])
    (h : runM (identSet (f + 1) sc n v) st = (.ok (), st'))
    (hsc : Up st sc snk) (hno : NoOuterDef st snk (bytesToString vb)) : Frame snk st st' := by
  rw [identSet_plain_is_setValue f sc n t v st ht hc] at h
  exact assign_frame snk sc t.val vb v st st' hn h hsc hno

/-! ### evaluator level: reads, the `let` statement and the assignment statement of `eval` -/

/-- `scopeFor` only reads -/
theorem scopeFor_state : ∀ (f sc : Nat) (v : String) (st st' : St) (r : Except Sig (Option Nat)),
    runM (scopeFor f sc v) st = (r, st') → st' = st := by
  intro f
  induction f with
  | zero => intro sc v st st' r h; rw [scopeFor_zero] at h; injection h with _ h2; exact h2.symm
  | succ f ih =>
    intro sc v st st' r h
    rw [scopeFor_succ] at h
    split at h
    · injection h with _ h2; exact h2.symm
    · split at h
      · exact ih _ _ _ _ _ h
      · injection h with _ h2; exact h2.symm

/-- reading a plain variable does not change the state, whatever it returns -/
theorem getValue_plain_state (sc : Nat) (name vb : List Nat) (st st' : St) (r : Except Sig (Val × Bool))
    (hn : splitDots name = [vb]) (h : runM (getValue sc name) st = (r, st')) : st' = st := by
  unfold getValue at h
  simp only [hn] at h
  rw [runM_bind] at h
  unfold lookupVar at h
  rw [runM_bind] at h
  cases hs : runM (scopeFor 10000 sc (bytesToString vb)) st with
  | mk r1 s1 =>
    have e1 := scopeFor_state _ _ _ _ _ _ hs
    subst e1
    rw [hs] at h
    cases r1 with
    | error e => simp only at h; injection h with _ h2; exact h2.symm
    | ok o =>
      cases o with
      | none => simp only [runM_pure] at h; injection h with _ h2; exact h2.symm
      | some s =>
        simp only at h
        rw [runM_bind, getScope_run] at h
        simp only [runM_pure] at h
        injection h with _ h2; exact h2.symm

/-- **eval_plain_identifier_reads.** Evaluating a plain identifier (no children, undotted name) — a variable
    read — leaves the state as it is, whatever the result. -/
theorem eval_plain_identifier_reads (f sc : Nat) (n : Ecal.Parse.Node) (t : Ecal.Lex.Tok) (vb : List Nat)
    (st st' : St) (r : Except Sig Val)
    (hname : n.name = "identifier") (ht : n.tok = some t) (hc : n.children.isEmpty = true)
    (hn : splitDots t.val = [vb]) (h : runM (eval (f + 2) sc n) st = (r, st')) : st' = st := by
  unfold eval at h
  simp only [hname] at h
  unfold evalIdent at h
  rw [runM_bind, Ecal.Ev.runM_tokOf, ht] at h
  simp only [hc, if_true] at h
  rw [runM_bind] at h
  cases hg : runM (getValue sc t.val) st with
  | mk r1 s1 =>
    have e1 := getValue_plain_state sc t.val vb st s1 r1 hn hg
    subst e1
    rw [hg] at h
    cases r1 with
    | error e => simp only at h; injection h with _ h2; exact h2.symm
    | ok p => simp only [runM_pure] at h; injection h with _ h2; exact h2.symm

/-- **eval_let_statement_frame.** The `let` node of the evaluator for a plain identifier — `eval` itself:
    `setLocalValue sc v null` followed by the evaluation of the identifier — evaluated in a scope `sc`
    below the sink, successfully: every scope not below the sink is unchanged (`Frame`), whatever the
    declaring chain defines. -/
theorem eval_let_statement_frame (snk f sc : Nat) (n lv : Ecal.Parse.Node) (t : Ecal.Lex.Tok) (vb : List Nat)
    (st st' : St) (x : Val)
    (hname : n.name = "let") (hchild : n.children[0]? = some (some lv)) (hlv : lv.name = "identifier")
    (hc : lv.children.isEmpty = true) (ht : lv.tok = some t) (hn : splitDots t.val = [vb])
    (hlt : sc < st.scopes.size) (hsc : Up st sc snk)
    (h : runM (eval (f + 3) sc n) st = (.ok x, st')) : Frame snk st st' := by
  unfold eval at h
  simp only [hname] at h
  rw [runM_bind, Ecal.Ev.runM_child, hchild] at h
  simp only [hlv, hc, beq_self_eq_true, if_true] at h
  rw [runM_bind, Ecal.Ev.runM_tokOf, ht] at h
  simp only at h
  rw [runM_bind] at h
  cases hs : runM (setLocalValue sc t.val Val.null) st with
  | mk r1 s1 =>
    rw [hs] at h
    cases r1 with
    | error e => simp at h
    | ok u =>
      cases u
      simp only at h
      have hf := let_frame snk sc t.val vb Val.null st s1 hn hlt hs hsc
      have e2 := eval_plain_identifier_reads f sc lv t vb s1 st' (.ok x) hlv ht hc hn h
      rw [e2]
      exact hf

/-- **eval_assign_statement_frame.** The assignment statement `v := w` of the evaluator — `eval` on a `:=`
    node whose left side is a plain identifier `v` and whose right side is a plain identifier `w` (a
    local assignment of a variable's value, e.g. `loc := id`) — evaluated successfully in a scope `sc`
    below the sink, with `v` not defined in the declaring chain: every scope not below the sink is
    unchanged (`Frame`). The steps of `evalAssign`: evaluate the left identifier (a read), evaluate the
    right identifier (a read), `identSet` = `setValue` (`assign_frame`). -/
theorem eval_assign_statement_frame (snk f sc : Nat) (n lhs rhs : Ecal.Parse.Node) (tl tr : Ecal.Lex.Tok)
    (vl vr : List Nat) (st st' : St) (x : Val)
    (hname : n.name = ":=") (h0 : n.children[0]? = some (some lhs)) (h1 : n.children[1]? = some (some rhs))
    (hl : lhs.name = "identifier") (hlc : lhs.children.isEmpty = true) (hlt : lhs.tok = some tl)
    (hln : splitDots tl.val = [vl])
    (hr : rhs.name = "identifier") (hrc : rhs.children.isEmpty = true) (hrt : rhs.tok = some tr)
    (hrn : splitDots tr.val = [vr])
    (hsc : Up st sc snk) (hno : NoOuterDef st snk (bytesToString vl))
    (h : runM (eval (f + 4) sc n) st = (.ok x, st')) : Frame snk st st' := by
  unfold eval at h
  simp only [hname] at h
  unfold evalAssign at h
  rw [runM_bind, Ecal.Ev.runM_child, h0] at h
  have hnl : (lhs.name == "let") = false := by rw [hl]; decide
  have hid : (lhs.name == "identifier") = true := by rw [hl]; decide
  simp only [hnl, Bool.false_eq_true, if_false, runM_bind, runM_pure, hid, if_true] at h
  -- evaluate the left identifier: a read
  cases he : runM (eval (f + 2) sc lhs) st with
  | mk r1 s1 =>
    have e1 := eval_plain_identifier_reads f sc lhs tl vl st s1 r1 hl hlt hlc hln he
    subst e1
    rw [he] at h
    cases r1 with
    | error e => simp at h
    | ok v0 =>
      simp only at h
      rw [Ecal.Ev.runM_child, h1] at h
      simp only at h
      cases hv : runM (eval (f + 2) sc rhs) s1 with
      | mk r2 s2 =>
        have e2 := eval_plain_identifier_reads f sc rhs tr vr s1 s2 r2 hr hrt hrc hrn hv
        subst e2
        rw [hv] at h
        cases r2 with
        | error e => simp at h
        | ok v =>
          simp only [List.length_cons, List.length_nil, beq_self_eq_true, if_true] at h
          cases hi : runM (identSet (f + 2) sc lhs v) s2 with
          | mk r3 s3 =>
            rw [runM_bind, hi] at h
            cases r3 with
            | error e => simp at h
            | ok u =>
              cases u
              simp only [runM_pure] at h
              injection h with _ hst
              subst hst
              exact assign_statement_frame snk (f + 1) sc lhs tl vl v s2 s3 hlt hlc hln hi hsc hno

/-! ### non-vacuity: a declaring scope that defines `g`, a sink scope below it -/

/-- scope 0 = the declaring (global) scope with `g = 1`, scope 1 = the sink scope of an invocation -/
def demo : St :=
  { scopes := #[⟨"global", none, [1], [("g", .num 1)]⟩, ⟨"sink: s1", some 0, [], [("event", .num 7)]⟩] }

theorem demo_noOuter_y : NoOuterDef demo 1 "y" := by
  intro a hup hne
  cases hup with
  | refl => exact absurd rfl hne
  | step hp h2 =>
    have hp0 : (demo.scope 1).parent = some 0 := rfl
    rw [hp0] at hp
    injection hp with e
    subst e
    cases h2 with
    | refl => rfl
    | step hq _ =>
      have : (demo.scope 0).parent = none := rfl
      rw [this] at hq
      cases hq

/-- `y := 5` in the sink scope (name `y` = byte 121): the hypotheses of `assign_frame` hold and the
    declaring scope is untouched; the same for `let g := 5` although the declaring scope DEFINES `g` -/
example : ∃ st', runM (setValue 1 [121] (.num 5)) demo = (.ok (), st') ∧ Frame 1 demo st' ∧
    st'.scope 0 = demo.scope 0 := by
  refine ⟨_, rfl, ?_⟩
  have hf := assign_frame 1 1 [121] [121] (.num 5) demo _ (by decide) rfl (Up.refl 1) demo_noOuter_y
  refine ⟨hf, hf.keep 0 ?_⟩
  intro h
  cases h with
  | step hq _ =>
    have : (demo.scope 0).parent = none := rfl
    rw [this] at hq
    cases hq

example : ∃ st', runM (setLocalValue 1 [103] (.num 5)) demo = (.ok (), st') ∧ Frame 1 demo st' := by
  refine ⟨_, rfl, ?_⟩
  exact let_frame 1 1 [103] [103] (.num 5) demo _ (by decide) (by decide) rfl (Up.refl 1)

/-- the side condition matters: assigning `g` from the sink scope writes the DECLARING scope (language
    semantics — the variable is shared on purpose), so it is outside the fragment -/
example : ∃ st', runM (setValue 1 [103] (.num 5)) demo = (.ok (), st') ∧
    st' = demo.withVar 0 "g" (.num 5) ∧ st'.valueIn 0 "g" = .num 5 := by
  refine ⟨_, rfl, ?_⟩
  have e := Ecal.Props.C05.assign_nearest_or_local 1 [103] [103] (.num 5) demo _ (by decide) rfl
  have hn : demo.nearest 1 (bytesToString [103]) = some 0 := by decide
  rw [hn] at e
  refine ⟨e, ?_⟩
  rw [e]
  exact withVar_valueIn demo 0 _ _ (by decide)

/-- two invocations: scope 0 = declaring scope, 1 = sink scope of A, 2 = sink scope of B -/
def demo2 : St :=
  { scopes := #[⟨"global", none, [1, 2], [("g", .num 1)]⟩, ⟨"sink: s1", some 0, [], [("event", .num 7)]⟩,
                ⟨"sink: s1", some 0, [], [("event", .num 8)]⟩] }

theorem demo2_wf : ScopesWF demo2 := by
  constructor
  · intro i p hi hp
    have : i = 0 ∨ i = 1 ∨ i = 2 := by
      have : i < 3 := hi
      omega
    rcases this with rfl | rfl | rfl
    · cases hp
    · have : (demo2.scope 1).parent = some 0 := rfl
      rw [this] at hp; injection hp with e; omega
    · have : (demo2.scope 2).parent = some 0 := rfl
      rw [this] at hp; injection hp with e; omega
  · intro p c hp hc
    have : p = 0 ∨ p = 1 ∨ p = 2 := by
      have : p < 3 := hp
      omega
    rcases this with rfl | rfl | rfl
    · have : c = 1 ∨ c = 2 := by simpa [demo2, St.scope] using hc
      rcases this with rfl | rfl <;> exact ⟨by decide, rfl⟩
    · simp [demo2, St.scope] at hc
    · simp [demo2, St.scope] at hc

theorem demo2_not_up (a b : Nat) (ha : a = 1 ∧ b = 2 ∨ a = 2 ∧ b = 1) : ¬ Up demo2 a b := by
  intro h
  have hle := up_le demo2 demo2_wf h (by rcases ha with ⟨rfl, _⟩ | ⟨rfl, _⟩ <;> decide)
  rcases ha with ⟨rfl, rfl⟩ | ⟨rfl, rfl⟩
  · omega
  · -- 2 → parent 0 → no parent: 1 is not reached
    cases h with
    | step hp h2 =>
      have : (demo2.scope 2).parent = some 0 := rfl
      rw [this] at hp; injection hp with e; subst e
      cases h2 with
      | step hq _ =>
        have : (demo2.scope 0).parent = none := rfl
        rw [this] at hq; cases hq

/-- non-vacuity of `other_invocation_untouched`: A executes `let x := 1` in its sink scope; B's sink scope
    (with B's `event`) and the declaring scope are untouched -/
example : ∃ st', runWrites [Write.letv 1 [120] (.num 1)] demo2 = some st' ∧
    st'.scope 2 = demo2.scope 2 ∧ st'.scope 0 = demo2.scope 0 := by
  refine ⟨_, rfl, ?_⟩
  have h := other_invocation_untouched 1 2 [Write.letv 1 [120] (.num 1)] demo2 _ demo2_wf (by decide)
    ⟨⟨[120], by decide, Up.refl 1, by decide⟩, fun _ _ => trivial⟩ rfl
    (demo2_not_up 1 2 (Or.inl ⟨rfl, rfl⟩)) (demo2_not_up 2 1 (Or.inr ⟨rfl, rfl⟩))
  exact ⟨h.1 2 (Up.refl 2), h.2 0 (Up.step (show (demo2.scope 1).parent = some 0 from rfl) (Up.refl 0)) (by decide)⟩

/-! ### whole bodies: sequencing in the `statements` node of `eval` -/

/-- what a statement of the fragment needs to know about the state it is evaluated in -/
structure Ctx (snk sc : Nat) (names : List String) (s : St) : Prop where
  wf : ScopesWF s
  snk_lt : snk < s.scopes.size
  sc_lt : sc < s.scopes.size
  below : Up s sc snk
  fresh : ∀ v ∈ names, NoOuterDef s snk v

/-- a `Frame` step keeps the context: the declaring chain is not below the sink, so it is unchanged -/
theorem Ctx.step {snk sc : Nat} {names : List String} {s s' : St} (c : Ctx snk sc names s) (h : Frame snk s s') :
    Ctx snk sc names s' where
  wf := h.wf c.wf
  snk_lt := by rw [h.size_eq]; exact c.snk_lt
  sc_lt := by rw [h.size_eq]; exact c.sc_lt
  below := (up_congr h.parent_eq).mpr c.below
  fresh v hv a ha hne := by
    have ha0 : Up s snk a := (up_congr h.parent_eq).mp ha
    have hnot : ¬ Up s a snk := by
      intro hback
      have h1 : a ≤ snk := up_le s c.wf ha0 c.snk_lt
      have h2 : snk ≤ a := up_le s c.wf hback (Nat.lt_of_le_of_lt h1 c.snk_lt)
      exact hne (Nat.le_antisymm h1 h2)
    have := c.fresh v hv a ha0 hne
    simpa [St.defines, h.keep a hnot] using this

/-- a statement node is in the fragment (for evaluation with fuel `f` in scope `sc`): whenever it evaluates
    successfully in a context, its effect is a `Frame` step -/
def StmtOK (snk f sc : Nat) (names : List String) (c : Ecal.Parse.Node) : Prop :=
  ∀ s s' x, Ctx snk sc names s → runM (eval f sc c) s = (.ok x, s') → Frame snk s s'

theorem forIn_frame (snk f sc : Nat) (names : List String)
    (F : Option Ecal.Parse.Node → Val → M (ForInStep Val))
    (hF : ∀ c' r0 s, runM (F (some c') r0) s =
      match runM (eval f sc c') s with
      | (.ok res, s1) => (.ok (ForInStep.yield res), s1)
      | (.error e, s1) => (.error e, s1)) :
    ∀ (l : List (Option Ecal.Parse.Node)) (init : Val) (s s' : St) (r : Val),
    (∀ c ∈ l, ∃ c', c = some c' ∧ StmtOK snk f sc names c') → Ctx snk sc names s →
    runM (forIn l init F) s = (.ok r, s') → Frame snk s s' := by
  intro l
  induction l with
  | nil =>
    intro init s s' r _ _ h
    simp only [List.forIn_nil, runM_pure] at h
    injection h with _ h2
    subst h2
    exact Frame.refl snk s
  | cons c l ih =>
    intro init s s' r hall hctx h
    obtain ⟨c', hc, hok⟩ := hall c (List.mem_cons_self ..)
    subst hc
    simp only [List.forIn_cons] at h
    rw [runM_bind, hF] at h
    cases he : runM (eval f sc c') s with
    | mk r1 s1 =>
      rw [he] at h
      cases r1 with
      | error e => simp at h
      | ok v =>
        simp only at h
        have f1 := hok s s1 v hctx he
        exact f1.trans (ih v s1 s' r (fun c hc => hall c (List.mem_cons_of_mem _ hc)) (hctx.step f1) h)

/-- **eval_statements_frame** (the sequencing induction). A `statements` node all of whose children are
    fragment statements (`StmtOK`), evaluated successfully by `eval` in a context: its whole effect is a
    `Frame` step — every scope outside the sink's sub-tree is unchanged. -/
theorem eval_statements_frame (snk f sc : Nat) (names : List String) (n : Ecal.Parse.Node)
    (hname : n.name = "statements")
    (hall : ∀ c ∈ n.children, ∃ c', c = some c' ∧ StmtOK snk f sc names c')
    (st st' : St) (x : Val) (hctx : Ctx snk sc names st)
    (h : runM (eval (f + 1) sc n) st = (.ok x, st')) : Frame snk st st' := by
  unfold eval at h
  simp only [hname] at h
  rw [runM_bind] at h
  split at h
  · rename_i a s1 heq
    simp only [runM_pure] at h
    injection h with _ h2
    subst h2
    refine forIn_frame snk f sc names _ ?_ n.children Val.null st s1 a hall hctx heq
    intro c' r0 s
    rw [runM_bind]
    cases runM (eval f sc c') s with
    | mk r1 s2 => cases r1 <;> rfl
  · simp at h

/-- the `let v` statement node for a plain identifier -/
def IsLet (c : Ecal.Parse.Node) : Prop :=
  ∃ (lv : Ecal.Parse.Node) (t : Ecal.Lex.Tok) (vb : List Nat), c.name = "let" ∧ c.children[0]? = some (some lv) ∧
    lv.name = "identifier" ∧ lv.children.isEmpty = true ∧ lv.tok = some t ∧ splitDots t.val = [vb]

/-- the statement node `v := w` for plain identifiers, `v` one of `names` -/
def IsAssign (names : List String) (c : Ecal.Parse.Node) : Prop :=
  ∃ (lhs rhs : Ecal.Parse.Node) (tl tr : Ecal.Lex.Tok) (vl vr : List Nat),
    c.name = ":=" ∧ c.children[0]? = some (some lhs) ∧ c.children[1]? = some (some rhs) ∧
    lhs.name = "identifier" ∧ lhs.children.isEmpty = true ∧ lhs.tok = some tl ∧ splitDots tl.val = [vl] ∧
    rhs.name = "identifier" ∧ rhs.children.isEmpty = true ∧ rhs.tok = some tr ∧ splitDots tr.val = [vr] ∧
    bytesToString vl ∈ names

theorem stmtOK_let (snk f sc : Nat) (names : List String) (c : Ecal.Parse.Node) (h : IsLet c) :
    StmtOK snk (f + 3) sc names c := by
  obtain ⟨lv, t, vb, h1, h2, h3, h4, h5, h6⟩ := h
  intro s s' x hctx hr
  exact eval_let_statement_frame snk f sc c lv t vb s s' x h1 h2 h3 h4 h5 h6 hctx.sc_lt hctx.below hr

theorem stmtOK_assign (snk f sc : Nat) (names : List String) (c : Ecal.Parse.Node) (h : IsAssign names c) :
    StmtOK snk (f + 4) sc names c := by
  obtain ⟨lhs, rhs, tl, tr, vl, vr, h1, h2, h3, h4, h5, h6, h7, h8, h9, h10, h11, h12⟩ := h
  intro s s' x hctx hr
  exact eval_assign_statement_frame snk f sc c lhs rhs tl tr vl vr s s' x h1 h2 h3 h4 h5 h6 h7 h8 h9 h10 h11
    hctx.below (hctx.fresh _ h12) hr

/-- **fragment_body_frame** — `hW` for the fragment as a theorem about `eval`. A sink body that is a
    `statements` node whose statements are `let v` and `v := w` (plain identifiers; every assigned `v` is
    one of `names`, none of which the declaring chain defines), evaluated by the REAL evaluator model
    `Ecal.Ev.eval` in its sink scope `snk` (or in a scope `sc` below it) of a well-formed scope table,
    successfully: every scope that is not below the sink — the declaring scope, the global scope, the
    scopes of every other invocation — is exactly as before; the table's size and parent links are
    unchanged and it stays well-formed. No hypothesis about what the evaluation writes is assumed. -/
theorem fragment_body_frame (snk f sc : Nat) (names : List String) (n : Ecal.Parse.Node)
    (hname : n.name = "statements")
    (hall : ∀ c ∈ n.children, ∃ c', c = some c' ∧ (IsLet c' ∨ IsAssign names c'))
    (st st' : St) (x : Val) (hctx : Ctx snk sc names st)
    (h : runM (eval (f + 5) sc n) st = (.ok x, st')) : Frame snk st st' := by
  refine eval_statements_frame snk (f + 4) sc names n hname ?_ st st' x hctx h
  intro c hc
  obtain ⟨c', e, hk⟩ := hall c hc
  refine ⟨c', e, ?_⟩
  rcases hk with hk | hk
  · exact stmtOK_let snk (f + 1) sc names c' hk
  · exact stmtOK_assign snk f sc names c' hk

/-- **sink_body_leaves_others_alone**: for such a body evaluated in the sink scope of invocation A, every
    scope of another invocation B (sink scope `snkB`, neither above nor below A's) and every scope of the
    declaring chain is untouched — the write half of isolation, for the fragment, about `eval`. -/
theorem sink_body_leaves_others_alone (snkA snkB f : Nat) (names : List String) (n : Ecal.Parse.Node)
    (hname : n.name = "statements")
    (hall : ∀ c ∈ n.children, ∃ c', c = some c' ∧ (IsLet c' ∨ IsAssign names c'))
    (st st' : St) (x : Val) (hctx : Ctx snkA snkA names st)
    (h : runM (eval (f + 5) snkA n) st = (.ok x, st'))
    (hAB : ¬ Up st snkA snkB) (hBA : ¬ Up st snkB snkA) :
    (∀ t, Up st t snkB → st'.scope t = st.scope t) ∧
    (∀ a, Up st snkA a → a ≠ snkA → st'.scope a = st.scope a) := by
  have hf := fragment_body_frame snkA f snkA names n hname hall st st' x hctx h
  refine ⟨fun t ht => hf.keep t (disjoint_subtrees st snkA snkB t ht hAB hBA), ?_⟩
  intro a ha hne
  apply hf.keep a
  intro hback
  have h1 : a ≤ snkA := up_le st hctx.wf ha hctx.snk_lt
  have h2 : snkA ≤ a := up_le st hctx.wf hback (Nat.lt_of_le_of_lt h1 hctx.snk_lt)
  exact hne (Nat.le_antisymm h1 h2)

/-! non-vacuity on the evaluator: the body `let x` ; `y := event` in A's sink scope of `demo2` -/

def idNode (b : Nat) : Ecal.Parse.Node :=
  .mk "identifier" (some ⟨7, 0, [b], true, false, 0, 1, 1⟩) 0 .none .none [] []

/-- `let x` ; `y := e` with x = byte 120, y = 121 and `e` = 101 … here the right side reads `g` (103) -/
def demoBody : Ecal.Parse.Node :=
  .mk "statements" none 0 .none .none
    [some (.mk "let" none 0 .none .none [some (idNode 120)] []),
     some (.mk ":=" none 0 .none .none [some (idNode 121), some (idNode 103)] [])] []

theorem demo2_ctx : Ctx 1 1 ["y"] demo2 where
  wf := demo2_wf
  snk_lt := by decide
  sc_lt := by decide
  below := Up.refl 1
  fresh v hv a ha hne := by
    have : v = "y" := by simpa using hv
    subst this
    cases ha with
    | refl => exact absurd rfl hne
    | step hp h2 =>
      have : (demo2.scope 1).parent = some 0 := rfl
      rw [this] at hp; injection hp with e; subst e
      cases h2 with
      | refl => rfl
      | step hq _ =>
        have : (demo2.scope 0).parent = none := rfl
        rw [this] at hq; cases hq

/-- non-vacuity of the syntactic hypotheses of `fragment_body_frame` / `sink_body_leaves_others_alone` for
    `demoBody` (the context is `demo2_ctx`). That `eval 6 1 demoBody` succeeds on `demo2` — result `ok`,
    A's sink scope then holds `event, x, y`, scope 0 still only `g`, B's scope only `event` — was checked
    by running the compiled evaluator (`#eval`); the kernel does not reduce `eval` on strings, so that
    run is not a kernel-checked part of this file. -/
example : ∀ c ∈ demoBody.children, ∃ c', c = some c' ∧ (IsLet c' ∨ IsAssign ["y"] c') := by
  intro c hc
  have : c = some (.mk "let" none 0 .none .none [some (idNode 120)] []) ∨
      c = some (.mk ":=" none 0 .none .none [some (idNode 121), some (idNode 103)] []) := by
    simpa [demoBody, Ecal.Parse.Node.children] using hc
  rcases this with rfl | rfl
  · exact ⟨_, rfl, Or.inl ⟨idNode 120, _, [120], rfl, rfl, rfl, rfl, rfl, by decide⟩⟩
  · exact ⟨_, rfl, Or.inr ⟨idNode 121, idNode 103, _, _, [121], [103], rfl, rfl, rfl, rfl, rfl, rfl,
      by decide, rfl, rfl, rfl, by decide, by decide⟩⟩

/-! ### computed values: literals and arithmetic on the right side (round 6) -/

/-- evaluating `e` (any fuel, scope `sc`) only reads: the state is what it was, whatever the result -/
def Reads (sc : Nat) (e : Ecal.Parse.Node) : Prop :=
  ∀ f s r s', runM (eval f sc e) s = (r, s') → s' = s

theorem exists_pure_ite {α : Type} (c : Prop) [Decidable c] (a b : α) :
    ∃ x, (if c then (pure a : M α) else pure b) = pure x := by
  by_cases h : c
  · exact ⟨a, by simp [h]⟩
  · exact ⟨b, by simp [h]⟩

theorem numberOf_pure (t : Ecal.Lex.Tok) : ∃ x, numberOf t = pure x := by
  unfold numberOf
  simp only
  exact exists_pure_ite _ _ _

theorem eval_zero_state (sc : Nat) (e : Ecal.Parse.Node) (s s' : St) (r : Except Sig Val)
    (h : runM (eval 0 sc e) s = (r, s')) : s' = s := by
  unfold eval at h
  injection h with _ h2
  exact h2.symm

theorem reads_number (sc : Nat) (n : Ecal.Parse.Node) (hname : n.name = "number") : Reads sc n := by
  intro f s r s' h
  cases f with
  | zero => exact eval_zero_state sc n s s' r h
  | succ f =>
    unfold eval at h
    simp only [hname] at h
    rw [runM_bind, Ecal.Ev.runM_tokOf] at h
    cases ht : n.tok with
    | none => rw [ht] at h; simp only at h; injection h with _ h2; exact h2.symm
    | some t =>
      rw [ht] at h
      simp only at h
      obtain ⟨x, hx⟩ := numberOf_pure t
      rw [runM_bind, hx, runM_pure] at h
      simp only [runM_pure] at h
      injection h with _ h2; exact h2.symm

theorem reads_plain_identifier (sc : Nat) (n : Ecal.Parse.Node) (t : Ecal.Lex.Tok) (vb : List Nat)
    (hname : n.name = "identifier") (ht : n.tok = some t) (hc : n.children.isEmpty = true)
    (hn : splitDots t.val = [vb]) : Reads sc n := by
  intro f s r s' h
  match f with
  | 0 => exact eval_zero_state sc n s s' r h
  | 1 =>
    unfold eval at h
    simp only [hname] at h
    unfold evalIdent at h
    injection h with _ h2
    exact h2.symm
  | f + 2 => exact eval_plain_identifier_reads f sc n t vb s s' r hname ht hc hn h

/-- `numOp` with operands that only read, only reads -/
theorem numOp_reads (sc : Nat) (n ca cb : Ecal.Parse.Node) (op : Float → Float → Val)
    (hch : n.children = [some ca, some cb]) (ha : Reads sc ca) (hb : Reads sc cb) :
    ∀ f s r s', runM (numOp f sc n op) s = (r, s') → s' = s := by
  intro f s r s' h
  cases f with
  | zero => unfold numOp at h; injection h with _ h2; exact h2.symm
  | succ f =>
    unfold numOp at h
    have hl : (n.children.length != 2) = false := by rw [hch]; rfl
    have h0 : n.children[0]? = some (some ca) := by rw [hch]; rfl
    have h1 : n.children[1]? = some (some cb) := by rw [hch]; rfl
    simp only [hl, Bool.false_eq_true, if_false] at h
    rw [runM_bind, Ecal.Ev.runM_child, h0] at h
    simp only at h
    rw [runM_bind] at h
    cases hea : runM (eval f sc ca) s with
    | mk ra sa =>
      have ea := ha f s ra sa hea
      subst ea
      rw [hea] at h
      cases ra with
      | error e => simp only at h; injection h with _ h2; exact h2.symm
      | ok a =>
        simp only at h
        rw [runM_bind, Ecal.Ev.runM_child, h1] at h
        simp only at h
        rw [runM_bind] at h
        cases heb : runM (eval f sc cb) sa with
        | mk rb sb =>
          have eb := hb f sa rb sb heb
          subst eb
          rw [heb] at h
          cases rb with
          | error e => simp only at h; injection h with _ h2; exact h2.symm
          | ok b =>
            simp only at h
            cases a <;> cases b <;>
              first
              | (simp only [runM_pure] at h; injection h with _ h2; exact h2.symm)
              | (rw [runM_bind, Ecal.Ev.runM_child] at h
                 first
                 | (rw [h0] at h; simp only [runM_throw] at h; injection h with _ h2; exact h2.symm)
                 | (rw [h1] at h; simp only [runM_throw] at h; injection h with _ h2; exact h2.symm))

/-- right sides of the fragment: plain variables, number literals and the two-operand arithmetic
    nodes `+ - * / //` over them (any nesting) -/
inductive ArithExpr : Ecal.Parse.Node → Prop
  | ident (n : Ecal.Parse.Node) (t : Ecal.Lex.Tok) (vb : List Nat) : n.name = "identifier" → n.tok = some t →
      n.children.isEmpty = true → splitDots t.val = [vb] → ArithExpr n
  | number (n : Ecal.Parse.Node) : n.name = "number" → ArithExpr n
  | arith (n ca cb : Ecal.Parse.Node) : n.children = [some ca, some cb] →
      (n.name = "plus" ∨ n.name = "minus" ∨ n.name = "times" ∨ n.name = "div" ∨ n.name = "divint") →
      ArithExpr ca → ArithExpr cb → ArithExpr n

/-- **arithExpr_reads.** Evaluating an arithmetic expression over variables and literals with `eval` — any
    fuel, any scope, any state, whatever the result (value, type error, fuel) — leaves the state exactly
    as it was: expressions of the fragment only read. (`eval` on the arithmetic nodes is `numOp`:
    `Ecal.Lemmas.C06Sites.eval_arith`.) -/
theorem arithExpr_reads (sc : Nat) (e : Ecal.Parse.Node) (h : ArithExpr e) : Reads sc e := by
  induction h with
  | ident n t vb h1 h2 h3 h4 => exact reads_plain_identifier sc n t vb h1 h2 h3 h4
  | number n h1 => exact reads_number sc n h1
  | arith n ca cb hch hname _ _ iha ihb =>
    intro f s r s' h
    cases f with
    | zero => exact eval_zero_state sc n s s' r h
    | succ f =>
      obtain ⟨op, hop⟩ := Ecal.Lemmas.C06Sites.eval_arith f sc n ca cb hch hname
      rw [hop] at h
      exact numOp_reads sc n ca cb op hch iha ihb f s r s' h

/-- **eval_assign_expr_statement_frame.** The assignment statement `v := e` of the evaluator with a plain
    identifier on the left and ANY right side that only reads (`Reads`, e.g. an `ArithExpr`): evaluated
    successfully in a scope below the sink, `v` not defined in the declaring chain — a `Frame` step. -/
theorem eval_assign_expr_statement_frame (snk f sc : Nat) (n lhs rhs : Ecal.Parse.Node) (tl : Ecal.Lex.Tok)
    (vl : List Nat) (st st' : St) (x : Val)
    (hname : n.name = ":=") (h0 : n.children[0]? = some (some lhs)) (h1 : n.children[1]? = some (some rhs))
    (hl : lhs.name = "identifier") (hlc : lhs.children.isEmpty = true) (hlt : lhs.tok = some tl)
    (hln : splitDots tl.val = [vl]) (hrhs : Reads sc rhs)
    (hsc : Up st sc snk) (hno : NoOuterDef st snk (bytesToString vl))
    (h : runM (eval (f + 4) sc n) st = (.ok x, st')) : Frame snk st st' := by
  unfold eval at h
  simp only [hname] at h
  unfold evalAssign at h
  rw [runM_bind, Ecal.Ev.runM_child, h0] at h
  have hnl : (lhs.name == "let") = false := by rw [hl]; decide
  have hid : (lhs.name == "identifier") = true := by rw [hl]; decide
  simp only [hnl, Bool.false_eq_true, if_false, runM_bind, runM_pure, hid, if_true] at h
  cases he : runM (eval (f + 2) sc lhs) st with
  | mk r1 s1 =>
    have e1 := eval_plain_identifier_reads f sc lhs tl vl st s1 r1 hl hlt hlc hln he
    subst e1
    rw [he] at h
    cases r1 with
    | error e => simp at h
    | ok v0 =>
      simp only at h
      rw [Ecal.Ev.runM_child, h1] at h
      simp only at h
      cases hv : runM (eval (f + 2) sc rhs) s1 with
      | mk r2 s2 =>
        have e2 := hrhs (f + 2) s1 r2 s2 hv
        subst e2
        rw [hv] at h
        cases r2 with
        | error e => simp at h
        | ok v =>
          simp only [List.length_cons, List.length_nil, beq_self_eq_true, if_true] at h
          cases hi : runM (identSet (f + 2) sc lhs v) s2 with
          | mk r3 s3 =>
            rw [runM_bind, hi] at h
            cases r3 with
            | error e => simp at h
            | ok u =>
              cases u
              simp only [runM_pure] at h
              injection h with _ hst
              subst hst
              exact assign_statement_frame snk (f + 1) sc lhs tl vl v s2 s3 hlt hlc hln hi hsc hno

/-- the statement node `v := e`: plain identifier `v` (one of `names`), `e` an arithmetic expression -/
def IsAssignExpr (names : List String) (c : Ecal.Parse.Node) : Prop :=
  ∃ (lhs rhs : Ecal.Parse.Node) (tl : Ecal.Lex.Tok) (vl : List Nat),
    c.name = ":=" ∧ c.children[0]? = some (some lhs) ∧ c.children[1]? = some (some rhs) ∧
    lhs.name = "identifier" ∧ lhs.children.isEmpty = true ∧ lhs.tok = some tl ∧ splitDots tl.val = [vl] ∧
    ArithExpr rhs ∧ bytesToString vl ∈ names

theorem stmtOK_assignExpr (snk f sc : Nat) (names : List String) (c : Ecal.Parse.Node) (h : IsAssignExpr names c) :
    StmtOK snk (f + 4) sc names c := by
  obtain ⟨lhs, rhs, tl, vl, h1, h2, h3, h4, h5, h6, h7, h8, h9⟩ := h
  intro s s' x hctx hr
  exact eval_assign_expr_statement_frame snk f sc c lhs rhs tl vl s s' x h1 h2 h3 h4 h5 h6 h7
    (arithExpr_reads sc rhs h8) hctx.below (hctx.fresh _ h9) hr

/-- **computed_body_frame** — `hW` for the wider fragment, about `eval`. A sink body that is a `statements`
    node of `let v` statements and assignments `v := e` of COMPUTED values — `e` any arithmetic expression
    (`+ - * / //`, nested) over variables and number literals; `v` a plain identifier among `names`, none of
    which the declaring chain defines — evaluated successfully by `Ecal.Ev.eval` in the sink scope (or a
    scope below it) of a well-formed scope table: every scope outside the sink's sub-tree is unchanged;
    size, parent links and well-formedness are kept. No hypothesis about what evaluation writes. -/
theorem computed_body_frame (snk f sc : Nat) (names : List String) (n : Ecal.Parse.Node)
    (hname : n.name = "statements")
    (hall : ∀ c ∈ n.children, ∃ c', c = some c' ∧ (IsLet c' ∨ IsAssignExpr names c'))
    (st st' : St) (x : Val) (hctx : Ctx snk sc names st)
    (h : runM (eval (f + 5) sc n) st = (.ok x, st')) : Frame snk st st' := by
  refine eval_statements_frame snk (f + 4) sc names n hname ?_ st st' x hctx h
  intro c hc
  obtain ⟨c', e, hk⟩ := hall c hc
  refine ⟨c', e, ?_⟩
  rcases hk with hk | hk
  · exact stmtOK_let snk (f + 1) sc names c' hk
  · exact stmtOK_assignExpr snk f sc names c' hk

/-- **computed_body_leaves_others_alone**: for such a body in invocation A's sink scope, every scope of another
    invocation B and every scope of the declaring chain is untouched. -/
theorem computed_body_leaves_others_alone (snkA snkB f : Nat) (names : List String) (n : Ecal.Parse.Node)
    (hname : n.name = "statements")
    (hall : ∀ c ∈ n.children, ∃ c', c = some c' ∧ (IsLet c' ∨ IsAssignExpr names c'))
    (st st' : St) (x : Val) (hctx : Ctx snkA snkA names st)
    (h : runM (eval (f + 5) snkA n) st = (.ok x, st'))
    (hAB : ¬ Up st snkA snkB) (hBA : ¬ Up st snkB snkA) :
    (∀ t, Up st t snkB → st'.scope t = st.scope t) ∧
    (∀ a, Up st snkA a → a ≠ snkA → st'.scope a = st.scope a) := by
  have hf := computed_body_frame snkA f snkA names n hname hall st st' x hctx h
  refine ⟨fun t ht => hf.keep t (disjoint_subtrees st snkA snkB t ht hAB hBA), ?_⟩
  intro a ha hne
  apply hf.keep a
  intro hback
  have h1 : a ≤ snkA := up_le st hctx.wf ha hctx.snk_lt
  have h2 : snkA ≤ a := up_le st hctx.wf hback (Nat.lt_of_le_of_lt h1 hctx.snk_lt)
  exact hne (Nat.le_antisymm h1 h2)

/-- non-vacuity of the syntactic side: `y := g + 1 * x` (bytes y=121, g=103, x=120, literal "1") -/
def numNode : Ecal.Parse.Node := .mk "number" (some ⟨6, 0, [49], false, false, 0, 1, 1⟩) 0 .none .none [] []

def demoComputed : Ecal.Parse.Node :=
  .mk ":=" none 0 .none .none
    [some (idNode 121),
     some (.mk "plus" none 0 .none .none
       [some (idNode 103), some (.mk "times" none 0 .none .none [some numNode, some (idNode 120)] [])] [])] []

example : IsAssignExpr ["y"] demoComputed :=
  ⟨idNode 121, _, _, [121], rfl, rfl, rfl, rfl, rfl, rfl, by decide,
    ArithExpr.arith _ (idNode 103) _ rfl (Or.inl rfl)
      (ArithExpr.ident _ _ [103] rfl rfl rfl (by decide))
      (ArithExpr.arith _ numNode (idNode 120) rfl (Or.inr (Or.inr (Or.inl rfl)))
        (ArithExpr.number _ rfl) (ArithExpr.ident _ _ [120] rfl rfl rfl (by decide))),
    by decide⟩
/-! ### the read half for expressions, and non-interference of two invocations (round 6) -/

/-- two states agree on `sc` and all its ancestors -/
def AgreeOn (st st' : St) (sc : Nat) : Prop := ∀ t, Up st sc t → st'.scope t = st.scope t

theorem AgreeOn.parent {st st' : St} {sc p : Nat} (h : AgreeOn st st' sc) (hp : (st.scope sc).parent = some p) :
    AgreeOn st st' p := fun t ht => h t (Up.step hp ht)

theorem scopeFor_local (st st' : St) (v : String) : ∀ (f sc : Nat), AgreeOn st st' sc →
    (runM (scopeFor f sc v) st').1 = (runM (scopeFor f sc v) st).1 ∧
    ∀ s, (runM (scopeFor f sc v) st).1 = .ok (some s) → Up st sc s := by
  intro f
  induction f with
  | zero => intro sc _; simp [scopeFor_zero]
  | succ f ih =>
    intro sc hag
    have hs : st'.scope sc = st.scope sc := hag sc (Up.refl sc)
    have hd : st'.defines sc v = st.defines sc v := by simp [St.defines, hs]
    rw [scopeFor_succ, scopeFor_succ, hd, hs]
    by_cases hdef : st.defines sc v = true
    · simp only [hdef, if_true, true_and]
      intro s h
      injection h with h
      injection h with h
      subst h
      exact Up.refl _
    · simp only [hdef]
      cases hp : (st.scope sc).parent with
      | none => simp
      | some p =>
        simp only
        obtain ⟨h1, h2⟩ := ih p (hag.parent hp)
        exact ⟨h1, fun s h => Up.step hp (h2 s h)⟩

/-- the result of reading the plain variable `v` from scope `sc`, as a function of the state -/
def readVar (st : St) (sc : Nat) (v : String) : Except Sig (Val × Bool) :=
  match (runM (scopeFor 10000 sc v) st).1 with
  | .ok (some s) => .ok (st.valueIn s v, true)
  | .ok none => .ok (Val.null, false)
  | .error e => .error e

theorem getValue_plain_run (sc : Nat) (name vb : List Nat) (st : St) (hn : splitDots name = [vb]) :
    runM (getValue sc name) st = (readVar st sc (bytesToString vb), st) := by
  unfold getValue
  simp only [hn]
  rw [runM_bind]
  unfold lookupVar
  rw [runM_bind]
  unfold readVar
  cases hs : runM (scopeFor 10000 sc (bytesToString vb)) st with
  | mk r1 s1 =>
    have e1 := scopeFor_state _ _ _ _ _ _ hs
    subst e1
    cases r1 with
    | error e => rfl
    | ok o =>
      cases o with
      | none => rfl
      | some s =>
        simp only
        rw [runM_bind, getScope_run]
        rfl

theorem readVar_local (st st' : St) (sc : Nat) (v : String) (h : AgreeOn st st' sc) :
    readVar st' sc v = readVar st sc v := by
  unfold readVar
  obtain ⟨h1, h2⟩ := scopeFor_local st st' v 10000 sc h
  rw [h1]
  cases hr : (runM (scopeFor 10000 sc v) st).1 with
  | error e => rfl
  | ok o =>
    cases o with
    | none => rfl
    | some s =>
      simp only
      have := h s (h2 s hr)
      simp [St.valueIn, this]

/-- the value of `e` in scope `sc` depends only on `sc` and its ancestors: states that agree there give
    the same result (value or error), for every fuel -/
def Local (sc : Nat) (e : Ecal.Parse.Node) : Prop :=
  ∀ f st st', AgreeOn st st' sc → (runM (eval f sc e) st').1 = (runM (eval f sc e) st).1

theorem eval_plain_identifier_run (f sc : Nat) (n : Ecal.Parse.Node) (t : Ecal.Lex.Tok) (vb : List Nat) (st : St)
    (hname : n.name = "identifier") (ht : n.tok = some t) (hc : n.children.isEmpty = true)
    (hn : splitDots t.val = [vb]) :
    runM (eval (f + 2) sc n) st = ((readVar st sc (bytesToString vb)).map (·.1), st) := by
  unfold eval
  simp only [hname]
  unfold evalIdent
  rw [runM_bind, Ecal.Ev.runM_tokOf, ht]
  simp only [hc, if_true]
  rw [runM_bind, getValue_plain_run sc t.val vb st hn]
  cases readVar st sc (bytesToString vb) <;> rfl

theorem local_plain_identifier (sc : Nat) (n : Ecal.Parse.Node) (t : Ecal.Lex.Tok) (vb : List Nat)
    (hname : n.name = "identifier") (ht : n.tok = some t) (hc : n.children.isEmpty = true)
    (hn : splitDots t.val = [vb]) : Local sc n := by
  intro f st st' hag
  match f with
  | 0 => unfold eval; rfl
  | 1 =>
    unfold eval
    simp only [hname]
    unfold evalIdent
    rfl
  | f + 2 =>
    rw [eval_plain_identifier_run f sc n t vb st' hname ht hc hn,
        eval_plain_identifier_run f sc n t vb st hname ht hc hn, readVar_local st st' sc _ hag]

theorem local_number (sc : Nat) (n : Ecal.Parse.Node) (hname : n.name = "number") : Local sc n := by
  intro f st st' _
  cases f with
  | zero => unfold eval; rfl
  | succ f =>
    unfold eval
    simp only [hname]
    rw [runM_bind, runM_bind, Ecal.Ev.runM_tokOf, Ecal.Ev.runM_tokOf]
    cases ht : n.tok with
    | none => rfl
    | some t =>
      simp only
      obtain ⟨x, hx⟩ := numberOf_pure t
      rw [runM_bind, runM_bind, hx]
      rfl

/-- what `numOp` makes of the results of its two operands -/
def combine (op : Float → Float → Val) (ca cb : Ecal.Parse.Node) (ra rb : Except Sig Val) : Except Sig Val :=
  match ra with
  | .error e => .error e
  | .ok a =>
    match rb with
    | .error e => .error e
    | .ok b =>
      match a, b with
      | .num x, .num y => .ok (op x y)
      | .num _, _ => .error (rtErr "Operand is not a number" cb)
      | _, _ => .error (rtErr "Operand is not a number" ca)

theorem numOp_run (sc : Nat) (n ca cb : Ecal.Parse.Node) (op : Float → Float → Val)
    (hch : n.children = [some ca, some cb]) (ha : Reads sc ca) (hb : Reads sc cb) (f : Nat) (s : St) :
    runM (numOp (f + 1) sc n op) s =
      (combine op ca cb (runM (eval f sc ca) s).1 (runM (eval f sc cb) s).1, s) := by
  unfold numOp
  have hl : (n.children.length != 2) = false := by rw [hch]; rfl
  have h0 : n.children[0]? = some (some ca) := by rw [hch]; rfl
  have h1 : n.children[1]? = some (some cb) := by rw [hch]; rfl
  simp only [hl, Bool.false_eq_true, if_false]
  rw [runM_bind, Ecal.Ev.runM_child, h0]
  simp only
  rw [runM_bind]
  cases hea : runM (eval f sc ca) s with
  | mk ra sa =>
    have ea := ha f s ra sa hea
    subst ea
    cases ra with
    | error e => rfl
    | ok a =>
      simp only
      rw [runM_bind, Ecal.Ev.runM_child, h1]
      simp only
      rw [runM_bind]
      cases heb : runM (eval f sc cb) sa with
      | mk rb sb =>
        have eb := hb f sa rb sb heb
        subst eb
        cases rb with
        | error e => rfl
        | ok b =>
          simp only [combine]
          cases a <;> cases b <;>
            first
            | rfl
            | (rw [runM_bind, Ecal.Ev.runM_child]
               first
               | (rw [h0]; rfl)
               | (rw [h1]; rfl))

/-- **arithExpr_value_local** (the READ half, for expressions). The result of evaluating an arithmetic
    expression over variables and literals with `eval` in scope `sc` — value, type error or fuel — is the
    same in any two states that agree on `sc` and its ancestors: it depends on nothing else (no other
    invocation's scope, no heap cell), for every fuel. -/
theorem arithExpr_value_local (sc : Nat) (e : Ecal.Parse.Node) (h : ArithExpr e) : Local sc e := by
  induction h with
  | ident n t vb h1 h2 h3 h4 => exact local_plain_identifier sc n t vb h1 h2 h3 h4
  | number n h1 => exact local_number sc n h1
  | arith n ca cb hch hname hca hcb iha ihb =>
    intro f st st' hag
    cases f with
    | zero => unfold eval; rfl
    | succ f =>
      obtain ⟨op, hop⟩ := Ecal.Lemmas.C06Sites.eval_arith f sc n ca cb hch hname
      rw [hop]
      cases f with
      | zero => unfold numOp; rfl
      | succ f =>
        rw [numOp_run sc n ca cb op hch (arithExpr_reads sc ca hca) (arithExpr_reads sc cb hcb) f st',
            numOp_run sc n ca cb op hch (arithExpr_reads sc ca hca) (arithExpr_reads sc cb hcb) f st]
        simp only
        rw [iha f st st' hag, ihb f st st' hag]

/-- a `Frame` step of invocation A leaves every scope on the chain of a scope of invocation B as it was -/
theorem frame_agree_other (snkA snkB scB : Nat) (st st' : St) (hf : Frame snkA st st')
    (hB : Up st scB snkB) (hAB : ¬ Up st snkA snkB) (hBA : ¬ Up st snkB snkA) : AgreeOn st st' scB := by
  intro t ht
  apply hf.keep t
  intro htA
  rcases Up.comparable ht hB with h | h
  · -- `t` is below B's sink
    exact disjoint_subtrees st snkA snkB t h hAB hBA htA
  · -- `t` is an ancestor of B's sink: then B's sink would be below A's
    exact hBA (h.trans htA)

/-- **computed_body_noninterference** (write half + read half, two invocations, about `eval`). Invocation A
    evaluates a fragment body (`let v`, `v := e` with arithmetic `e`) in its sink scope; invocation B's
    sink scope is neither above nor below A's. Then every arithmetic expression over variables and literals
    that B evaluates in its sink scope or below gives exactly the same result — value or error, for every
    fuel — after A's body as before it: what B reads (its own `event`, its locals, the variables of the
    declaring chain) is not influenced by A. No hypothesis about what evaluation writes or reads. -/
theorem computed_body_noninterference (snkA snkB scB f g : Nat) (names : List String)
    (n e : Ecal.Parse.Node) (hname : n.name = "statements")
    (hall : ∀ c ∈ n.children, ∃ c', c = some c' ∧ (IsLet c' ∨ IsAssignExpr names c'))
    (st st' : St) (x : Val) (hctx : Ctx snkA snkA names st)
    (h : runM (eval (f + 5) snkA n) st = (.ok x, st'))
    (hB : Up st scB snkB) (hAB : ¬ Up st snkA snkB) (hBA : ¬ Up st snkB snkA) (he : ArithExpr e) :
    (runM (eval g scB e) st').1 = (runM (eval g scB e) st).1 :=
  arithExpr_value_local scB e he g st st'
    (frame_agree_other snkA snkB scB st st'
      (computed_body_frame snkA f snkA names n hname hall st st' x hctx h) hB hAB hBA)

/-- non-vacuity of the two-invocation hypotheses on `demo2` (A's sink scope 1, B's sink scope 2): the context
    `demo2_ctx`, the incomparability of the sinks, and B's expression `event + 1` -/
example : Up demo2 2 2 ∧ ¬ Up demo2 1 2 ∧ ¬ Up demo2 2 1 ∧
    ArithExpr (.mk "plus" none 0 .none .none [some (idNode 101), some numNode] []) :=
  ⟨Up.refl 2, demo2_not_up 1 2 (Or.inl ⟨rfl, rfl⟩), demo2_not_up 2 1 (Or.inr ⟨rfl, rfl⟩),
   ArithExpr.arith _ (idNode 101) numNode rfl (Or.inl rfl)
     (ArithExpr.ident _ _ [101] rfl rfl rfl (by decide)) (ArithExpr.number _ rfl)⟩

/-! ### constants and raw strings on the right side (round 7) -/

/-- the constant nodes `true`, `false`, `null` -/
def IsConst (n : Ecal.Parse.Node) : Prop := n.name = "true" ∨ n.name = "false" ∨ n.name = "null"

/-- a string literal without escape processing (`r"…"`): no interpolation, its text is its value -/
def IsRawString (n : Ecal.Parse.Node) : Prop := n.name = "string" ∧ ∃ t, n.tok = some t ∧ t.allowEscapes = false

/-- constants and raw strings evaluate to a value that does not depend on the state, and leave the state -/
theorem literal_run (sc : Nat) (n : Ecal.Parse.Node) (h : IsConst n ∨ IsRawString n) :
    ∃ v, ∀ f s, runM (eval (f + 1) sc n) s = (.ok v, s) := by
  rcases h with (h | h | h) | ⟨h, t, ht, he⟩
  · exact ⟨.bool true, fun f s => by unfold eval; simp only [h]; rfl⟩
  · exact ⟨.bool false, fun f s => by unfold eval; simp only [h]; rfl⟩
  · exact ⟨.null, fun f s => by unfold eval; simp only [h]; rfl⟩
  · refine ⟨.str t.val, fun f s => ?_⟩
    unfold eval
    simp only [h]
    rw [runM_bind, Ecal.Ev.runM_tokOf, ht]
    simp only [he, Bool.false_eq_true, if_false]
    rfl

/-- right sides of the wider fragment: arithmetic over variables and number literals, the constants `true`,
    `false`, `null`, raw string literals -/
def ReadExpr (n : Ecal.Parse.Node) : Prop := ArithExpr n ∨ IsConst n ∨ IsRawString n

/-- every `ReadExpr`, evaluated in any scope with any fuel and any outcome (value or error), leaves the state
    exactly as it was. No hypotheses besides the shape of the node (examples of the shape: below). -/
theorem readExpr_reads (sc : Nat) (e : Ecal.Parse.Node) (h : ReadExpr e) : Reads sc e := by
  rcases h with h | h
  · exact arithExpr_reads sc e h
  · intro f s r s' hr
    cases f with
    | zero => exact eval_zero_state sc e s s' r hr
    | succ f =>
      obtain ⟨v, hv⟩ := literal_run sc e h
      rw [hv f s] at hr
      injection hr with _ h2
      exact h2.symm

/-- the read half for `ReadExpr`: its result (value or error) depends only on the scopes from `sc` upwards —
    two states that agree on that chain (`AgreeOn`, inhabited: `frame_agree_other`) give the same result. -/
theorem readExpr_value_local (sc : Nat) (e : Ecal.Parse.Node) (h : ReadExpr e) : Local sc e := by
  rcases h with h | h
  · exact arithExpr_value_local sc e h
  · intro f st st' _
    cases f with
    | zero => unfold eval; rfl
    | succ f =>
      obtain ⟨v, hv⟩ := literal_run sc e h
      rw [hv f st', hv f st]

/-- the statement node `v := e`: plain identifier `v` (one of `names`), `e` a `ReadExpr` -/
def IsAssignRead (names : List String) (c : Ecal.Parse.Node) : Prop :=
  ∃ (lhs rhs : Ecal.Parse.Node) (tl : Ecal.Lex.Tok) (vl : List Nat),
    c.name = ":=" ∧ c.children[0]? = some (some lhs) ∧ c.children[1]? = some (some rhs) ∧
    lhs.name = "identifier" ∧ lhs.children.isEmpty = true ∧ lhs.tok = some tl ∧ splitDots tl.val = [vl] ∧
    ReadExpr rhs ∧ bytesToString vl ∈ names

/-- a `v := e` statement of the wider fragment satisfies `StmtOK` (hypothesis `IsAssignRead`: two examples
    at the end of this section; `Ctx` inside `StmtOK` is inhabited by `demo2_ctx`). -/
theorem stmtOK_assignRead (snk f sc : Nat) (names : List String) (c : Ecal.Parse.Node) (h : IsAssignRead names c) :
    StmtOK snk (f + 4) sc names c := by
  obtain ⟨lhs, rhs, tl, vl, h1, h2, h3, h4, h5, h6, h7, h8, h9⟩ := h
  intro s s' x hctx hr
  exact eval_assign_expr_statement_frame snk f sc c lhs rhs tl vl s s' x h1 h2 h3 h4 h5 h6 h7
    (readExpr_reads sc rhs h8) hctx.below (hctx.fresh _ h9) hr

/-- **read_body_frame** — `computed_body_frame` for the wider fragment: the right sides of the assignments may
    also be the constants `true` / `false` / `null` and raw string literals. A sink body of `let v` and
    `v := e` statements (`e` a `ReadExpr`, `v` a plain identifier among `names`, none defined in the declaring
    chain), evaluated successfully by `Ecal.Ev.eval` in the sink scope (or below) of a well-formed scope table,
    leaves every scope outside the sink's sub-tree unchanged. No hypothesis about what evaluation writes.
    Non-vacuity: `Ctx` by `demo2_ctx`, the statement shape by the two examples below, a successful run of the
    new right sides by `literal_run` (kernel-checked); a successful run of a whole body only by `#eval`, as for
    `fragment_body_frame`. -/
theorem read_body_frame (snk f sc : Nat) (names : List String) (n : Ecal.Parse.Node)
    (hname : n.name = "statements")
    (hall : ∀ c ∈ n.children, ∃ c', c = some c' ∧ (IsLet c' ∨ IsAssignRead names c'))
    (st st' : St) (x : Val) (hctx : Ctx snk sc names st)
    (h : runM (eval (f + 5) sc n) st = (.ok x, st')) : Frame snk st st' := by
  refine eval_statements_frame snk (f + 4) sc names n hname ?_ st st' x hctx h
  intro c hc
  obtain ⟨c', e, hk⟩ := hall c hc
  refine ⟨c', e, ?_⟩
  rcases hk with hk | hk
  · exact stmtOK_let snk (f + 1) sc names c' hk
  · exact stmtOK_assignRead snk f sc names c' hk

/-- **read_body_noninterference** — `computed_body_noninterference` for the wider fragment on both sides: after
    invocation A evaluated such a body in its sink scope, every `ReadExpr` that invocation B (sink scope neither
    above nor below A's) evaluates in its own scopes gives exactly the result it gave before, for every fuel. -/
theorem read_body_noninterference (snkA snkB scB f g : Nat) (names : List String)
    (n e : Ecal.Parse.Node) (hname : n.name = "statements")
    (hall : ∀ c ∈ n.children, ∃ c', c = some c' ∧ (IsLet c' ∨ IsAssignRead names c'))
    (st st' : St) (x : Val) (hctx : Ctx snkA snkA names st)
    (h : runM (eval (f + 5) snkA n) st = (.ok x, st'))
    (hB : Up st scB snkB) (hAB : ¬ Up st snkA snkB) (hBA : ¬ Up st snkB snkA) (he : ReadExpr e) :
    (runM (eval g scB e) st').1 = (runM (eval g scB e) st).1 :=
  readExpr_value_local scB e he g st st'
    (frame_agree_other snkA snkB scB st st'
      (read_body_frame snkA f snkA names n hname hall st st' x hctx h) hB hAB hBA)

/-- non-vacuity of the syntactic side: `y := null` and `y := r"a"` -/
example : IsAssignRead ["y"] (.mk ":=" none 0 .none .none
    [some (idNode 121), some (.mk "null" none 0 .none .none [] [])] []) :=
  ⟨idNode 121, _, _, [121], rfl, rfl, rfl, rfl, rfl, rfl, by decide, Or.inr (Or.inl (Or.inr (Or.inr rfl))), by decide⟩

example : IsAssignRead ["y"] (.mk ":=" none 0 .none .none
    [some (idNode 121), some (.mk "string" (some ⟨5, 0, [97], false, false, 0, 1, 1⟩) 0 .none .none [] [])] []) :=
  ⟨idNode 121, _, _, [121], rfl, rfl, rfl, rfl, rfl, rfl, by decide,
    Or.inr (Or.inr ⟨rfl, _, rfl, rfl⟩), by decide⟩

/-- `literal_run` is not vacuous: `null` evaluates, in every state and with every positive fuel -/
example : ∃ v, ∀ f s, runM (eval (f + 1) 0 (.mk "null" none 0 .none .none [] [])) s = (.ok v, s) :=
  literal_run 0 _ (Or.inl (Or.inr (Or.inr rfl)))
end Ecal.Props.C11Frame
