import Ecal.Props.C04SpecEval
/-!
# C04 — non-vacuity of the eval-level theorems on trees of the real parser

Each tree below is the payload `harness C04 -tool payload <source-hex>` printed for the source quoted
with it (node name | token id | text | … | line | col | #children, preorder). The hypotheses of the
theorems are discharged for every fuel, scope and state (no kernel evaluation of the big evaluator:
the wiring lemmas are used).
-/
namespace Ecal.Props.C04
open Ecal.Ev
open Ecal.Parse (Node)
open Ecal.Lex (Tok)

theorem eval_true (f sc : Nat) (n : Node) (h : n.name = "true") : eval (f+1) sc n = pure (.bool true) := by
  rw [eval]; simp [h]
theorem eval_null (f sc : Nat) (n : Node) (h : n.name = "null") : eval (f+1) sc n = pure Val.null := by
  rw [eval]; simp [h]
theorem eval_not_nonbool (f sc : Nat) (n c : Node) (h : n.name = "not") (hc : n.children = [some c])
    (hcn : c.name = "null") : eval (f+2) sc n = throw (rtErr "Operand is not a boolean" c) := by
  rw [eval]; simp [h, hc, child, eval_null f sc c hcn]

/-! `if true {⏎}` : `if|63|6966|0|0|1|1|2;guard|-|-|0|0|0|0|1;true|61|74727565|0|0|1|4|0;statements|-|-|0|0|0|0|0` -/
def exTrue : Node := exNode "true" (some (exTok 61 "true" 1 4)) []
def exGuard : Node := exNode "guard" none [some exTrue]
def exIf : Node := exNode "if" (some (exTok 63 "if" 1 1)) [some exGuard, some exStm]

/-- `eval_if_first_true`: all hypotheses hold (pre = [], the first guard is true) -/
example (m sc : Nat) (s : St) : ∃ (bs : Nat) (s0 : St),
    run (eval (0 + (m + 2 + 1) + 1) sc exIf) s = run (eval (m+2) bs exStm) s0 := by
  obtain ⟨bs, s0, hsc⟩ := newChild_ok sc (blockName exIf (exTok 63 "if" 1 1)) s
  refine ⟨bs, s0, ?_⟩
  have hg : run (eval (m+2) bs exGuard) s0 = (.ok (.bool true), s0) := by
    rw [eval_guard (m+1) bs exGuard exTrue rfl rfl, eval_true m bs exTrue rfl]; rfl
  exact eval_if_first_true sc bs (m+2) exIf exGuard exStm [] [] (exTok 63 "if" 1 1) s s0 s0 s0 rfl rfl rfl
    (by simp) hsc (.nil _) hg

/-! `try {⏎break⏎null⏎} finally {⏎}` :
`try|69|747279|0|0|1|1|2;statements|-|-|0|0|0|0|2;break|67|627265616b|0|0|2|1|0;null|62|6e756c6c|0|0|3|1|0;finally|72|66696e616c6c79|0|0|4|3|1;statements|-|-|0|0|0|0|0` -/
def exBreak : Node := exNode "break" (some (exTok 67 "break" 2 1)) []
def exNull : Node := exNode "null" (some (exTok 62 "null" 3 1)) []
def exBody2 : Node := exNode "statements" none [some exBreak, some exNull]
def exFin2 : Node := exNode "finally" (some (exTok 72 "finally" 4 3)) [some exStm]
def exTry2 : Node := exNode "try" (some (exTok 69 "try" 1 1)) [some exBody2, some exFin2]

/-- `program_try_finally_signal`: the break ends the block, `null` after it is not evaluated, finally runs once,
    the statement ends in the break signal -/
example (f sc : Nat) (s : St) : ∃ (fs : Nat) (s3 : St),
    run (eval (f+1+3) sc exTry2) s = afterFinally (.error (rtErr tBreak exBreak)) (run (eval (f+1+1) fs exStm) s3) := by
  obtain ⟨fs, s0, hsf⟩ := newChild_ok sc (blockName exFin2 (exTok 72 "finally" 4 3)) s
  obtain ⟨tvs, s1, hst⟩ := newChild_ok sc (blockName exTry2 (exTok 69 "try" 1 1)) s0
  refine ⟨fs, s1, ?_⟩
  have hsig : run (eval (f+1) tvs exBreak) s1 = (.error (rtErr tBreak exBreak), s1) := by
    rw [eval_break f tvs exBreak rfl]; rfl
  exact program_try_finally_signal (f+1) sc tvs fs exTry2 exBody2 exFin2 exStm exBreak [] [exNull] _ _ s s0 s1 s1 s1 _
    rfl rfl rfl rfl rfl rfl rfl rfl hsf hst (.nil _) hsig (by intro w h; cases h) (by intro h; cases h)

/-! `try {⏎not null⏎} except {⏎}` :
`try|69|747279|0|0|1|1|2;statements|-|-|0|0|0|0|1;not|54|6e6f74|0|0|2|1|1;null|62|6e756c6c|0|0|2|5|0;except|70|657863657074|0|0|3|3|1;statements|-|-|0|0|0|0|0` -/
def exNull3 : Node := exNode "null" (some (exTok 62 "null" 2 5)) []
def exNot : Node := exNode "not" (some (exTok 54 "not" 2 1)) [some exNull3]
def exBody3 : Node := exNode "statements" none [some exNot]
def exExc : Node := exNode "except" (some (exTok 70 "except" 3 3)) [some exStm]
def exTry3 : Node := exNode "try" (some (exTok 69 "try" 1 1)) [some exBody3, some exExc]

/-- `eval_first_matching_except` / `eval_otherwise_only_if_no_error`: a runtime error of the block reaches the
    (bare) except clause, which handles it -/
example (f sc : Nat) (s : St) : ∃ (tvs : Nat) (s0 : St),
    run (tryMain (f+3) sc exTry3 exBody3 ([] ++ exExc :: [])) s =
      match run (exceptHandler (f+3) sc exExc (rtErr "Operand is not a boolean" exNull3)) s0 with
      | (.ok (some v), s3) => (.ok v, s3)
      | (.ok none, s3) => run (dispatchExcept (tryHandlers (f+3) sc []) (rtErr "Operand is not a boolean" exNull3)) s3
      | (.error e', s3) => (.error e', s3) := by
  obtain ⟨tvs, s0, hst⟩ := newChild_ok sc (blockName exTry3 (exTok 69 "try" 1 1)) s
  refine ⟨tvs, s0, ?_⟩
  have hb : run (eval (f+3) tvs exBody3) s0 = (.error (rtErr "Operand is not a boolean" exNull3), s0) := by
    rw [eval_statements (f+2) tvs exBody3 [exNot] rfl rfl]
    simp only [seqEval, eval_not_nonbool f tvs exNot exNull3 rfl rfl rfl, run_bind, run_throw]
  exact eval_first_matching_except (f+3) sc tvs exTry3 exBody3 [] [] exExc _ s s0 s0 s0 _ rfl hst hb
    (by simp [rtErr, exNull3, exNode, Node.tok, Sig.isControl, Sig.isBreak, Sig.isContinue, tBreak, tContinue])
    (by simp [rtErr, exNull3, exNode, Node.tok, Sig.isFatal]) rfl (.nil _)

/-- the trees are well-formed (C07's predicate): the `_wf` theorems apply -/
example : Ecal.Parse.WellFormed exIf = true ∧ Ecal.Parse.WellFormed exTry2 = true ∧ Ecal.Parse.WellFormed exTry3 = true := by
  decide

/-- … and the refinement theorem speaks about them as compound statements, not leaves -/
example (f sc : Nat) : ∃ a b, stmtOf (f+2) sc exBody2 = .seq a b := by
  refine ⟨stmtOf (f+1) sc exBreak, stmtOf (f+1) sc exNull, ?_⟩
  conv => lhs; unfold stmtOf
  simp [exBody2, exNode, Ecal.Parse.Node.name, Ecal.Parse.Node.children, allSome, seqOf]

/-! `try {⏎not null⏎} except "E1", r"Operand is not a boolean" {⏎}` :
`try|69|747279|0|0|1|1|2;statements|-|-|0|0|0|0|1;not|54|6e6f74|0|0|2|1|1;null|62|6e756c6c|0|0|2|5|0;except|70|657863657074|0|0|3|3|3;string|5|4531|1|0|3|10|0;string|5|4f70…|0|0|3|16|0;statements|-|-|0|0|0|0|0` -/
def exS1 : Node := exNode "string" (some { exTok 5 "E1" 3 10 with allowEscapes := true, val := [69, 49] }) []   -- bytes of E1
def exS2 : Node := exNode "string" (some (exTok 5 "Operand is not a boolean" 3 16)) []
def exExc4 : Node := exNode "except" (some (exTok 70 "except" 3 3)) [some exS1, some exS2, some exStm]

/-- `spec_first_listed_clause`: the clause of the real tree has the typed shape, its literals are plain, and it
    handles an error iff its type is "E1" or "Operand is not a boolean" -/
example (g : Nat → Node → Stmt) (f sc : Nat) (rest : Clauses) (e : Sig) (s : St) :
    Spec.handle (clauseOfNode g (f+2) sc exExc4 rest) e s =
      if ([exS1, exS2].map textOf).any (fun b => bytesToString b == errType e) then
        (match Spec.exec (clauseBody g sc exExc4 exStm) s with
         | (.normal _, s2) => (.normal Val.null, s2)
         | (o, s2) => (o, s2))
      else Spec.handle rest e s := by
  have hs : clauseShape exExc4 = .typed exS1 [exS2] exStm := by
    simp [clauseShape, exExc4, exS1, exS2, exStm, exNode, Ecal.Parse.Node.children, Ecal.Parse.Node.name, allSome]
  refine spec_first_listed_clause g f sc exExc4 exS1 exStm [exS2] rest e s hs ?_
  intro x hx
  rcases List.mem_cons.1 hx with rfl | hx
  · exact PlainStr.of_plain rfl rfl (by decide)
  · rcases List.mem_cons.1 hx with rfl | hx
    · exact PlainStr.of_raw rfl rfl rfl
    · cases hx

/-! `try {⏎not null⏎} except r"E1" as e {⏎} except e {⏎}` — the two clauses:
`except|70|…|3|3|3;string|5|4531|0|0|3|10|0;as|43|6173|0|0|3|16|1;identifier|7|65|0|1|3|19|0;statements|-|-|0|0|0|0|0`
`except|70|…|4|3|2;identifier|7|65|0|1|4|10|0;statements|-|-|0|0|0|0|0` -/
def exTokE (line : Nat) (col : Int) : Tok := { exTok 7 "e" line col with identifier := true, val := [101] }
def exIdE (line : Nat) (col : Int) : Node := exNode "identifier" (some (exTokE line col)) []
def exAs : Node := exNode "as" (some (exTok 43 "as" 3 16)) [some (exIdE 3 19)]
def exS5 : Node := exNode "string" (some (exTok 5 "E1" 3 10)) []
def exExc5 : Node := exNode "except" (some (exTok 70 "except" 3 3)) [some exS5, some exAs, some exStm]
def exExc6 : Node := exNode "except" (some (exTok 70 "except" 4 3)) [some (exIdE 4 10), some exStm]

/-- `spec_first_listed_clause_as` on the real clause `except r"E1" as e { }` -/
example (g : Nat → Node → Stmt) (f sc : Nat) (rest : Clauses) (e : Sig) (s : St) :
    Spec.handle (clauseOfNode g (f+2) sc exExc5 rest) e s =
      if ([exS5].map textOf).any (fun b => bytesToString b == errType e) then
        (match Spec.exec (bindBody g sc exExc5 exStm [101] e) s with
         | (.normal _, s2) => (.normal Val.null, s2)
         | (o, s2) => (o, s2))
      else Spec.handle rest e s := by
  have ho : clauseShape exExc5 = .other := by
    simp [clauseShape, exExc5, exS5, exAs, exIdE, exStm, exNode, Ecal.Parse.Node.children, Ecal.Parse.Node.name, allSome]
  have hb : bindingShape exExc5 = .typedAs exS5 [] exAs (exIdE 3 19) (exTokE 3 19) exStm := by
    simp [bindingShape, exExc5, exS5, exAs, exIdE, exStm, exNode, Ecal.Parse.Node.children, Ecal.Parse.Node.name,
      Ecal.Parse.Node.tok, allSome]
  refine spec_first_listed_clause_as g f sc exExc5 exS5 exAs (exIdE 3 19) exStm [] (exTokE 3 19) rest e s ho hb ?_
  intro x hx
  rcases List.mem_cons.1 hx with rfl | hx
  · exact PlainStr.of_raw rfl rfl rfl
  · cases hx

/-- `spec_binding_clause` on the real clause `except e { }` -/
example (g : Nat → Node → Stmt) (f'' sc : Nat) (rest : Clauses) (e : Sig) (s : St) :
    Spec.handle (clauseOfNode g f'' sc exExc6 rest) e s =
      (match Spec.exec (bindBody g sc exExc6 exStm [101] e) s with
       | (.normal _, s2) => (.normal Val.null, s2)
       | (o, s2) => (o, s2)) := by
  have ho : clauseShape exExc6 = .other := by
    simp [clauseShape, exExc6, exIdE, exStm, exNode, Ecal.Parse.Node.children, Ecal.Parse.Node.name, allSome]
  have hb : bindingShape exExc6 = .bind (exIdE 4 10) exStm [101] := by
    simp [bindingShape, varOf, exExc6, exIdE, exTokE, exStm, exNode, exTok, Ecal.Parse.Node.children, Ecal.Parse.Node.name,
      Ecal.Parse.Node.tok, allSome]
  exact spec_binding_clause g f'' sc exExc6 (exIdE 4 10) exStm [101] rest e s ho hb

/-! `except r"E1" e {⏎}` (strings, identifier, block): children string|5|4531|0|0|3|10|0; identifier|7|65|0|1|3|16|0; statements -/
def exExc7 : Node := exNode "except" (some (exTok 70 "except" 3 3)) [some exS5, some (exIdE 3 16), some exStm]

/-- `spec_first_listed_clause_ident` on that clause -/
example (g : Nat → Node → Stmt) (f sc : Nat) (rest : Clauses) (e : Sig) (s : St) :
    Spec.handle (clauseOfNode g (f+2) sc exExc7 rest) e s =
      if ([exS5].map textOf).any (fun b => bytesToString b == errType e) then
        (match Spec.exec (clauseBody g sc exExc7 exStm) s with
         | (.normal _, s2) => (.normal Val.null, s2)
         | (o, s2) => (o, s2))
      else Spec.handle rest e s := by
  have ho : clauseShape exExc7 = .other := by
    simp [clauseShape, exExc7, exS5, exIdE, exStm, exNode, Ecal.Parse.Node.children, Ecal.Parse.Node.name, allSome]
  have hb : bindingShape exExc7 = .typedIdent exS5 [] (exIdE 3 16) exStm := by
    simp [bindingShape, exExc7, exS5, exIdE, exStm, exNode, Ecal.Parse.Node.children, Ecal.Parse.Node.name,
      Ecal.Parse.Node.tok, allSome]
  refine spec_first_listed_clause_ident g f sc exExc7 exS5 (exIdE 3 16) exStm [] rest e s ho hb ?_
  intro x hx
  rcases List.mem_cons.1 hx with rfl | hx
  · exact PlainStr.of_raw rfl rfl rfl
  · cases hx

end Ecal.Props.C04
