import Ecal.Model.Lexer
import Ecal.Lemmas.LexValue
import Ecal.Lemmas.LexerList
/-!
# C14, lexer clauses — "evaluating a quoted string literal interprets its escape sequences …, and a
raw string is returned untouched"

Theorems about the **real string lexer of the lexer model** `Ecal.Lex.lexValue`
(= `lexValueOpen`, `lexValueLoop`, `lexValueClose` of `Ecal/Model/Lexer.lean`, the functions the
C14 / C18 / C08 / C07 drivers run against `parser.LexToList`). Bytes are `Nat`s; `34` is `"`,
`39` is `'`, `92` the backslash, `114` the letter `r`.

In every theorem the literal stands anywhere in the input (after `pre`, before `rest`) and
`lexValue` is started at its first byte, as `lexToken` does.

The model's unquote is `Ecal.Lex.unquoteBody` (`strconv.Unquote("\"" + body + "\"")`), called by
the code with fuel `body.length + 2`; `unquote_step` below says what one step of it does.
-/
namespace Ecal.Props.C14Lex
open Ecal.Lex Ecal.LexValue

/-- **raw_string_untouched.** For every byte string `body` that does not contain the quote
    character `q` (`"` or `'`): lexing `r q body q` emits exactly one token — a string token whose
    value is `body` byte for byte (backslashes, newlines, `{{ }}`, invalid UTF-8 …), with
    `allowEscapes = false` (no interpolation, no escapes), positioned at the `r` — and stops
    directly behind the closing quote. -/
theorem raw_string_untouched (l0 : L) (pre body rest : List Nat) (q : Nat) (hq : q = 34 ∨ q = 39)
    (hb : q ∉ body)
    (hinp : l0.inp = (pre ++ (114 :: q :: (body ++ q :: rest))).toArray) (hpos : l0.pos = pre.length) :
    ∃ t : Tok, (lexValue l0).2 = Next.token ∧ (lexValue l0).1.toks = l0.toks.push t ∧
      t.id = tSTRING ∧ t.val = body ∧ t.allowEscapes = false ∧ t.identifier = false ∧ t.pos = pre.length ∧
      (lexValue l0).1.pos = pre.length + body.length + 3 ∧ (lexValue l0).1.inp = l0.inp :=
  lexValue_raw l0 pre body rest q hq hb hinp hpos

theorem split_first {q : Nat} : ∀ (text : List Nat), q ∈ text →
    ∃ rest, text = text.takeWhile (· != q) ++ q :: rest ∧ q ∉ text.takeWhile (· != q)
  | [], h => by simp at h
  | c :: cs, h => by
    by_cases hc : c = q
    · subst hc; exact ⟨cs, by simp, by simp⟩
    · have hm : q ∈ cs := by
        rcases List.mem_cons.mp h with h | h
        · exact absurd h.symm hc
        · exact h
      obtain ⟨rest, h1, h2⟩ := split_first cs hm
      have htw : (c :: cs).takeWhile (· != q) = c :: cs.takeWhile (· != q) := by
        have hne : (c != q) = true := by simp [hc]
        simp only [List.takeWhile, hne]
      refine ⟨rest, ?_, ?_⟩
      · rw [htw, List.cons_append, ← h1]
      · rw [htw]
        simp only [List.mem_cons, not_or]
        exact ⟨fun h => hc h.symm, h2⟩

/-- **raw_string_ends_at_first_quote.** Whatever follows the opener `r q` — call it `text` — if it
    contains a `q` at all, the literal ends at the FIRST `q` in it: the token value is the text
    before that first `q` (`takeWhile (· ≠ q)`), even if it ends in a backslash, and the lexer
    stops directly behind that `q`. A backslash does not escape the closing quote of a raw string. -/
theorem raw_string_ends_at_first_quote (l0 : L) (pre text : List Nat) (q : Nat) (hq : q = 34 ∨ q = 39)
    (hin : q ∈ text)
    (hinp : l0.inp = (pre ++ (114 :: q :: text)).toArray) (hpos : l0.pos = pre.length) :
    ∃ t : Tok, (lexValue l0).2 = Next.token ∧ (lexValue l0).1.toks = l0.toks.push t ∧
      t.id = tSTRING ∧ t.val = text.takeWhile (· != q) ∧ t.allowEscapes = false ∧
      (lexValue l0).1.pos = pre.length + (text.takeWhile (· != q)).length + 3 := by
  obtain ⟨rest, h1, h2⟩ := split_first text hin
  obtain ⟨t, a1, a2, a3, a4, a5, _, _, a8, _⟩ :=
    lexValue_raw l0 pre (text.takeWhile (· != q)) rest q hq h2 (by rw [← h1]; exact hinp) hpos
  exact ⟨t, a1, a2, a3, a4, a5, a8⟩

/-- the witness of the seeded change: in `r"C:\dir\" x` the literal is `r"C:\dir\"`, value `C:\dir\` -/
example : ([67, 58, 92, 100, 105, 114, 92, 34, 32, 120] : List Nat).takeWhile (· != 34) =
    [67, 58, 92, 100, 105, 114, 92] := by decide

/-- **quoted_string_unescapes.** A quoted (non-raw) literal `q body q` whose `body` contains `q`
    only escaped and does not end in an unescaped backslash (`Body true q false body`: the
    `escaped` flag of the code — a byte is escaped iff it follows an unescaped backslash, i.e. is
    preceded by an odd number of backslashes) ends at that closing `q`, the first unescaped one.
    The code then unquotes `prep q body` — `body` itself for `"…"`, `body` with every `"`
    replaced by `\"` for `'…'` — with `strconv.Unquote` (model `unquoteBody`, see `unquote_step`):
    if that succeeds with `s`, exactly one token is emitted, the string token with value `s` and
    `allowEscapes = true`, and the lexer stops directly behind the closing quote. -/
theorem quoted_string_unescapes (l0 : L) (pre body rest s : List Nat) (q : Nat) (hq : q = 34 ∨ q = 39)
    (hb : Body true q false body)
    (hu : unquoteBody ((prep q body).length + 2) (prep q body) = some s)
    (hinp : l0.inp = (pre ++ (q :: (body ++ q :: rest))).toArray) (hpos : l0.pos = pre.length) :
    ∃ t : Tok, (lexValue l0).2 = Next.token ∧ (lexValue l0).1.toks = l0.toks.push t ∧
      t.id = tSTRING ∧ t.val = s ∧ t.allowEscapes = true ∧ t.identifier = false ∧ t.pos = pre.length ∧
      (lexValue l0).1.pos = pre.length + body.length + 2 ∧ (lexValue l0).1.inp = l0.inp := by
  obtain ⟨t, a1, a2, a3, a4, a5, a6⟩ := lexValue_quoted l0 pre body rest q hq hb hinp hpos
  rw [hu] at a6
  exact ⟨t, a6.1, a1, a6.2.1, a6.2.2.1, a6.2.2.2, a3, a2, a4, a5⟩

/-- The `escaped` flag and backslash runs: after a run of `n` backslashes (read from an unescaped
    position) the next byte is escaped iff `n` is odd — so a body that is a run of `n` backslashes
    can be followed by the closing quote iff `n` is even (`"\\"` closes, `"\"` does not). -/
theorem backslash_run_closes (q : Nat) (hq : q ≠ 92) : ∀ (n : Nat) (esc : Bool),
    Body true q esc (List.replicate n 92) ↔ (esc = false ∧ n % 2 = 0) ∨ (esc = true ∧ n % 2 = 1)
  | 0, esc => by cases esc <;> simp [Body]
  | n+1, esc => by
    have h92 : ¬ (92 = q) := fun h => hq h.symm
    simp only [List.replicate_succ, Body, h92, false_implies, true_and]
    rw [backslash_run_closes q hq n]
    cases esc <;> simp <;> omega

example : Body true 34 false (List.replicate 2 92) ∧ ¬ Body true 34 false (List.replicate 3 92) := by decide

/-- **quoted_string_error_cases.** The same literal when `strconv.Unquote` rejects the prepared
    body (a raw newline, a bare `"`, an unknown escape such as `\q` or `\'`, a truncated or
    out-of-range `\x` `\u` `\U` `\ooo`, a surrogate code point): exactly one token is emitted, an
    Error token at the literal's position, and the lexer stops (`Next.stop`). -/
theorem quoted_string_error_cases (l0 : L) (pre body rest : List Nat) (q : Nat) (hq : q = 34 ∨ q = 39)
    (hb : Body true q false body)
    (hu : unquoteBody ((prep q body).length + 2) (prep q body) = none)
    (hinp : l0.inp = (pre ++ (q :: (body ++ q :: rest))).toArray) (hpos : l0.pos = pre.length) :
    ∃ t : Tok, (lexValue l0).2 = Next.stop ∧ (lexValue l0).1.toks = l0.toks.push t ∧
      t.id = tERROR ∧ t.pos = pre.length := by
  obtain ⟨t, a1, a2, a3, a4, a5, a6⟩ := lexValue_quoted l0 pre body rest q hq hb hinp hpos
  rw [hu] at a6
  exact ⟨t, a6.1, a1, a6.2, a2⟩

/-- **What the model's unquote is**, one step at a time (`f` = remaining fuel; the code starts
    with `body.length + 2`, one step consumes at least one byte). strconv.Unquote of a
    double-quoted Go literal: -/
theorem unquote_step (f : Nat) (t : List Nat) :
    -- end of the body
    unquoteBody (f+1) [] = some [] ∧
    -- errors: raw newline, bare double quote, backslash at the end
    unquoteBody (f+1) (10 :: t) = none ∧ unquoteBody (f+1) (34 :: t) = none ∧ unquoteBody (f+1) [92] = none ∧
    -- \a \b \f \n \r \t \v \\ \"
    (∀ e b, ((e = 97 ∧ b = 7) ∨ (e = 98 ∧ b = 8) ∨ (e = 102 ∧ b = 12) ∨ (e = 110 ∧ b = 10) ∨ (e = 114 ∧ b = 13) ∨
        (e = 116 ∧ b = 9) ∨ (e = 118 ∧ b = 11) ∨ (e = 92 ∧ b = 92) ∨ (e = 34 ∧ b = 34)) →
      unquoteBody (f+1) (92 :: e :: t) = (unquoteBody f t).map (b :: ·)) ∧
    -- \' is NOT accepted inside a double-quoted literal (strconv: quote mismatch), nor any other letter
    unquoteBody (f+1) (92 :: 39 :: t) = none ∧ unquoteBody (f+1) (92 :: 113 :: t) = none ∧
    -- \xhh : one byte
    (∀ v r, hexN 2 t = some (v, r) → unquoteBody (f+1) (92 :: 120 :: t) = (unquoteBody f r).map (v :: ·)) ∧
    (hexN 2 t = none → unquoteBody (f+1) (92 :: 120 :: t) = none) ∧
    -- \uhhhh and \Uhhhhhhhh : a valid code point, UTF-8 encoded; surrogates / > 0x10FFFF are errors
    (∀ v r, hexN 4 t = some (v, r) → unquoteBody (f+1) (92 :: 117 :: t) =
      if validRune v then (unquoteBody f r).map (encodeRune v ++ ·) else none) ∧
    (∀ v r, hexN 8 t = some (v, r) → unquoteBody (f+1) (92 :: 85 :: t) =
      if validRune v then (unquoteBody f r).map (encodeRune v ++ ·) else none) ∧
    -- \ooo : three octal digits, value ≤ 255, one byte
    (∀ e a b, 48 ≤ e → e ≤ 55 → 48 ≤ a → a ≤ 55 → 48 ≤ b → b ≤ 55 →
      unquoteBody (f+1) (92 :: e :: a :: b :: t) =
        if (e - 48) * 64 + (a - 48) * 8 + (b - 48) > 255 then none
        else (unquoteBody f t).map (((e - 48) * 64 + (a - 48) * 8 + (b - 48)) :: ·)) ∧
    -- any other ASCII byte is copied; a non-ASCII byte starts a rune that is decoded and
    -- re-encoded (an invalid byte becomes U+FFFD)
    (∀ c, c ≠ 10 → c ≠ 34 → c ≠ 92 → unquoteBody (f+1) (c :: t) =
      if c < 0x80 then (unquoteBody f t).map (c :: ·)
      else (unquoteBody f ((c :: t).drop (Ecal.Print.decodeHead (c :: t)).2)).map
        (encodeRune (Ecal.Print.decodeHead (c :: t)).1 ++ ·)) := by
  refine ⟨by simp [unquoteBody], by simp [unquoteBody], by simp [unquoteBody], by simp [unquoteBody],
    fun e b h => Ecal.C08.QR.unq_esc_simple f e b t h, by simp [unquoteBody], by simp [unquoteBody],
    fun v r h => by simp [unquoteBody, h], fun h => by simp [unquoteBody, h],
    fun v r h => by simp [unquoteBody, h], fun v r h => by simp [unquoteBody, h], ?_,
    fun c h1 h2 h3 => Ecal.C08.QR.unq_other f c t h1 h2 h3⟩
  intro e a b h1 h2 h3 h4 h5 h6
  have he : ¬ (e = 97 ∨ e = 98 ∨ e = 102 ∨ e = 110 ∨ e = 114 ∨ e = 116 ∨ e = 118 ∨ e = 92 ∨ e = 34 ∨
      e = 120 ∨ e = 117 ∨ e = 85) := by omega
  simp only [not_or] at he
  obtain ⟨n1, n2, n3, n4, n5, n6, n7, n8, n9, n10, n11, n12⟩ := he
  simp [unquoteBody, n1, n2, n3, n4, n5, n6, n7, n8, n9, n10, n11, n12, h1, h2, h3, h4, h5, h6]

/-! ## When the lexer gets to `lexValue` -/

/-- **lexToken_dispatches_value.** Whenever the lexer stands at a token boundary (that is where
    `lexToken` is called: after skipWhiteSpace) and the next byte is a quote, or an `r` directly
    followed by a quote, `lexToken` IS `lexValue` — run on the state skipWhiteSpace leaves, which has
    the same input and position (only `skippedNewline` is reset: string tokens always carry
    `PrefixNewlines = 0`). So the four theorems above apply to every literal that starts a token.
    They do NOT apply to quote characters inside a word: `ar"x⏎y"` is one identifier-error token
    (the text block lexer takes `ar"x` up to the white space; see the example below), exactly as in Go. -/
theorem lexToken_dispatches_value (l : L)
    (h : l.peek 1 = some 34 ∨ l.peek 1 = some 39 ∨
      (l.peek 1 = some 114 ∧ (l.peek 2 = some 34 ∨ l.peek 2 = some 39))) :
    lexToken l = lexValue (skipWhiteSpace l).1 ∧
    (skipWhiteSpace l).1.pos = l.pos ∧ (skipWhiteSpace l).1.inp = l.inp ∧
    (skipWhiteSpace l).1.toks = l.toks := by
  have hc : ∃ c, l.peek 1 = some c ∧ (c = 34 ∨ c = 39 ∨ c = 114) := by
    rcases h with h | h | ⟨h, _⟩
    · exact ⟨34, h, by simp⟩
    · exact ⟨39, h, by simp⟩
    · exact ⟨114, h, by simp⟩
  obtain ⟨c, hpk, hcc⟩ := hc
  obtain ⟨hp, hd⟩ := peek1_some hpk
  have hb : blank (some (decodeRune l.inp l.pos).1) = false := by
    rw [hd]; rcases hcc with rfl | rfl | rfl <;> decide
  obtain ⟨e1, e2⟩ := sws_pos l hp hb
  have htrue := sws_true l hp hb
  have hext := sws_ext l
  refine ⟨?_, e1, e2, ?_⟩
  · have n1 : ¬ (l.peek 1 = some 47) := by rw [hpk]; rcases hcc with rfl | rfl | rfl <;> decide
    have n2 : ¬ (l.peek 1 = some 35) := by rw [hpk]; rcases hcc with rfl | rfl | rfl <;> decide
    have hv : ((l.peek 1 = some 34 ∨ l.peek 1 = some 39) ∨
        (l.peek 1 = some 114 ∧ (l.peek 2 = some 34 ∨ l.peek 2 = some 39))) := by
      rcases h with h | h | h
      · exact Or.inl (Or.inl h)
      · exact Or.inl (Or.inr h)
      · exact Or.inr h
    simp only [lexToken, n1, n2, decide_false, Bool.false_and, Bool.or_self, Bool.false_eq_true, if_false]
    have : ((decide (l.peek 1 = some 34) || decide (l.peek 1 = some 39)) ||
        (decide (l.peek 1 = some 114) && (decide (l.peek 2 = some 34) || decide (l.peek 2 = some 39)))) = true := by
      simpa using hv
    simp only [this, if_true, htrue]
  · -- skipWhiteSpace on a non-blank rune emits nothing
    have hn : ¬ l.pos ≥ l.inp.size := by omega
    simp only [skipWhiteSpace, L.next, hn, if_false]
    rw [show l.inp.size + 2 = (l.inp.size + 1) + 1 from rfl]
    simp only [skipWhiteSpace.loop, hb, Bool.false_eq_true, if_false, L.backup]

/-- the start state of `lex` on an input that begins with a literal dispatches to `lexValue` -/
example : lexToken { inp := #[114, 34, 97, 34] } = lexValue (skipWhiteSpace { inp := #[114, 34, 97, 34] }).1 :=
  (lexToken_dispatches_value _ (Or.inr (Or.inr ⟨by decide, Or.inl (by decide)⟩))).1

/-! ## Literals inside any source: the lift to `lex` -/

theorem rem_at (s : L) (pre tail : List Nat) (hinp : s.inp = (pre ++ tail).toArray) (hpos : s.pos = pre.length) :
    Ecal.C08.QR.rem s = tail := by
  simp [Ecal.C08.QR.rem, hinp, hpos]

theorem peek1_ascii (s : L) (c : Nat) (tl : List Nat) (hc : c < 128) (hr : Ecal.C08.QR.rem s = c :: tl) :
    s.peek 1 = some c := by
  rw [peek1_eq, (Ecal.C08.QR.next_rem s c tl hr).1, Ecal.C08.QR.decodeHead_ascii c tl hc]

theorem peek2_ascii (s : L) (c d : Nat) (tl : List Nat) (hd : d < 128) (hr : Ecal.C08.QR.rem s = c :: d :: tl) :
    s.peek 2 = some d := by
  have hlen : (Ecal.C08.QR.rem s).length = s.inp.size - s.pos := by simp [Ecal.C08.QR.rem]
  rw [hr] at hlen
  simp only [List.length_cons] at hlen
  have hr' : Ecal.C08.QR.rem ({ s with pos := s.pos + 1 } : L) = d :: tl := by
    have : Ecal.C08.QR.rem ({ s with pos := s.pos + 1 } : L) = (Ecal.C08.QR.rem s).drop 1 := by
      simp [Ecal.C08.QR.rem, List.drop_drop, Nat.add_comm]
    rw [this, hr]; rfl
  have hdec := Ecal.C08.QR.decodeRune_rem ({ s with pos := s.pos + 1 } : L)
  rw [hr', Ecal.C08.QR.decodeHead_ascii d tl hd] at hdec
  unfold L.peek
  have n1 : ¬ s.pos ≥ s.inp.size := by omega
  have n2 : ¬ s.pos + (2 - 1) ≥ s.inp.size := by omega
  simp only [n1, n2, if_false]
  show some (decodeRune s.inp (s.pos + 1)).1 = some d
  have : decodeRune s.inp (s.pos + 1) = (d, 1) := hdec
  rw [this]

/-- a token of `lex input` that is not EOF was pushed by `lexToken` from a token-boundary state -/
theorem token_generated (input : List Nat) (t : Tok) (ht : t ∈ (lex input).toList) (hne : t.id ≠ tEOF) :
    GenOK input.toArray t := by
  obtain ⟨body, fin, h1, ⟨_, _, b3, _⟩, h3⟩ := lex_final input
  rw [h1] at ht
  rcases List.mem_append.mp ht with ht | ht
  · exact b3 t ht
  · rcases h3 with ⟨rfl, _⟩ | ⟨eof, rfl, hid, _⟩
    · simp at ht
    · rw [List.mem_singleton.mp ht] at hne; exact absurd hid hne

/-- **raw_literal_in_source** (`raw_string_untouched` lifted to `lex`). Wherever a raw literal
    `r q body q` (`q` not in `body`) stands in a source text — `input = pre ++ r q body q ++ rest`, any
    `pre`, any `rest` — a token of `lex input` that starts at the literal's first byte (and is
    neither a comment token, whose `Pos` is the byte after its opener, nor an error token) IS that
    literal's string token: value `body` byte for byte, `allowEscapes = false`. Whether a token starts
    there is decided by the text before (`ar"x"` is one word — see the counter-example below);
    `token_starts_at_first_character` says tokens start only at token boundaries. -/
theorem raw_literal_in_source (pre body rest : List Nat) (q : Nat) (hq : q = 34 ∨ q = 39) (hb : q ∉ body)
    (t : Tok) (ht : t ∈ (lex (pre ++ (114 :: q :: (body ++ q :: rest)))).toList) (hpos : t.pos = pre.length)
    (h1 : t.id ≠ tEOF) (h2 : t.id ≠ tPOSTCOMMENT) (h3 : t.id ≠ tPRECOMMENT) (h4 : t.id ≠ tERROR) :
    t.id = tSTRING ∧ t.val = body ∧ t.allowEscapes = false := by
  obtain ⟨s, _, _, hinp, htoks, hkind⟩ := token_generated _ t ht h1
  have hsp : s.pos = pre.length := by
    rcases hkind with h | h | h | h
    · exact absurd h h2
    · exact absurd h h3
    · exact absurd h h4
    · rw [← h]; exact hpos
  have hq128 : q < 128 := by rcases hq with rfl | rfl <;> omega
  have hrem := rem_at s pre _ hinp hsp
  have hp1 := peek1_ascii s 114 _ (by omega) hrem
  have hp2 := peek2_ascii s 114 q _ hq128 hrem
  obtain ⟨hd, e1, e2, e3⟩ := lexToken_dispatches_value s
    (Or.inr (Or.inr ⟨hp1, by rcases hq with rfl | rfl; exact Or.inl hp2; exact Or.inr hp2⟩))
  obtain ⟨t', _, a2, a3, a4, a5, _⟩ := raw_string_untouched (skipWhiteSpace s).1 pre body rest q hq hb
    (by rw [e2, hinp]) (by rw [e1, hsp])
  have : t = t' := by
    have h := htoks.symm.trans ((congrArg (fun x => x.1.toks) hd).trans (a2.trans (by rw [e3])))
    have := congrArg Array.back? h
    simpa using this
  rw [this]; exact ⟨a3, a4, a5⟩

/-- **quoted_literal_in_source** (`quoted_string_unescapes` lifted to `lex`): the same for a quoted
    literal `q body q` whose prepared body strconv.Unquote accepts. -/
theorem quoted_literal_in_source (pre body rest s' : List Nat) (q : Nat) (hq : q = 34 ∨ q = 39)
    (hb : Body true q false body)
    (hu : unquoteBody ((prep q body).length + 2) (prep q body) = some s')
    (t : Tok) (ht : t ∈ (lex (pre ++ (q :: (body ++ q :: rest)))).toList) (hpos : t.pos = pre.length)
    (h1 : t.id ≠ tEOF) (h2 : t.id ≠ tPOSTCOMMENT) (h3 : t.id ≠ tPRECOMMENT) (h4 : t.id ≠ tERROR) :
    t.id = tSTRING ∧ t.val = s' ∧ t.allowEscapes = true := by
  obtain ⟨s, _, _, hinp, htoks, hkind⟩ := token_generated _ t ht h1
  have hsp : s.pos = pre.length := by
    rcases hkind with h | h | h | h
    · exact absurd h h2
    · exact absurd h h3
    · exact absurd h h4
    · rw [← h]; exact hpos
  have hq128 : q < 128 := by rcases hq with rfl | rfl <;> omega
  have hrem := rem_at s pre _ hinp hsp
  have hp1 := peek1_ascii s q _ hq128 hrem
  obtain ⟨hd, e1, e2, e3⟩ := lexToken_dispatches_value s
    (by rcases hq with rfl | rfl; exact Or.inl hp1; exact Or.inr (Or.inl hp1))
  obtain ⟨t', _, a2, a3, a4, a5, _⟩ := quoted_string_unescapes (skipWhiteSpace s).1 pre body rest s' q hq hb hu
    (by rw [e2, hinp]) (by rw [e1, hsp])
  have : t = t' := by
    have h := htoks.symm.trans ((congrArg (fun x => x.1.toks) hd).trans (a2.trans (by rw [e3])))
    have := congrArg Array.back? h
    simpa using this
  rw [this]; exact ⟨a3, a4, a5⟩

/-- non-vacuity: in `x := r"a\"` + `;y` the token at offset 5 is the raw literal with value `a\` -/
example : ((lex ([120, 32, 58, 61, 32] ++ (114 :: 34 :: ([97, 92] ++ 34 :: [59, 121])))).toList.filter
    (·.pos = 5)).map (fun t => (t.id, t.val, t.allowEscapes)) = [(tSTRING, [97, 92], false)] := by decide +kernel

/-! ## Non-vacuity: concrete literals through the whole lexer `lex` -/

/-- (kind, value, allowEscapes) of every token -/
def kinds (src : List Nat) : List (Nat × List Nat × Bool) :=
  (lex src).toList.map fun t => (t.id, t.val, t.allowEscapes)

/-- `r"C:\dir\"` is ONE raw token with value `C:\dir\` (the seeded change made the backslash
    escape the closing quote) -/
example : kinds [114, 34, 67, 58, 92, 100, 105, 114, 92, 34] =
    [(tSTRING, [67, 58, 92, 100, 105, 114, 92], false), (tEOF, [], false)] := by decide +kernel

/-- `r'a"\n{{x}}'` : quotes of the other kind, backslash-n and braces stay as written -/
example : kinds [114, 39, 97, 34, 92, 110, 123, 123, 120, 125, 125, 39] =
    [(tSTRING, [97, 34, 92, 110, 123, 123, 120, 125, 125], false), (tEOF, [], false)] := by decide +kernel

/-- `"a\\"` (a, backslash, backslash): the value is `a\`; the second backslash is escaped, so the
    quote behind it closes the literal -/
example : kinds [34, 97, 92, 92, 34] = [(tSTRING, [97, 92], true), (tEOF, [], false)] := by decide +kernel
example : Body true 34 false [97, 92, 92] ∧ unquoteBody 5 [97, 92, 92] = some [97, 92] := by decide

/-- `"a\"b"` : the escaped quote does not end the literal; value `a"b` -/
example : kinds [34, 97, 92, 34, 98, 34] = [(tSTRING, [97, 34, 98], true), (tEOF, [], false)] := by decide +kernel
example : Body true 34 false [97, 92, 34, 98] ∧ ¬ Body true 34 false [97, 92] ∧ ¬ Body true 34 false [97, 34] := by
  decide

/-- `'{{"x"}}'` : a single-quoted literal may contain `"`; value `{{"x"}}`, interpolating kind -/
example : kinds [39, 123, 123, 34, 120, 34, 125, 125, 39] =
    [(tSTRING, [123, 123, 34, 120, 34, 125, 125], true), (tEOF, [], false)] := by decide +kernel
example : prep 39 [123, 123, 34, 120, 34, 125, 125] = [123, 123, 92, 34, 120, 92, 34, 125, 125] := by decide

/-- `"\t\x41\u00e9\101"` : tab, `A`, `é` (C3 A9), `A` -/
example : kinds [34, 92, 116, 92, 120, 52, 49, 92, 117, 48, 48, 101, 57, 92, 49, 48, 49, 34] =
    [(tSTRING, [9, 65, 195, 169, 65], true), (tEOF, [], false)] := by decide +kernel

/-- error cases (first token is the Error token, id 0): raw newline in `"x⏎y"`, unknown escape `"\q"`,
    `\'` in `'it\'s'` (the code cannot express a single quote inside a single-quoted literal),
    surrogate `"\ud800"`, unclosed `"abc` -/
example : ((kinds [34, 120, 10, 121, 34]).map (·.1)).head? = some tERROR ∧
    ((kinds [34, 92, 113, 34]).map (·.1)).head? = some tERROR ∧
    ((kinds [39, 105, 116, 92, 39, 115, 39]).map (·.1)).head? = some tERROR ∧
    ((kinds [34, 92, 117, 100, 56, 48, 48, 34]).map (·.1)).head? = some tERROR ∧
    ((kinds [34, 97, 98, 99]).map (·.1)).head? = some tERROR := by decide +kernel

/-- the counter-example to "every `r"` starts a raw literal": inside a word it does not —
    `ar"x⏎y"` is ONE error token (Cannot parse identifier `ar"x`), in the model and in Go -/
example : (kinds [97, 114, 34, 120, 10, 121, 34]).map (·.1) = [tERROR] := by decide +kernel

/-- … while after a token boundary (blank, symbol) the literal is lexed: `a r"x⏎y"` and `(r"x")` -/
example : (kinds [97, 32, 114, 34, 120, 10, 121, 34]).map (fun k => (k.1, k.2.1)) =
    [(tIDENTIFIER, [97]), (tSTRING, [120, 10, 121]), (tEOF, [])] ∧
    (kinds [40, 114, 34, 120, 34, 41]).map (fun k => (k.1, k.2.1)) =
    [(22, [40]), (tSTRING, [120]), (23, [41]), (tEOF, [])] := by decide +kernel

end Ecal.Props.C14Lex
