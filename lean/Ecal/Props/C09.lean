import Ecal.Lemmas.PoolFair
import Ecal.Gen.C09
/-!
# C09 — the thread pool runs every accepted task exactly once without outside help

Model: `Ecal/Model/Pool.lean` (per-worker transition system of `engine/pool/threadpool.go` and its
counting abstraction). All theorems quantify over **every reachable state**: any number of workers
(created by any sequence of `SetWorkerCount` calls), any number of concurrent `AddTask` /
`SetWorkerCount` / `JoinAll` / polling callers, any interleaving of their atomic steps.

Liveness is stated the standard way for a transition system: *safety* (`task_multiset`: a queued
task can only leave the queue by being started, exactly once) plus *absence of stuck states*
(`no_stuck_task`, `resize_converges`: while work / a kill request is pending and a worker exists, a
pool-internal step is enabled — a step of a worker goroutine or of a call already in progress; no
new call and no polling broadcast is needed). "Eventually started" follows under the
**fairness assumption**: (F1) the Go scheduler is weakly fair — a goroutine whose next step stays
enabled is eventually scheduled, and a goroutine blocked in `Lock()` on a mutex that is released
infinitely often eventually gets it; (F2) every task's `Run` terminates. These two are assumed, not
proved (DESIGN.md §8).
-/
namespace Ecal.Props.C09
open Ecal.Pool

/-- **Counting simulation.** Every step of the per-worker LTS (the system recorded traces are
    replayed on) is a step of the counting abstraction (the system the invariant is proved on). -/
theorem counting_simulation {s s' : State} {e : Event} (h : step repaired s e = some s') :
    cstep (abs s) (absEvent s e) = some (abs s') := sim_step h

example : step repaired ⟨[.head], [], [], [], 0, 0, 0, 0, 0⟩ (.killPass 0) ≠ none := by decide

/-- **No task is lost or duplicated.** In every reachable state (of either protocol variant) the
    tasks added so far are, as a multiset, exactly the queued ones, the ones being run and the
    finished ones. -/
theorem task_multiset {v : Variant} {s : State} (h : Reachable v s) :
    (s.queue ++ s.running ++ s.done).Perm s.added := by
  rw [List.perm_iff_count]
  intro t
  have := accounted_reachable h t
  simp only [List.count_append, State.running, running_count]
  omega

example : ∃ s, Reachable repaired s ∧ s.added = [8, 7] ∧ s.running = [7] ∧ s.queue = [8] :=
  ⟨_, ⟨[.swcUp 1, .aPush 7, .killPass 0, .pop 0 7, .aPush 8], rfl⟩, by decide, by decide, by decide⟩

/-- **No task is started twice.** If every task was added once, no task is at the same time in two
    places (queued / running on some worker / finished) or twice in one of them; together with
    `task_multiset`: each added task is started at most once and never dropped. -/
theorem no_double_start {v : Variant} {s : State} (h : Reachable v s) (hn : s.added.Nodup) :
    (s.queue ++ s.running ++ s.done).Nodup :=
  (task_multiset h).nodup_iff.2 hn

/-- **No stuck task** (the repaired protocol). Whenever a task is queued and at least one worker
    has not been told to exit, either a pool-internal step *other than the return of a running task*
    is enabled — a worker step, or the remaining `L.Lock(); Signal()` of an `AddTask` that already
    pushed, or the remaining locked broadcast of a `SetWorkerCount` in progress —, or every such
    worker is busy running a task (the pool is saturated; then the queued task legitimately waits
    for one of them). In particular "a task queued, one worker running, another parked in Wait,
    nothing in flight" is unreachable: a queued task never waits for another task while a worker
    sleeps. No further API call and no polling broadcast is needed. -/
theorem no_stuck_task {s : State} (h : Reachable repaired s) (hq : s.queue ≠ []) :
    (∃ e ∈ internalEvents s, isFinish e = false ∧ (step repaired s e).isSome) ∨
      s.live = cntOf s.pcs .run := by
  rcases enabled_or_parked h with he | ⟨hp, hin⟩
  · exact Or.inl he
  · right
    have hinv := inv_reachable h
    have hlen := length_eq_sum s.pcs
    have hq' : 0 < (abs s).queue := by
      cases hs : s.queue with
      | nil => exact absurd hs hq
      | cons a l => simp [abs, hs]
    have hQ := hinv.q
    simp only [State.live, clive]
    simp only [asleep, awake, abs, CState.inflight] at hQ hin hq'
    by_cases hwait : 0 < cntOf s.pcs .waiting
    · have := hQ (by omega)
      omega
    · omega

/-- the interesting case is not vacuous: worker 0 runs task 1, worker 1 sleeps, task 2 was just pushed —
    its AddTask still holds the wake-up -/
example : ∃ s, Reachable repaired s ∧ s.queue = [2] ∧ s.pcs = [.run 1, .waiting] ∧ s.pushed = 1 :=
  ⟨_, ⟨[.swcSet 2, .killPass 0, .killPass 1, .aPush 1, .pop 0 1, .popNone 1, .aLock, .aSignal none, .regIdle 1,
        .wLock 1, .readQ 1, .readKill 1, .wWait 1, .aPush 2], rfl⟩, by decide, by decide, by decide⟩

/-- **A queued task is started after boundedly many pool-internal steps.** Along any sequence of
    pool-internal events (worker steps incl. returns of running tasks, the rest of calls in flight; no
    new call, no polling broadcast) that contains no `Pop` of a task, the measure `cmu` — per worker the
    number of its own steps to the next Pop, plus the steps left of the calls in flight — drops by at
    least one per event while the queue is non-empty. Hence every such sequence from `s` is at most
    `cmu (abs s)` long. Together with `no_stuck_task` (such a sequence can always be continued unless
    the pool is saturated or has lost all its workers): under scheduler fairness (F1) a queued task
    is started; a running task has to return (F2) only when every worker is busy. -/
theorem pop_within_bound {s s' : State} {es : List Event} (hq : s.queue ≠ [])
    (hes : ∀ e ∈ es, isInternal e = true ∧ isPop e = false)
    (h : runFrom repaired s es = some s') :
    es.length + cmu (abs s') ≤ cmu (abs s) ∧ s'.queue.length = s.queue.length := by
  induction es generalizing s with
  | nil => simp [runFrom, List.foldlM] at h; subst h; simp
  | cons e es ih =>
    simp only [runFrom, List.foldlM_cons] at h
    cases hs : step repaired s e with
    | none => simp [hs] at h
    | some s1 =>
      simp [hs] at h
      have he := hes e (by simp)
      have hq0 : 0 < (abs s).queue := by
        cases hl : s.queue with
        | nil => exact absurd hl hq
        | cons a l => simp [abs, hl]
      have hstep := cmu_step (sim_step hs) (by rw [internal_abs]; exact he.1) (by rw [isPop_abs]; exact he.2) hq0
      have hl : s1.queue.length = s.queue.length := by simpa [abs] using hstep.2
      have hq1 : s1.queue ≠ [] := by
        intro hn
        rw [hn] at hl
        exact hq (List.eq_nil_of_length_eq_zero hl.symm)
      have := ih hq1 (fun e' he' => hes e' (by simp [he'])) h
      simp only [List.length_cons]
      omega

/-- every element of `internalEvents` is internal in the sense of `pop_within_bound` -/
theorem internal_of_mem {s : State} {e : Event} (h : e ∈ internalEvents s) : isInternal e = true := by
  simp only [internalEvents, workerEvents, List.mem_append, List.mem_flatMap, List.mem_range, List.mem_cons,
    Option.mem_toList] at h
  rcases h with ⟨i, _, h | h⟩ | h
  · rcases h with h | h
    · simp at h
      rcases h with h | h | h | h | h | h | h | h | h | h | h | h | h | h | h <;> subst h <;> rfl
    · cases hq : s.queue.head? <;> simp [hq] at h
      subst h; rfl
  · simp at h; subst h; rfl
  · simp at h
    rcases h with h | h | h | h <;> subst h <;> rfl

/-- **Under fairness a queued task is started** (the combined corollary of `no_stuck_task` and
    `pop_within_bound`; queue level: SOME queued task — which one is the queue's business, see
    `fifo_started_in_order` for `DefaultTaskQueue`). In every infinite execution of the repaired pool
    (`Exec`: any interleaving, attempts that are not enabled stutter) that is fair (`Exec.Fair`: whenever a
    pool-internal event is enabled, a pool-internal event is eventually taken — the assumption about the Go
    scheduler and about terminating tasks) and in which no new call is made from tick `N` on
    (`Exec.CallsStopAt`: only pool-internal events and polling broadcasts), if a task is queued at tick `N`
    then at some later tick a worker pops a task — or the pool has lost all its workers (every one of them
    was told to exit: outside the property's "while the pool has at least one worker"). No further call,
    no polling broadcast is needed: the hypothesis allows them but does not use them. -/
theorem fair_queued_task_started (X : Exec) (hf : X.Fair) {N : Nat} (hc : X.CallsStopAt N)
    (hq : (X.C N).queue ≠ []) : ∃ m, N ≤ m ∧ (X.took isPop m ∨ (X.C m).live = 0) := by
  suffices ∀ k n, N ≤ n → cmu (abs (X.C n)) ≤ k → (X.C n).queue ≠ [] →
      ∃ m, n ≤ m ∧ (X.took isPop m ∨ (X.C m).live = 0) by
    obtain ⟨m, hm, h⟩ := this _ N (Nat.le_refl N) (Nat.le_refl _) hq
    exact ⟨m, hm, h⟩
  intro k
  induction k with
  | zero =>
    intro n hn hk hqn
    by_cases hl : (X.C n).live = 0
    · exact ⟨n, Nat.le_refl n, Or.inr hl⟩
    · have hen : enabledInternal (X.C n) := by
        rcases no_stuck_task (exec_reachable X n) hqn with ⟨e, he, _, h⟩ | hsat
        · exact ⟨e, he, h⟩
        · exact run_enabled (by omega)
      obtain ⟨m, hnm, htook⟩ := hf n hen
      have hmd : n + (m - n) = m := by omega
      rcases ticks_measure X hc (m - n) hn hqn with ⟨j, h1, _, h3⟩ | ⟨hmeas, hqm⟩
      · exact ⟨j, h1, Or.inl h3⟩
      · rw [hmd] at hmeas hqm
        by_cases hp : X.took isPop m
        · exact ⟨m, hnm, Or.inl hp⟩
        · have := (tick_measure X hc (by omega : N ≤ m) hqm hp).2.2 htook
          omega
  | succ k ih =>
    intro n hn hk hqn
    by_cases hl : (X.C n).live = 0
    · exact ⟨n, Nat.le_refl n, Or.inr hl⟩
    · have hen : enabledInternal (X.C n) := by
        rcases no_stuck_task (exec_reachable X n) hqn with ⟨e, he, _, h⟩ | hsat
        · exact ⟨e, he, h⟩
        · exact run_enabled (by omega)
      obtain ⟨m, hnm, htook⟩ := hf n hen
      have hmd : n + (m - n) = m := by omega
      rcases ticks_measure X hc (m - n) hn hqn with ⟨j, h1, _, h3⟩ | ⟨hmeas, hqm⟩
      · exact ⟨j, h1, Or.inl h3⟩
      · rw [hmd] at hmeas hqm
        by_cases hp : X.took isPop m
        · exact ⟨m, hnm, Or.inl hp⟩
        · have ht := tick_measure X hc (by omega : N ≤ m) hqm hp
          have hstrict := ht.2.2 htook
          have hq1 : (X.C (m + 1)).queue ≠ [] := by
            intro hnil
            have hl' := ht.2.1
            rw [hnil] at hl'
            exact hqm (List.eq_nil_of_length_eq_zero hl'.symm)
          obtain ⟨m', hm', h⟩ := ih (m + 1) (by omega) (by omega) hq1
          exact ⟨m', by omega, h⟩

/-- events and start state of the non-vacuity example below -/
def exEvents : List Event := [.killPass 0, .pop 0 7, .finish 0, .killPass 0, .popNone 0, .regIdle 0, .wLock 0, .readQ 0,
  .readKill 0, .wWait 0]

def exStart : State := ⟨[.head], [7], [7], [], 0, 0, 0, 0, 0⟩

def exExec : Exec := Exec.ofList exStart ⟨[.swcSet 1, .aPush 7, .aLock, .aSignal none], rfl⟩ exEvents

/-- not vacuous: one worker, task 7 queued, its AddTask finished; the execution attempts the worker's ten
    steps (kill check, pop, return, …, Wait) and then rests in a state without enabled internal event: it is
    fair, makes no call, and the pop is taken at tick 1 -/
example : ∃ (X : Exec) (N : Nat), X.Fair ∧ X.CallsStopAt N ∧ (X.C N).queue ≠ [] ∧ X.took isPop 1 := by
  refine ⟨exExec, 0, ?_, ?_, by decide, ⟨.pop 0 7, rfl, rfl, by decide⟩⟩
  · intro n hen
    rcases Nat.lt_or_ge n 10 with hlt | hge
    · -- before the list is exhausted: the event of this tick is internal and succeeds
      refine ⟨n, Nat.le_refl n, ?_⟩
      have : n = 0 ∨ n = 1 ∨ n = 2 ∨ n = 3 ∨ n = 4 ∨ n = 5 ∨ n = 6 ∨ n = 7 ∨ n = 8 ∨ n = 9 := by omega
      rcases this with h | h | h | h | h | h | h | h | h | h <;> subst h <;>
        exact ⟨_, rfl, rfl, by decide⟩
    · -- afterwards the execution rests where nothing internal is enabled
      exfalso
      have hrest : exExec.C n = execC exStart exEvents 10 := execC_rest exStart exEvents n hge
      rw [hrest] at hen
      revert hen
      unfold enabledInternal
      decide
  · intro n _ e he
    rcases Nat.lt_or_ge n 10 with hlt | hge
    · have : n = 0 ∨ n = 1 ∨ n = 2 ∨ n = 3 ∨ n = 4 ∨ n = 5 ∨ n = 6 ∨ n = 7 ∨ n = 8 ∨ n = 9 := by omega
      rcases this with h | h | h | h | h | h | h | h | h | h <;> subst h <;>
        (simp [exExec, Exec.ofList, exEvents] at he; subst he; left; rfl)
    · have : exEvents[n]? = none := List.getElem?_eq_none hge
      simp [exExec, Exec.ofList, this] at he

/-- **FIFO: tasks are started in the order in which they were queued** (`DefaultTaskQueue`). In a run in
    which every pop takes the task at the head of the queue (`fifoFrom`; this is what the trace validator
    checks on every recorded pop of the real `DefaultTaskQueue`), the tasks started during the run, in order,
    followed by what is still queued, are exactly the tasks queued at the start followed by the tasks pushed
    during the run, in order. In particular the task at position `k` of the queue is the one taken by the
    `(k+1)`-th pop: with `fair_queued_task_started` (each next pop happens under fairness) EVERY queued task
    is started, not just some. (engine.TaskQueue is not FIFO: no such statement for it.) -/
theorem fifo_started_in_order {s s' : State} {es : List Event} (h : runFrom repaired s es = some s')
    (hf : fifoFrom s es) :
    s.queue ++ pushedOf es = poppedOf es ++ s'.queue ∧
    ∀ k t, s.queue[k]? = some t → k < (poppedOf es).length → (poppedOf es)[k]? = some t := by
  have heq := fifo_queue_eq h hf
  refine ⟨heq, ?_⟩
  intro k t hk hlen
  have h1 : (s.queue ++ pushedOf es)[k]? = some t := by
    have hlt : k < s.queue.length := by
      rcases Nat.lt_or_ge k s.queue.length with h' | h'
      · exact h'
      · simp [List.getElem?_eq_none h'] at hk
    rw [List.getElem?_append_left hlt]; exact hk
  rw [heq, List.getElem?_append_left hlen] at h1
  exact h1

/-- not vacuous: two queued tasks, a third pushed while the first runs; the pops take 1, 2, 3 in this order -/
example : ∃ s s', Reachable repaired s ∧ s.queue = [1, 2] ∧
    runFrom repaired s [.killPass 0, .pop 0 1, .aPush 3, .finish 0, .killPass 0, .pop 0 2, .finish 0, .killPass 0,
      .pop 0 3] = some s' ∧
    fifoFrom s [.killPass 0, .pop 0 1, .aPush 3, .finish 0, .killPass 0, .pop 0 2, .finish 0, .killPass 0, .pop 0 3] ∧
    poppedOf [.killPass 0, .pop 0 1, .aPush 3, .finish 0, .killPass 0, .pop 0 2, .finish 0, .killPass 0, .pop 0 3]
      = [1, 2, 3] := by
  refine ⟨_, _, ⟨[.swcSet 1, .aPush 1, .aPush 2], rfl⟩, by decide, rfl, ?_, by decide⟩
  simp [fifoFrom, step, repaired, State.goto, init, State.live, clive, cntOf, PC.cls]

/-- **Resizing converges.** No reachable state has a pending kill request (`workerKill > 0`) while
    every remaining worker is parked: as long as `workerKill > 0` and a worker has not been told to
    exit, a pool-internal step other than the return of a task is enabled, or every such worker is
    busy running a task (it takes the kill request when the task returns). Each `killExit` step
    decrements `workerKill` and removes one worker; `resize_target` gives the exact count. -/
theorem resize_converges {s : State} (h : Reachable repaired s) (hk : 0 < s.kill) :
    (∃ e ∈ internalEvents s, isFinish e = false ∧ (step repaired s e).isSome) ∨
      s.live = cntOf s.pcs .run := by
  rcases enabled_or_parked h with he | ⟨hp, hin⟩
  · exact Or.inl he
  · right
    have hinv := inv_reachable h
    have hlen := length_eq_sum s.pcs
    have hK := hinv.k (by simpa [abs] using hk)
    simp only [State.live, clive]
    simp only [asleep, abs, CState.inflight] at hK hin
    by_cases hwait : 0 < cntOf s.pcs .waiting
    · have := hK (by omega)
      omega
    · omega

/-- **A requested shrink is carried out after boundedly many pool-internal steps.** While
    `workerKill > 0`, along any sequence of pool-internal events in which no worker takes a kill request
    (`killExit`), the measure `cmuK` — per worker its remaining steps to the loop head, where it must take a
    request because `killPass` is disabled, plus the steps left of calls in flight — drops by at least one
    per event and `workerKill` stays as it is: such a sequence from `s` is at most `cmuK (abs s)` long.
    With `resize_converges` (it can always be continued unless every live worker is busy) and
    `resize_target` (exact arithmetic): under fairness the requested number of workers exits. -/
theorem kill_within_bound {s s' : State} {es : List Event} (hk : 0 < s.kill)
    (hes : ∀ e ∈ es, isInternal e = true ∧ isKillExit e = false)
    (h : runFrom repaired s es = some s') :
    es.length + cmuK (abs s') ≤ cmuK (abs s) ∧ s'.kill = s.kill := by
  induction es generalizing s with
  | nil => simp [runFrom, List.foldlM] at h; subst h; simp
  | cons e es ih =>
    simp only [runFrom, List.foldlM_cons] at h
    cases hs : step repaired s e with
    | none => simp [hs] at h
    | some s1 =>
      simp [hs] at h
      have he := hes e (by simp)
      have hstep := cmuK_step (sim_step hs) (by rw [internal_abs]; exact he.1)
        (by rw [isKillExit_abs]; exact he.2) (by simpa [abs] using hk)
      have hk1 : s1.kill = s.kill := by simpa [abs] using hstep.2
      have := ih (by omega) (fun e' he' => hes e' (by simp [he'])) h
      simp only [List.length_cons]
      omega

/-- not vacuous: two workers, one of them asked to leave, both still parked — four internal steps without a
    `killExit` (the locked broadcast, then the woken worker's way to the loop head) -/
example : ∃ s s', Reachable repaired s ∧ 0 < s.kill ∧
    runFrom repaired s [.swcLock, .swcBcast, .wRelock 0, .wUnlock 0, .unregIdle 0] = some s' ∧ s'.kill = 1 :=
  ⟨_, _, ⟨[.swcSet 2, .killPass 0, .popNone 0, .regIdle 0, .wLock 0, .readQ 0, .readKill 0, .wWait 0,
            .killPass 1, .popNone 1, .regIdle 1, .wLock 1, .readQ 1, .readKill 1, .wWait 1, .swcSet 1], rfl⟩,
    by decide, rfl, by decide⟩

example : ∃ s, Reachable repaired s ∧ 0 < s.kill ∧ 0 < s.live :=
  ⟨_, ⟨[.swcUp 2, .swcDown 0], rfl⟩, by decide, by decide⟩

/-- **WaitAll is sound.** If the pool has a worker and the exit condition of WaitAll's loop holds on
    its snapshot (all workers registered idle, queue size 0), then no task is queued and none is
    being run — in *any* state, since idle registration is a function of the worker's program point. -/
theorem waitall_sound {s : State} (hg : waitAllGuard s = true) (hw : 0 < s.workerCount) :
    s.queue = [] ∧ s.running = [] := by
  have hlen := length_eq_sum s.pcs
  simp only [State.workerCount] at hw
  simp [waitAllGuard, State.workerCount, State.idleCount, idleRegistered] at hg
  rcases hg with hg | ⟨hg, hq⟩
  · have := of_decide_eq_true hg
    omega
  · have := of_decide_eq_true hg
    exact ⟨hq, running_nil_of_count (by omega)⟩

/-- … hence every task added before WaitAll's final snapshot is finished. -/
theorem waitall_all_done {s : State} (h : Reachable repaired s) (hg : waitAllGuard s = true)
    (hw : 0 < s.workerCount) : s.done.Perm s.added := by
  have ⟨h1, h2⟩ := waitall_sound hg hw
  simpa [h1, h2] using task_multiset h

example : ∃ s, Reachable repaired s ∧ waitAllGuard s = true ∧ 0 < s.workerCount ∧ s.done = [7] :=
  ⟨_, ⟨[.swcUp 1, .aPush 7, .killPass 0, .pop 0 7, .finish 0, .killPass 0, .popNone 0, .regIdle 0], rfl⟩,
    by decide, by decide, by decide⟩

/-- **JoinAll drains.** When the exit condition of JoinAll's loop holds (no worker in workerMap, queue
    size 0) the queue is empty, nothing is running and every task ever added is finished. -/
theorem joinall_drains {v : Variant} {s : State} (h : Reachable v s) (hg : joinAllGuard s = true) :
    s.queue = [] ∧ s.workerCount = 0 ∧ s.running = [] ∧ s.done.Perm s.added := by
  have hlen := length_eq_sum s.pcs
  simp [joinAllGuard] at hg
  obtain ⟨hw, hq⟩ := hg
  have h1 : s.queue = [] := hq
  have h2 : s.running = [] := by
    simp only [State.workerCount] at hw
    exact running_nil_of_count (by omega)
  refine ⟨h1, hw, h2, ?_⟩
  simpa [h1, h2] using task_multiset h

example : ∃ s, Reachable repaired s ∧ joinAllGuard s = true ∧ s.done = [7] :=
  ⟨_, ⟨[.swcUp 1, .aPush 7, .killPass 0, .pop 0 7, .finish 0, .joinKill, .killPass 0, .popNone 0, .drainExit 0, .exit 0], rfl⟩,
    by decide, by decide⟩

/-- events that start another resize or JoinAll (they set the kill counter) -/
def isResize : Event → Bool
  | .swcSet _ | .swcUp _ | .swcDown _ | .joinKill => true
  | _ => false

theorem isResize_abs (s : State) (e : Event) : (absEvent s e).isResize = isResize e := by
  cases e with
  | readQ i =>
    simp only [absEvent, isResize]
    generalize s.pcs[i]? = o
    rcases o with _ | p
    · rfl
    · cases p <;> first | rfl | (rename_i b; cases b <;> rfl)
  | readKill i =>
    simp only [absEvent, isResize]
    generalize s.pcs[i]? = o
    rcases o with _ | p
    · rfl
    · cases p <;> first | rfl | (rename_i b; cases b <;> rfl)
  | _ => simp [absEvent, CEvent.isResize, isResize]

/-- **Resizing reaches the requested number** (SetWorkerCount after the resize-race repair,
    `swcSet c`: one critical section that computes the delta from `len(workerMap) - workerExiting`).
    From ANY state — in particular
    while an *earlier* resize is still being carried out, with kill requests pending or workers on
    their way out — after `SetWorkerCount(c)` every later state, as long as no further resize/JoinAll
    starts, provided the call left `workerKill ≥ 0` (always, except when it finds exactly `c` workers
    while a JoinAll is in progress: that JoinAll goes on), satisfies: workers not yet told to exit = `c` + kill requests still to be taken. So the
    kill counter never over- or under-shoots; when it has reached 0 exactly `c` workers are left, and
    once the exiting ones are gone `len(workerMap) = c`. -/
theorem resize_target {s s1 s' : State} {c : Nat} {es : List Event}
    (h1 : step repaired s (.swcSet c) = some s1) (hk : 0 ≤ s1.kill)
    (hes : ∀ e ∈ es, isResize e = false) (h : runFrom repaired s1 es = some s') :
    0 ≤ s'.kill ∧ (s'.live : Int) = c + s'.kill ∧
      (s'.kill = 0 → cntOf s'.pcs .exiting = 0 → s'.workerCount = c) := by
  have h0 : CResize c (abs s1) := cresize_set (sim_step h1) (by simpa [abs] using hk)
  suffices ∀ (es : List Event) (s1 : State), CResize c (abs s1) → (∀ e ∈ es, isResize e = false) →
      runFrom repaired s1 es = some s' → CResize c (abs s') by
    obtain ⟨hk, hl⟩ := this es s1 h0 hes h
    refine ⟨hk, hl, fun hk0 hex => ?_⟩
    have hlen := length_eq_sum s'.pcs
    have hl' : (clive (cntOf s'.pcs) : Int) = c := by simpa [abs, hk0] using hl
    simp only [clive] at hl'
    simp only [State.workerCount]
    omega
  intro es
  induction es with
  | nil => intro s1 h0 _ h; simp [runFrom, List.foldlM] at h; subst h; exact h0
  | cons e es ih =>
    intro s1 h0 hes h
    simp only [runFrom, List.foldlM_cons] at h
    cases hs : step repaired s1 e with
    | none => simp [hs] at h
    | some s2 =>
      simp [hs] at h
      have he : isResize e = false := hes e (by simp)
      exact ih s2 (cresize_step h0 (by rw [isResize_abs]; exact he) (sim_step hs))
        (fun e' he' => hes e' (by simp [he'])) h

/-- the resize race of the code before the repair, as a run of the model (over-approximated
    SetWorkerCount: `swcDown k` sets any workerKill): three workers, resize to 2 — one worker takes the
    kill request —, then resize to 1 with workerKill computed from the stale count 3: no worker is left.
    With `swcSet` the same interleaving leaves exactly one. -/
example : ∃ s, runFrom repaired init
    [.swcUp 3, .swcDown 0, .killExit 0, .swcDown 1, .killExit 1, .killExit 2] = some s ∧ s.live = 0 :=
  ⟨_, rfl, by decide⟩

example : ∃ s, runFrom repaired init
    [.swcSet 3, .swcSet 2, .killExit 0, .swcSet 1, .killExit 1] = some s ∧ s.live = 1 ∧ s.kill = 0 :=
  ⟨_, rfl, by decide, by decide⟩

/-- **The synchronisation skeleton of threadpool.go is the one the model's atomic steps assume**
    (facts re-extracted from the source on every run by `harness C09 -tool skeleton`, three-valued:
    only a REFUTED fact, value 0, breaks this obligation; 2 = not established is reported as a note and
    answered by a larger search). For the variant the theorems are about (`repaired`): AddTask signals
    under `L` after its Push; the idle task waits under `L` only after re-reading queue size and
    workerKill in that same section, inside an `if` on both; SetWorkerCount decides in one
    workerMapLock section from `len(workerMap) - workerExiting` and its first broadcast is under `L`;
    kill requests are taken and exits are counted under workerMapLock, the exit decision together with
    workerKill; workerMap / workerIdleMap are only touched under workerMapLock; lock nesting is acyclic
    (critical sections as atomic steps cannot deadlock). -/
theorem skeleton_matches_model :
    (repaired.signalLocked = true → Gen.C09.signalUnderL ≠ 0 ∧ Gen.C09.pushBeforeSignal ≠ 0) ∧
    (repaired.recheck = true → Gen.C09.waitUnderL ≠ 0 ∧ Gen.C09.recheckQueueUnderL ≠ 0 ∧
      Gen.C09.recheckKillUnderL ≠ 0 ∧ Gen.C09.waitGuardedByBoth ≠ 0) ∧
    Gen.C09.swcOneSection ≠ 0 ∧ Gen.C09.swcCountsExiting ≠ 0 ∧ Gen.C09.swcFirstBroadcastUnderL ≠ 0 ∧
    Gen.C09.killTakenUnderLock ≠ 0 ∧ Gen.C09.exitingCountedUnderLock ≠ 0 ∧
    Gen.C09.exitDecidedWithKillInOneSection ≠ 0 ∧ Gen.C09.workerMapsUnderLock ≠ 0 ∧
    Gen.C09.lockOrderAcyclic ≠ 0 ∧
    -- JoinAll re-asserts its request inside its loop (`joinKill` may recur: joinall_bound applies after the
    -- last overlapping SetWorkerCount); SetWorkerCount's polling loops look at workerKill
    Gen.C09.joinAllKeepsRequestUp ≠ 0 ∧ Gen.C09.swcLoopsYieldToJoinAll ≠ 0 ∧
    -- the worker's exit (`exit`: delete from workerMap, workerExiting--) is one section; WaitAll's snapshot is
    -- one section under both locks (waitall_sound is about that snapshot); JoinAll's loop broadcasts on every
    -- iteration (the "a parked worker is woken by the next iteration" disjunct of joinall_not_stuck)
    Gen.C09.exitAtomic ≠ 0 ∧ Gen.C09.waitAllSnapshotOneSection ≠ 0 ∧ Gen.C09.joinAllLoopBroadcasts ≠ 0 := by decide

/-- the reviewer's interleaving of JoinAll with two resizes: the worker that found the queue empty on the
    exit-when-drained path re-checks workerKill and stays — two workers, as requested -/
example : ∃ s, runFrom repaired init
    [.swcSet 1, .joinKill, .killPass 0, .swcSet 2, .popNone 0, .swcSet 2, .drainExit 0] = some s ∧
    s.live = 2 ∧ s.kill = 0 := ⟨_, rfl, by decide, by decide⟩

/-- **JoinAll: bounded work while its request stands.** While `workerKill = -1` and no new call starts
    (pool-internal events and JoinAll's own polling broadcasts only), every pool-internal event lowers
    the measure `cmuJ` (queued tasks × a full worker round + each worker's remaining steps to its exit)
    and a polling broadcast never raises it: at most `cmuJ (abs s)` internal events can happen at all.
    JoinAll re-asserts its request in every iteration of its loop (`joinKill`), so this applies again
    after the last overlapping SetWorkerCount. -/
theorem joinall_bound {s s' : State} {es : List Event} (hk : s.kill = -1)
    (hes : ∀ e ∈ es, isInternal e = true ∨ e = .bcast) (h : runFrom repaired s es = some s') :
    es.countP isInternal + cmuJ (abs s') ≤ cmuJ (abs s) ∧ s'.kill = -1 := by
  induction es generalizing s with
  | nil => simp [runFrom, List.foldlM] at h; subst h; simp [hk]
  | cons e es ih =>
    simp only [runFrom, List.foldlM_cons] at h
    cases hs : step repaired s e with
    | none => simp [hs] at h
    | some s1 =>
      simp [hs] at h
      rcases hes e (by simp) with hint | rfl
      · have hstep := cmuJ_step (sim_step hs) (by rw [internal_abs]; exact hint) (by simpa [abs] using hk)
        have hk1 : s1.kill = -1 := by simpa [abs] using hstep.2
        have := ih hk1 (fun e' he' => hes e' (by simp [he'])) h
        simp only [List.countP_cons, hint, if_true]
        omega
      · have hstep := cmuJ_bcast (sim_step hs)
        have hk1 : s1.kill = -1 := by
          have := hstep.2; simp [abs] at this; omega
        have := ih hk1 (fun e' he' => hes e' (by simp [he'])) h
        have hb : isInternal Event.bcast = false := rfl
        simp only [List.countP_cons, hb]
        simp
        omega

/-- **JoinAll is never stuck.** In a reachable state in which no pool-internal event is enabled (nothing
    runs, nothing is in flight) either JoinAll's exit condition holds, or some worker is parked in Wait —
    JoinAll's next loop iteration (request re-asserted, Broadcast) wakes it: progress, and by
    `joinall_bound` only boundedly often —, or the pool has no worker but queued tasks (outside the
    property: "while the pool has at least one worker"). With `joinall_bound`: under scheduler fairness
    and terminating tasks a JoinAll returns, also when SetWorkerCount calls overlap with it, as long as
    they stop arriving. -/
theorem joinall_not_stuck {s : State} (h : Reachable repaired s)
    (hst : ∀ e ∈ internalEvents s, step repaired s e = none) :
    joinAllGuard s = true ∨ 0 < cntOf s.pcs .waiting ∨ (s.workerCount = 0 ∧ s.queue ≠ []) := by
  have hrun : cntOf s.pcs .run = 0 := by
    rcases Nat.eq_zero_or_pos (cntOf s.pcs .run) with h0 | h0
    · exact h0
    · obtain ⟨e, he, hen⟩ := run_enabled h0
      rw [hst e he] at hen; simp at hen
  rcases enabled_or_parked h with ⟨e, he, _, hen⟩ | ⟨hp, _⟩
  · rw [hst e he] at hen; simp at hen
  · by_cases hw : 0 < cntOf s.pcs .waiting
    · exact Or.inr (Or.inl hw)
    · have hwc : s.workerCount = 0 := by simp only [State.workerCount]; omega
      cases hq : s.queue with
      | nil => left; simp [joinAllGuard, hwc, hq]
      | cons a l => right; right; exact ⟨hwc, by simp⟩

/-- the overlapping case is not vacuous: JoinAll, then a SetWorkerCount(2) that overwrites the request and
    starts workers, which go idle; nothing internal is enabled, the guard is false — the next iteration
    re-asserts and broadcasts -/
example : ∃ s, Reachable repaired s ∧ joinAllGuard s = false ∧ s.kill = 0 ∧ s.pcs = [.waiting, .waiting] ∧
    (∀ e ∈ internalEvents s, step repaired s e = none) :=
  ⟨_, ⟨[.joinKill, .swcSet 2, .killPass 0, .popNone 0, .regIdle 0, .wLock 0, .readQ 0, .readKill 0, .wWait 0,
        .killPass 1, .popNone 1, .regIdle 1, .wLock 1, .readQ 1, .readKill 1, .wWait 1], rfl⟩,
    by decide, by decide, by decide, by decide⟩

/-- the schedule that loses the wake-up: the worker finds the queue empty; AddTask runs to
    completion (its Signal finds nobody waiting); then the worker goes to sleep -/
def losing : List Event :=
  [.swcUp 1, .killPass 0, .popNone 0, .aPush 7, .aSignal none, .regIdle 0, .wLock 0, .wWait 0]

/-- **Negative witness** (protocol before df51b96: no predicate re-check, Signal without `L`): the
    state "task 7 queued, the only worker parked in Wait, nothing in flight" is reachable and no
    pool-internal step is enabled in it — `no_stuck_task` fails for that variant. -/
theorem lost_wakeup_reachable :
    ∃ s, runFrom pristine init losing = some s ∧ s.queue = [7] ∧ s.pcs = [.waiting] ∧ 0 < s.live ∧
      ∀ e ∈ internalEvents s, step pristine s e = none := by
  refine ⟨⟨[.waiting], [7], [7], [], 0, 0, 0, 0, 0⟩, by decide, rfl, rfl, by decide, by decide⟩

/-- (example, not a theorem about all schedules) the repaired protocol refuses THIS event list: AddTask
    cannot signal without `L` -/
example : runFrom repaired init losing = none := by decide

end Ecal.Props.C09
