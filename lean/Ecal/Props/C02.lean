
import Ecal.Lemmas.CascadeLive
import Ecal.Lemmas.CascadePool
import Ecal.Props.C09
import Ecal.Gen.C02
/-!
# C02 — waiting on an event returns after its whole cascade, with exactly its errors

All theorems are about `Ecal.Cascade.step` (the transition system of one root monitor,
`lean/Ecal/Model/Cascade.lean`) and hold in **every reachable state**: any fan-out, depth,
number of workers, rule lists, failure pattern, `failOnFirstError` setting and any
interleaving of workers, adding goroutine, pump and readers.

Several cascades in flight: `Ecal.Cascade.Conc` (`Model/CascadeShared.lean`) has ONE observer
table, ONE list of pending callbacks, ONE queue map and the shared workers; `conc_refines`
proves that each of its steps, read through `view r`, is a step of `Cascade.step` and leaves the
other roots' views alone; `conc_view_reachable` lifts every theorem below to each cascade.

The granularity of the events is tied to the Go text by the source facts `src_*` (regenerated
from the tree under test on every run) and by replaying hook-recorded traces.

"Eventually returns": `progress` / `conc_progress` (a step is enabled while work is outstanding
and a worker is free), `bounded_internal_runs` (engine runs are finite, ≤ `workLeft`),
`quiescent_complete`, composed in `wait_returns_partial` (full statement and the missing
fairness assumption in the comment there).
-/
namespace Ecal.Props.C02
open Ecal.Cascade

/-- `RootMonitor.unfinished` = number of created, not yet finished monitors. -/
theorem unfinished_counts {s : State} (h : Reachable s) :
    s.unfinished = s.mons.countP (fun m => !m.phase.finished) :=
  (inv_reachable h).count

/-- once the counter is zero no `newChild` is enabled any more. NOTE: this is the guard of `newChild`
    (a child is created only by an action executing under its — hence unfinished — parent monitor;
    `Task.Run` finishes the monitor after `ProcessEvent`: `src_finish_after_process_event`) combined
    with `unfinished_counts`. `NewChildMonitor` is a public method without such a guard in Go: a
    monitor reference used after its action returned is outside the model (stated assumption). -/
theorem no_child_after_zero {s : State} (h : Reachable s) (hz : s.unfinished = 0) (p : Nat) :
    step s (.newChild p) = none := by
  have hi := inv_reachable h
  simp only [step]
  split
  · rename_i m hm
    split
    · rename_i w r rest hph htodo
      have := (hi.unposted hm (by simp [unf, hph, Phase.finished])).1
      omega
    · rfl
  · rfl

example : ∃ s, Reachable s ∧ s.unfinished = 0 :=
  ⟨_, ⟨1, false, [.addEvent 0 false []], rfl⟩, by decide⟩

/-- The finished message is posted at most once; it is posted (or the poster is between unlock
    and `PostEvent`) exactly when every monitor is finished; then nothing is queued or running. -/
theorem posted_once {s : State} (h : Reachable s) :
    s.posted ≤ 1 ∧
    (s.postPending + s.posted = 1 ↔ ∀ m ∈ s.mons, m.phase.finished = true) ∧
    (s.posted = 1 → s.anyQueued = false ∧ ∀ m ∈ s.mons, ∀ w, m.phase ≠ .running w) := by
  have hi := inv_reachable h
  have hle := hi.post_le
  refine ⟨by omega, ⟨hi.all_finished, ?_⟩, ?_⟩
  · intro hall
    apply hi.post_iff.mpr
    rw [hi.count]
    apply List.countP_eq_zero.mpr
    intro m hm
    simp [unf, hall m hm]
  · intro hp
    have hall := hi.all_finished (by omega)
    refine ⟨anyQueued_false hall, ?_⟩
    intro m hm w hph
    have := hall m hm
    simp [hph, Phase.finished] at this

/-- the wait is released at most once (`wg.Done` twice would panic) and the finish handler runs at most once -/
theorem released_once {s : State} (h : Reachable s) : s.released ≤ 1 ∧ s.handlerCalls ≤ 1 := by
  have hi := inv_reachable h
  have hle := hi.post_le
  by_cases hp0 : s.posted = 0
  · have := hi.pre hp0
    omega
  · have := hi.post (by omega)
    constructor
    · have := this.1; split at this <;> omega
    · have := this.2; split at this <;> omega

/-- When `AddEventAndWait` can return (`waitReturns` enabled), every monitor of the cascade is
    finished and no action of the cascade is pending or executing: every rule action that was
    started has returned. -/
theorem wait_after_cascade {s : State} (h : Reachable s) (hw : (step s .waitReturns).isSome) :
    ∀ m ∈ s.mons, m.phase.finished = true ∧ m.todo = [] ∧ m.phase ≠ .queued ∧ ∀ w, m.phase ≠ .running w := by
  have hi := inv_reachable h
  have hle := hi.post_le
  have hrel : 0 < s.released := by
    simp only [step] at hw
    split at hw
    · rename_i hc; exact hc.1
    · simp at hw
  have hp1 : s.posted = 1 := by
    by_cases hp0 : s.posted = 0
    · have := (hi.pre hp0).2.2.2.1; omega
    · omega
  intro m hm
  have hf := hi.all_finished (by omega) m hm
  have hok := hi.mon_ok m hm
  cases hph : m.phase <;> simp [hph, Phase.finished, Mon.ok] at hf hok ⊢
  · exact hok.2.1
  · exact hok.1

example : ∃ s, Reachable s ∧ (step s .waitReturns).isSome :=
  ⟨_, ⟨1, false, [.register, .regHandler, .addEvent 0 true [7], .pop 0 0, .ruleReturns 0 true, .taskDone 0, .post,
    .observerRuns .wait], rfl⟩, by decide⟩

/-- the same after the return -/
theorem returned_after_cascade {s : State} (h : Reachable s) (hw : s.waitReturned = true) :
    ∀ m ∈ s.mons, m.phase.finished = true ∧ m.todo = [] := by
  have hi := inv_reachable h
  have hle := hi.post_le
  have hp1 : s.posted = 1 := by
    by_cases hp0 : s.posted = 0
    · have := (hi.pre hp0).2.2.2.2.2.1; simp [hw] at this
    · omega
  intro m hm
  have hf := hi.all_finished (by omega) m hm
  have hok := hi.mon_ok m hm
  cases hph : m.phase <;> simp [hph, Phase.finished, Mon.ok] at hf hok ⊢
  · exact hok.2.1
  · exact hok.1

/-- **progress**: a monitor that was handed to the processor is unfinished and some worker is
    not occupied by this cascade ⇒ an engine step is enabled (no stuck cascade). -/
theorem progress {s : State} {i : Nat} {m : Mon} (hm : s.mons[i]? = some m)
    (hu : m.phase.finished = false) (hh : m.phase ≠ .fresh)
    {w : Nat} (hw : w < s.workers) (hfree : s.workerFree w = true) :
    ∃ e, e.internal = true ∧ (step s e).isSome := by
  cases hph : m.phase with
  | fresh => exact absurd hph hh
  | done => simp [hph, Phase.finished] at hu
  | queued => exact ⟨.pop w i, rfl, by simp [step, hm, hph, hw, hfree]⟩
  | running w' => exact busy_enabled hm (w := w') (by simp [hph, Phase.worker])
  | failing w' => exact busy_enabled hm (w := w') (by simp [hph, Phase.worker])
  | errSet w' => exact busy_enabled hm (w := w') (by simp [hph, Phase.worker])
  | notifying w' => exact busy_enabled hm (w := w') (by simp [hph, Phase.worker])

example : ∃ s, Reachable s ∧ ∃ m, s.mons[0]? = some m ∧ m.phase.finished = false ∧ m.phase ≠ .fresh ∧
    s.workerFree 0 = true :=
  ⟨_, ⟨1, false, [.regHandler, .addEvent 0 true [7]], rfl⟩, by decide⟩

/-- In a state where no engine step is enabled (and the pool has at least one worker) every
    monitor that was handed to `AddEvent` is finished. -/
theorem all_handed_monitors_finish {s : State} (hw : 0 < s.workers)
    (hq : ∀ e, e.internal = true → step s e = none) :
    ∀ m ∈ s.mons, m.phase ≠ .fresh → m.phase.finished = true := by
  intro m hm hh
  obtain ⟨i, hi, hmi⟩ := List.mem_iff_getElem.mp hm
  have hget : s.mons[i]? = some m := by simp [List.getElem?_eq_getElem hi, hmi]
  cases hf : m.phase.finished with
  | true => rfl
  | false =>
    exfalso
    have key : ∃ e, e.internal = true ∧ (step s e).isSome := by
      cases hfree : s.workerFree 0 with
      | true => exact progress hget hf hh hw hfree
      | false =>
        simp only [State.workerFree, List.all_eq_false] at hfree
        obtain ⟨m', hm', hbusy⟩ := hfree
        obtain ⟨j, hj, hmj⟩ := List.mem_iff_getElem.mp hm'
        have hget' : s.mons[j]? = some m' := by simp [List.getElem?_eq_getElem hj, hmj]
        exact busy_enabled hget' (w := 0) (by simpa using hbusy)
    obtain ⟨e, he, hs⟩ := key
    rw [hq e he] at hs
    simp at hs

/-- … and in such a state the finished message has been posted and all its callbacks have run:
    a waiter has been released, a registered finish handler has run exactly once. -/
theorem quiescent_released {s : State} (h : Reachable s)
    (hq : ∀ e, e.internal = true → step s e = none)
    (hall : ∀ m ∈ s.mons, m.phase.finished = true) :
    s.posted = 1 ∧ (s.waiting = true → s.released = 1) ∧ (s.handlerReg = true → s.handlerCalls = 1) := by
  have hi := inv_reachable h
  have hsum := (posted_once h).2.1.mpr hall
  have hpp : s.postPending = 0 := by
    have := hq .post rfl
    simp only [step] at this
    split at this
    · assumption
    · simp at this
  have hdw : s.dWait = 0 := by
    have := hq (.observerRuns .wait) rfl
    simp only [step] at this
    split at this
    · assumption
    · simp at this
  have hdh : s.dHandler = 0 := by
    have := hq (.observerRuns .handler) rfl
    simp only [step] at this
    split at this
    · assumption
    · simp at this
  have hp1 : s.posted = 1 := by omega
  have := hi.post hp1
  refine ⟨hp1, ?_, ?_⟩
  · intro hw; simp [hw] at this; omega
  · intro hr; simp [hr] at this; omega


/-- non-vacuity of `all_handed_monitors_finish` / `quiescent_released`: a reachable quiescent state -/
example : ∃ s, Reachable s ∧ 0 < s.workers ∧ (∀ e, e.internal = true → step s e = none) ∧
    (∀ m ∈ s.mons, m.phase ≠ .fresh) ∧ s.waiting = true ∧ s.handlerReg = true :=
  ⟨sEnd, sEnd_reachable, by decide, sEnd_quiescent, by decide, rfl, rfl⟩

/-- `AddEvent` registers the finish-handler observer BEFORE the root's task can be taken by a
    worker: whenever the root monitor has been handed over with a triggering event, the observer is
    in place (the model's `addEvent 0 true` — `Activate` + `pool.AddTask` — is only enabled after
    `regHandler`; the order in the Go code is tied by the hook points `cascade.handler.registered`
    / `cascade.push` in every replayed trace). -/
theorem handler_registered_before_push {s : State} (h : Reachable s) {r : Mon}
    (hr : s.mons[0]? = some r) (hph : r.phase ≠ .fresh) (hsk : r.skipped = false) : s.handlerReg = true := by
  have hi := inv_reachable h
  cases hreg : s.handlerReg with
  | true => rfl
  | false =>
    rcases hi.hreg hreg r hr with h1 | h1
    · exact absurd h1 hph
    · rw [hsk] at h1; cases h1

/-- **finish notification**: the finished message is posted at most once and the finish handler runs
    at most once. For a root handed over with a TRIGGERING event: once no engine step is enabled and
    every monitor is finished, the handler has run exactly once. For a root event that does NOT
    trigger (`AddEvent` returns nil: the event is "skipped" / "discarded right away", engine.md) the
    handler runs ZERO times — no observer is registered on that path (processor.go, behind
    `IsTriggering`), although the monitor ends finished and the message is posted to nobody.
    DECLARED READING (props/C02.py assumptions): a discarded event starts no cascade, so "the
    cascade's finish notification fires exactly once" does not apply to it; read literally, the doc
    comment of `SetFinishHandler` ("called once this monitor has finished") would ask for a call. -/
theorem finish_notification_exactly_once {s : State} (h : Reachable s) :
    s.posted ≤ 1 ∧ s.handlerCalls ≤ 1 ∧
    (∀ r, s.mons[0]? = some r → r.phase ≠ .fresh →
      (r.skipped = false →
        (∀ e, e.internal = true → step s e = none) → (∀ m ∈ s.mons, m.phase.finished = true) →
          s.handlerCalls = 1) ∧
      (r.skipped = true → s.handlerCalls = 0)) := by
  have hi := inv_reachable h
  refine ⟨(posted_once h).1, (released_once h).2, ?_⟩
  intro r hr hph
  constructor
  · intro hsk hq hall
    exact (quiescent_released h hq hall).2.2 (handler_registered_before_push h hr hph hsk)
  · intro hsk
    have hreg : s.handlerReg = false := by
      cases hreg : s.handlerReg with
      | false => rfl
      | true => have := hi.hskip hreg r hr; rw [hsk] at this; cases this
    have hle := hi.post_le
    by_cases hp0 : s.posted = 0
    · exact (hi.pre hp0).2.2.2.2.1
    · have := (hi.post (by omega)).2
      simp [hreg] at this
      omega

/-- negative witness: with the observer registered AFTER `pool.AddTask` (`stepLate`, not the code)
    the cascade can end first; the state below is final (posted, nothing pending) with the handler
    registered and never called — the notification is lost. -/
theorem late_handler_registration_loses_notification :
    ∃ s, [Event.addEvent 0 true [1], .pop 0 0, .ruleReturns 0 true, .taskDone 0, .post,
          .observerRuns .queue, .regHandler].foldlM stepLate (init 1 false) = some s ∧
      s.posted = 1 ∧ s.postPending = 0 ∧ s.dHandler = 0 ∧ s.handlerReg = true ∧ s.handlerCalls = 0 ∧
      s.mons.all (fun m => m.phase.finished) = true :=
  ⟨_, rfl, by decide⟩

/-- when everything is finished but the waiter has not been released, the post or the wait
    callback is enabled -/
theorem release_progress {s : State} (h : Reachable s) (hw : s.waiting = true)
    (hall : ∀ m ∈ s.mons, m.phase.finished = true) (hrel : s.released = 0) :
    (step s .post).isSome ∨ (step s (.observerRuns .wait)).isSome := by
  have hi := inv_reachable h
  have hsum := (posted_once h).2.1.mpr hall
  by_cases hp0 : s.posted = 0
  · left
    have : s.postPending ≠ 0 := by omega
    simp [step, this]
  · right
    have := (hi.post (by omega)).1
    simp [hw] at this
    have : s.dWait ≠ 0 := by omega
    simp [step, this]

/-! ### errors -/

/-- **errors_exact**: when the wait can return (and ever after), `AllErrors()` is exactly: one entry
    per monitor (event) with at least one failed action, in monitor order, holding exactly the
    rules whose action returned an error — nothing lost, nothing duplicated, nothing invented.
    (`failed` is the history of `ruleReturns … false` events of that monitor.) -/
theorem errors_exact {s : State} (h : Reachable s) (hw : 0 < s.released) :
    allErrors s = expectedReport s := by
  have hi := inv_reachable h
  have hle := hi.post_le
  have hp1 : s.posted = 1 := by
    by_cases hp0 : s.posted = 0
    · have := (hi.pre hp0).2.2.2.1; omega
    · omega
  have hall := hi.all_finished (by omega)
  exact report_eq_expected s.mons 0 (fun m hm => ⟨hi.mon_ok m hm, hall m hm⟩)

example : ∃ s, Reachable s ∧ 0 < s.released ∧ allErrors s = [(0, some [8])] :=
  ⟨_, ⟨1, false, [.register, .regHandler, .addEvent 0 true [7, 8], .pop 0 0, .ruleReturns 0 true, .ruleReturns 0 false,
    .taskDone 0, .setErrors 0, .errFinish 0, .post, .observerRuns .wait], rfl⟩, by decide⟩

/-- `errors_exact` for the handler mode (`AddEvent` + `SetFinishHandler`): when the finish handler
    runs (and ever after) the report is exact as well -/
theorem errors_exact_at_handler {s : State} (h : Reachable s) (hw : 0 < s.handlerCalls) :
    allErrors s = expectedReport s ∧ ∀ m ∈ s.mons, m.phase.finished = true ∧ m.todo = [] := by
  have hi := inv_reachable h
  have hle := hi.post_le
  have hp1 : s.posted = 1 := by
    by_cases hp0 : s.posted = 0
    · have := (hi.pre hp0).2.2.2.2.1; omega
    · omega
  have hall := hi.all_finished (by omega)
  refine ⟨report_eq_expected s.mons 0 (fun m hm => ⟨hi.mon_ok m hm, hall m hm⟩), ?_⟩
  intro m hm
  have hf := hall m hm
  have hok := hi.mon_ok m hm
  cases hph : m.phase <;> simp [hph, Phase.finished, Mon.ok] at hf hok ⊢
  · exact hok.2.1
  · exact hok.1

/-- **allErrors_safe**: at *any* time (in particular from the root-monitor error observer of another
    task while a failing task is between `SetErrors` and `Finish`) every entry `AllErrors()` returns
    is a non-nil error object of a monitor whose action(s) really failed, holding exactly that
    monitor's failed rules. That the Go function has no failing branch (no asserting accessor) is
    the source fact `src_all_errors_never_asserts`; `Ecal.Cascade.allErrors` is total. -/
theorem allErrors_safe {s : State} (h : Reachable s) :
    ∀ k e, (k, e) ∈ allErrors s → ∃ m, s.mons[k]? = some m ∧ m.failed ≠ [] ∧ e = some m.failed := by
  intro k e hke
  have hi := inv_reachable h
  obtain ⟨m, h1, _, h3, h4⟩ := report_mem s.mons 0 k e hke
  refine ⟨m, by simpa using h1, ?_⟩
  have hok := hi.mon_ok m (mem_of_get? h1)
  cases hph : m.phase <;> simp [hph, Mon.ok, h3] at hok
  · exact ⟨hok.1, by rw [h4, hok.2.2]⟩
  · exact ⟨hok.1, by rw [h4, hok.2.2]⟩
  · exact ⟨hok.2.1, by rw [h4, hok.2.2]⟩

/-- negative witness: the `AllErrors` of the code before da28f66 (asserting that every monitor in
    the error map is finished) panics in a reachable state — two workers, one task between
    `SetErrors` and `Finish` while anybody (e.g. the error observer of the other task) asks. -/
theorem allErrors_asserting_unsafe :
    ∃ s, Reachable s ∧ allErrorsAsserting s = none :=
  ⟨_, ⟨2, false, [.regHandler, .addEvent 0 true [1], .pop 0 0, .newChild 0, .addEvent 1 true [2], .pop 1 1,
    .ruleReturns 1 false, .ruleReturns 0 false, .taskDone 0, .taskDone 1, .setErrors 0, .errFinish 0,
    .setErrors 1, .allErrors], rfl⟩, by decide⟩

/-- the assertion of the queue's observer ("Finished monitor left events behind") never fails -/
theorem no_leftover_panic {s : State} (h : Reachable s) : s.panicked = false :=
  (inv_reachable h).noPanic

/-! ### measure -/

/-- every engine step decreases the measure `workLeft`; `newChild`/`addEvent` (the actions' own
    code) are the only events that can increase it. So from any state only finitely many engine
    steps are possible between two steps of action code: with terminating actions and weak
    fairness the cascade ends. -/
theorem measure_decreases {s s' : State} {e : Event} (h : Reachable s) (he : e.internal = true)
    (hs : step s e = some s') : workLeft s' < workLeft s :=
  measure_decreases_lem h he hs

/-! ### liveness, composed -/

/-- engine steps create no monitor and hand none back: no fresh monitor appears -/
theorem internal_no_new_fresh {s s' : State} {e : Event} (he : e.internal = true) (hs : step s e = some s')
    (hnf : ∀ m ∈ s.mons, m.phase ≠ .fresh) : ∀ m ∈ s'.mons, m.phase ≠ .fresh := by
  have viaSet : ∀ {i : Nat} {x : Mon}, x.phase ≠ .fresh → ∀ m ∈ (s.setMon i x).mons, m.phase ≠ .fresh := by
    intro i x hx m hm
    rcases List.mem_or_eq_of_mem_set hm with hm | hm
    · exact hnf m hm
    · exact hm ▸ hx
  cases e with
  | register => simp [Event.internal] at he
  | regHandler => simp [Event.internal] at he
  | addEvent _ _ _ => simp [Event.internal] at he
  | newChild _ => simp [Event.internal] at he
  | waitReturns => simp [Event.internal] at he
  | allErrors => simp [Event.internal] at he
  | pop w i =>
    simp only [step] at hs
    split at hs
    · split at hs
      · split at hs
        · cases hs; exact viaSet (by simp)
        · cases hs
      · cases hs
    · cases hs
  | ruleReturns i ok =>
    simp only [step] at hs
    split at hs
    · split at hs
      · rename_i w r rest hph htodo
        cases hs; exact viaSet (by simp [hph])
      · cases hs
    · cases hs
  | taskDone i =>
    simp only [step] at hs
    split at hs
    · split at hs
      · split at hs
        · cases hs; exact viaSet (i := i) (by simp)
        · cases hs; exact viaSet (by simp)
      · cases hs
    · cases hs
  | setErrors i =>
    simp only [step] at hs
    split at hs
    · split at hs
      · cases hs; exact viaSet (by simp)
      all_goals cases hs
    · cases hs
  | errFinish i =>
    simp only [step] at hs
    split at hs
    · split at hs
      · cases hs; exact viaSet (i := i) (by simp)
      all_goals cases hs
    · cases hs
  | notified i =>
    simp only [step] at hs
    split at hs
    · split at hs
      · cases hs; exact viaSet (by simp)
      all_goals cases hs
    · cases hs
  | dropQueue =>
    simp only [step] at hs
    split at hs
    · cases hs; exact hnf
    · cases hs
  | post =>
    simp only [step] at hs
    split at hs
    · cases hs
    · cases hs; exact hnf
  | observerRuns o =>
    cases o <;> simp only [step] at hs <;> split at hs <;> first | (cases hs; done) | (cases hs; exact hnf)

/-- **bounded engine runs**: from a reachable state, every sequence of engine steps (pops, action
    returns, task ends, error handling, post, callbacks) that the transition system can perform
    has at most `workLeft s` elements. -/
theorem bounded_internal_runs {s s' : State} (h : Reachable s) (es : List Event)
    (hint : ∀ e ∈ es, e.internal = true) (hr : run s es = some s') :
    es.length + workLeft s' ≤ workLeft s ∧ Reachable s' := by
  induction es generalizing s with
  | nil => simp [run] at hr; subst hr; exact ⟨by simp, h⟩
  | cons e es ih =>
    simp only [run, List.foldlM_cons] at hr
    cases hstep : step s e with
    | none => simp [hstep] at hr
    | some s1 =>
      simp [hstep] at hr
      have hdec := measure_decreases h (hint e (by simp)) hstep
      have h1 := reachable_step h hstep
      have := ih h1 (fun e' he' => hint e' (by simp [he'])) hr
      exact ⟨by simp; omega, this.2⟩

/-- **quiescent ⇒ complete**: in a reachable state in which no engine step is enabled, with at
    least one worker and every created monitor handed to `AddEvent`: every monitor is finished, the
    message has been posted, a registered waiter has been released and can return (or has), a
    registered finish handler has run exactly once. -/
theorem quiescent_complete {s : State} (h : Reachable s) (hw : 0 < s.workers)
    (hq : ∀ e, e.internal = true → step s e = none) (hnf : ∀ m ∈ s.mons, m.phase ≠ .fresh) :
    (∀ m ∈ s.mons, m.phase.finished = true) ∧ s.posted = 1 ∧
    (s.waiting = true → s.released = 1 ∧ ((step s .waitReturns).isSome = true ∨ s.waitReturned = true)) ∧
    (s.handlerReg = true → s.handlerCalls = 1) := by
  have hall : ∀ m ∈ s.mons, m.phase.finished = true :=
    fun m hm => all_handed_monitors_finish hw hq m hm (hnf m hm)
  obtain ⟨hp, hrel, hh⟩ := quiescent_released h hq hall
  refine ⟨hall, hp, ?_, hh⟩
  intro hwt
  have hr := hrel hwt
  refine ⟨hr, ?_⟩
  cases hret : s.waitReturned with
  | true => right; rfl
  | false => left; simp [step, hr, hret]

/- `wait_returns_partial` is the single-cascade, finite-run form; the full liveness statement — every
   FAIR execution of the shared system in which the actions stop adding work reaches a state where
   every waiter is released — is `wait_returns_fair` below (fairness is a hypothesis there, not proved). -/
/-- every maximal run of engine steps from a state without fresh monitors is finite (≤ `workLeft`) and
    ends complete; see `wait_returns_fair` for the statement over fair infinite executions -/
theorem wait_returns_partial {s s' : State} (h : Reachable s) (hw : 0 < s.workers)
    (hnf : ∀ m ∈ s.mons, m.phase ≠ .fresh) (es : List Event)
    (hint : ∀ e ∈ es, e.internal = true) (hr : run s es = some s')
    (hmax : ∀ e, e.internal = true → step s' e = none) :
    es.length ≤ workLeft s ∧ (∀ m ∈ s'.mons, m.phase.finished = true) ∧ s'.posted = 1 ∧
    (s'.waiting = true → s'.released = 1 ∧ ((step s' .waitReturns).isSome = true ∨ s'.waitReturned = true)) ∧
    (s'.handlerReg = true → s'.handlerCalls = 1) := by
  obtain ⟨hb, hreach⟩ := bounded_internal_runs h es hint hr
  have hw' : 0 < s'.workers ∧ ∀ m ∈ s'.mons, m.phase ≠ .fresh := by
    clear hb hmax hreach
    induction es generalizing s with
    | nil => simp [run] at hr; subst hr; exact ⟨hw, hnf⟩
    | cons e es ih =>
      simp only [run, List.foldlM_cons] at hr
      cases hstep : step s e with
      | none => simp [hstep] at hr
      | some s1 =>
        simp [hstep] at hr
        have hnf1 := internal_no_new_fresh (hint e (by simp)) hstep hnf
        have hw1 : 0 < s1.workers := by
          have := workers_const hstep
          omega
        exact ih (reachable_step h hstep) hw1 hnf1 (fun e' he' => hint e' (by simp [he'])) hr
  obtain ⟨a, b, c, d⟩ := quiescent_complete hreach hw'.1 hmax hw'.2
  exact ⟨by omega, a, b, c, d⟩

/-- non-vacuity of `wait_returns_partial`: a maximal engine run from a state without fresh monitors -/
example : ∃ s es, Reachable s ∧ 0 < s.workers ∧ (∀ m ∈ s.mons, m.phase ≠ .fresh) ∧
    (∀ e ∈ es, e.internal = true) ∧ run s es = some sEnd ∧ ∀ e, e.internal = true → step sEnd e = none :=
  ⟨_, [.pop 0 0, .ruleReturns 0 false, .taskDone 0, .setErrors 0, .errFinish 0, .notified 0, .dropQueue, .post,
       .observerRuns .wait, .observerRuns .handler, .observerRuns .queue],
   ⟨1, false, [.register, .regHandler, .addEvent 0 true [7]], rfl⟩, by decide, by decide, by decide, by decide,
   sEnd_quiescent⟩

/-! ### `failed` is the history of failing actions -/

/-- Every step changes the `failed` list of every existing monitor exactly by `failedDelta`: it is
    the list of the rules whose action returned an error under that monitor, in order, and nothing
    else ever writes to it (new monitors start with the empty list). Together with `errors_exact`:
    the report at the return of the wait is exactly the failed (event, rule) pairs. -/
theorem failed_is_history {s s' : State} {e : Event} (hs : step s e = some s') {i : Nat} {m : Mon}
    (hm : s.mons[i]? = some m) :
    ∃ m', s'.mons[i]? = some m' ∧ m'.failed = m.failed ++ failedDelta e i m := by
  have same : ∀ {t : State}, t.mons = s.mons → ∃ m', t.mons[i]? = some m' ∧ m'.failed = m.failed ++ [] :=
    fun ht => ⟨m, by rw [ht]; exact hm, by simp⟩
  have viaSet : ∀ {j : Nat} {mj x : Mon}, s.mons[j]? = some mj → x.failed = mj.failed →
      ∃ m', (s.setMon j x).mons[i]? = some m' ∧ m'.failed = m.failed ++ [] := by
    intro j mj x hj hx
    have := hist_setMon (i := i) (m := m) [] hm hj (by simpa using hx)
    simpa using this
  cases e with
  | register =>
    simp only [step] at hs
    split at hs; · cases hs
    split at hs
    · split at hs
      · cases hs; exact same rfl
      · cases hs
    · cases hs
  | regHandler =>
    simp only [step] at hs
    split at hs; · cases hs
    split at hs
    · split at hs
      · cases hs; exact same rfl
      · cases hs
    · cases hs
  | addEvent j trig rules =>
    simp only [step] at hs
    split at hs
    · rename_i mj hj
      split at hs
      · split at hs
        · split at hs
          · cases hs; exact viaSet hj rfl
          · cases hs
        · split at hs
          · cases hs
          · cases hs; exact viaSet hj rfl
      all_goals cases hs
    · cases hs
  | newChild p =>
    simp only [step] at hs
    split at hs
    · split at hs
      · cases hs
        obtain ⟨hl, _⟩ := getElem_of_get? hm
        refine ⟨m, ?_, by simp [failedDelta]⟩
        show (s.mons ++ _)[i]? = some m
        rw [List.getElem?_append_left hl]
        exact hm
      · cases hs
    · cases hs
  | pop w j =>
    simp only [step] at hs
    split at hs
    · split at hs
      · rename_i mj hj
        split at hs
        · cases hs; exact viaSet hj rfl
        · cases hs
      · cases hs
    · cases hs
  | ruleReturns j ok =>
    simp only [step] at hs
    split at hs
    · rename_i mj hj
      split at hs
      · rename_i w r rest hph htodo
        cases hs
        cases ok with
        | true =>
          have := viaSet (x := { mj with todo := (if !true && s.failFirst then [] else rest), failed := (if true then mj.failed else mj.failed ++ [r]) }) hj (by simp)
          simpa [failedDelta] using this
        | false =>
          have := hist_setMon (i := i) (m := m) (x := { mj with todo := (if !false && s.failFirst then [] else rest), failed := (if false then mj.failed else mj.failed ++ [r]) }) [r] hm hj (by simp)
          obtain ⟨m', h1, h2⟩ := this
          refine ⟨m', h1, ?_⟩
          rw [h2]
          simp only [failedDelta]
          by_cases hji : j = i
          · subst hji
            rw [hm] at hj
            cases hj
            simp [htodo]
          · simp [hji]
      · cases hs
    · cases hs
  | taskDone j =>
    simp only [step] at hs
    split at hs
    · rename_i mj hj
      split at hs
      · split at hs
        · cases hs; exact viaSet hj rfl
        · cases hs; exact viaSet hj rfl
      · cases hs
    · cases hs
  | setErrors j =>
    simp only [step] at hs
    split at hs
    · rename_i mj hj
      split at hs
      · cases hs; exact viaSet hj rfl
      all_goals cases hs
    · cases hs
  | errFinish j =>
    simp only [step] at hs
    split at hs
    · rename_i mj hj
      split at hs
      · cases hs; exact viaSet hj rfl
      all_goals cases hs
    · cases hs
  | notified j =>
    simp only [step] at hs
    split at hs
    · rename_i mj hj
      split at hs
      · cases hs; exact viaSet hj rfl
      all_goals cases hs
    · cases hs
  | dropQueue =>
    simp only [step] at hs
    split at hs
    · cases hs; exact same rfl
    · cases hs
  | post =>
    simp only [step] at hs
    split at hs
    · cases hs
    · cases hs; exact same rfl
  | observerRuns o =>
    cases o <;> simp only [step] at hs <;> split at hs <;> first | cases hs; done | (cases hs; exact same rfl)
  | waitReturns =>
    simp only [step] at hs
    split at hs
    · cases hs; exact same rfl
    · cases hs
  | allErrors =>
    simp only [step] at hs
    cases hs; exact same rfl

/-! ### source facts (regenerated from the tree under test on every run: `lean/Ecal/Gen/C02.lean`)

What ties the granularity of the model's events to the Go text. Each fact is computed by the go/ast
extractor `harness C02 -tool facts`: traces of the functions with same-package helpers inlined under
the caller's lock state, the lock identified as the mutex field of the struct that owns the data
(whatever its name). Three-valued: `some true`, `some false` (REFUTED), `none` (not established).
Only a refuted fact breaks an obligation: every theorem says `≠ some false`; a `none` is an
evidence note and amplifies the search of the run (props/C02.py). -/

def srcFact (n : String) : Option Bool := (Ecal.Gen.C02.facts.find? (·.1 == n)).bind (·.2)

/-- every read of `unfinished` (the zero test) happens with the root monitor's mutex held -/
theorem src_zero_test_inside_critical_section : srcFact "zeroTestInsideCriticalSection" ≠ some false := by decide
/-- no `Unlock` of that mutex between a decrement/increment of `unfinished` and the read that follows
    it on the same path: the zero test belongs to the critical section of ITS decrement (`finishOne` is one event) -/
theorem src_zero_test_in_section_of_decrement : srcFact "zeroTestInCriticalSectionOfTheDecrement" ≠ some false := by decide
/-- `PostEvent` is called with the mutex released (`post` is a separate event) -/
theorem src_post_outside_critical_section : srcFact "postOutsideCriticalSection" ≠ some false := by decide
/-- every write of `unfinished`, `errors`, `incomplete` (after construction) happens under the mutex -/
theorem src_counter_writes_under_lock : srcFact "counterWritesUnderLock" ≠ some false := by decide
/-- `SetErrors`: the error object is attached before the monitor enters `RootMonitor.errors`
    (`setErrors` is one event; `allErrors_safe` has no nil entry) -/
theorem src_error_attached_before_registered : srcFact "errorAttachedBeforeRegistered" ≠ some false := by decide
/-- `Finish`: `finished = true` before the counter is decremented -/
theorem src_finished_flag_before_count : srcFact "finishedFlagBeforeCount" ≠ some false := by decide
/-- `Task.Run`: no monitor is declared finished before `ProcessEvent` returned (guard of `newChild`) -/
theorem src_finish_after_process_event : srcFact "finishAfterProcessEvent" ≠ some false := by decide
/-- `Task.HandleError`: error attached, monitor finished, error observer — in this order -/
theorem src_handle_error_order : srcFact "handleErrorOrder" ≠ some false := by decide
/-- `AddEventAndWait`: an observer is registered (outside `AddEvent`) before `AddEvent` is called (`register` needs a fresh root) -/
theorem src_wait_observer_before_add_event : srcFact "waitObserverBeforeAddEvent" ≠ some false := by decide
/-- `AddEventAndWait` waits unconditionally: no `select` with several cases, no timer/context on its
    path (`waitReturns` needs `released > 0`; a time-out would let it return earlier) -/
theorem src_wait_is_unconditional : srcFact "waitIsUnconditional" ≠ some false := by decide
/-- `AddEvent`: the finish-handler observer is registered before `pool.AddTask` (`regHandler` before `addEvent 0 true`) -/
theorem src_handler_observer_before_add_task : srcFact "handlerObserverBeforeAddTask" ≠ some false := by decide
/-- `newMonID`: counter read and incremented in one critical section, or by one atomic add (monitor ids are distinct) -/
theorem src_monitor_id_alloc_in_critical_section : srcFact "monitorIdAllocInCriticalSection" ≠ some false := by decide
/-- `AllErrors` reads the error map under the mutex -/
theorem src_all_errors_under_lock : srcFact "allErrorsUnderLock" ≠ some false := by decide
/-- the call tree of `AllErrors` inside package engine (helpers inlined, whatever they are called)
    contains no assertion / panic: the Go function has no failing branch, as `Ecal.Cascade.allErrors` (da28f66) -/
theorem src_all_errors_never_asserts : srcFact "allErrorsNeverAsserts" ≠ some false := by decide
/-- `EventPump.PostEvent` calls only callbacks registered for the posting source (or for all sources) -/
theorem src_post_filters_by_source : srcFact "postFiltersBySource" ≠ some false := by decide

/-! ### several cascades in flight -/

/-! ### the shared observer table, pending callbacks and queue map (`Ecal.Cascade.Conc`) -/

/-- **projection**: a step of cascade `r` in the system with ONE shared observer table, ONE list of
    pending callbacks and ONE queue map (global append / filter-by-key / erase, `PostEvent` keeping
    the callbacks of the posting source) is — read through `view r` — exactly a step of
    `Cascade.step`, and the view of every other root is unchanged. -/
theorem conc_refines {C C' : Conc} {r : Nat} {e : Event} (hs : Conc.step C r e = some C') :
    ∃ v v', C.view r = some v ∧ step v e = some v' ∧ C'.view r = some v' ∧
      ∀ r', r' ≠ r → C'.view r' = C.view r' :=
  conc_refines_lem hs

/-- every root of a reachable shared system, read through `view`, is a reachable state of the
    single-cascade transition system — so every theorem of this file holds for each of several
    cascades in flight on one processor with its shared pump, queue and pool -/
theorem conc_view_reachable {C : Conc} (h : C.Reachable) {r : Nat} {v : State} (hv : C.view r = some v) :
    Reachable v :=
  conc_view_reachable_lem h hv

/-- `errors_exact` + `wait_after_cascade` for a cascade running beside others on the shared pump.
    NOTE: that the report holds nothing of ANOTHER cascade is by construction here (the error map is
    root-local in the model as `RootMonitor.errors` is in Go); what could leak in Go — a task run
    with another root's monitor, colliding monitor ids — is covered by the fact
    `src_monitor_id_alloc_in_critical_section` and TESTED by the harness field `foreign=`. -/
theorem conc_errors_exact {C : Conc} (h : C.Reachable) {r : Nat} {v : State} (hv : C.view r = some v)
    (hw : 0 < v.released) :
    allErrors v = expectedReport v ∧ ∀ m ∈ v.mons, m.phase.finished = true ∧ m.todo = [] := by
  have hreach := conc_view_reachable h hv
  refine ⟨errors_exact hreach hw, ?_⟩
  cases hret : v.waitReturned with
  | true => exact returned_after_cascade hreach hret
  | false =>
    intro m hm
    have := wait_after_cascade hreach (by simp [step, hw, hret]) m hm
    exact ⟨this.1, this.2.1⟩

/-- progress in the shared system: a handed, unfinished monitor of some cascade and a worker that is
    free in EVERY cascade ⇒ an engine step of that cascade is enabled in `Conc` -/
theorem conc_progress {C : Conc} {r i w : Nat} {v : State} {m : Mon} (hv : C.view r = some v)
    (hm : v.mons[i]? = some m) (hu : m.phase.finished = false) (hh : m.phase ≠ .fresh)
    (hw : w < v.workers) (hfree : C.workerFree w = true) :
    ∃ e, e.internal = true ∧ (C.step r e).isSome = true := by
  have hv2 := hv
  rw [view_eq] at hv2
  obtain ⟨s0, hs0, hs0v⟩ := Option.map_eq_some_iff.mp hv2
  have hfree' : v.workerFree w = true := by
    simp only [Conc.workerFree, List.all_eq_true] at hfree
    have := hfree s0 (List.mem_of_getElem? hs0)
    rw [← hs0v]; exact this
  have lift : ∀ e, C.allows e = true → (step v e).isSome = true → (C.step r e).isSome = true := by
    intro e ha hs
    cases hse : step v e with
    | none => simp [hse] at hs
    | some v' => simp [Conc.step, hv, ha, hse]
  cases hph : m.phase with
  | fresh => exact absurd hph hh
  | done => simp [hph, Phase.finished] at hu
  | queued =>
    exact ⟨.pop w i, rfl, lift _ (by simp [Conc.allows, hfree]) (by simp [step, hm, hph, hw, hfree'])⟩
  | running w' =>
    obtain ⟨e, hi, hnp, hs⟩ := busy_step hm (w := w') (by simp [hph, Phase.worker])
    exact ⟨e, hi, lift e (by cases e <;> simp_all [Conc.allows, Event.isPop]) hs⟩
  | failing w' =>
    obtain ⟨e, hi, hnp, hs⟩ := busy_step hm (w := w') (by simp [hph, Phase.worker])
    exact ⟨e, hi, lift e (by cases e <;> simp_all [Conc.allows, Event.isPop]) hs⟩
  | errSet w' =>
    obtain ⟨e, hi, hnp, hs⟩ := busy_step hm (w := w') (by simp [hph, Phase.worker])
    exact ⟨e, hi, lift e (by cases e <;> simp_all [Conc.allows, Event.isPop]) hs⟩
  | notifying w' =>
    obtain ⟨e, hi, hnp, hs⟩ := busy_step hm (w := w') (by simp [hph, Phase.worker])
    exact ⟨e, hi, lift e (by cases e <;> simp_all [Conc.allows, Event.isPop]) hs⟩

/-- a worker occupied in one cascade cannot take a task of another -/
example : Conc.run (Conc.init 1 false) [.newRoot, .newRoot, .at 0 .regHandler, .at 0 (.addEvent 0 true [1]),
    .at 1 .regHandler, .at 1 (.addEvent 0 true [2]), .at 0 (.pop 0 0), .at 1 (.pop 0 0)] = none := by decide

/-! ### liveness under fairness (`Exec`, `Exec.Fair`, `Exec.AddsStopAt` in `Model/CascadeShared.lean`) -/

/-- **every fair run reaches quiescence**: in an execution of the shared system (any number of
    cascades, any interleaving, disabled attempts stutter) that starts in a reachable state, is fair
    (`Exec.Fair`: whenever an engine step is enabled an engine step is eventually taken — the
    assumption about the Go scheduler and the pool) and in which the program stops adding work at
    some tick `N` (`Exec.AddsStopAt`: the actions have made all their `NewChildMonitor`/`AddEvent`
    calls), there is a tick `n ≥ N` at which no engine step of any cascade is enabled. -/
theorem fair_run_reaches_quiescence (X : Exec) (hf : X.Fair) {N : Nat} (ha : X.AddsStopAt N) :
    ∃ n, N ≤ n ∧ ¬ (X.C n).enabledInternal :=
  fair_quiescence X hf ha

/-- quiescence of the shared system is completion of every cascade whose monitors have all been
    handed to `AddEvent` (pool with at least one worker): all its monitors finished, message posted,
    a registered waiter released with `waitReturns` enabled (or already returned), a registered
    finish handler run exactly once, its error report exact -/
theorem conc_quiescent_complete {C : Conc} (h : C.Reachable) (hq : ¬ C.enabledInternal) {r : Nat} {v : State}
    (hv : C.view r = some v) (hw : 0 < v.workers) (hnf : ∀ m ∈ v.mons, m.phase ≠ .fresh) :
    (∀ m ∈ v.mons, m.phase.finished = true) ∧ v.posted = 1 ∧
    (v.waiting = true → v.released = 1 ∧ ((step v .waitReturns).isSome = true ∨ v.waitReturned = true) ∧
       allErrors v = expectedReport v) ∧
    (v.handlerReg = true → v.handlerCalls = 1) := by
  have hreach := conc_view_reachable h hv
  obtain ⟨a, b, c, d⟩ := quiescent_complete hreach hw (conc_quiescent_view hq hv) hnf
  refine ⟨a, b, ?_, d⟩
  intro hwt
  obtain ⟨c1, c2⟩ := c hwt
  exact ⟨c1, c2, errors_exact hreach (by omega)⟩

/-- **the wait returns** (the liveness clause of the property, under the stated assumptions): in a
    fair execution in which the program stops adding work at tick `N`, and from then on every
    created monitor has been handed to `AddEvent` and the pool has a worker, there is a tick at which
    EVERY cascade is complete: every monitor finished, every registered waiter released (`wg.Wait`
    can return) with an exact error report, every registered finish handler run exactly once.
    ASSUMPTIONS, all explicit hypotheses: `Exec.Fair` (Go scheduler + pool liveness, C09),
    `Exec.AddsStopAt` (terminating actions), all monitors handed over, ≥ 1 worker; the model is
    sequentially consistent. A nested wait inside an action is an action that does not "stop adding"
    until the nested cascade ends; with too few workers `Exec.Fair` cannot be met (deadlock). -/
theorem wait_returns_fair (X : Exec) (hf : X.Fair) {N : Nat} (ha : X.AddsStopAt N)
    (hh : ∀ n, N ≤ n → ∀ r v, (X.C n).view r = some v → 0 < v.workers ∧ ∀ m ∈ v.mons, m.phase ≠ .fresh) :
    ∃ n, N ≤ n ∧ ∀ r v, (X.C n).view r = some v →
      (∀ m ∈ v.mons, m.phase.finished = true) ∧ v.posted = 1 ∧
      (v.waiting = true → v.released = 1 ∧ ((step v .waitReturns).isSome = true ∨ v.waitReturned = true) ∧
         allErrors v = expectedReport v) ∧
      (v.handlerReg = true → v.handlerCalls = 1) := by
  obtain ⟨n, hn, hq⟩ := fair_run_reaches_quiescence X hf ha
  refine ⟨n, hn, ?_⟩
  intro r v hv
  obtain ⟨hw, hnf⟩ := hh n hn r v hv
  exact conc_quiescent_complete (exec_reachable X n) hq hv hw hnf

/-- every created monitor of every cascade has been handed to `AddEvent`, and the pool has a worker -/
def _root_.Ecal.Cascade.Conc.allHanded (C : Conc) : Prop :=
  ∀ r v, C.view r = some v → 0 < v.workers ∧ ∀ m ∈ v.mons, m.phase ≠ .fresh

/-- an event that adds no work keeps "all monitors handed over": engine steps create no monitor and
    hand none back, `waitReturns`/`allErrors` do not touch the monitors -/
theorem allHanded_step {C C' : Conc} {e : ConcEvent} (h : C.allHanded) (hadd : e.adds = false)
    (hs : Conc.stepE C e = some C') : C'.allHanded := by
  cases e with
  | newRoot => simp [ConcEvent.adds] at hadd
  | «at» r e0 =>
    simp only [Conc.stepE] at hs
    obtain ⟨v, v', hv, hstep, hv', hoth⟩ := conc_refines hs
    intro r' w hw
    by_cases hr : r' = r
    · subst hr
      rw [hv'] at hw
      cases hw
      obtain ⟨hwk, hnf⟩ := h r' v hv
      refine ⟨by rw [workers_const hstep]; exact hwk, ?_⟩
      cases hint : e0.internal with
      | true => exact internal_no_new_fresh hint hstep hnf
      | false =>
        cases e0 with
        | waitReturns =>
          simp only [step] at hstep
          split at hstep
          · cases hstep; exact hnf
          · cases hstep
        | allErrors => simp only [step] at hstep; cases hstep; exact hnf
        | register => simp [ConcEvent.adds] at hadd
        | regHandler => simp [ConcEvent.adds] at hadd
        | addEvent _ _ _ => simp [ConcEvent.adds] at hadd
        | newChild _ => simp [ConcEvent.adds] at hadd
        | pop _ _ => simp [Event.internal] at hint
        | ruleReturns _ _ => simp [Event.internal] at hint
        | taskDone _ => simp [Event.internal] at hint
        | setErrors _ => simp [Event.internal] at hint
        | errFinish _ => simp [Event.internal] at hint
        | notified _ => simp [Event.internal] at hint
        | dropQueue => simp [Event.internal] at hint
        | post => simp [Event.internal] at hint
        | observerRuns _ => simp [Event.internal] at hint
    · rw [hoth r' hr] at hw
      exact h r' w hw

/-- once the program has stopped adding work and every monitor is handed over, it stays so -/
theorem handed_stays_handed (X : Exec) {N : Nat} (ha : X.AddsStopAt N) (hN : (X.C N).allHanded) :
    ∀ n, N ≤ n → (X.C n).allHanded := by
  intro n hn
  obtain ⟨d, rfl⟩ := Nat.exists_eq_add_of_le hn
  induction d with
  | zero => simpa using hN
  | succ d ih =>
    have hprev := ih (by omega)
    have hnext := X.next (N + d)
    rw [show N + (d + 1) = N + d + 1 by omega, hnext]
    cases he : X.ev (N + d) with
    | none => simpa using hprev
    | some e =>
      simp only
      cases hs : Conc.stepE (X.C (N + d)) e with
      | none => simpa using hprev
      | some C' =>
        simp only [Option.getD_some]
        exact allHanded_step hprev (ha (N + d) (by omega) e he) hs

/-- **the wait returns** — `wait_returns_fair` with the hand-over hypothesis needed only AT the tick `N`
    at which the additions stop (it is an invariant from then on, `handed_stays_handed`): a fair
    execution in which the program stops adding work at `N` with every monitor handed over reaches a
    tick at which every cascade is complete, every waiter released with an exact report, every
    registered finish handler run once. -/
theorem wait_returns_fair_from (X : Exec) (hf : X.Fair) {N : Nat} (ha : X.AddsStopAt N) (hN : (X.C N).allHanded) :
    ∃ n, N ≤ n ∧ ∀ r v, (X.C n).view r = some v →
      (∀ m ∈ v.mons, m.phase.finished = true) ∧ v.posted = 1 ∧
      (v.waiting = true → v.released = 1 ∧ ((step v .waitReturns).isSome = true ∨ v.waitReturned = true) ∧
         allErrors v = expectedReport v) ∧
      (v.handlerReg = true → v.handlerCalls = 1) :=
  wait_returns_fair X hf ha (fun n hn r v hv => handed_stays_handed X ha hN n hn r v hv)

/-- **where the fairness hypothesis comes from — interface to C09.** Fairness from tick `N` on
    (`Exec.FairFrom`) follows from two separate assumptions:
    * `Exec.SchedFairFrom N` — the Go scheduler: an enabled engine step other than a pop (a worker
      inside a task, the poster, a pending callback) is eventually followed by an engine step (F1 in
      the header of `Ecal.Props.C09`; assumed);
    * `Exec.PoolStartsFrom N` — the pool: whenever a task is queued, later a worker pops a task or a
      worker is inside a task. THIS is what C09 proves about the repaired pool, stated on C09's own
      transition system (`Ecal.Pool`): `Ecal.Props.C09.no_stuck_task` (a queued task with a live
      worker: a pool-internal non-finish step is enabled, or every live worker runs a task — the
      second disjunct is `taskRunning`) and `Ecal.Props.C09.pop_within_bound` (pool-internal steps
      without a pop strictly decrease `cmu`: the pop comes after boundedly many of them), combined in
      `Ecal.Props.C09.fair_queued_task_started` (under C09's `Exec.Fair`, with no new call from `N` on —
      C02's `AddsStopAt N` implies that no `AddTask` is made —, a queued task is popped or the pool has
      lost all its workers; ≥ 1 worker is C02's standing assumption).
    NOT proved: the refinement between the two models (C09's `queue`/`pcs = .run` ↔ this model's
    `queued` monitors / phases with a worker; C09's pool-internal steps between two pops are
    invisible here). The theorem below is therefore the exact interface, with the pool side as a
    hypothesis in this model's vocabulary, not a derivation from `Ecal.Pool`. -/
theorem fairFrom_of_scheduler_and_pool {X : Exec} {N : Nat} (hs : X.SchedFairFrom N) (hp : X.PoolStartsFrom N) :
    X.FairFrom N :=
  fairFrom_of_parts hs hp

/-- **the wait returns, from the two sources of fairness**: scheduler fairness for the non-pop engine
    steps + the pool starting queued tasks (both from tick `N` on), the program adding no work after
    `N`, every monitor handed over at `N` ⇒ a tick is reached at which every cascade is complete, every
    waiter released with an exact report, every registered handler run once. (The liveness proof only
    ever uses fairness from `N` on: `fair_quiescence_from`.) -/
theorem wait_returns_scheduler_and_pool (X : Exec) {N : Nat} (hs : X.SchedFairFrom N) (hp : X.PoolStartsFrom N)
    (ha : X.AddsStopAt N) (hN : (X.C N).allHanded) :
    ∃ n, N ≤ n ∧ ∀ r v, (X.C n).view r = some v →
      (∀ m ∈ v.mons, m.phase.finished = true) ∧ v.posted = 1 ∧
      (v.waiting = true → v.released = 1 ∧ ((step v .waitReturns).isSome = true ∨ v.waitReturned = true) ∧
         allErrors v = expectedReport v) ∧
      (v.handlerReg = true → v.handlerCalls = 1) := by
  obtain ⟨n, hn, hq⟩ := fair_quiescence_from X (fairFrom_of_scheduler_and_pool hs hp) ha
  refine ⟨n, hn, ?_⟩
  intro r v hv
  obtain ⟨hw, hnf⟩ := handed_stays_handed X ha hN n hn r v hv
  exact conc_quiescent_complete (exec_reachable X n) hq hv hw hnf

/-- non-vacuity: the witness execution `wExec` satisfies both parts from tick 9 on (it is fair, so
    every enabled step — pop or not — is followed by the engine step of the last tick; a queued task
    is followed by a pop: ticks 9 and 13 pop the two children) -/
example : wExec.SchedFairFrom 9 ∧ wExec.PoolStartsFrom 9 ∧ wExec.AddsStopAt 9 ∧ (wExec.C 9).allHanded := by
  refine ⟨?_, ?_, wExec_addsStop, wExec_handed_at_9⟩
  · intro n _ ⟨r, e, hi, _, hen⟩
    exact wExec_fair n ⟨r, e, hi, hen⟩
  · intro n _ hq
    -- a queued task implies an enabled engine step or … simply: while n ≤ 13 the pop of tick 13 is ahead;
    -- after tick 13 no task is queued any more
    by_cases hn : n ≤ 13
    · refine ⟨13, hn, Or.inl ⟨0, 0, 2, rfl, ?_⟩⟩
      obtain ⟨e, he, hs⟩ := wExec_no_stutter 13 (by decide)
      have : wExec.ev 13 = some (.at 0 (.pop 0 2)) := rfl
      rw [this] at he; cases he
      rw [hs]; rfl
    · exfalso
      exact wExec_no_queued_after_13 n (by omega) hq

/-! ### the pool side of fairness, from C09's theorem

`Ecal.Pool` (C09) models the thread pool step by step (per-worker program counters, the FIFO
queue, calls in flight); `Conc` abstracts it to "a queued task can be popped by a free worker". The
two are tied here by a COUPLING of executions — the precisely typed statement of what a refinement
between the two models has to deliver — and `PoolStartsFrom` is then DERIVED from
`Ecal.Props.C09.fair_queued_task_started` (machine-checked use of C09's theorem). What is not
proved is that the two executions of the real system are coupled (a product model of `Ecal.Pool` and
`Conc` whose projections they are): the coupling is a hypothesis. -/

/-- the coupling of a cascade-level execution `X` with a pool-level execution `Y` of the same run,
    tick by tick: (1) whenever a task of some cascade is queued in `X`, the pool's queue in `Y` is
    not empty (`TaskQueue.Push` inside `AddTask`: the pool's queue IS the cascades' queued tasks);
    (2) a `Pop` taken in `Y` at a tick is the pop of a queued cascade task in `X` at that tick (the
    task queue hands out a queued task); (3) the pool always has a live worker (it is not resized
    to zero / joined while cascades run — C02's standing assumption). Only push/pop matter: resize
    and join events of `Ecal.Pool` are excluded by `CallsStopAt` where the coupling is used. -/
structure PoolCoupling (X : Exec) (Y : Ecal.Pool.Exec) : Prop where
  queued : ∀ n, (X.C n).taskQueued → (Y.C n).queue ≠ []
  pop    : ∀ n, Y.took Ecal.Pool.isPop n → X.tookPop n
  live   : ∀ n, 0 < (Y.C n).live

/-- non-vacuity of `PoolCoupling`: a coupled pair (Lemmas/CascadePool.lean) — cascade level `cX`
    (one root, one task, one worker: pushed at tick 2, popped at tick 3, run to the end) and pool level
    `cY` (`Ecal.Pool`: the worker passes its kill check, `AddTask` pushes at tick 2, the worker pops
    at tick 3). The task is queued at the cascade level exactly when the pool's queue holds it, the
    pool's only `Pop` is the cascade's pop at the same tick, the pool keeps its worker. -/
example : PoolCoupling cX Ecal.Pool.cY ∧ (cX.C 3).taskQueued ∧ Ecal.Pool.cY.took Ecal.Pool.isPop 3 := by
  refine ⟨⟨?_, ?_, Ecal.Pool.cY_live⟩, ?_, ?_⟩
  · intro n hq
    rw [cX_queued_only_at_3 n hq]
    exact Ecal.Pool.cY_queue_at_3
  · intro n hp
    rw [Ecal.Pool.cY_pop_only_at_3 n hp]
    exact cX_pop_at_3
  · exact queued_of_pop_enabled (r := 0) (w := 0) (i := 0) (by
      obtain ⟨r, w, i, he, hs⟩ := cX_pop_at_3
      have : cX.ev 3 = some (.at 0 (.pop 0 0)) := rfl
      rw [this] at he; cases he
      exact hs)
  · exact ⟨.pop 0 1, rfl, rfl, by decide⟩

/-- **the pool side of fairness follows from C09**: if the cascade-level execution `X` is coupled
    with a pool-level execution `Y` that is fair in C09's sense (`Ecal.Pool.Exec.Fair`: an enabled
    pool-internal event — worker steps, the rest of calls in flight, returns of running tasks — is
    eventually followed by one) and makes no new pool call from tick `N` on, then `X.PoolStartsFrom N`:
    every queued task is eventually followed by a pop. Proof: `Ecal.Props.C09.fair_queued_task_started`
    (= `no_stuck_task` + `pop_within_bound`) applied at every tick `n ≥ N`. -/
theorem poolStartsFrom_of_C09 {X : Exec} {Y : Ecal.Pool.Exec} (hc : PoolCoupling X Y) (hf : Y.Fair)
    {N : Nat} (hN : Y.CallsStopAt N) : X.PoolStartsFrom N := by
  intro n hn hq
  have hNn : Y.CallsStopAt n := fun k hk e he => hN k (by omega) e he
  obtain ⟨m, hm, h⟩ := Ecal.Props.C09.fair_queued_task_started Y hf hNn (hc.queued n hq)
  rcases h with h | h
  · exact ⟨m, hm, Or.inl (hc.pop m h)⟩
  · have := hc.live m
    omega

/-- the coupling reduced to what a step-level simulation for push/pop has to deliver FROM tick `N` on:
    at `N` the pool's queue holds as many tasks as the cascades have queued; from then on a `Pop` is
    taken at the pool level exactly at the ticks at which a cascade task is popped; the pool keeps a
    live worker. (The per-step part of the simulation is proved: `queue_tracks_queued`.) -/
structure PoolSyncFrom (X : Exec) (Y : Ecal.Pool.Exec) (N : Nat) : Prop where
  start : (Y.C N).queue.length = (X.C N).queuedCount
  pops  : ∀ n, N ≤ n → (Y.took Ecal.Pool.isPop n ↔ X.tookPop n)
  live  : ∀ n, N ≤ n → 0 < (Y.C n).live

/-- **the proved direction of the simulation, queue component**: projecting a `Conc` state to the
    number of its queued tasks (`Conc.queuedCount`) and a pool state to the length of its queue, every
    step of either model moves its projection the same way — +1 for a push (`addEvent _ true _` /
    `aPush`), −1 for a pop, 0 for every other event (`conc_queuedCount_step`, `Ecal.Pool.queue_length_step`,
    all events of both models, no resize/join restriction needed for this component). Hence, once no
    work is added / no pool call is made after `N` and the pops are synchronised, the pool's queue
    length equals the number of queued cascade tasks at every tick `n ≥ N`. -/
theorem queue_tracks_queued {X : Exec} {Y : Ecal.Pool.Exec} {N : Nat} (hsync : PoolSyncFrom X Y N)
    (ha : X.AddsStopAt N) (hc : Y.CallsStopAt N) :
    ∀ n, N ≤ n → (Y.C n).queue.length = (X.C n).queuedCount := by
  intro n hn
  obtain ⟨d, rfl⟩ := Nat.exists_eq_add_of_le hn
  induction d with
  | zero => simpa using hsync.start
  | succ d ih =>
    have hprev := ih (by omega)
    have hx := exec_queued_tick X ha (n := N + d) (by omega)
    have hy := Ecal.Pool.exec_queue_tick Y hc (n := N + d) (by omega)
    have hiff := hsync.pops (N + d) (by omega)
    rw [show N + (d + 1) = N + d + 1 by omega]
    by_cases hp : X.tookPop (N + d)
    · have h1 := hx.1 hp
      have h2 := hy.1 (hiff.mpr hp)
      omega
    · have h1 := hx.2 hp
      have h2 := hy.2 (fun h => hp (hiff.mp h))
      omega

/-- non-vacuity of `PoolSyncFrom` / `queue_tracks_queued`: the coupled pair `cX`/`cY` from tick 3 on
    (one task queued on both sides at tick 3, popped on both sides at tick 3, nothing added later) -/
example : PoolSyncFrom cX Ecal.Pool.cY 3 ∧ cX.AddsStopAt 3 ∧ Ecal.Pool.cY.CallsStopAt 3 :=
  ⟨⟨by rw [Ecal.Pool.cY_queue_length_at_3, cX_queuedCount_at_3],
    fun n _ => ⟨fun h => by rw [Ecal.Pool.cY_pop_only_at_3 n h]; exact cX_pop_at_3,
                fun h => by rw [cX_tookPop_only_at_3 n h]; exact Ecal.Pool.cY_took_pop_3⟩,
    fun n _ => Ecal.Pool.cY_live n⟩, cX_addsStop, Ecal.Pool.cY_callsStop⟩

/-- **the pool side of fairness from C09, with the queue tracked by the simulation**: like
    `poolStartsFrom_of_C09`, but the hypothesis "a queued cascade task ⇒ the pool's queue is non-empty"
    is no longer assumed at every tick — it follows from `queue_tracks_queued` given the equality at
    tick `N` and synchronised pops. -/
theorem poolStartsFrom_of_C09_sync {X : Exec} {Y : Ecal.Pool.Exec} {N : Nat} (hsync : PoolSyncFrom X Y N)
    (hf : Y.Fair) (hc : Y.CallsStopAt N) (ha : X.AddsStopAt N) : X.PoolStartsFrom N := by
  intro n hn hq
  have hlen := queue_tracks_queued hsync ha hc n hn
  have hpos := queuedCount_pos_of_taskQueued hq
  have hne : (Y.C n).queue ≠ [] := by
    intro h
    rw [h] at hlen
    simp at hlen
    omega
  have hNn : Y.CallsStopAt n := fun k hk e he => hc k (by omega) e he
  obtain ⟨m, hm, h⟩ := Ecal.Props.C09.fair_queued_task_started Y hf hNn hne
  rcases h with h | h
  · exact ⟨m, hm, Or.inl ((hsync.pops m (by omega)).mp h)⟩
  · have := hsync.live m (by omega)
    omega

/-- **the wait returns — fairness traced back to its sources**: scheduler fairness for the non-pop
    engine steps of the cascades (`SchedFairFrom`, assumed), a coupled pool execution that is fair in
    C09's sense and makes no new call after `N` (the pop side is then C09's theorem), no work added
    after `N`, all monitors handed over at `N` ⇒ every cascade completes: every waiter released with
    an exact report, every registered finish handler run once. -/
theorem wait_returns_with_C09_pool (X : Exec) (Y : Ecal.Pool.Exec) {N : Nat} (hs : X.SchedFairFrom N)
    (hc : PoolCoupling X Y) (hf : Y.Fair) (hY : Y.CallsStopAt N) (ha : X.AddsStopAt N) (hN : (X.C N).allHanded) :
    ∃ n, N ≤ n ∧ ∀ r v, (X.C n).view r = some v →
      (∀ m ∈ v.mons, m.phase.finished = true) ∧ v.posted = 1 ∧
      (v.waiting = true → v.released = 1 ∧ ((step v .waitReturns).isSome = true ∨ v.waitReturned = true) ∧
         allErrors v = expectedReport v) ∧
      (v.handlerReg = true → v.handlerCalls = 1) :=
  wait_returns_scheduler_and_pool X hs (poolStartsFrom_of_C09 hc hf hY) ha hN

/-- **non-vacuity witness of the liveness theorems** (`fair_run_reaches_quiescence`,
    `wait_returns_fair`, `wait_returns_fair_from`): a concrete, NON-STUTTERING fair execution.
    `wExec` (Lemmas/CascadeLive.lean) performs `AddEventAndWait` of a root event whose rule adds two
    child events, one of which fails, on two workers: 26 events, one per tick, every one enabled when
    attempted (no stutter), every engine step of the cascade among them; afterwards it rests. It is
    fair, its additions stop at tick 9 with all three monitors handed over, at tick 9 engine work is
    still outstanding (so fairness is really used), and at tick 26 the system is quiescent with the
    waiter released, the handler run once and the report = exactly the failing child's rule. -/
theorem fair_execution_witness :
    ∃ (X : Exec) (N : Nat), X.Fair ∧ X.AddsStopAt N ∧ (X.C N).allHanded ∧ (X.C N).enabledInternal ∧
      (∀ n, n < 26 → ∃ e, X.ev n = some e ∧ Conc.stepE (X.C n) e = some (X.C (n + 1))) ∧
      ¬ (X.C 26).enabledInternal ∧
      ∃ v, (X.C 26).view 0 = some v ∧ v.mons.length = 3 ∧ v.released = 1 ∧ v.waitReturned = true ∧
        v.handlerCalls = 1 ∧ allErrors v = [(1, some [0])] := by
  refine ⟨wExec, 9, wExec_fair, wExec_addsStop, wExec_handed_at_9, ?_, wExec_no_stutter, ?_, ?_⟩
  · obtain ⟨e, he, hs⟩ := wExec_no_stutter 9 (by decide)
    have he' : e = .at 0 (.pop 1 1) := by
      have : wExec.ev 9 = some (.at 0 (.pop 1 1)) := rfl
      rw [this] at he; cases he; rfl
    subst he'
    exact ⟨0, .pop 1 1, rfl, by
      have hs' : (wExec.C 9).step 0 (.pop 1 1) = some (wExec.C 10) := hs
      rw [hs']; rfl⟩
  · rw [wExec_final]; exact wC_quiescent
  · rw [wExec_final]
    exact ⟨wEnd, rfl, rfl, rfl, rfl, rfl, by decide⟩

/-- the liveness theorem applied to the witness: it yields a tick at which the cascade is complete -/
example : ∃ n, 9 ≤ n ∧ ∀ r v, (wExec.C n).view r = some v →
    (∀ m ∈ v.mons, m.phase.finished = true) ∧ v.posted = 1 ∧
    (v.waiting = true → v.released = 1 ∧ ((step v .waitReturns).isSome = true ∨ v.waitReturned = true) ∧
       allErrors v = expectedReport v) ∧ (v.handlerReg = true → v.handlerCalls = 1) :=
  wait_returns_fair_from wExec wExec_fair wExec_addsStop wExec_handed_at_9

/-- non-vacuity of `wait_returns_fair`: the hypotheses are jointly satisfiable with a cascade that
    has run (a failing rule, a waiter): the execution that rests in the final state is fair -/
example : ∃ (X : Exec) (N : Nat), X.Fair ∧ X.AddsStopAt N ∧
    (∀ n, N ≤ n → ∀ r v, (X.C n).view r = some v → 0 < v.workers ∧ ∀ m ∈ v.mons, m.phase ≠ .fresh) ∧
    ∃ v, (X.C 0).view 0 = some v ∧ v.waiting = true ∧ v.mons.length = 1 := by
  let CEnd : Conc := { workers := 1, failFirst := false, roots := [sEnd.local] }
  have hreach : CEnd.Reachable := ⟨1, false, [.newRoot, .at 0 .register, .at 0 .regHandler, .at 0 (.addEvent 0 true [7]),
    .at 0 (.pop 0 0), .at 0 (.ruleReturns 0 false), .at 0 (.taskDone 0), .at 0 (.setErrors 0), .at 0 (.errFinish 0),
    .at 0 (.notified 0), .at 0 .dropQueue, .at 0 .post, .at 0 (.observerRuns .wait), .at 0 (.observerRuns .handler),
    .at 0 (.observerRuns .queue)], rfl⟩
  have hview : CEnd.view 0 = some sEnd := rfl
  have hq : ¬ CEnd.enabledInternal := by
    rintro ⟨r, e, he, hs⟩
    cases r with
    | zero =>
      simp only [Conc.step, hview] at hs
      split at hs
      · rw [sEnd_quiescent e he] at hs; cases hs
      · cases hs
    | succ r => simp [Conc.step, Conc.view, CEnd] at hs
  refine ⟨{ C := fun _ => CEnd, ev := fun _ => none, start := hreach, next := fun _ => rfl }, 0, ?_, ?_, ?_, ?_⟩
  · intro n hen; exact absurd hen hq
  · intro n _ e he; cases he
  · intro n _ r v hv
    cases r with
    | zero =>
      have : v = sEnd := by
        have hv' : CEnd.view 0 = some v := hv
        rw [hview] at hv'; cases hv'; rfl
      subst this
      exact ⟨by decide, by decide⟩
    | succ r =>
      have hv' : CEnd.view (r + 1) = some v := hv
      simp [Conc.view, CEnd] at hv'
  · exact ⟨sEnd, hview, rfl, rfl⟩

/-- negative witness: a `PostEvent` that does not filter its snapshot by the posting source (not the
    code, cf. `src_post_filters_by_source`) hands the waiter of ANOTHER, unfinished cascade its
    callback: root 1 (one monitor outstanding, nothing posted) gets a pending wait callback when
    root 0 posts. -/
theorem unfiltered_post_reaches_foreign_waiter :
    ∃ C v, Conc.run (Conc.init 2 false) [.newRoot, .newRoot, .at 1 .register, .at 1 .regHandler,
        .at 1 (.addEvent 0 true [1]), .at 0 .regHandler, .at 0 (.addEvent 0 true [1]), .at 0 (.pop 0 0),
        .at 0 (.ruleReturns 0 true), .at 0 (.taskDone 0)] = some C ∧
      (C.postEventUnfiltered 0).view 1 = some v ∧ v.dWait = 1 ∧ v.posted = 0 ∧ v.unfinished = 1 ∧
      (step v (.observerRuns .wait)).isSome = true :=
  ⟨_, _, rfl, rfl, by decide⟩

example : ∃ C : Conc, C.Reachable ∧ ∃ v, C.view 1 = some v ∧ 0 < v.released ∧ C.roots.length = 2 :=
  ⟨_, ⟨2, false, [.newRoot, .newRoot, .at 0 .regHandler, .at 0 (.addEvent 0 true [1]), .at 0 (.pop 0 0), .at 1 .register,
    .at 1 .regHandler, .at 1 (.addEvent 0 true [5]), .at 1 (.pop 1 0), .at 1 (.ruleReturns 0 false), .at 1 (.taskDone 0),
    .at 1 (.setErrors 0), .at 1 (.errFinish 0), .at 1 .post, .at 1 (.observerRuns .wait)], rfl⟩, _, rfl, by decide⟩

end Ecal.Props.C02
