import Ecal.Lemmas.Cascade
import Ecal.Lemmas.CascadeShared
import Ecal.Gen.C02
/-!
# C02 — waiting on an event returns after its whole cascade, with exactly its errors

All theorems are about `Ecal.Cascade.step` (the transition system of one root monitor,
`lean/Ecal/Model/Cascade.lean`) and hold in **every reachable state**: any fan-out, depth,
number of workers, rule lists, failure pattern, `failOnFirstError` setting and any
interleaving of workers, adding goroutine, pump and readers. Several cascades in flight
share nothing in the model but the workers (`Ecal.Cascade.Sys` at the end); every component
of a reachable system state is a reachable cascade state, so everything lifts.

"Eventually returns" is proved in the form: an engine step is enabled whenever work is
outstanding and a worker is free (`progress`, `release_progress`), and every engine step
decreases a natural-number measure (`measure_decreases`); with terminating actions and a
weakly fair scheduler (the assumption; pool side: C09) the wait therefore returns.
-/
namespace Ecal.Props.C02
open Ecal.Cascade

/-- `RootMonitor.unfinished` = number of created, not yet finished monitors. -/
theorem unfinished_counts {s : State} (h : Reachable s) :
    s.unfinished = s.mons.countP (fun m => !m.phase.finished) :=
  (inv_reachable h).count

/-- once the counter is zero no `NewChildMonitor` of this cascade is possible any more
    (a child is only created by an action executing under an unfinished monitor) -/
theorem no_child_after_zero {s : State} (h : Reachable s) (hz : s.unfinished = 0) (p : Nat) :
    step s (.newChild p) = none := by
  have hi := inv_reachable h
  simp only [step]
  split
  · rename_i m hm
    split
    · rename_i w r rest hph htodo
      have := (hi.unposted hm (by simp [unf, hph, Phase.finished])).1
      omega
    · rfl
  · rfl

example : ∃ s, Reachable s ∧ s.unfinished = 0 :=
  ⟨_, ⟨1, false, [.addEvent 0 false []], rfl⟩, by decide⟩

/-- The finished message is posted at most once; it is posted (or the poster is between unlock
    and `PostEvent`) exactly when every monitor is finished; then nothing is queued or running. -/
theorem posted_once {s : State} (h : Reachable s) :
    s.posted ≤ 1 ∧
    (s.postPending + s.posted = 1 ↔ ∀ m ∈ s.mons, m.phase.finished = true) ∧
    (s.posted = 1 → s.anyQueued = false ∧ ∀ m ∈ s.mons, ∀ w, m.phase ≠ .running w) := by
  have hi := inv_reachable h
  have hle := hi.post_le
  refine ⟨by omega, ⟨hi.all_finished, ?_⟩, ?_⟩
  · intro hall
    apply hi.post_iff.mpr
    rw [hi.count]
    apply List.countP_eq_zero.mpr
    intro m hm
    simp [unf, hall m hm]
  · intro hp
    have hall := hi.all_finished (by omega)
    refine ⟨anyQueued_false hall, ?_⟩
    intro m hm w hph
    have := hall m hm
    simp [hph, Phase.finished] at this

/-- the wait is released at most once (`wg.Done` twice would panic) and the finish handler runs at most once -/
theorem released_once {s : State} (h : Reachable s) : s.released ≤ 1 ∧ s.handlerCalls ≤ 1 := by
  have hi := inv_reachable h
  have hle := hi.post_le
  by_cases hp0 : s.posted = 0
  · have := hi.pre hp0
    omega
  · have := hi.post (by omega)
    constructor
    · have := this.1; split at this <;> omega
    · have := this.2; split at this <;> omega

/-- When `AddEventAndWait` can return (`waitReturns` enabled), every monitor of the cascade is
    finished and no action of the cascade is pending or executing: every rule action that was
    started has returned. -/
theorem wait_after_cascade {s : State} (h : Reachable s) (hw : (step s .waitReturns).isSome) :
    ∀ m ∈ s.mons, m.phase.finished = true ∧ m.todo = [] ∧ m.phase ≠ .queued ∧ ∀ w, m.phase ≠ .running w := by
  have hi := inv_reachable h
  have hle := hi.post_le
  have hrel : 0 < s.released := by
    simp only [step] at hw
    split at hw
    · rename_i hc; exact hc.1
    · simp at hw
  have hp1 : s.posted = 1 := by
    by_cases hp0 : s.posted = 0
    · have := (hi.pre hp0).2.2.2.1; omega
    · omega
  intro m hm
  have hf := hi.all_finished (by omega) m hm
  have hok := hi.mon_ok m hm
  cases hph : m.phase <;> simp [hph, Phase.finished, Mon.ok] at hf hok ⊢
  · exact hok.2.1
  · exact hok.1

example : ∃ s, Reachable s ∧ (step s .waitReturns).isSome :=
  ⟨_, ⟨1, false, [.register, .regHandler, .addEvent 0 true [7], .pop 0 0, .ruleReturns 0 true, .taskDone 0, .post,
    .observerRuns .wait], rfl⟩, by decide⟩

/-- the same after the return -/
theorem returned_after_cascade {s : State} (h : Reachable s) (hw : s.waitReturned = true) :
    ∀ m ∈ s.mons, m.phase.finished = true ∧ m.todo = [] := by
  have hi := inv_reachable h
  have hle := hi.post_le
  have hp1 : s.posted = 1 := by
    by_cases hp0 : s.posted = 0
    · have := (hi.pre hp0).2.2.2.2.2.1; simp [hw] at this
    · omega
  intro m hm
  have hf := hi.all_finished (by omega) m hm
  have hok := hi.mon_ok m hm
  cases hph : m.phase <;> simp [hph, Phase.finished, Mon.ok] at hf hok ⊢
  · exact hok.2.1
  · exact hok.1

/-- an occupied worker can always take its next step (which is not a `pop`) -/
theorem busy_step {s : State} {j w : Nat} {m : Mon} (hm : s.mons[j]? = some m)
    (hw : m.phase.worker = some w) : ∃ e, e.internal = true ∧ e.isPop = false ∧ (step s e).isSome := by
  cases hph : m.phase with
  | fresh => simp [hph, Phase.worker] at hw
  | queued => simp [hph, Phase.worker] at hw
  | done => simp [hph, Phase.worker] at hw
  | running w' =>
    cases htodo : m.todo with
    | nil => refine ⟨.taskDone j, rfl, rfl, ?_⟩; simp only [step, hm, hph, htodo]; split <;> simp
    | cons r rest => exact ⟨.ruleReturns j true, rfl, rfl, by simp [step, hm, hph, htodo]⟩
  | failing w' => exact ⟨.setErrors j, rfl, rfl, by simp [step, hm, hph]⟩
  | errSet w' => exact ⟨.errFinish j, rfl, rfl, by simp [step, hm, hph]⟩
  | notifying w' => exact ⟨.notified j, rfl, rfl, by simp [step, hm, hph]⟩

theorem busy_enabled {s : State} {j w : Nat} {m : Mon} (hm : s.mons[j]? = some m)
    (hw : m.phase.worker = some w) : ∃ e, e.internal = true ∧ (step s e).isSome := by
  obtain ⟨e, h1, _, h3⟩ := busy_step hm hw
  exact ⟨e, h1, h3⟩

/-- **progress**: a monitor that was handed to the processor is unfinished and some worker is
    not occupied by this cascade ⇒ an engine step is enabled (no stuck cascade). -/
theorem progress {s : State} {i : Nat} {m : Mon} (hm : s.mons[i]? = some m)
    (hu : m.phase.finished = false) (hh : m.phase ≠ .fresh)
    {w : Nat} (hw : w < s.workers) (hfree : s.workerFree w = true) :
    ∃ e, e.internal = true ∧ (step s e).isSome := by
  cases hph : m.phase with
  | fresh => exact absurd hph hh
  | done => simp [hph, Phase.finished] at hu
  | queued => exact ⟨.pop w i, rfl, by simp [step, hm, hph, hw, hfree]⟩
  | running w' => exact busy_enabled hm (w := w') (by simp [hph, Phase.worker])
  | failing w' => exact busy_enabled hm (w := w') (by simp [hph, Phase.worker])
  | errSet w' => exact busy_enabled hm (w := w') (by simp [hph, Phase.worker])
  | notifying w' => exact busy_enabled hm (w := w') (by simp [hph, Phase.worker])

example : ∃ s, Reachable s ∧ ∃ m, s.mons[0]? = some m ∧ m.phase.finished = false ∧ m.phase ≠ .fresh ∧
    s.workerFree 0 = true :=
  ⟨_, ⟨1, false, [.regHandler, .addEvent 0 true [7]], rfl⟩, by decide⟩

/-- In a state where no engine step is enabled (and the pool has at least one worker) every
    monitor that was handed to `AddEvent` is finished. -/
theorem all_handed_monitors_finish {s : State} (hw : 0 < s.workers)
    (hq : ∀ e, e.internal = true → step s e = none) :
    ∀ m ∈ s.mons, m.phase ≠ .fresh → m.phase.finished = true := by
  intro m hm hh
  obtain ⟨i, hi, hmi⟩ := List.mem_iff_getElem.mp hm
  have hget : s.mons[i]? = some m := by simp [List.getElem?_eq_getElem hi, hmi]
  cases hf : m.phase.finished with
  | true => rfl
  | false =>
    exfalso
    have key : ∃ e, e.internal = true ∧ (step s e).isSome := by
      cases hfree : s.workerFree 0 with
      | true => exact progress hget hf hh hw hfree
      | false =>
        simp only [State.workerFree, List.all_eq_false] at hfree
        obtain ⟨m', hm', hbusy⟩ := hfree
        obtain ⟨j, hj, hmj⟩ := List.mem_iff_getElem.mp hm'
        have hget' : s.mons[j]? = some m' := by simp [List.getElem?_eq_getElem hj, hmj]
        exact busy_enabled hget' (w := 0) (by simpa using hbusy)
    obtain ⟨e, he, hs⟩ := key
    rw [hq e he] at hs
    simp at hs

/-- … and in such a state the finished message has been posted and all its callbacks have run:
    a waiter has been released, a registered finish handler has run exactly once. -/
theorem quiescent_released {s : State} (h : Reachable s)
    (hq : ∀ e, e.internal = true → step s e = none)
    (hall : ∀ m ∈ s.mons, m.phase.finished = true) :
    s.posted = 1 ∧ (s.waiting = true → s.released = 1) ∧ (s.handlerReg = true → s.handlerCalls = 1) := by
  have hi := inv_reachable h
  have hsum := (posted_once h).2.1.mpr hall
  have hpp : s.postPending = 0 := by
    have := hq .post rfl
    simp only [step] at this
    split at this
    · assumption
    · simp at this
  have hdw : s.dWait = 0 := by
    have := hq (.observerRuns .wait) rfl
    simp only [step] at this
    split at this
    · assumption
    · simp at this
  have hdh : s.dHandler = 0 := by
    have := hq (.observerRuns .handler) rfl
    simp only [step] at this
    split at this
    · assumption
    · simp at this
  have hp1 : s.posted = 1 := by omega
  have := hi.post hp1
  refine ⟨hp1, ?_, ?_⟩
  · intro hw; simp [hw] at this; omega
  · intro hr; simp [hr] at this; omega


/-- the state after a one-rule cascade with a failing rule has run to its end -/
def sEnd : State :=
  { workers := 1, failFirst := false,
    mons := [{ parent := none, phase := .done, todo := [], returned := [7], failed := [7], err := some [7], inErrors := true }],
    unfinished := 0, posted := 1, waiting := true, handlerReg := true, released := 1, handlerCalls := 1 }

theorem sEnd_reachable : Reachable sEnd :=
  ⟨1, false, [.register, .regHandler, .addEvent 0 true [7], .pop 0 0, .ruleReturns 0 false, .taskDone 0,
    .setErrors 0, .errFinish 0, .notified 0, .dropQueue, .post, .observerRuns .wait, .observerRuns .handler,
    .observerRuns .queue], by decide⟩

theorem sEnd_quiescent : ∀ e, e.internal = true → step sEnd e = none := by
  intro e he
  cases e with
  | pop w i => cases i <;> simp [step, sEnd]
  | ruleReturns i ok => cases i <;> simp [step, sEnd]
  | taskDone i => cases i <;> simp [step, sEnd]
  | setErrors i => cases i <;> simp [step, sEnd]
  | errFinish i => cases i <;> simp [step, sEnd]
  | notified i => cases i <;> simp [step, sEnd]
  | dropQueue => decide
  | post => decide
  | observerRuns o => cases o <;> decide
  | _ => simp [Event.internal] at he

/-- non-vacuity of `all_handed_monitors_finish` / `quiescent_released`: a reachable quiescent state -/
example : ∃ s, Reachable s ∧ 0 < s.workers ∧ (∀ e, e.internal = true → step s e = none) ∧
    (∀ m ∈ s.mons, m.phase ≠ .fresh) ∧ s.waiting = true ∧ s.handlerReg = true :=
  ⟨sEnd, sEnd_reachable, by decide, sEnd_quiescent, by decide, rfl, rfl⟩

/-- `AddEvent` registers the finish-handler observer BEFORE the root's task can be taken by a
    worker: whenever the root monitor has been handed over with a triggering event, the observer is
    in place (the model's `addEvent 0 true` — `Activate` + `pool.AddTask` — is only enabled after
    `regHandler`; the order in the Go code is tied by the hook points `cascade.handler.registered`
    / `cascade.push` in every replayed trace). -/
theorem handler_registered_before_push {s : State} (h : Reachable s) {r : Mon}
    (hr : s.mons[0]? = some r) (hph : r.phase ≠ .fresh) (hsk : r.skipped = false) : s.handlerReg = true := by
  have hi := inv_reachable h
  cases hreg : s.handlerReg with
  | true => rfl
  | false =>
    rcases hi.hreg hreg r hr with h1 | h1
    · exact absurd h1 hph
    · rw [hsk] at h1; cases h1

/-- **the cascade's finish notification fires exactly once** (over the split steps of `AddEvent`):
    never twice; and for a root handed over with a triggering event, once no engine step is enabled
    and every monitor is finished, the finish handler has run exactly once. For a skipped
    (non-triggering) root event no handler observer is ever registered and it runs zero times. -/
theorem finish_notification_exactly_once {s : State} (h : Reachable s) :
    s.posted ≤ 1 ∧ s.handlerCalls ≤ 1 ∧
    (∀ r, s.mons[0]? = some r → r.phase ≠ .fresh →
      (r.skipped = false →
        (∀ e, e.internal = true → step s e = none) → (∀ m ∈ s.mons, m.phase.finished = true) →
          s.handlerCalls = 1) ∧
      (r.skipped = true → s.handlerCalls = 0)) := by
  have hi := inv_reachable h
  refine ⟨(posted_once h).1, (released_once h).2, ?_⟩
  intro r hr hph
  constructor
  · intro hsk hq hall
    exact (quiescent_released h hq hall).2.2 (handler_registered_before_push h hr hph hsk)
  · intro hsk
    have hreg : s.handlerReg = false := by
      cases hreg : s.handlerReg with
      | false => rfl
      | true => have := hi.hskip hreg r hr; rw [hsk] at this; cases this
    have hle := hi.post_le
    by_cases hp0 : s.posted = 0
    · exact (hi.pre hp0).2.2.2.2.1
    · have := (hi.post (by omega)).2
      simp [hreg] at this
      omega

/-- negative witness: with the observer registered AFTER `pool.AddTask` (`stepLate`, not the code)
    the cascade can end first; the state below is final (posted, nothing pending) with the handler
    registered and never called — the notification is lost. -/
theorem late_handler_registration_loses_notification :
    ∃ s, [Event.addEvent 0 true [1], .pop 0 0, .ruleReturns 0 true, .taskDone 0, .post,
          .observerRuns .queue, .regHandler].foldlM stepLate (init 1 false) = some s ∧
      s.posted = 1 ∧ s.postPending = 0 ∧ s.dHandler = 0 ∧ s.handlerReg = true ∧ s.handlerCalls = 0 ∧
      s.mons.all (fun m => m.phase.finished) = true :=
  ⟨_, rfl, by decide⟩

/-- when everything is finished but the waiter has not been released, the post or the wait
    callback is enabled -/
theorem release_progress {s : State} (h : Reachable s) (hw : s.waiting = true)
    (hall : ∀ m ∈ s.mons, m.phase.finished = true) (hrel : s.released = 0) :
    (step s .post).isSome ∨ (step s (.observerRuns .wait)).isSome := by
  have hi := inv_reachable h
  have hsum := (posted_once h).2.1.mpr hall
  by_cases hp0 : s.posted = 0
  · left
    have : s.postPending ≠ 0 := by omega
    simp [step, this]
  · right
    have := (hi.post (by omega)).1
    simp [hw] at this
    have : s.dWait ≠ 0 := by omega
    simp [step, this]

/-! ### errors -/

theorem report_eq_expected (l : List Mon) (i : Nat)
    (h : ∀ m ∈ l, m.ok ∧ m.phase.finished = true) : reportFrom i l = expectedFrom i l := by
  induction l generalizing i with
  | nil => rfl
  | cons m ms ih =>
    have hm := h m (by simp)
    have hrest := ih (i + 1) (fun x hx => h x (by simp [hx]))
    simp only [reportFrom, expectedFrom, hrest]
    congr 1
    obtain ⟨hok, hf⟩ := hm
    cases hph : m.phase <;> simp [hph, Phase.finished, Mon.ok] at hf hok
    · obtain ⟨h1, h2, h3, h4⟩ := hok
      simp [h1, h3, h4]
    · obtain ⟨_, h⟩ := hok
      rcases h with ⟨h1, h2, h3⟩ | ⟨h1, h2, h3⟩ <;> simp [h1, h2, h3]

/-- **errors_exact**: when the wait can return (and ever after), `AllErrors()` is exactly: one entry
    per monitor (event) with at least one failed action, in monitor order, holding exactly the
    rules whose action returned an error — nothing lost, nothing duplicated, nothing invented.
    (`failed` is the history of `ruleReturns … false` events of that monitor.) -/
theorem errors_exact {s : State} (h : Reachable s) (hw : 0 < s.released) :
    allErrors s = expectedReport s := by
  have hi := inv_reachable h
  have hle := hi.post_le
  have hp1 : s.posted = 1 := by
    by_cases hp0 : s.posted = 0
    · have := (hi.pre hp0).2.2.2.1; omega
    · omega
  have hall := hi.all_finished (by omega)
  exact report_eq_expected s.mons 0 (fun m hm => ⟨hi.mon_ok m hm, hall m hm⟩)

example : ∃ s, Reachable s ∧ 0 < s.released ∧ allErrors s = [(0, some [8])] :=
  ⟨_, ⟨1, false, [.register, .regHandler, .addEvent 0 true [7, 8], .pop 0 0, .ruleReturns 0 true, .ruleReturns 0 false,
    .taskDone 0, .setErrors 0, .errFinish 0, .post, .observerRuns .wait], rfl⟩, by decide⟩

theorem report_mem (l : List Mon) (i k : Nat) (e : Option (List Nat)) (h : (k, e) ∈ reportFrom i l) :
    ∃ m, l[k - i]? = some m ∧ i ≤ k ∧ m.inErrors = true ∧ e = m.err := by
  induction l generalizing i with
  | nil => simp [reportFrom] at h
  | cons m ms ih =>
    simp only [reportFrom, List.mem_append] at h
    rcases h with h | h
    · split at h
      · simp at h
        obtain ⟨rfl, rfl⟩ := h
        exact ⟨m, by simp, Nat.le_refl _, by assumption, rfl⟩
      · simp at h
    · obtain ⟨m', h1, h2, h3, h4⟩ := ih (i + 1) h
      refine ⟨m', ?_, by omega, h3, h4⟩
      have : k - i = (k - (i + 1)) + 1 := by omega
      rw [this]
      simpa using h1

/-- **allErrors_safe**: at *any* time (in particular from the root-monitor error observer of another
    task while a failing task is between `SetErrors` and `Finish`) `AllErrors()` of the current code
    returns, for every entry, a non-nil error object of a monitor whose action(s) really failed,
    holding exactly that monitor's failed rules. It has no assertion left to hit. -/
theorem allErrors_safe {s : State} (h : Reachable s) :
    step s .allErrors = some s ∧
    ∀ k e, (k, e) ∈ allErrors s → ∃ m, s.mons[k]? = some m ∧ m.failed ≠ [] ∧ e = some m.failed := by
  refine ⟨rfl, ?_⟩
  intro k e hke
  have hi := inv_reachable h
  obtain ⟨m, h1, _, h3, h4⟩ := report_mem s.mons 0 k e hke
  refine ⟨m, by simpa using h1, ?_⟩
  have hok := hi.mon_ok m (mem_of_get? h1)
  cases hph : m.phase <;> simp [hph, Mon.ok, h3] at hok
  · exact ⟨hok.1, by rw [h4, hok.2.2]⟩
  · exact ⟨hok.1, by rw [h4, hok.2.2]⟩
  · exact ⟨hok.2.1, by rw [h4, hok.2.2]⟩

/-- negative witness: the `AllErrors` of the code before da28f66 (asserting that every monitor in
    the error map is finished) panics in a reachable state — two workers, one task between
    `SetErrors` and `Finish` while anybody (e.g. the error observer of the other task) asks. -/
theorem allErrors_asserting_unsafe :
    ∃ s, Reachable s ∧ allErrorsAsserting s = none :=
  ⟨_, ⟨2, false, [.regHandler, .addEvent 0 true [1], .pop 0 0, .newChild 0, .addEvent 1 true [2], .pop 1 1,
    .ruleReturns 1 false, .ruleReturns 0 false, .taskDone 0, .taskDone 1, .setErrors 0, .errFinish 0,
    .setErrors 1, .allErrors], rfl⟩, by decide⟩

/-- the assertion of the queue's observer ("Finished monitor left events behind") never fails -/
theorem no_leftover_panic {s : State} (h : Reachable s) : s.panicked = false :=
  (inv_reachable h).noPanic

/-! ### measure -/

theorem sumWeights_set (l : List Mon) (i : Nat) (m m' : Mon) (h : l[i]? = some m) :
    sumWeights (l.set i m') + m.weight = sumWeights l + m'.weight := by
  induction l generalizing i with
  | nil => simp at h
  | cons x xs ih =>
    cases i with
    | zero => simp at h; subst h; simp [sumWeights]; omega
    | succ i =>
      simp at h
      have := ih i h
      simp [sumWeights]
      omega

theorem workLeft_setMon {s : State} {i : Nat} {m m' : Mon} (hm : s.mons[i]? = some m)
    (hw : m'.weight < m.weight) : workLeft (s.setMon i m') < workLeft s := by
  have := sumWeights_set s.mons i m m' hm
  unfold workLeft State.setMon
  dsimp only
  omega

theorem workLeft_finishOne (s : State) : workLeft (finishOne s) = workLeft s := rfl

/-- every engine step decreases the measure `workLeft`; `newChild`/`addEvent` (the actions' own
    code) are the only events that can increase it. So from any state only finitely many engine
    steps are possible between two steps of action code: with terminating actions and weak
    fairness the cascade ends. -/
theorem measure_decreases {s s' : State} {e : Event} (h : Reachable s) (he : e.internal = true)
    (hs : step s e = some s') : workLeft s' < workLeft s := by
  have hi := inv_reachable h
  have hle := hi.post_le
  cases e with
  | register => simp [Event.internal] at he
  | regHandler => simp [Event.internal] at he
  | addEvent _ _ _ => simp [Event.internal] at he
  | newChild _ => simp [Event.internal] at he
  | waitReturns => simp [Event.internal] at he
  | allErrors => simp [Event.internal] at he
  | pop w i =>
    simp only [step] at hs
    split at hs
    · split at hs
      · rename_i m hm
        split at hs
        · rename_i hph
          cases hs
          exact workLeft_setMon hm (by simp [Mon.weight, hph])
        · cases hs
      · cases hs
    · cases hs
  | ruleReturns i ok =>
    simp only [step] at hs
    split at hs
    · rename_i m hm
      split at hs
      · rename_i w r rest hph htodo
        cases hs
        apply workLeft_setMon hm
        simp only [Mon.weight, hph, htodo]
        split <;> simp
      · cases hs
    · cases hs
  | taskDone i =>
    simp only [step] at hs
    split at hs
    · rename_i m hm
      split at hs
      · rename_i w hph htodo
        split at hs
        · cases hs
          rw [workLeft_finishOne]
          exact workLeft_setMon hm (by simp [Mon.weight, hph])
        · cases hs
          exact workLeft_setMon hm (by simp [Mon.weight, hph])
      · cases hs
    · cases hs
  | setErrors i =>
    simp only [step] at hs
    split at hs
    · rename_i m hm
      split at hs
      · rename_i w hph
        cases hs
        exact workLeft_setMon hm (by simp [Mon.weight, hph])
      all_goals cases hs
    · cases hs
  | errFinish i =>
    simp only [step] at hs
    split at hs
    · rename_i m hm
      split at hs
      · rename_i w hph
        cases hs
        rw [workLeft_finishOne]
        exact workLeft_setMon hm (by simp [Mon.weight, hph])
      all_goals cases hs
    · cases hs
  | notified i =>
    simp only [step] at hs
    split at hs
    · rename_i m hm
      split at hs
      · rename_i w hph
        cases hs
        exact workLeft_setMon hm (by simp [Mon.weight, hph])
      all_goals cases hs
    · cases hs
  | dropQueue =>
    simp only [step] at hs
    split at hs
    · rename_i hc
      cases hs
      simp [workLeft, hc.1]
    · cases hs
  | post =>
    simp only [step] at hs
    split at hs
    · cases hs
    · rename_i hpp
      cases hs
      have hp0 : s.posted = 0 := by omega
      simp [workLeft, hp0]
      omega
  | observerRuns o =>
    cases o with
    | wait =>
      simp only [step] at hs
      split at hs
      · cases hs
      · rename_i hd
        cases hs
        have hp1 : s.posted = 1 := by
          by_cases hp0 : s.posted = 0
          · exact absurd (hi.pre hp0).1 hd
          · omega
        simp [workLeft, State.clearObs, hp1]
        omega
    | handler =>
      simp only [step] at hs
      split at hs
      · cases hs
      · rename_i hd
        cases hs
        have hp1 : s.posted = 1 := by
          by_cases hp0 : s.posted = 0
          · exact absurd (hi.pre hp0).2.1 hd
          · omega
        simp [workLeft, State.clearObs, hp1]
        omega
    | queue =>
      simp only [step] at hs
      split at hs
      · cases hs
      · rename_i hd
        cases hs
        have hp1 : s.posted = 1 := by
          by_cases hp0 : s.posted = 0
          · exact absurd (hi.pre hp0).2.2.1 hd
          · omega
        simp [workLeft, State.clearObs, hp1]
        omega

/-! ### `failed` is the history of failing actions -/

/-- what an event appends to the failure history of monitor `i`: the action that was executing
    (head of the trigger sequence) when `ruleReturns i false` happens, nothing otherwise -/
def failedDelta (e : Event) (i : Nat) (m : Mon) : List Nat :=
  match e with
  | .ruleReturns j ok => if j = i ∧ ok = false then m.todo.take 1 else []
  | _ => []

theorem hist_setMon {s : State} {i j : Nat} {m mj x : Mon} (d : List Nat)
    (hm : s.mons[i]? = some m) (hj : s.mons[j]? = some mj)
    (hx : x.failed = mj.failed ++ d) :
    ∃ m', (s.setMon j x).mons[i]? = some m' ∧ m'.failed = m.failed ++ (if j = i then d else []) := by
  obtain ⟨hl, _⟩ := getElem_of_get? hj
  by_cases hji : j = i
  · subst hji
    rw [hm] at hj
    cases hj
    refine ⟨x, ?_, by simp [hx]⟩
    show (s.mons.set j x)[j]? = some x
    simp [hl]
  · refine ⟨m, ?_, by simp [hji]⟩
    show (s.mons.set j x)[i]? = some m
    rw [List.getElem?_set]
    simp [hji, hm]

/-- Every step changes the `failed` list of every existing monitor exactly by `failedDelta`: it is
    the list of the rules whose action returned an error under that monitor, in order, and nothing
    else ever writes to it (new monitors start with the empty list). Together with `errors_exact`:
    the report at the return of the wait is exactly the failed (event, rule) pairs. -/
theorem failed_is_history {s s' : State} {e : Event} (hs : step s e = some s') {i : Nat} {m : Mon}
    (hm : s.mons[i]? = some m) :
    ∃ m', s'.mons[i]? = some m' ∧ m'.failed = m.failed ++ failedDelta e i m := by
  have same : ∀ {t : State}, t.mons = s.mons → ∃ m', t.mons[i]? = some m' ∧ m'.failed = m.failed ++ [] :=
    fun ht => ⟨m, by rw [ht]; exact hm, by simp⟩
  have viaSet : ∀ {j : Nat} {mj x : Mon}, s.mons[j]? = some mj → x.failed = mj.failed →
      ∃ m', (s.setMon j x).mons[i]? = some m' ∧ m'.failed = m.failed ++ [] := by
    intro j mj x hj hx
    have := hist_setMon (i := i) (m := m) [] hm hj (by simpa using hx)
    simpa using this
  cases e with
  | register =>
    simp only [step] at hs
    split at hs; · cases hs
    split at hs
    · split at hs
      · cases hs; exact same rfl
      · cases hs
    · cases hs
  | regHandler =>
    simp only [step] at hs
    split at hs; · cases hs
    split at hs
    · split at hs
      · cases hs; exact same rfl
      · cases hs
    · cases hs
  | addEvent j trig rules =>
    simp only [step] at hs
    split at hs
    · rename_i mj hj
      split at hs
      · split at hs
        · split at hs
          · cases hs; exact viaSet hj rfl
          · cases hs
        · split at hs
          · cases hs
          · cases hs; exact viaSet hj rfl
      all_goals cases hs
    · cases hs
  | newChild p =>
    simp only [step] at hs
    split at hs
    · split at hs
      · cases hs
        obtain ⟨hl, _⟩ := getElem_of_get? hm
        refine ⟨m, ?_, by simp [failedDelta]⟩
        show (s.mons ++ _)[i]? = some m
        rw [List.getElem?_append_left hl]
        exact hm
      · cases hs
    · cases hs
  | pop w j =>
    simp only [step] at hs
    split at hs
    · split at hs
      · rename_i mj hj
        split at hs
        · cases hs; exact viaSet hj rfl
        · cases hs
      · cases hs
    · cases hs
  | ruleReturns j ok =>
    simp only [step] at hs
    split at hs
    · rename_i mj hj
      split at hs
      · rename_i w r rest hph htodo
        cases hs
        cases ok with
        | true =>
          have := viaSet (x := { mj with todo := (if !true && s.failFirst then [] else rest), returned := mj.returned ++ [r], failed := (if true then mj.failed else mj.failed ++ [r]) }) hj (by simp)
          simpa [failedDelta] using this
        | false =>
          have := hist_setMon (i := i) (m := m) (x := { mj with todo := (if !false && s.failFirst then [] else rest), returned := mj.returned ++ [r], failed := (if false then mj.failed else mj.failed ++ [r]) }) [r] hm hj (by simp)
          obtain ⟨m', h1, h2⟩ := this
          refine ⟨m', h1, ?_⟩
          rw [h2]
          simp only [failedDelta]
          by_cases hji : j = i
          · subst hji
            rw [hm] at hj
            cases hj
            simp [htodo]
          · simp [hji]
      · cases hs
    · cases hs
  | taskDone j =>
    simp only [step] at hs
    split at hs
    · rename_i mj hj
      split at hs
      · split at hs
        · cases hs; exact viaSet hj rfl
        · cases hs; exact viaSet hj rfl
      · cases hs
    · cases hs
  | setErrors j =>
    simp only [step] at hs
    split at hs
    · rename_i mj hj
      split at hs
      · cases hs; exact viaSet hj rfl
      all_goals cases hs
    · cases hs
  | errFinish j =>
    simp only [step] at hs
    split at hs
    · rename_i mj hj
      split at hs
      · cases hs; exact viaSet hj rfl
      all_goals cases hs
    · cases hs
  | notified j =>
    simp only [step] at hs
    split at hs
    · rename_i mj hj
      split at hs
      · cases hs; exact viaSet hj rfl
      all_goals cases hs
    · cases hs
  | dropQueue =>
    simp only [step] at hs
    split at hs
    · cases hs; exact same rfl
    · cases hs
  | post =>
    simp only [step] at hs
    split at hs
    · cases hs
    · cases hs; exact same rfl
  | observerRuns o =>
    cases o <;> simp only [step] at hs <;> split at hs <;> first | cases hs; done | (cases hs; exact same rfl)
  | waitReturns =>
    simp only [step] at hs
    split at hs
    · cases hs; exact same rfl
    · cases hs
  | allErrors =>
    simp only [step] at hs
    cases hs; exact same rfl

/-! ### source facts (regenerated from the tree under test on every run: `lean/Ecal/Gen/C02.lean`)

What ties the granularity of the model's events to the Go text: each fact is computed by the go/ast
extractor `harness C02 -tool facts` (three-valued) and has to be `some true`. -/

def srcFact (n : String) : Option Bool := (Ecal.Gen.C02.facts.find? (·.1 == n)).bind (·.2)

/-- `descendantFinished` decrements `unfinished` and evaluates the zero test inside ONE critical
    section of the root's lock (`finishOne` is one event) -/
theorem src_zero_test_inside_critical_section : srcFact "zeroTestInsideCriticalSection" = some true := by decide
/-- … and calls `PostEvent` after the lock was released (`post` is a separate event) -/
theorem src_post_outside_critical_section : srcFact "postOutsideCriticalSection" = some true := by decide
/-- every write of `unfinished` in package engine happens under the root's lock (`newChild`, `finishOne` are atomic) -/
theorem src_counter_writes_under_lock : srcFact "counterWritesUnderLock" = some true := by decide
/-- `SetErrors` attaches the error object before it enters the monitor into `RootMonitor.errors`
    (`setErrors` is one event; `allErrors_safe` has no nil entry) -/
theorem src_error_attached_before_registered : srcFact "errorAttachedBeforeRegistered" = some true := by decide
/-- `Finish`: `finished = true`, then `descendantFinished` -/
theorem src_finished_flag_before_count : srcFact "finishedFlagBeforeCount" = some true := by decide
/-- `Task.Run` finishes the monitor only after `ProcessEvent` returned (guard of `newChild`) -/
theorem src_finish_after_process_event : srcFact "finishAfterProcessEvent" = some true := by decide
/-- `Task.HandleError`: `SetErrors`, `Finish`, error observer — in this order -/
theorem src_handle_error_order : srcFact "handleErrorOrder" = some true := by decide
/-- `AddEventAndWait`: observer registered, then `AddEvent`, then `wg.Wait` (`register` needs a fresh root) -/
theorem src_wait_observer_before_add_event : srcFact "waitObserverBeforeAddEvent" = some true := by decide
/-- `AddEvent`: `IsTriggering`, finish-handler observer, `Activate`, `pool.AddTask` — in this order
    (`regHandler` before `addEvent 0 true`) -/
theorem src_handler_observer_before_add_task : srcFact "handlerObserverBeforeAddTask" = some true := by decide
/-- `newMonID` reads and increments the id counter in one critical section (monitor ids are distinct) -/
theorem src_monitor_id_alloc_in_critical_section : srcFact "monitorIdAllocInCriticalSection" = some true := by decide
/-- `AllErrors` reads the error map under the root's lock -/
theorem src_all_errors_under_lock : srcFact "allErrorsUnderLock" = some true := by decide
/-- `AllErrors` calls no asserting accessor (`Errors()`, `EventPath()`, `AssertTrue`, …): the Go
    function has no failing branch, as `Ecal.Cascade.allErrors` (da28f66) -/
theorem src_all_errors_calls_no_asserting_accessor :
    Ecal.Gen.C02.allErrorsCalls.all (fun c =>
      !(["Errors", "EventPath", "EventPathString", "AssertTrue", "AssertOk", "String", "Error", "panic"].contains c)) = true := by
  decide
/-- `EventPump.PostEvent` calls only callbacks registered for the posting source (or for all sources) -/
theorem src_post_filters_by_source : srcFact "postFiltersBySource" = some true := by decide

/-! ### several cascades in flight -/

theorem reachable_step {s s' : State} {e : Event} (h : Reachable s) (hs : step s e = some s') :
    Reachable s' := by
  obtain ⟨w, ff, es, hr⟩ := h
  refine ⟨w, ff, es ++ [e], ?_⟩
  simp [run, List.foldlM_append] at hr ⊢
  simp [hr, hs]

theorem sys_inv_step {S S' : Sys} {e : SysEvent} (h : ∀ s ∈ S.roots, Reachable s)
    (hs : Sys.step S e = some S') : ∀ s ∈ S'.roots, Reachable s := by
  cases e with
  | newRoot =>
    simp only [Sys.step] at hs
    cases hs
    intro s hs
    rcases List.mem_append.mp hs with hs | hs
    · exact h s hs
    · simp at hs; subst hs; exact ⟨_, _, [], rfl⟩
  | «at» r e =>
    simp only [Sys.step] at hs
    split at hs
    · rename_i s0 hs0
      split at hs
      · obtain ⟨s1, hstep, hS⟩ := Option.map_eq_some_iff.mp hs
        subst hS
        intro s hs
        rcases List.mem_or_eq_of_mem_set hs with hs | hs
        · exact h s hs
        · exact hs ▸ reachable_step (h s0 (List.mem_of_getElem? hs0)) hstep
      · cases hs
    · cases hs

/-- every cascade of a reachable system state is a reachable state of the single-cascade transition
    system: all theorems above hold for each of several cascades in flight on one processor -/
theorem sys_component_reachable {S : Sys} (h : S.Reachable) : ∀ s ∈ S.roots, Reachable s := by
  obtain ⟨w, ff, es, hr⟩ := h
  suffices ∀ (es : List SysEvent) (S0 : Sys), (∀ s ∈ S0.roots, Reachable s) → Sys.run S0 es = some S →
      ∀ s ∈ S.roots, Reachable s from this es _ (by simp [Sys.init]) hr
  intro es
  induction es with
  | nil => intro S0 h0 hr; simp [Sys.run] at hr; exact hr ▸ h0
  | cons e es ih =>
    intro S0 h0 hr
    simp only [Sys.run, List.foldlM_cons] at hr
    cases hstep : Sys.step S0 e with
    | none => simp [hstep] at hr
    | some S1 => simp [hstep] at hr; exact ih S1 (sys_inv_step h0 hstep) hr

/-- **nothing from another cascade**: an event of cascade `r` leaves every other cascade — its
    monitors, counter, error map, hence its error report — untouched -/
theorem sys_frame {S S' : Sys} {r : Nat} {e : Event} (hs : Sys.step S (.at r e) = some S')
    (r' : Nat) (hne : r' ≠ r) : S'.roots[r']? = S.roots[r']? := by
  simp only [Sys.step] at hs
  split at hs
  · split at hs
    · obtain ⟨s1, _, hS⟩ := Option.map_eq_some_iff.mp hs
      subst hS
      show (S.roots.set r _)[r']? = _
      rw [List.getElem?_set]
      simp [Ne.symm hne]
    · cases hs
  · cases hs

/-- `errors_exact` and `wait_after_cascade` for a cascade that runs beside others -/
theorem sys_errors_exact {S : Sys} (h : S.Reachable) {r : Nat} {s : State} (hr : S.roots[r]? = some s)
    (hw : 0 < s.released) :
    allErrors s = expectedReport s ∧ ∀ m ∈ s.mons, m.phase.finished = true ∧ m.todo = [] := by
  have hreach := sys_component_reachable h s (List.mem_of_getElem? hr)
  refine ⟨errors_exact hreach hw, ?_⟩
  have hwr : (step s .waitReturns).isSome ∨ s.waitReturned = true := by
    cases hret : s.waitReturned
    · left; simp [step, hw, hret]
    · right; rfl
  rcases hwr with hwr | hwr
  · intro m hm
    have := wait_after_cascade hreach hwr m hm
    exact ⟨this.1, this.2.1⟩
  · exact returned_after_cascade hreach hwr

example : ∃ S : Sys, S.Reachable ∧ S.roots.length = 2 ∧ ∃ s, S.roots[1]? = some s ∧ 0 < s.released :=
  ⟨_, ⟨2, false, [.newRoot, .newRoot, .at 0 .regHandler, .at 0 (.addEvent 0 true [1]), .at 0 (.pop 0 0), .at 1 .register,
    .at 1 .regHandler, .at 1 (.addEvent 0 true [5]), .at 1 (.pop 1 0), .at 1 (.ruleReturns 0 false), .at 1 (.taskDone 0),
    .at 1 (.setErrors 0), .at 1 (.errFinish 0), .at 1 .post, .at 1 (.observerRuns .wait)], rfl⟩,
    by decide, _, rfl, by decide⟩

/-- a worker occupied in one cascade cannot take a task of another -/
example : Sys.run (Sys.init 1 false) [.newRoot, .newRoot, .at 0 .regHandler, .at 0 (.addEvent 0 true [1]),
    .at 1 .regHandler, .at 1 (.addEvent 0 true [2]), .at 0 (.pop 0 0), .at 1 (.pop 0 0)] = none := by decide

/-- progress in the system: a handed, unfinished monitor of some cascade and a worker that is free
    in every cascade ⇒ an engine step of that cascade is enabled -/
theorem sys_progress {S : Sys} {r i w : Nat} {s : State} {m : Mon} (hr : S.roots[r]? = some s)
    (hm : s.mons[i]? = some m) (hu : m.phase.finished = false) (hh : m.phase ≠ .fresh)
    (hw : w < s.workers) (hfree : S.workerFree w = true) :
    ∃ e, e.internal = true ∧ (Sys.step S (.at r e)).isSome := by
  have hfree' : s.workerFree w = true := by
    simp only [Sys.workerFree, List.all_eq_true] at hfree
    exact hfree s (List.mem_of_getElem? hr)
  have nonpop : ∀ e, e.isPop = false → (step s e).isSome → (Sys.step S (.at r e)).isSome := by
    intro e hp hs
    cases hse : step s e with
    | none => simp [hse] at hs
    | some s' =>
      have : S.allows e = true := by cases e <;> simp_all [Sys.allows, Event.isPop]
      simp [Sys.step, hr, this, hse]
  cases hph : m.phase with
  | fresh => exact absurd hph hh
  | done => simp [hph, Phase.finished] at hu
  | queued =>
    refine ⟨.pop w i, rfl, ?_⟩
    simp [Sys.step, hr, Sys.allows, hfree, step, hm, hph, hw, hfree']
  | running w' =>
    obtain ⟨e, hi, hnp, hs⟩ := busy_step hm (w := w') (by simp [hph, Phase.worker])
    exact ⟨e, hi, nonpop e hnp hs⟩
  | failing w' =>
    obtain ⟨e, hi, hnp, hs⟩ := busy_step hm (w := w') (by simp [hph, Phase.worker])
    exact ⟨e, hi, nonpop e hnp hs⟩
  | errSet w' =>
    obtain ⟨e, hi, hnp, hs⟩ := busy_step hm (w := w') (by simp [hph, Phase.worker])
    exact ⟨e, hi, nonpop e hnp hs⟩
  | notifying w' =>
    obtain ⟨e, hi, hnp, hs⟩ := busy_step hm (w := w') (by simp [hph, Phase.worker])
    exact ⟨e, hi, nonpop e hnp hs⟩

/-! ### the shared observer table, pending callbacks and queue map (`Ecal.Cascade.Conc`) -/

/-- **projection**: a step of cascade `r` in the system with ONE shared observer table, ONE list of
    pending callbacks and ONE queue map (global append / filter-by-key / erase, `PostEvent` keeping
    the callbacks of the posting source) is — read through `view r` — exactly a step of
    `Cascade.step`, and the view of every other root is unchanged. -/
theorem conc_refines {C C' : Conc} {r : Nat} {e : Event} (hs : Conc.step C r e = some C') :
    ∃ v v', C.view r = some v ∧ step v e = some v' ∧ C'.view r = some v' ∧
      ∀ r', r' ≠ r → C'.view r' = C.view r' := by
  simp only [Conc.step] at hs
  split at hs
  · cases hs
  · rename_i v hv
    split at hs
    · split at hs
      · cases hs
      · rename_i v' hstep
        cases hs
        have hv2 := hv
        rw [view_eq] at hv2
        obtain ⟨s0, hs0, hs0v⟩ := Option.map_eq_some_iff.mp hv2
        have hr : r < C.roots.length := (List.getElem?_eq_some_iff.mp hs0).1
        have hsf : v.sharedFields = counters C.table C.pending C.queues r := by
          rw [← hs0v]; rfl
        refine ⟨v, v', hv, hstep, ?_, ?_⟩
        · rw [view_eq, shared_roots]
          have hc := shared_counts_self { C with roots := C.roots.set r v'.local } r e v hsf
          rw [hc, ← step_shared_fields hstep]
          simp [List.getElem?_set_self hr, withCounters_local]
        · intro r' hne
          rw [view_eq, view_eq, shared_roots, shared_counts_other _ _ _ hne]
          simp [List.getElem?_set_ne (Ne.symm hne)]
    · cases hs

/-- every root of a reachable shared system, read through `view`, is a reachable state of the
    single-cascade transition system — so every theorem of this file holds for each of several
    cascades in flight on one processor with its shared pump, queue and pool -/
theorem conc_view_reachable {C : Conc} (h : C.Reachable) {r : Nat} {v : State} (hv : C.view r = some v) :
    Reachable v := by
  obtain ⟨w, ff, es, hr⟩ := h
  let J (C : Conc) : Prop :=
    (∀ r', C.roots.length ≤ r' → counters C.table C.pending C.queues r' = (0, 0, 0, false, 0, 0, 0)) ∧
    (∀ r v, C.view r = some v → Reachable v)
  suffices ∀ (es : List ConcEvent) (C0 : Conc), J C0 → Conc.run C0 es = some C → J C from
    (this es _ ⟨by intro r' _; simp [Conc.init, counters, cnt], by intro r v hv; simp [Conc.init, Conc.view] at hv⟩ hr).2 r v hv
  intro es
  induction es with
  | nil => intro C0 h0 hr; simp [Conc.run] at hr; exact hr ▸ h0
  | cons e es ih =>
    intro C0 h0 hr
    simp only [Conc.run, List.foldlM_cons] at hr
    cases hstep : Conc.stepE C0 e with
    | none => simp [hstep] at hr
    | some C1 =>
      simp [hstep] at hr
      refine ih C1 ?_ hr
      cases e with
      | newRoot =>
        simp only [Conc.stepE] at hstep
        cases hstep
        constructor
        · intro r' hr'
          apply h0.1
          simp at hr'
          omega
        · intro r v hv
          rw [view_eq] at hv
          obtain ⟨s0, hs0, hs0v⟩ := Option.map_eq_some_iff.mp hv
          by_cases hlt : r < C0.roots.length
          · have hs0' : C0.roots[r]? = some s0 := by
              have : (C0.roots ++ [(Cascade.init C0.workers C0.failFirst).local])[r]? = some s0 := hs0
              rwa [List.getElem?_append_left hlt] at this
            exact h0.2 r v (by rw [view_eq, hs0']; exact congrArg some hs0v)
          · have hlen := (List.getElem?_eq_some_iff.mp hs0).1
            simp at hlen
            have hreq : r = C0.roots.length := by omega
            subst hreq
            have : (C0.roots ++ [(Cascade.init C0.workers C0.failFirst).local])[C0.roots.length]? = some s0 := hs0
            simp at this
            have hz := h0.1 C0.roots.length (Nat.le_refl _)
            have hz' : counters C0.table C0.pending C0.queues C0.roots.length = (0, 0, 0, false, 0, 0, 0) := hz
            rw [← hs0v, ← this]
            show Reachable (withCounters _ (counters C0.table C0.pending C0.queues C0.roots.length))
            rw [hz']
            exact ⟨C0.workers, C0.failFirst, [], rfl⟩
      | «at» r e =>
        simp only [Conc.stepE] at hstep
        obtain ⟨v0, v1, hv0, hs01, hv1, hoth⟩ := conc_refines hstep
        have hrlt : r < C0.roots.length := by
          rw [view_eq] at hv0
          obtain ⟨s0, hs0, _⟩ := Option.map_eq_some_iff.mp hv0
          exact (List.getElem?_eq_some_iff.mp hs0).1
        have hlen : C1.roots.length = C0.roots.length := by
          simp only [Conc.step] at hstep
          rw [hv0] at hstep
          simp only at hstep
          split at hstep
          · rw [hs01] at hstep
            cases hstep
            rw [shared_roots]
            simp
          · cases hstep
        constructor
        · intro r' hr'
          rw [hlen] at hr'
          have hne : r' ≠ r := by omega
          have := h0.1 r' hr'
          simp only [Conc.step] at hstep
          rw [hv0] at hstep
          simp only at hstep
          split at hstep
          · rw [hs01] at hstep
            cases hstep
            rw [shared_counts_other _ _ _ hne]
            exact this
          · cases hstep
        · intro r' v hv
          by_cases hrr : r' = r
          · subst hrr
            rw [hv1] at hv
            cases hv
            exact reachable_step (h0.2 r' v0 hv0) hs01
          · rw [hoth r' hrr] at hv
            exact h0.2 r' v hv

/-- `errors_exact` + `wait_after_cascade` for a cascade running beside others on the shared pump:
    its report holds exactly its own failed (event, rule) entries — nothing of another cascade -/
theorem conc_errors_exact {C : Conc} (h : C.Reachable) {r : Nat} {v : State} (hv : C.view r = some v)
    (hw : 0 < v.released) :
    allErrors v = expectedReport v ∧ ∀ m ∈ v.mons, m.phase.finished = true ∧ m.todo = [] := by
  have hreach := conc_view_reachable h hv
  refine ⟨errors_exact hreach hw, ?_⟩
  cases hret : v.waitReturned with
  | true => exact returned_after_cascade hreach hret
  | false =>
    intro m hm
    have := wait_after_cascade hreach (by simp [step, hw, hret]) m hm
    exact ⟨this.1, this.2.1⟩

/-- negative witness: a `PostEvent` that does not filter its snapshot by the posting source (not the
    code, cf. `src_post_filters_by_source`) hands the waiter of ANOTHER, unfinished cascade its
    callback: root 1 (one monitor outstanding, nothing posted) gets a pending wait callback when
    root 0 posts. -/
theorem unfiltered_post_reaches_foreign_waiter :
    ∃ C v, Conc.run (Conc.init 2 false) [.newRoot, .newRoot, .at 1 .register, .at 1 .regHandler,
        .at 1 (.addEvent 0 true [1]), .at 0 .regHandler, .at 0 (.addEvent 0 true [1]), .at 0 (.pop 0 0),
        .at 0 (.ruleReturns 0 true), .at 0 (.taskDone 0)] = some C ∧
      (C.postEventUnfiltered 0).view 1 = some v ∧ v.dWait = 1 ∧ v.posted = 0 ∧ v.unfinished = 1 ∧
      (step v (.observerRuns .wait)).isSome = true :=
  ⟨_, _, rfl, rfl, by decide⟩

example : ∃ C : Conc, C.Reachable ∧ ∃ v, C.view 1 = some v ∧ 0 < v.released ∧ C.roots.length = 2 :=
  ⟨_, ⟨2, false, [.newRoot, .newRoot, .at 0 .regHandler, .at 0 (.addEvent 0 true [1]), .at 0 (.pop 0 0), .at 1 .register,
    .at 1 .regHandler, .at 1 (.addEvent 0 true [5]), .at 1 (.pop 1 0), .at 1 (.ruleReturns 0 false), .at 1 (.taskDone 0),
    .at 1 (.setErrors 0), .at 1 (.errFinish 0), .at 1 .post, .at 1 (.observerRuns .wait)], rfl⟩, _, rfl, by decide⟩

end Ecal.Props.C02
