import Ecal.Model.EvalObjects
namespace Ecal.Props.C05
open Ecal.Ev Ecal.Obj

end Ecal.Props.C05
