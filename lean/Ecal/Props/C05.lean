import Ecal.Lemmas.EvalHeap
import Ecal.Lemmas.ContainerPaths
import Ecal.Lemmas.EvalFrame
/-!
# C05 — lexical scoping, functions, containers and objects

Theorems about the functions of `Model/Eval.lean` (scope chain: `scopeFor`, `lookupVar`, `setValue`,
`setLocalValue`; heap: `mapStore`, `mapFieldLookup`) and `Model/EvalObjects.lean` (`paramValue`,
`bindParams`: the frame construction of `function.Run`) that the executable evaluator runs, stated on
`runM m st` = result and final state of a computation.  `St.chain st f sc` is the scope `sc` followed by
its ancestors, `St.nearest st sc v` the first scope on that chain that defines `v`.

Proved here: call_does_not_write_enclosing_frames, lookup_nearest, assign_nearest_or_local, let_local, inner_not_visible_outside,
call_fresh_locals_partial (frame = fresh index), closure_sees_definition_scope_partial (chain of a frame),
args_missing_default_extra_ignored, prims_by_value_containers_by_ref (aliasing through the heap cell),
read_after_write (one map cell, number and string keys) and read_after_write_paths (any nesting, acyclic
tree values).  Only tested by the correspondence run (no theorem): len/add/del/concat against Go slices,
`new` (template + super properties), `this` in methods, `init` once with arguments and super inits.
-/
namespace Ecal.Props.C05
open Ecal.Ev Ecal.Obj

/-- A read of `v` from scope `sc` changes nothing and yields the value stored in the NEAREST scope on the
    parent chain of `sc` that defines `v` (none: the name is undefined, the evaluator reads null). -/
theorem lookup_nearest (sc : Nat) (v : String) (st st' : St) (r : Option Val)
    (h : runM (lookupVar sc v) st = (.ok r, st')) :
    st' = st ∧ r = (st.nearest sc v).map (fun s => st.valueIn s v) :=
  lookupVar_ok sc v st st' r h

/-- the search itself: the first scope of the chain that defines the name -/
theorem lookup_nearest_scope (f sc : Nat) (v : String) (st st' : St) (r : Option Nat)
    (h : runM (scopeFor f sc v) st = (.ok r, st')) :
    st' = st ∧ r = (st.chain f sc).find? (fun s => st.defines s v) :=
  scopeFor_ok f sc v st st' r h

/-- non-vacuity: a block scope (1) under the global scope (0) that defines `a` -/
def exSt : St := { scopes := #[⟨"g", none, [1], [("a", .null)]⟩, ⟨"b", some 0, [], []⟩] }
example : ∃ r st', runM (lookupVar 1 "a") exSt = (.ok r, st') := ⟨_, _, rfl⟩
example : exSt.nearest 1 "a" = some 0 := by decide
example : ∃ st', runM (setValue 1 [97] (.bool true)) exSt = (.ok (), st') := ⟨_, rfl⟩
example : ∃ st', runM (setLocalValue 1 [97] (.bool true)) exSt = (.ok (), st') := ⟨_, rfl⟩
example : (0 : Nat) ∉ ({ scopes := #[⟨"g", none, [], []⟩, ⟨"func: f", none, [], []⟩] } : St).chain 10000 1 := by decide

/-- `v := x` (a name without access path) writes into the nearest enclosing scope that defines `v`,
    else into the current scope — and into no other scope, and leaves the heap alone. -/
theorem assign_nearest_or_local (sc : Nat) (name vb : List Nat) (x : Val) (st st' : St)
    (hn : splitDots name = [vb]) (h : runM (setValue sc name x) st = (.ok (), st')) :
    st' = st.withVar ((st.nearest sc (bytesToString vb)).getD sc) (bytesToString vb) x :=
  setValue_plain_ok sc name vb x st st' hn h

/-- … so every scope other than the target is unchanged -/
theorem assign_touches_one_scope (sc t : Nat) (name vb : List Nat) (x : Val) (st st' : St)
    (hn : splitDots name = [vb]) (h : runM (setValue sc name x) st = (.ok (), st'))
    (ht : t ≠ (st.nearest sc (bytesToString vb)).getD sc) : st'.scope t = st.scope t := by
  rw [assign_nearest_or_local sc name vb x st st' hn h]; exact withVar_scope_other _ _ _ _ _ ht

/-- … and the written name then reads back `x` from the target scope -/
theorem assign_then_defined (st : St) (s : Nat) (v : String) (x : Val) (hs : s < st.scopes.size) :
    (st.withVar s v x).defines s v = true ∧ (st.withVar s v x).valueIn s v = x :=
  ⟨withVar_defines st s v x hs, withVar_valueIn st s v x hs⟩

/-- `let v := x` defines `v` in the CURRENT scope (first as null, then the value) whatever the enclosing
    scopes define; afterwards the current scope is the nearest definition and holds `x`. -/
theorem let_local (sc : Nat) (name vb : List Nat) (x : Val) (st st' : St) (hn : splitDots name = [vb])
    (hsc : sc < st.scopes.size) (h : runM (setLocalValue sc name x) st = (.ok (), st')) :
    st' = (st.withVar sc (bytesToString vb) Val.null).withVar sc (bytesToString vb) x ∧
    st'.nearest sc (bytesToString vb) = some sc ∧ st'.valueIn sc (bytesToString vb) = x ∧
    ∀ t, t ≠ sc → st'.scope t = st.scope t := by
  have e := setLocalValue_plain_ok sc name vb x st st' hn hsc h
  have hsz : sc < (st.withVar sc (bytesToString vb) Val.null).scopes.size := by
    rw [(withVar_heap st sc _ _).2.2]; exact hsc
  subst e
  refine ⟨rfl, nearest_self _ _ _ (withVar_defines _ _ _ _ hsz), withVar_valueIn _ _ _ _ hsz, ?_⟩
  intro t ht
  rw [withVar_scope_other _ _ _ _ _ ht, withVar_scope_other _ _ _ _ _ ht]

/-- A definition made in a scope `t` that is not on the parent chain of `sc` (an inner block, the frame of a
    function call, a sibling) is invisible from `sc`: name resolution from `sc` and the value read are the same
    as before. -/
theorem inner_not_visible_outside (st : St) (t sc : Nat) (w v : String) (y : Val)
    (hnot : t ∉ st.chain 10000 sc) :
    (st.withVar t w y).nearest sc v = st.nearest sc v ∧
    ((st.withVar t w y).nearest sc v).map (fun s => (st.withVar t w y).valueIn s v) =
      (st.nearest sc v).map (fun s => st.valueIn s v) := by
  have h1 := nearest_withVar st t sc w v y hnot
  refine ⟨h1, ?_⟩
  rw [h1]
  cases hn : st.nearest sc v with
  | none => rfl
  | some s =>
    have hs : s ∈ st.chain 10000 sc := by
      unfold St.nearest at hn; exact List.mem_of_find?_eq_some hn
    have : s ≠ t := by intro e; subst e; exact hnot hs
    simp [valueIn_withVar_other st t s w v y this]

/-- A child scope hangs below its parent, a call frame is a new root: a scope created now (index = current
    number of scopes) is on no chain of an existing scope whose chain stays inside the existing scopes. -/
theorem fresh_scope_not_on_chain (st : St) : ∀ (f sc : Nat),
    (∀ s ∈ st.chain f sc, s < st.scopes.size) → st.scopes.size ∉ st.chain f sc := by
  intro f sc h hm; exact Nat.lt_irrefl _ (h _ hm)

/-- function.Run allocates the frame as a NEW scope: its index is the current number of scopes, so it is
    different from every scope of every earlier or enclosing call (fresh locals per call), and it starts empty
    and parentless.  (Partial: the statement about the whole `callFrame` with defaults is only cross-checked by
    the driver — `framesOk` on every final state.) -/
theorem call_fresh_locals_partial (name : String) (st : St) :
    runM (newScope name) st =
      (.ok st.scopes.size, { st with scopes := st.scopes.push { name := name, parent := none, children := [], vars := [] } }) :=
  newScope_run name none st

/-- Once a frame `fr` is linked to the declaration scope `ds`, what the body sees is the frame, then the
    chain of the DECLARATION scope — the caller's scope does not occur. -/
theorem closure_sees_definition_scope_partial (st : St) (fr ds f : Nat) (h : (st.scope fr).parent = some ds) :
    st.chain (f + 1) fr = fr :: st.chain f ds := by
  simp [St.chain, h]

/-- A call changes no existing scope while it builds its frame: `this`, `super` and the parameters are written
    into the fresh, still parentless root scope, so they SHADOW and never overwrite variables of the same
    names in the enclosing frames (the declaration scope is linked only afterwards).  Holds for every
    outcome, also when a default raises an error; hypothesis `hev`: evaluating a default expression itself
    leaves scope `t` and the unreachable new frame alone (what the defaults and later the body assign is
    covered by `assign_nearest_or_local`). -/
theorem call_does_not_write_enclosing_frames (ev : Ecal.Parse.Node → M Val) (name : String) (ds : Nat)
    (this super : Option Val) (params : List Param) (args : List Val) (st st' : St) (r : Except Sig Nat) (t : Nat)
    (ht : t < st.scopes.size) (hpl : ∀ p ∈ params, PlainName p.name)
    (hev : DefaultKeeps ev st.scopes.size t)
    (h : runM (callFrame ev name ds this super params args) st = (r, st')) :
    st'.scope t = st.scope t :=
  callFrame_keeps_existing ev name ds this super params args st st' r t ht hpl hev h

/-- non-vacuity: a method frame (`this` bound, parameter `a`) built over the example state; constant defaults -/
example (st' : St) (r : Except Sig Nat)
    (h : runM (callFrame (fun _ => pure Val.null) "m" 1 (some (.map 0)) none [⟨[97], none⟩] [.bool true]) exSt = (r, st')) :
    st'.scope 0 = exSt.scope 0 :=
  call_does_not_write_enclosing_frames _ "m" 1 _ _ _ _ exSt st' r 0 (by decide)
    (by intro p hp; simp at hp; subst hp; unfold PlainName; decide)
    (by intro d s r s1 hr; simp only [runM_pure] at hr; injection hr with _ h2; subst h2; exact ⟨Nat.le_refl _, rfl, rfl⟩) h

/-- Positional parameters: the argument at the parameter's position if there is one, else the default
    (evaluated by `evalDefault`, which the evaluator instantiates with evaluation in the caller's scope), else
    null; arguments beyond the parameters are never looked at. -/
theorem args_missing_default_extra_ignored (ev : Ecal.Parse.Node → M Val) (p : Param) (i : Nat) (args extra : List Val) :
    (∀ a, args[i]? = some a → paramValue ev p i args = pure a) ∧
    (args.length ≤ i → ∀ d, p.dflt = some d → paramValue ev p i args = ev d) ∧
    (args.length ≤ i → p.dflt = none → paramValue ev p i args = pure Val.null) ∧
    (∀ (fvs : Nat) (ps : List Param), i + ps.length ≤ args.length →
      bindParams ev fvs ps i (args ++ extra) = bindParams ev fvs ps i args) := by
  refine ⟨?_, ?_, ?_, ?_⟩
  · intro a h; simp [paramValue, h]
  · intro h d hd
    have : args[i]? = none := List.getElem?_eq_none h
    simp [paramValue, this, hd]
  · intro h hd
    have : args[i]? = none := List.getElem?_eq_none h
    simp [paramValue, this, hd]
  · intro fvs ps
    induction ps generalizing i with
    | nil => intro _; rfl
    | cons q qs ih =>
      intro h
      simp only [List.length_cons] at h
      have hi : i < args.length := by omega
      have e : (args ++ extra)[i]? = args[i]? := List.getElem?_append_left hi
      simp only [bindParams, paramValue, e]
      rw [ih (i + 1) (by omega)]

/-- Numbers, strings, booleans are values; a list or a map is a reference to a heap cell.  Writing the map
    cell `r` (through whatever variable or path led to it) is seen by every holder of `.map r`: after
    `mapStore` under the key of segment `fld`, reading segment `fld` of cell `r` gives `x` — while a plain
    assignment `b := x` only replaces the variable (see `assign_touches_one_scope`). -/
theorem prims_by_value_containers_by_ref (st : St) (r : Nat) (fld : List Nat) (x : Val) (hr : r < st.maps.size)
    (hnum : ∀ i, atoi fld = some i → keyEq (.num (Float.ofInt i)) (.num (Float.ofInt i)) = true) :
    let st' : St := { st with maps := st.maps.setIfInBounds r (mapStore (st.maps.getD r []) (fieldKey (st.maps.getD r []) fld) x) }
    mapFieldLookup (st'.maps.getD r []) fld = some x := by
  intro st'
  have : st'.maps.getD r [] = mapStore (st.maps.getD r []) (fieldKey (st.maps.getD r []) fld) x := by
    simp [st', hr]
  rw [this]
  exact mapField_read_after_write _ fld x hnum

/-- After `c[k] := v` / `c.k := v` on a map the same segment reads `v`: for string keys, and for NUMBER keys —
    `fieldKey` takes an existing number key (the repair of 5e0a7a5), otherwise the string form, and the read
    tries the number key first, then the string.  (Hypothesis `hnum`: `==` is reflexive on the float of the
    index, i.e. it is not NaN; Lean's `Float` is opaque.) -/
theorem read_after_write (kvs : List (Val × Val)) (fld : List Nat) (x : Val)
    (hnum : ∀ i, atoi fld = some i → keyEq (.num (Float.ofInt i)) (.num (Float.ofInt i)) = true) :
    mapFieldLookup (mapStore kvs (fieldKey kvs fld) x) fld = some x :=
  mapField_read_after_write kvs fld x hnum

example : mapFieldLookup (mapStore [] (fieldKey [] [107]) (.bool true)) [107] = some (.bool true) :=
  read_after_write [] [107] (.bool true) (by intro i h; simp [atoi] at h)

/-- list cells: a write at a valid index is read back at that index -/
theorem read_after_write_list (b : List Val) (i : Nat) (x : Val) (h : i < b.length) : (b.set i x)[i]? = some x := by
  simp [h]

/-- Any nesting (maps with number and string keys, lists with negative indices) on acyclic tree values: a
    successful write through a flattened access path is read back through the same path. -/
theorem read_after_write_paths (atoi : String → Option Int) (segs : List String) (v v' x : Ecal.Sc.Val)
    (hne : segs ≠ []) (h : Ecal.Sc.setPath atoi v segs x = .ok v') : Ecal.Sc.getPath atoi v' segs = .ok x :=
  Ecal.Sc.read_after_write atoi segs v v' x hne h

end Ecal.Props.C05
