import Ecal.Lemmas.EvalHeap
import Ecal.Lemmas.EvalPaths
import Ecal.Lemmas.EvalWF
import Ecal.Lemmas.EvalPres
import Ecal.Lemmas.EvalCalm
import Ecal.Lemmas.EvalFrame
import Ecal.Lemmas.EvalLists
import Ecal.Lemmas.EvalNew
/-!
# C05 — lexical scoping, functions, containers and objects

Theorems about the functions of `Model/Eval.lean` that the executable evaluator runs — scope chain (`scopeFor`,
`lookupVar`, `setValue`, `setLocalValue`), heap (`mapStore`, `mapFieldLookup`, `appendVals`), call frames
(`buildFrame`, `bindParamNodes`), builtins (`lenB`, `addB`, `insertAt`, `delB`, `concatB`) and objects (`copyProp(s)`,
`superLoop`, `addSuperClasses`, `newB`) — stated on `runM m st` = result and final state of a computation.
`St.chain st f sc` is the scope `sc` followed by its ancestors, `St.nearest st sc v` the first scope on that chain
that defines `v`; `St.elems st r l` the elements of the slice `.list r l`, `St.entries st r` the entries of map `r`.
`runFunction_uses_buildFrame`, `runBuiltin_uses`, `addSuperClasses_order`, `superLoop_order` are the unfolding
equations that tie the mutual evaluator to these functions.

Proved: lookup_nearest, assign_nearest_or_local, let_local, inner_not_visible_outside, call_fresh_locals,
closure_sees_definition_scope, call_does_not_write_enclosing_frames, args_missing_default_extra_ignored,
prims_by_value_containers_by_ref, read_after_write (cell) and read_after_write_path (setValue / getValue), 
call_preserves_wf (+ _noDefaults), call_frame_invisible_noDefaults, writes_preserve_wf, control_flow_preserves_invariants,
eval_preserves_wf_calm (eval itself, call-free fragment),
new_has_all_template_props (transitive), own_property_wins, method_this, init_once_with_args,
init_once_with_args_and_supers, init_reads_super, addSuperClasses_cycle.  Hypotheses are listed with each theorem.
-/
namespace Ecal.Props.C05
open Ecal.Ev Ecal.Obj

/-- A read of `v` from scope `sc` changes nothing and yields the value stored in the NEAREST scope on the
    parent chain of `sc` that defines `v` (none: the name is undefined, the evaluator reads null). -/
theorem lookup_nearest (sc : Nat) (v : String) (st st' : St) (r : Option Val)
    (h : runM (lookupVar sc v) st = (.ok r, st')) :
    st' = st ∧ r = (st.nearest sc v).map (fun s => st.valueIn s v) :=
  lookupVar_ok sc v st st' r h

/-- the search itself: the first scope of the chain that defines the name -/
theorem lookup_nearest_scope (f sc : Nat) (v : String) (st st' : St) (r : Option Nat)
    (h : runM (scopeFor f sc v) st = (.ok r, st')) :
    st' = st ∧ r = (st.chain f sc).find? (fun s => st.defines s v) :=
  scopeFor_ok f sc v st st' r h

/-- non-vacuity: a block scope (1) under the global scope (0) that defines `a` -/
def exSt : St := { scopes := #[⟨"g", none, [1], [("a", .null)]⟩, ⟨"b", some 0, [], []⟩] }
example : ∃ r st', runM (lookupVar 1 "a") exSt = (.ok r, st') := ⟨_, _, rfl⟩
example : exSt.nearest 1 "a" = some 0 := by decide
example : ∃ st', runM (setValue 1 [97] (.bool true)) exSt = (.ok (), st') := ⟨_, rfl⟩
example : ∃ st', runM (setLocalValue 1 [97] (.bool true)) exSt = (.ok (), st') := ⟨_, rfl⟩
example : (0 : Nat) ∉ ({ scopes := #[⟨"g", none, [], []⟩, ⟨"func: f", none, [], []⟩] } : St).chain 10000 1 := by decide

/-- `v := x` (a name without access path) writes into the nearest enclosing scope that defines `v`,
    else into the current scope — and into no other scope, and leaves the heap alone. -/
theorem assign_nearest_or_local (sc : Nat) (name vb : List Nat) (x : Val) (st st' : St)
    (hn : splitDots name = [vb]) (h : runM (setValue sc name x) st = (.ok (), st')) :
    st' = st.withVar ((st.nearest sc (bytesToString vb)).getD sc) (bytesToString vb) x :=
  setValue_plain_ok sc name vb x st st' hn h

/-- … so every scope other than the target is unchanged -/
theorem assign_touches_one_scope (sc t : Nat) (name vb : List Nat) (x : Val) (st st' : St)
    (hn : splitDots name = [vb]) (h : runM (setValue sc name x) st = (.ok (), st'))
    (ht : t ≠ (st.nearest sc (bytesToString vb)).getD sc) : st'.scope t = st.scope t := by
  rw [assign_nearest_or_local sc name vb x st st' hn h]; exact withVar_scope_other _ _ _ _ _ ht

/-- … and the written name then reads back `x` from the target scope -/
theorem assign_then_defined (st : St) (s : Nat) (v : String) (x : Val) (hs : s < st.scopes.size) :
    (st.withVar s v x).defines s v = true ∧ (st.withVar s v x).valueIn s v = x :=
  ⟨withVar_defines st s v x hs, withVar_valueIn st s v x hs⟩

/-- `let v := x` defines `v` in the CURRENT scope (first as null, then the value) whatever the enclosing
    scopes define; afterwards the current scope is the nearest definition and holds `x`. -/
theorem let_local (sc : Nat) (name vb : List Nat) (x : Val) (st st' : St) (hn : splitDots name = [vb])
    (hsc : sc < st.scopes.size) (h : runM (setLocalValue sc name x) st = (.ok (), st')) :
    st' = (st.withVar sc (bytesToString vb) Val.null).withVar sc (bytesToString vb) x ∧
    st'.nearest sc (bytesToString vb) = some sc ∧ st'.valueIn sc (bytesToString vb) = x ∧
    ∀ t, t ≠ sc → st'.scope t = st.scope t := by
  have e := setLocalValue_plain_ok sc name vb x st st' hn hsc h
  have hsz : sc < (st.withVar sc (bytesToString vb) Val.null).scopes.size := by
    rw [(withVar_heap st sc _ _).2.2]; exact hsc
  subst e
  refine ⟨rfl, nearest_self _ _ _ (withVar_defines _ _ _ _ hsz), withVar_valueIn _ _ _ _ hsz, ?_⟩
  intro t ht
  rw [withVar_scope_other _ _ _ _ _ ht, withVar_scope_other _ _ _ _ _ ht]

/-- The `let` STATEMENT as the evaluator runs it — `setLocalValue sc v null` (the `let` node) and then the
    assignment's `setValue sc v x`: the value lands in the current scope, whatever enclosing scopes define, and no
    other scope changes. -/
theorem let_statement_local (sc : Nat) (name vb : List Nat) (x : Val) (st st' : St) (hn : splitDots name = [vb])
    (hsc : sc < st.scopes.size)
    (h : runM (do setLocalValue sc name Val.null; setValue sc name x) st = (.ok (), st')) :
    st'.nearest sc (bytesToString vb) = some sc ∧ st'.valueIn sc (bytesToString vb) = x ∧
    ∀ t, t ≠ sc → st'.scope t = st.scope t := by
  rw [runM_bind] at h
  cases h1 : runM (setLocalValue sc name Val.null) st with
  | mk r1 s1 =>
    rw [h1] at h
    cases r1 with
    | error e => simp at h
    | ok u =>
      simp only at h
      obtain ⟨e1, hn1, _, ho1⟩ := let_local sc name vb Val.null st s1 hn hsc h1
      have hs1 : sc < s1.scopes.size := by rw [e1]; simp [St.withVar]; exact hsc
      have e2 := assign_nearest_or_local sc name vb x s1 st' hn h
      rw [hn1] at e2
      simp only [Option.getD_some] at e2
      subst e2
      refine ⟨nearest_self _ _ _ (withVar_defines s1 sc _ x hs1), withVar_valueIn s1 sc _ x hs1, ?_⟩
      intro t ht
      rw [withVar_scope_other s1 sc t _ x ht]; exact ho1 t ht

/-- A definition made in a scope `t` that is not on the parent chain of `sc` (an inner block, the frame of a
    function call, a sibling) is invisible from `sc`: name resolution from `sc` and the value read are the same
    as before. -/
theorem inner_not_visible_outside (st : St) (t sc : Nat) (w v : String) (y : Val)
    (hnot : t ∉ st.chain 10000 sc) :
    (st.withVar t w y).nearest sc v = st.nearest sc v ∧
    ((st.withVar t w y).nearest sc v).map (fun s => (st.withVar t w y).valueIn s v) =
      (st.nearest sc v).map (fun s => st.valueIn s v) := by
  have h1 := nearest_withVar st t sc w v y hnot
  refine ⟨h1, ?_⟩
  rw [h1]
  cases hn : st.nearest sc v with
  | none => rfl
  | some s =>
    have hs : s ∈ st.chain 10000 sc := by
      unfold St.nearest at hn; exact List.mem_of_find?_eq_some hn
    have : s ≠ t := by intro e; subst e; exact hnot hs
    simp [valueIn_withVar_other st t s w v y this]

/-- "Code sees the variables of its enclosing BLOCKS": every block (if / loop / try / except / otherwise / finally /
    interpolation) is evaluated in `newChild current name` — the existing child of that name when the block is
    entered again (its variables survive: the code reuses block scopes by name), else a new scope whose parent is the
    current scope.  On a well-formed scope table (`ScopesWF`: parents have smaller indices, listed children point
    back) it stays well-formed, and the block scope is NOT on the chain of the current scope — so
    `inner_not_visible_outside` applies: nothing defined in the block is visible from outside, while the block sees
    the current scope first on its parent chain (`lookup_nearest`). -/
theorem block_scope_under_current (st st' : St) (h : ScopesWF st) (cur c : Nat) (name : String) (hp : cur < st.scopes.size)
    (hr : runM (newChild cur name) st = (.ok c, st')) :
    ScopesWF st' ∧ (st'.scope c).parent = some cur ∧ c ∉ st'.chain 10000 cur ∧
    st'.chain 10001 c = c :: st'.chain 10000 cur := by
  obtain ⟨h1, h2, _, _, h5, _⟩ := newChild_spec st st' h cur c name hp hr
  exact ⟨h1, h2, h5, by rw [show (10001 : Nat) = 10000 + 1 from rfl, St.chain, h2]⟩

/-- … and a call frame (the new index) is on the chain of no scope that existed before the call: with
    `call_does_not_write_enclosing_frames` (existing scopes unchanged) and `inner_not_visible_outside`, nothing a call
    defines in its frame is visible from the caller or anywhere else outside. -/
theorem frame_invisible_from_existing (st st' : St) (h : ScopesWF st) (f sc : Nat) (hsc : sc < st.scopes.size)
    (hkeep : ∀ t, t < st.scopes.size → st'.scope t = st.scope t) : st.scopes.size ∉ st'.chain f sc :=
  frame_not_on_existing_chains st st' h f sc hsc hkeep

/-- the table the evaluator starts with, and the ways it grows, are well-formed: initial global scope, new root,
    variable writes (`newChild`: see above) -/
theorem scopes_wf_preserved :
    (∀ name, ScopesWF { scopes := #[{ name := name, parent := none, children := [], vars := [] }] }) ∧
    (∀ st name, ScopesWF st → ScopesWF { st with scopes := st.scopes.push { name := name, parent := none, children := [], vars := [] } }) ∧
    (∀ st sc v x, ScopesWF st → ScopesWF (st.withVar sc v x)) :=
  ⟨wf_initial, fun st name h => wf_newRoot st h name, fun st sc v x h => wf_withVar st h sc v x⟩

example : ∃ c st', runM (newChild 0 "block: if (Line:1 Pos:1)") { scopes := #[⟨"g", none, [], []⟩] } = (.ok c, st') := ⟨_, _, rfl⟩

/-- `runFunction` (inside the mutual block of the evaluator) builds its frame with `buildFrame`, evaluating
    defaults in the CALLER's scope, and evaluates the body in that frame. -/
theorem runFunction_uses_buildFrame (f callerSc id : Nat) (args : List Val) :
    runFunction (f + 1) callerSc id args = (do
      let fr ← (match (← get).funcs[id]? with
        | some fr => pure fr
        | none => throw (Sig.unsupported "dangling function id"))
      let decl := fr.decl
      let c0 ← child decl 0
      let off := if c0.name == "identifier" then 1 else 0
      let params := (← child decl off).children
      let body ← child decl (off + 1)
      let fvs ← buildFrame (fun d => eval f callerSc d) fr params args
      callCore (withFreshIs (eval f fvs body))) := by
  unfold runFunction; rfl

/-- the names a frame may define: `this`, `super`, the parameter names -/
def FrameNames (params : List (Option Ecal.Parse.Node)) (w : String) : Prop :=
  w = bytesToString thisName ∨ w = bytesToString superName ∨
  ∃ p nm, some p ∈ params ∧ nodeParamName p = some nm ∧ w = bytesToString nm

/-- parameter names are identifiers without access path (what the parser produces) -/
def PlainParams (params : List (Option Ecal.Parse.Node)) : Prop :=
  ∀ p nm, some p ∈ params → nodeParamName p = some nm → PlainName nm

theorem namesOk_of_plain (params : List (Option Ecal.Parse.Node)) (h : PlainParams params) :
    NamesOk (FrameNames params) params :=
  fun p nm hp hn => ⟨h p nm hp hn, Or.inr (Or.inr ⟨p, nm, hp, hn, rfl⟩)⟩

/-- A call changes no existing scope while it builds its frame: `this`, `super` and the parameters are written
    into the fresh, still parentless root scope, so they SHADOW and never overwrite variables of the same
    names in the enclosing frames (the declaration scope is linked only afterwards).  Holds for every
    outcome, also when a default raises an error.  Hypothesis `hev`: evaluating the default expressions OF THIS
    PARAMETER LIST preserves the invariant of the frame under construction (frame in bounds and parentless, only
    allowed names in it, scope `t` as before) — it may do anything else; `_noDefaults` below needs no such
    hypothesis, and the examples instantiate both forms on the real evaluator (`ev = eval f callerScope`). -/
theorem call_does_not_write_enclosing_frames (ev : Ecal.Parse.Node → M Val) (fr : FuncRec)
    (params : List (Option Ecal.Parse.Node)) (args : List Val) (st st' : St) (r : Except Sig Nat) (t : Nat)
    (ht : t < st.scopes.size) (hpl : PlainParams params)
    (hev : DefaultPreserves ev params (FrameInv st st.scopes.size t (FrameNames params)))
    (h : runM (buildFrame ev fr params args) st = (r, st')) :
    st'.scope t = st.scope t :=
  (buildFrame_spec ev fr params args st st' r t (FrameNames params) ht (Or.inl rfl) (Or.inr (Or.inl rfl))
    (namesOk_of_plain params hpl) hev h).1

/-- Fresh locals per call: the frame of a successful `buildFrame` is a NEW scope (its index is the number of
    scopes before the call, so it is no scope of any earlier or enclosing call), and it defines nothing but
    `this`, `super` and the parameters — no local of an earlier call of the same function survives. -/
theorem call_fresh_locals (ev : Ecal.Parse.Node → M Val) (fr : FuncRec)
    (params : List (Option Ecal.Parse.Node)) (args : List Val) (st st' : St) (fvs t : Nat)
    (ht : t < st.scopes.size) (hpl : PlainParams params)
    (hev : DefaultPreserves ev params (FrameInv st st.scopes.size t (FrameNames params)))
    (h : runM (buildFrame ev fr params args) st = (.ok fvs, st')) :
    fvs = st.scopes.size ∧ fvs ≠ t ∧ fvs < st'.scopes.size ∧ ∀ w, st'.defines fvs w = true → FrameNames params w := by
  have := (buildFrame_spec ev fr params args st st' (.ok fvs) t (FrameNames params) ht (Or.inl rfl) (Or.inr (Or.inl rfl))
    (namesOk_of_plain params hpl) hev h).2 fvs rfl
  exact ⟨this.fresh, by rw [this.fresh]; exact (Nat.ne_of_lt ht).symm, this.inBounds, this.onlyAllowed⟩

/-- A closure sees its DEFINITION scope: the finished frame is linked to the declaration scope of the
    function, so from the body the chain is the frame, then the chain of the declaration scope (read in the
    final state) — the caller's scope is not on it unless the declaration scope's own chain contains it. -/
theorem closure_sees_definition_scope (ev : Ecal.Parse.Node → M Val) (fr : FuncRec)
    (params : List (Option Ecal.Parse.Node)) (args : List Val) (st st' : St) (fvs t f : Nat)
    (ht : t < st.scopes.size) (hpl : PlainParams params)
    (hev : DefaultPreserves ev params (FrameInv st st.scopes.size t (FrameNames params)))
    (h : runM (buildFrame ev fr params args) st = (.ok fvs, st')) :
    (st'.scope fvs).parent = some fr.declScope ∧ st'.chain (f + 1) fvs = fvs :: st'.chain f fr.declScope := by
  have := (buildFrame_spec ev fr params args st st' (.ok fvs) t (FrameNames params) ht (Or.inl rfl) (Or.inr (Or.inl rfl))
    (namesOk_of_plain params hpl) hev h).2 fvs rfl
  exact ⟨this.linked, by simp [St.chain, this.linked]⟩

/-- Parameter lists without defaults need no hypothesis about the evaluator at all: the default evaluator is never
    called (`buildFrame_noPreset`), so the three theorems hold for EVERY `ev`, in particular for the one
    `runFunction` passes. -/
theorem call_frames_noDefaults (ev : Ecal.Parse.Node → M Val) (fr : FuncRec)
    (params : List (Option Ecal.Parse.Node)) (args : List Val) (st st' : St) (r : Except Sig Nat) (t : Nat)
    (ht : t < st.scopes.size) (hpl : PlainParams params) (hnp : NoPreset params)
    (h : runM (buildFrame ev fr params args) st = (r, st')) :
    st'.scope t = st.scope t ∧
    ∀ fvs f, r = .ok fvs →
      (fvs = st.scopes.size ∧ fvs ≠ t ∧ fvs < st'.scopes.size ∧ ∀ w, st'.defines fvs w = true → FrameNames params w) ∧
      ((st'.scope fvs).parent = some fr.declScope ∧ st'.chain (f + 1) fvs = fvs :: st'.chain f fr.declScope) := by
  rw [buildFrame_noPreset ev (fun _ => pure Val.null) fr params args hnp] at h
  have hev := defaultPreserves_const params (FrameInv st st.scopes.size t (FrameNames params))
  refine ⟨call_does_not_write_enclosing_frames _ fr params args st st' r t ht hpl hev h, ?_⟩
  intro fvs f hr
  subst hr
  exact ⟨call_fresh_locals _ fr params args st st' fvs t ht hpl hev h,
    closure_sees_definition_scope _ fr params args st st' fvs t f ht hpl hev h⟩

/-- The finished frame of a call whose parameter list has no defaults holds EXACTLY `this`, `super` (if bound) and
    then every parameter with the argument at its position (null when the argument is missing; arguments beyond the
    parameters bind nothing; a later parameter of the same name overwrites an earlier one), is linked to the
    declaration scope, and no existing scope changed — for EVERY default evaluator `ev` (it is never called). -/
theorem frame_contents (ev : Ecal.Parse.Node → M Val) (fr : FuncRec) (params : List (Option Ecal.Parse.Node)) (args : List Val)
    (st st' : St) (fvs : Nat) (hnp : NoPreset params) (hpl : PlainParams params)
    (h : runM (buildFrame ev fr params args) st = (.ok fvs, st')) :
    fvs = st.scopes.size ∧
    (st'.scope fvs).vars = applyBindings [] (contextBindings fr ++ paramBindings params 0 args) ∧
    (st'.scope fvs).parent = some fr.declScope ∧ ∀ t, t < st.scopes.size → st'.scope t = st.scope t :=
  buildFrame_contents ev fr params args st st' fvs hnp hpl h

/-- … so a parameter whose name no later parameter repeats reads, in the frame, the argument at its position (null
    when missing): `valueIn fvs p = args[j] | null` -/
theorem param_value (ev : Ecal.Parse.Node → M Val) (fr : FuncRec) (params : List (Option Ecal.Parse.Node)) (args : List Val)
    (st st' : St) (fvs : Nat) (hnp : NoPreset params) (hpl : PlainParams params)
    (h : runM (buildFrame ev fr params args) st = (.ok fvs, st'))
    (pre post : List (String × Val)) (nm : String) (v : Val)
    (hsplit : contextBindings fr ++ paramBindings params 0 args = pre ++ [(nm, v)] ++ post)
    (hpost : ∀ kv ∈ post, kv.1 ≠ nm) :
    st'.valueIn fvs nm = v ∧ st'.nearest fvs nm = some fvs := by
  obtain ⟨_, hv, _, _⟩ := frame_contents ev fr params args st st' fvs hnp hpl h
  have hf := applyBindings_find [] pre post nm v hpost
  rw [← hsplit, ← hv] at hf
  have hd : st'.defines fvs nm = true := by
    simp only [St.defines]
    cases hfind : (st'.scope fvs).vars.find? (·.1 == nm) with
    | none => rw [hfind] at hf; cases hf
    | some _ => rfl
  refine ⟨?_, nearest_self st' fvs nm hd⟩
  simp only [St.valueIn, hf, Option.getD_some]

/-! non-vacuity ON THE EVALUATOR: the default evaluator is the one `runFunction` passes (`eval fuel callerScope`),
    the caller scope is the block scope 1 of `exSt`, the declaration scope the global scope 0 -/
def nd (name : String) (val : List Nat) (children : List (Option Ecal.Parse.Node)) : Ecal.Parse.Node :=
  Ecal.Parse.Node.mk name (some { id := 0, pos := 0, val := val, identifier := true, allowEscapes := false, prefixNl := 0, line := 1, col := 1 })
    0 default default children []
/-- parameter `a` -/
def exParamA : Ecal.Parse.Node := nd "identifier" [97] []
/-- parameter `b=5` -/
def exParamB5 : Ecal.Parse.Node := nd "preset" [] [some (nd "identifier" [98] []), some (nd "number" [53] [])]

theorem exParams_plain : PlainParams [some exParamA, some exParamB5] := by
  intro p nm hp hn
  simp only [List.mem_cons, Option.some.injEq, List.mem_nil_iff, or_false] at hp
  rcases hp with e | e <;> subst e <;> (simp [nodeParamName, exParamA, exParamB5, nd, Ecal.Parse.Node.name, Ecal.Parse.Node.tok, Ecal.Parse.Node.children] at hn; subst hn; unfold PlainName; decide)

def exFr : FuncRec := ⟨"f", default, 0, none, none⟩
/-- `f(a)` called with one argument from scope 1, default evaluator = the real `eval` -/
def exRun1 : Except Sig Nat × St := runM (buildFrame (fun d => eval 50 1 d) exFr [some exParamA] [.bool true]) exSt
/-- `f(a, b=5)` called with one argument: the default IS evaluated, by the real `eval` -/
def exRun2 : Except Sig Nat × St := runM (buildFrame (fun d => eval 50 1 d) exFr [some exParamA, some exParamB5] [.bool true]) exSt

example : exRun1.1 = .ok 2 := rfl
/-- `frame_contents` on the real evaluator: the frame of `f(true)` is exactly [a ↦ true] -/
example : (exRun1.2.scope 2).vars = [("a", Val.bool true)] := rfl

/-- no hypothesis on the evaluator: the caller's scope 1 and the global scope 0 are untouched, the frame hangs under
    the declaration scope 0 -/
example : exRun1.2.scope 0 = exSt.scope 0 ∧ exRun1.2.scope 1 = exSt.scope 1 ∧ (exRun1.2.scope 2).parent = some 0 := by
  have hpl : PlainParams [some exParamA] := fun p nm hp hn => exParams_plain p nm (by simp at hp ⊢; exact Or.inl hp) hn
  have hnp : NoPreset [some exParamA] := by intro p hp; simp at hp; subst hp; rfl
  have h0 := call_frames_noDefaults (fun d => eval 50 1 d) exFr [some exParamA] [.bool true] exSt exRun1.2 exRun1.1 0 (by decide) hpl hnp rfl
  have h1 := call_frames_noDefaults (fun d => eval 50 1 d) exFr [some exParamA] [.bool true] exSt exRun1.2 exRun1.1 1 (by decide) hpl hnp rfl
  exact ⟨h0.1, h1.1, ((h0.2 2 0 rfl).2).1⟩

/-- the real evaluator on the default expression `5`: a number literal changes no state -/
theorem eval_five (s : St) : ∃ v, runM (eval 50 1 (nd "number" [53] [])) s = (.ok v, s) := by
  rw [show (50 : Nat) = 49 + 1 from rfl]
  unfold eval
  simp [nd, Ecal.Parse.Node.name, tokOf, Ecal.Parse.Node.tok, numberOf]
  exact ⟨_, rfl⟩

/-- `hev` discharged for the real evaluator and the default `5` -/
theorem exParams_hev (I : St → Prop) : DefaultPreserves (fun d => eval 50 1 d) [some exParamA, some exParamB5] I := by
  intro p d hp hd s r s1 hI hr
  simp only [List.mem_cons, Option.some.injEq, List.mem_nil_iff, or_false] at hp
  rcases hp with e | e <;> subst e
  · simp [exParamA, nd, Ecal.Parse.Node.children] at hd
  · have hd' : d = nd "number" [53] [] := by
      simp [exParamB5, nd, Ecal.Parse.Node.children] at hd; exact hd.symm
    subst hd'
    obtain ⟨v, hv⟩ := eval_five s
    rw [hv] at hr
    injection hr with _ h2; rw [← h2]; exact hI

example : exRun2.2.scope 1 = exSt.scope 1 ∧ exRun2.2.scope 0 = exSt.scope 0 :=
  ⟨call_does_not_write_enclosing_frames (fun d => eval 50 1 d) exFr _ [.bool true] exSt exRun2.2 exRun2.1 1 (by decide) exParams_plain
      (exParams_hev _) rfl,
   call_does_not_write_enclosing_frames (fun d => eval 50 1 d) exFr _ [.bool true] exSt exRun2.2 exRun2.1 0 (by decide) exParams_plain
      (exParams_hev _) rfl⟩

/-- `buildFrame` — the whole frame construction INCLUDING the link to the declaration scope — keeps the scope table
    well-formed, for every outcome (a default that raises an error leaves an unlinked, empty-handed root behind: still
    well-formed) and makes the table strictly larger.  Hypotheses: the declaration scope exists, parameter names are
    plain identifiers, the defaults of this parameter list preserve `FrameWF` (table well-formed, frame in bounds and
    still a root); `call_preserves_wf_noDefaults`: none of the last kind when the list has no defaults. -/
theorem call_preserves_wf (ev : Ecal.Parse.Node → M Val) (fr : FuncRec) (params : List (Option Ecal.Parse.Node)) (args : List Val)
    (st st' : St) (r : Except Sig Nat) (h : ScopesWF st) (hds : fr.declScope < st.scopes.size) (hpl : PlainParams params)
    (hev : DefaultPreserves ev params (FrameWF st.scopes.size))
    (hr : runM (buildFrame ev fr params args) st = (r, st')) :
    ScopesWF st' ∧ st.scopes.size < st'.scopes.size :=
  buildFrame_wf ev fr params args st st' r h hds hpl hev hr

theorem call_preserves_wf_noDefaults (ev : Ecal.Parse.Node → M Val) (fr : FuncRec) (params : List (Option Ecal.Parse.Node))
    (args : List Val) (st st' : St) (r : Except Sig Nat) (h : ScopesWF st) (hds : fr.declScope < st.scopes.size)
    (hpl : PlainParams params) (hnp : NoPreset params) (hr : runM (buildFrame ev fr params args) st = (r, st')) :
    ScopesWF st' ∧ st.scopes.size < st'.scopes.size :=
  buildFrame_wf_noDefaults ev fr params args st st' r h hds hpl hnp hr

/-- Calls without defaults, NO hypothesis about the evaluator and no `t ∉ chain` assumption: on a well-formed table,
    after the frame of `f(args…)` is built, the table is still well-formed, every existing scope is unchanged, and
    the frame is on the parent chain of NO existing scope — so by `inner_not_visible_outside` nothing the call defines
    in its frame (parameters, `this`, locals) is visible from the caller or from anywhere else outside, while the body
    sees frame :: chain of the declaration scope (`closure_sees_definition_scope`). -/
theorem call_frame_invisible_noDefaults (ev : Ecal.Parse.Node → M Val) (fr : FuncRec) (params : List (Option Ecal.Parse.Node))
    (args : List Val) (st st' : St) (fvs : Nat) (h : ScopesWF st) (hds : fr.declScope < st.scopes.size)
    (hpl : PlainParams params) (hnp : NoPreset params)
    (hr : runM (buildFrame ev fr params args) st = (.ok fvs, st')) :
    ScopesWF st' ∧ fvs = st.scopes.size ∧ (∀ t, t < st.scopes.size → st'.scope t = st.scope t) ∧
    (∀ sc f, sc < st.scopes.size → fvs ∉ st'.chain f sc) ∧
    (∀ sc w v y, sc < st.scopes.size → (st'.withVar fvs w y).nearest sc v = st'.nearest sc v) := by
  obtain ⟨hfresh, _, _, hkeep⟩ := frame_contents ev fr params args st st' fvs hnp hpl hr
  have hwf := (call_preserves_wf_noDefaults ev fr params args st st' (.ok fvs) h hds hpl hnp hr).1
  have hnot : ∀ sc f, sc < st.scopes.size → fvs ∉ st'.chain f sc := by
    intro sc f hsc
    rw [hfresh]
    exact frame_not_on_existing_chains st st' h f sc hsc hkeep
  refine ⟨hwf, hfresh, hkeep, hnot, ?_⟩
  intro sc w v y hsc
  exact (inner_not_visible_outside st' fvs sc w v y (hnot sc 10000 hsc)).1

/-- non-vacuity on the real evaluator: `f(true)` (exRun1) over the well-formed example table -/
theorem exSt_wf : ScopesWF exSt := by
  constructor
  · intro i p hi hp
    have : i = 0 ∨ i = 1 := by simp [exSt] at hi; omega
    rcases this with e | e <;> subst e <;> simp [St.scope, exSt] at hp
    subst hp; decide
  · intro p c hp hc
    have : p = 0 ∨ p = 1 := by simp [exSt] at hp; omega
    rcases this with e | e <;> subst e <;> simp [St.scope, exSt] at hc
    subst hc; exact ⟨by decide, rfl⟩

example : ScopesWF exRun1.2 ∧ (2 : Nat) ∉ exRun1.2.chain 10000 1 := by
  have hpl : PlainParams [some exParamA] := fun p nm hp hn => exParams_plain p nm (by simp at hp ⊢; exact Or.inl hp) hn
  have hnp : NoPreset [some exParamA] := by intro p hp; simp at hp; subst hp; rfl
  have := call_frame_invisible_noDefaults (fun d => eval 50 1 d) exFr [some exParamA] [.bool true] exSt exRun1.2 2 exSt_wf
    (by decide) hpl hnp rfl
  exact ⟨this.1, this.2.2.2.1 1 10000 (by decide)⟩

/-- The control-flow skeleton of the evaluator preserves EVERY state invariant its parts preserve, for every outcome
    (errors, break / continue / return signals, fuel): `if` chains, condition loops, iterator loops, the except
    dispatch, `try` with otherwise and with finally, and the body of a call (`ifChain`, `guardLoop`, `iterLoop`,
    `dispatchExcept`, `tryCore`, `tryFinally`, `callCore` — the combinators the mutual evaluator calls with closures
    over itself).  With `I = ScopesWF` this reduces "the evaluator preserves `ScopesWF`" to its leaves (expressions,
    assignments, declarations, calls), which is the part that stays open. -/
theorem control_flow_preserves_invariants (I : St → Prop) :
    (∀ l : List (M Val × M Val), (∀ gb ∈ l, Pres I gb.1 ∧ Pres I gb.2) → Pres I (ifChain l)) ∧
    (∀ guard body : M Val, Pres I guard → Pres I body → ∀ f, Pres I (guardLoop guard body f)) ∧
    (∀ (σ : Type) (next : σ → M (Val × σ)) (bnd : Val → M Unit) (body : M Val),
      (∀ s, Pres I (next s)) → (∀ v, Pres I (bnd v)) → Pres I body → ∀ f s, Pres I (iterLoop next bnd body f s)) ∧
    (∀ (hs : List Handler) (e : Sig), (∀ h ∈ hs, ∀ e, Pres I (h e)) → Pres I (dispatchExcept hs e)) ∧
    (∀ (body : M Val) (hs : List Handler) (oth : Option (M Val)), Pres I body → (∀ h ∈ hs, ∀ e, Pres I (h e)) →
      (∀ o, oth = some o → Pres I o) → Pres I (tryCore body hs oth)) ∧
    (∀ (main : M Val) (fin : Option (M Val)), Pres I main → (∀ f, fin = some f → Pres I f) → Pres I (tryFinally main fin)) ∧
    (∀ body : M Val, Pres I body → Pres I (callCore body)) :=
  ⟨Pres.ifChain I, Pres.guardLoop I, fun σ next bnd body => Pres.iterLoop I next bnd body, Pres.dispatchExcept I,
   Pres.tryCore I, Pres.tryFinally I, Pres.callCore I⟩

/-- non-vacuity with `I = ScopesWF`: a `try` whose body declares a local (`setLocalValue`) and whose finally block
    assigns (`setValue`) preserves well-formedness, by `writes_preserve_wf` at the leaves -/
example (sc : Nat) (a b : List Nat) (x y : Val) :
    Pres ScopesWF (tryFinally (tryCore (do setLocalValue sc a x; pure Val.null) [] none) (some (do setValue sc b y; pure Val.null))) := by
  have hl : Pres ScopesWF (do setLocalValue sc a x; pure Val.null : M Val) :=
    Pres.bind _ _ _ (fun s r s' h hr => (setLocalValue_wf sc a x s s' r h hr).1) (fun _ => Pres.pure _ _)
  have hs : Pres ScopesWF (do setValue sc b y; pure Val.null : M Val) :=
    Pres.bind _ _ _ (fun s r s' h hr => (setValue_wf sc b y s s' r h hr).1) (fun _ => Pres.pure _ _)
  refine (control_flow_preserves_invariants ScopesWF).2.2.2.2.2.1 _ _ ?_ (fun f hf => by injection hf with hf; rw [← hf]; exact hs)
  exact (control_flow_preserves_invariants ScopesWF).2.2.2.2.1 _ [] none hl (fun h hm => by cases hm) (fun o ho => by cases ho)

/-- **The evaluator itself preserves `ScopesWF` on the call-free, declaration-free fragment `Calm`** — straight-line
    code with `if`: constants, numbers, plain variable reads, arithmetic (`+ - * / //`, unary `+ -`), plain
    assignments `v := e`, `let v`, statement sequences, guards and `if … elif … else`, nested arbitrarily:
    for every fuel, every tree of the fragment, every existing scope `sc` and EVERY outcome (errors, fuel, malformed
    children included), `eval f sc n` leaves a well-formed scope table in which `sc` still exists.  One induction over
    the fuel of the mutual `eval`; the `if` goes through `control_flow_preserves_invariants` (`ifChain`) and
    `block_scope_under_current` (`newChild`), the assignment through `evalAssign` / `identSet` = `setValue`
    (`writes_preserve_wf`), arithmetic through `numOp` / `numVal`, reads through scope-only read lemmas.  Not in the
    fragment (open): comparison / boolean / string operators, list and map literals, destructuring and path
    assignments, loops, `try`, calls, declarations, access paths. -/
theorem eval_preserves_wf_calm (f : Nat) (n : Ecal.Parse.Node) (sc : Nat) (st st' : St) (r : Except Sig Val)
    (hn : Calm n) (h : ScopesWF st) (hsc : sc < st.scopes.size) (hr : runM (eval f sc n) st = (r, st')) :
    ScopesWF st' ∧ sc < st'.scopes.size := by
  have := eval_calm_preserves f n [sc] sc hn (by simp) st r st' ⟨h, fun i hi => by simp at hi; rw [hi]; exact hsc⟩ hr
  exact ⟨this.1, this.2 sc (by simp)⟩

/-- non-vacuity: `if true { let a }` is in the fragment -/
def exIfLet : Ecal.Parse.Node :=
  nd "if" [] [some (nd "guard" [] [some (nd "true" [] [])]), some (nd "statements" [] [some (nd "let" [] [some (nd "identifier" [97] [])])])]
theorem exIfLet_calm : Calm exIfLet := by
  have hvar : Calm (nd "identifier" [97] []) := Calm.var _ _ [97] rfl rfl rfl (by decide)
  have hlet : Calm (nd "let" [] [some (nd "identifier" [97] [])]) := Calm.letv _ _ rfl rfl rfl hvar
  have hseq : Calm (nd "statements" [] [some (nd "let" [] [some (nd "identifier" [97] [])])]) := by
    refine Calm.seq _ rfl ?_
    intro c hc
    simp [nd, Ecal.Parse.Node.children] at hc
    rw [hc]; exact hlet
  have hguard : Calm (nd "guard" [] [some (nd "true" [] [])]) := by
    refine Calm.guard _ rfl ?_
    intro c hc
    simp [nd, Ecal.Parse.Node.children] at hc
    rw [← hc]; exact Calm.const _ (Or.inl rfl)
  refine Calm.ifn _ rfl ?_
  intro c hc
  simp [exIfLet, nd, Ecal.Parse.Node.children] at hc
  rcases hc with e | e
  · rw [e]; exact hguard
  · rw [e]; exact hseq

example (st' : St) (r : Except Sig Val) (hr : runM (eval 50 1 exIfLet) exSt = (r, st')) : ScopesWF st' ∧ 1 < st'.scopes.size :=
  eval_preserves_wf_calm 50 exIfLet 1 exSt st' r exIfLet_calm exSt_wf (by decide) hr

/-- non-vacuity: `a := a + 1` is in the fragment -/
def exAssign : Ecal.Parse.Node :=
  nd ":=" [] [some (nd "identifier" [97] []), some (nd "plus" [] [some (nd "identifier" [97] []), some (nd "number" [49] [])])]
theorem exAssign_calm : Calm exAssign := by
  have hvar : Calm (nd "identifier" [97] []) := Calm.var _ _ [97] rfl rfl rfl (by decide)
  have hplus : Calm (nd "plus" [] [some (nd "identifier" [97] []), some (nd "number" [49] [])]) := by
    refine Calm.arith _ (Or.inl rfl) ?_
    intro c hc
    simp [nd, Ecal.Parse.Node.children] at hc
    rcases hc with e | e
    · rw [e]; exact hvar
    · rw [e]; exact Calm.number _ rfl
  exact Calm.assign exAssign _ _ _ [97] rfl rfl rfl rfl rfl rfl (by decide) hplus

example (st' : St) (r : Except Sig Val) (hr : runM (eval 50 1 exAssign) exSt = (r, st')) : ScopesWF st' ∧ 1 < st'.scopes.size :=
  eval_preserves_wf_calm 50 exAssign 1 exSt st' r exAssign_calm exSt_wf (by decide) hr

/-- Variable writes keep the table well-formed for EVERY name and EVERY outcome: `setValue` (plain names write one
    variable, dotted names only the heap) and `setLocalValue` (the `let` node); together with the initial table, new
    roots, `newChild` (`block_scope_under_current`) and `buildFrame` (`call_preserves_wf`) these are all the functions
    through which the evaluator model changes `St.scopes` — that the mutual evaluator as a whole preserves `ScopesWF`
    is the induction over these facts and stays open. -/
theorem writes_preserve_wf :
    (∀ sc name x st st' r, ScopesWF st → runM (setValue sc name x) st = (r, st') →
      ScopesWF st' ∧ st'.scopes.size = st.scopes.size) ∧
    (∀ sc name x st st' r, ScopesWF st → runM (setLocalValue sc name x) st = (r, st') →
      ScopesWF st' ∧ st'.scopes.size = st.scopes.size) :=
  ⟨fun sc name x st st' r h hr => setValue_wf sc name x st st' r h hr,
   fun sc name x st st' r h hr => setLocalValue_wf sc name x st st' r h hr⟩

/-- non-vacuity: a method frame (`this` bound, no parameters) built over the example state -/
example : ∃ fvs st', runM (buildFrame (fun _ => pure Val.null) ⟨"m", default, 1, some (.map 0), none⟩ [] []) exSt = (.ok fvs, st') :=
  ⟨_, _, rfl⟩

/-- Positional parameters, `bindParamNode` / `bindParamNodes`: a plain parameter gets the argument at its
    position or null; a parameter with default gets the argument if there is one (the default is NOT
    evaluated), else the value of the default expression (evaluated by `ev`: the caller's scope); arguments
    beyond the parameters are never looked at. -/
theorem args_missing_default_extra_ignored (ev : Ecal.Parse.Node → M Val) (fvs : Nat) (p : Ecal.Parse.Node) (i : Nat)
    (args extra : List Val) :
    (∀ tk, p.name = "identifier" → p.tok = some tk →
      bindParamNode ev fvs p i args = setValue fvs tk.val (args.getD i Val.null)) ∧
    (∀ c d tk rest, p.name = "preset" → p.children = some c :: some d :: rest → c.tok = some tk →
      (i < args.length → bindParamNode ev fvs p i args = setValue fvs tk.val (args.getD i Val.null)) ∧
      (args.length ≤ i → bindParamNode ev fvs p i args = (ev d >>= fun v => setValue fvs tk.val v))) ∧
    (i < args.length → bindParamNode ev fvs p i (args ++ extra) = bindParamNode ev fvs p i args) ∧
    (∀ (ps : List (Option Ecal.Parse.Node)), i + ps.length ≤ args.length →
      bindParamNodes ev fvs ps i (args ++ extra) = bindParamNodes ev fvs ps i args) := by
  have hstep : ∀ (q : Ecal.Parse.Node) (j : Nat), j < args.length →
      bindParamNode ev fvs q j (args ++ extra) = bindParamNode ev fvs q j args := by
    intro q j hj
    have h1 : j < (args ++ extra).length := by simp; omega
    have h2 : (args ++ extra).getD j Val.null = args.getD j Val.null := by
      simp [List.getD, List.getElem?_append_left hj]
    simp only [bindParamNode, h1, hj, h2]
  refine ⟨?_, ?_, hstep p i, ?_⟩
  · intro tk hn ht
    simp [bindParamNode, hn, tokOf, ht]
  · intro c d tk rest hn hc ht
    have hne : (p.name == "identifier") = false := by simp [hn]
    constructor
    · intro hi
      simp [bindParamNode, hn, hne, child, hc, tokOf, ht, hi]
    · intro hi
      have hi' : ¬ i < args.length := by omega
      simp [bindParamNode, hn, hne, child, hc, tokOf, ht, hi']
  · intro ps
    induction ps generalizing i with
    | nil => intro _; rfl
    | cons q qs ih =>
      intro h
      simp only [List.length_cons] at h
      cases q with
      | none => rfl
      | some q =>
        simp only [bindParamNodes]
        rw [hstep q i (by omega), ih (i + 1) (by omega)]

/-- Numbers, strings, booleans are values, lists and maps references.  BY REFERENCE: a successful write through one
    name into a map or list cell is read through ANY other name (another variable, from another scope — e.g. a
    parameter and the caller's variable — or another path) that reaches the same cell with the same last segment.
    BY VALUE: a value of the other kinds refers to no heap cell (`cellOf = none` — there is nothing to share), and a
    plain assignment `b := x` replaces only the variable in one scope and leaves the heap alone
    (`assign_nearest_or_local`, `assign_touches_one_scope`). -/
theorem prims_by_value_containers_by_ref :
    (∀ (sc : Nat) (name v0 : List Nat) (pre : List (List Nat)) (last : List Nat) (x c cont : Val) (st st' : St)
      (sc2 : Nat) (name2 v2 : List Nat) (pre2 : List (List Nat)) (c2 : Val),
      splitDots name2 = v2 :: (pre2 ++ [last]) → pre2.length < 10000 →
      runM (lookupVar sc2 (bytesToString v2)) st = (.ok (some c2), st) →
      (∀ w, cellOf cont = some w → StepsAvoid st w pre2 c2 cont) →
      splitDots name = v0 :: (pre ++ [last]) →
      runM (lookupVar sc (bytesToString v0)) st = (.ok (some c), st) →
      runM (setValue sc name x) st = (.ok (), st') →
      ((∃ r, cont = .map r ∧ r < st.maps.size ∧ StepsAvoid st (true, r) pre c cont ∧
          ∀ i, atoi last = some i → keyEq (.num (Float.ofInt i)) (.num (Float.ofInt i)) = true) ∨
       (∃ r l, cont = .list r l ∧ r < st.lists.size ∧ l ≤ (st.backing r).length ∧ StepsAvoid st (false, r) pre c cont)) →
      runM (getValue sc2 name2) st' = (.ok (x, isSet x), st')) ∧
    (∀ b f s, cellOf .null = none ∧ cellOf (.bool b) = none ∧ cellOf (.num f) = none ∧ cellOf (.str s) = none) ∧
    (∀ (st : St) (sc : Nat) (v : String) (x : Val), (st.withVar sc v x).lists = st.lists ∧ (st.withVar sc v x).maps = st.maps) :=
  ⟨fun sc name v0 pre last x c cont st st' sc2 name2 v2 pre2 c2 hn2 hlen2 hv2 hav2 hn hv hset hcell =>
      setValue_getValue_alias sc name v0 pre last x c cont st st' sc2 name2 v2 pre2 c2 hn2 hlen2 hv2 hav2 hn hv hset hcell,
   fun _ _ _ => ⟨rfl, rfl, rfl, rfl⟩,
   fun st sc v x => ⟨(withVar_heap st sc v x).1, (withVar_heap st sc v x).2.1⟩⟩

/-- non-vacuity: `a` and `b` both hold map 0; `b.k := true` is read through `a.k` -/
def exAlias : St := { scopes := #[⟨"g", none, [], [("a", .map 0), ("b", .map 0)]⟩], maps := #[[]] }
def exAlias' : St := (runM (setValue 0 [98, 46, 107] (.bool true)) exAlias).2
example : runM (getValue 0 [97, 46, 107]) exAlias' = (.ok (.bool true, true), exAlias') :=
  prims_by_value_containers_by_ref.1 0 [98, 46, 107] [98] [] [107] (.bool true) (.map 0) (.map 0) exAlias exAlias' 0 [97, 46, 107] [97] [] (.map 0)
    (by decide) (by decide) rfl (fun w _ => StepsAvoid.nil _) (by decide) rfl rfl
    (Or.inl ⟨0, rfl, by decide, StepsAvoid.nil _, by intro i h; simp [atoi] at h⟩)

/-- After `c[k] := v` / `c.k := v` on a map the same segment reads `v`: for string keys, and for NUMBER keys —
    `fieldKey` takes an existing number key (the repair of 5e0a7a5), otherwise the string form, and the read
    tries the number key first, then the string.  (Hypothesis `hnum`: `==` is reflexive on the float of the
    index, i.e. it is not NaN; Lean's `Float` is opaque.) -/
theorem read_after_write (kvs : List (Val × Val)) (fld : List Nat) (x : Val)
    (hnum : ∀ i, atoi fld = some i → keyEq (.num (Float.ofInt i)) (.num (Float.ofInt i)) = true) :
    mapFieldLookup (mapStore kvs (fieldKey kvs fld) x) fld = some x :=
  mapField_read_after_write kvs fld x hnum

example : mapFieldLookup (mapStore [] (fieldKey [] [107]) (.bool true)) [107] = some (.bool true) :=
  read_after_write [] [107] (.bool true) (by intro i h; simp [atoi] at h)

/-- Clause "after a successful `c[k] := v` / `c.k := v`, reading `c[k]` yields `v`" on `setValue` / `getValue`
    THEMSELVES, any nesting (`containerWalk` on the write side and `containerGet` on the read side reach the same
    cell; `fieldKey` is the key `setValue` writes — `setValue_path`; negative list indices through `listIdx`): the
    same dotted name read after a successful write yields the written value.  Hypotheses: the container reached is
    an existing map or list cell (slice with len ≤ capacity), the walk does not pass through the very cell that is
    written (no cycle), and for a numeric last segment on a map `==` is reflexive on that number (not NaN). -/
theorem read_after_write_path (sc : Nat) (name v0 : List Nat) (pre : List (List Nat)) (last : List Nat) (x c cont : Val)
    (st st' : St) (hn : splitDots name = v0 :: (pre ++ [last])) (hlen : pre.length < 10000)
    (hv : runM (lookupVar sc (bytesToString v0)) st = (.ok (some c), st))
    (hset : runM (setValue sc name x) st = (.ok (), st'))
    (hcell : (∃ r, cont = .map r ∧ r < st.maps.size ∧ StepsAvoid st (true, r) pre c cont ∧
               ∀ i, atoi last = some i → keyEq (.num (Float.ofInt i)) (.num (Float.ofInt i)) = true) ∨
             (∃ r l, cont = .list r l ∧ r < st.lists.size ∧ l ≤ (st.backing r).length ∧ StepsAvoid st (false, r) pre c cont)) :
    runM (getValue sc name) st' = (.ok (x, isSet x), st') :=
  setValue_getValue sc name v0 pre last x c cont st st' hn hlen hv hset hcell

/-- non-vacuity: `a := {"k": [null, null]}`, then `a.k[-1] := true` (name `a.k.-1`) is read back -/
def exHeap : St :=
  { scopes := #[⟨"g", none, [], [("a", .map 0)]⟩], maps := #[[(.str [107], .list 1 2)]], lists := #[[], [.null, .null]] }
example : ∃ st', runM (setValue 0 [97, 46, 107, 46, 45, 49] (.bool true)) exHeap = (.ok (), st') ∧
    runM (getValue 0 [97, 46, 107, 46, 45, 49]) st' = (.ok (.bool true, true), st') := by
  refine ⟨_, rfl, ?_⟩
  refine read_after_write_path 0 [97, 46, 107, 46, 45, 49] [97] [[107]] [45, 49] (.bool true) (.map 0) (.list 1 2) exHeap _
    (by decide) (by decide) rfl rfl (Or.inr ⟨1, 2, rfl, by decide, by decide, ?_⟩)
  exact StepsAvoid.cons [107] [] (.map 0) (.list 1 2) (.list 1 2) (by decide) rfl (StepsAvoid.nil _)

/-- `runBuiltin` (inside the mutual block) answers len / add / del / concat / new with the functions the
    theorems below are about. -/
theorem runBuiltin_uses (f sc : Nat) (node : Ecal.Parse.Node) (args : List Val) :
    runBuiltin (f + 1) sc node "len" args = lenB args ∧ runBuiltin (f + 1) sc node "add" args = addB args ∧
    runBuiltin (f + 1) sc node "del" args = delB args ∧ runBuiltin (f + 1) sc node "concat" args = concatB args ∧
    runBuiltin (f + 1) sc node "new" args = newB (fun id rest => do
        let ivs ← newScope "newfunc"
        withFreshIs (runFunction f ivs id rest)) args := by
  refine ⟨?_, ?_, ?_, ?_, ?_⟩ <;> (unfold runBuiltin; rfl)

/-! ### the list / finite-map yardstick and the builtins

`Spec`: lists are values `List Val`; `add` / `del` / `concat` RETURN a list and change nothing else; maps are finite
maps.  After the repairs fixes/C05-add-del-new-list.patch and fixes/C05-del-number-key.patch the builtins refine
`Spec` without side conditions (`len_add_del_concat_model`); `unrepaired_add_del_deviate` keeps the witnesses of what
the code did before (Go slice aliasing; string-form delete). -/
namespace Spec
def len (l : List Val) : Nat := l.length
def add (l : List Val) (v : Val) : List Val := l ++ [v]
def insert (l : List Val) (v : Val) (i : Nat) : List Val := l.take i ++ [v] ++ l.drop i
def del (l : List Val) (i : Nat) : List Val := l.eraseIdx i
def concat (ls : List (List Val)) : List Val := ls.flatten
def delKey (m : List (Val × Val)) (k : Val) : List (Val × Val) := m.filter fun p => !(keyEq p.1 k)
end Spec

/-- len / add / del / concat against `Spec` (`St.elems st r l` = the elements of the list value `.list r l`,
    `St.entries st r` = the entries of map `r`; `NewList st st' res xs` = the result is a NEW cell holding exactly
    `xs` and NO existing backing array changed, so neither the argument nor any other list value):
    * `len` = `Spec.len` / number of entries; anything else, or no argument: error;
    * `add(l, v)` = `Spec.add`, `add(l, v, i)` (0 ≤ i ≤ len, else error) = `Spec.insert`, `del(l, i)` (0 ≤ i < len,
      else error) = `Spec.del`, each as a `NewList`; first argument not a list / too few arguments: error;
    * `del(m, k)` = `Spec.delKey` under `delKeyOf` (an existing number key when the string form of `k` is a number,
      else the string form), after which the key is gone;
    * `concat(l1, …)` (≥ 2 lists, else error) = `Spec.concat`, in a new array: no existing array changes. -/
theorem len_add_del_concat_model :
    (∀ r l rest, lenB (.list r l :: rest) = pure (.num (Float.ofNat l))) ∧
    (∀ r rest st, runM (lenB (.map r :: rest)) st = (.ok (.num (Float.ofNat (st.entries r).length)), st)) ∧
    (lenB [] = throw (plain "Need a list or a map as first parameter")) ∧
    (∀ r l v, addB [.list r l, v] = appendNew r l v) ∧
    (∀ r l v st, ∃ st' res, runM (appendNew r l v) st = (.ok res, st') ∧ NewList st st' res (Spec.add (st.elems r l) v)) ∧
    (∀ r l v x i st, runM (goInt x) st = (.ok i, st) → isIntegral x = true →
      runM (addB [.list r l, v, .num x]) st =
        if i < 0 || i > (l : Int) then (.error (plain "Out of bounds access to list"), st)
        else runM (insertAt r l v i.toNat) st) ∧
    (∀ r l v i st, ∃ st' res, runM (insertAt r l v i) st = (.ok res, st') ∧ NewList st st' res (Spec.insert (st.elems r l) v i)) ∧
    (∀ a v rest, (∀ r l, a ≠ .list r l) → addB (a :: v :: rest) = throw (plain "Parameter 1 should be a list")) ∧
    (∀ r l x i st, runM (goInt x) st = (.ok i, st) →
      runM (delB [.list r l, .num x]) st =
        if i < 0 || i ≥ (l : Int) then (.error (plain "Out of bounds access to list"), st) else runM (delAt r l i.toNat) st) ∧
    (∀ r l i st, ∃ st' res, runM (delAt r l i) st = (.ok res, st') ∧ NewList st st' res (Spec.del (st.elems r l) i)) ∧
    (∀ r k key st, runM (sprint k) st = (.ok key, st) →
      runM (delB [.map r, k]) st =
        (.ok (.map r), { st with maps := st.maps.setIfInBounds r (Spec.delKey (st.entries r) (delKeyOf (st.entries r) key)) })) ∧
    (∀ kvs dk, mapLookup (Spec.delKey kvs dk) dk = none) ∧
    (∀ args st st' res, (∀ a ∈ args, ∃ r l, a = Val.list r l ∧ r < st.lists.size) →
      runM (concatB args) st = (.ok res, st') →
      ∃ r' l', res = .list r' l' ∧ st.lists.size ≤ r' ∧ st'.elems r' l' = Spec.concat (args.map st.elemsOf) ∧
        ∀ q, q < st.lists.size → st'.backing q = st.backing q) ∧
    (∀ args st, args.length < 2 → runM (concatB args) st = (.error (plain "Need at least two lists as parameters"), st)) ∧
    (∀ a rest cur, (∀ r l, a ≠ Val.list r l) → concatGo (a :: rest) cur = throw (plain "Parameter 1 should be a list")) := by
  refine ⟨len_list, len_map, len_noargs, add_append, ?_, add_insert_run, ?_, add_noList, del_list_run, ?_, del_map_run,
    mapLookup_filter_removed, ?_, concat_fewArgs, concat_notList⟩
  · intro r l v st
    obtain ⟨st', h1, h2⟩ := appendNew_model r l v st
    exact ⟨st', _, h1, h2⟩
  · intro r l v i st
    obtain ⟨st', h1, h2⟩ := insertAt_model r l i v st
    exact ⟨st', _, h1, h2⟩
  · intro r l i st
    obtain ⟨st', h1, h2⟩ := delAt_model r l i st
    exact ⟨st', _, h1, h2⟩
  · intro args st st' res ha h
    obtain ⟨r', l', e1, e2, e3, e4⟩ := concat_model args st st' res ha h
    exact ⟨r', l', e1, e2, by rw [e3]; simp [Spec.concat, List.flatMap], e4⟩

/-- non-vacuity: `add` / `del` / `concat` on concrete lists -/
example : ∃ st', runM (addB [.list 1 2, .bool true]) { lists := #[[], [.null, .null]] } = (.ok (.list 2 3), st') := ⟨_, rfl⟩
example : ∃ st', runM (delAt 1 2 0) { lists := #[[], [.null, .null]] } = (.ok (.list 2 1), st') := ⟨_, rfl⟩
example : ∃ r st', runM (concatB [.list 1 1, .list 1 1]) { lists := #[[], [.null]] } = (.ok (.list r 2), st') := ⟨_, _, rfl⟩

/-- What the code did BEFORE the repairs (`appendVals` = Go's append, still used by list literals and concat;
    `delAtOld`, `insertAtOld`, `delKeyOld` = the old builtins; `a` = the slice `.list 1 3` over an array of capacity 4
    holding 1,2,3): `b := add(a, 4); c := add(a, 5)` rewrote `b` to [1,2,3,5]; `add(a, 9, 0)` turned `a` itself into
    [9,1,2]; `del(a, 0)` turned `a` itself into [2,3,3]; `del({1: x}, 1)` removed nothing (it deleted the STRING key "1").
    Negative witnesses: a check run against a tree with one of the fixes reverted must report these inputs (corpus). -/
theorem unrepaired_add_del_deviate :
    let st : St := { lists := #[[], [.num 1, .num 2, .num 3, .null]] }
    (∃ s1 s2, runM (appendVals 1 3 [.num 4]) st = (.ok (.list 1 4), s1) ∧ runM (appendVals 1 3 [.num 5]) s1 = (.ok (.list 1 4), s2) ∧
      s1.elems 1 4 = [.num 1, .num 2, .num 3, .num 4] ∧ s2.elems 1 4 = [.num 1, .num 2, .num 3, .num 5]) ∧
    (∃ s1, runM (insertAtOld 1 3 (.num 9) 0) st = (.ok (.list 1 4), s1) ∧ s1.elems 1 3 = [.num 9, .num 1, .num 2]) ∧
    (∃ s1, runM (delAtOld 1 3 0) st = (.ok (.list 1 2), s1) ∧ s1.elems 1 3 = [.num 2, .num 3, .num 3]) ∧
    (∀ (x : Float) (v : Val), Spec.delKey [(.num x, v)] (delKeyOld [49]) = [(.num x, v)]) ∧
    -- … while the repaired builtins leave `a` alone:
    (∃ s1 s2, runM (appendNew 1 3 (.num 4)) st = (.ok (.list 2 4), s1) ∧ runM (appendNew 1 3 (.num 5)) s1 = (.ok (.list 3 4), s2) ∧
      s2.elems 2 4 = [.num 1, .num 2, .num 3, .num 4] ∧ s2.elems 1 3 = [.num 1, .num 2, .num 3]) ∧
    (∃ s1, runM (delAt 1 3 0) st = (.ok (.list 2 2), s1) ∧ s1.elems 1 3 = [.num 1, .num 2, .num 3] ∧ s1.elems 2 2 = [.num 2, .num 3]) :=
  ⟨⟨_, _, rfl, rfl, rfl, rfl⟩, ⟨_, rfl, rfl⟩, ⟨_, rfl, rfl⟩, fun _ _ => rfl, ⟨_, _, rfl, rfl, rfl, rfl⟩, ⟨_, rfl, rfl, rfl⟩⟩

/-- `addSuperClasses` (Go: addSuperClassesOnPath): a template already on the current path — it is its own super
    template, directly or through others — adds nothing and sets the error variable; otherwise FIRST the super
    templates, depth first and in list order, with this template on the path (`superLoop`: elements that are not maps
    are skipped, the returned inits are collected in order), THEN the template's own properties (`copyProps`) — so
    own properties overwrite inherited ones and a later super overwrites an earlier one. -/
theorem addSuperClasses_order (f obj : Nat) (path : List Nat) (tr : Nat) :
    addSuperClasses (f + 1) obj path tr =
      if path.contains tr then pure (Val.null, some (plain "Super class hierarchy contains a cycle"))
      else (do
        let tkvs ← getMap tr
        let (err, initSuper) ← (match mapLookup tkvs (.str superName) with
          | some (.list r l) => do superLoop (addSuperClasses f obj (tr :: path)) (← getList r l) none []
          | some _ => pure (some (plain "Property _super must be a list of super classes"), [])
          | none => pure (none, []))
        let initFn ← copyProps obj initSuper tkvs Val.null
        pure (initFn, err)) := rfl

/- Full statement (tested by the correspondence run, not proved): after `new(T)`, every key of `T` and of all
   super templates of `T`, transitively, is a key of the object; values: own template over supers, later super
   over earlier.  Proved: the copy loop that `addSuperClasses` runs for EACH template (supers first, see
   `addSuperClasses_order`) makes every string key of that template a key of the object, never removes a key
   copied before, and a non-function property copied last is the value held.  Missing: the induction over the
   super lists (needs that the template cells and the super lists are not changed while the object is filled). -/
/-- one template's properties (string keys) all arrive in the object and earlier (inherited) keys stay -/
theorem new_has_all_template_props_partial (obj : Nat) (initSuper : List Val) (tkvs : List (Val × Val)) (init0 r : Val)
    (st st' : St) (ho : obj < st.maps.size) (h : runM (copyProps obj initSuper tkvs init0) st = (.ok r, st')) :
    (∀ s, hasKey (st.entries obj) (.str s) = true → hasKey (st'.entries obj) (.str s) = true) ∧
    (∀ s v, (Val.str s, v) ∈ tkvs → hasKey (st'.entries obj) (.str s) = true) :=
  (copyProps_keys obj initSuper tkvs init0 r st st' ho h).2

/-- own template wins: the property copied last under a key is the one the object holds -/
theorem own_property_wins (obj : Nat) (initSuper : List Val) (s : List Nat) (v nv : Val) (st st' : St)
    (ho : obj < st.maps.size) (hv : isFunc v = false) (h : runM (copyProp obj initSuper (.str s) v) st = (.ok nv, st')) :
    mapLookup (st'.entries obj) (.str s) = some v :=
  copyProp_value obj initSuper s v nv st st' ho hv h

/- Full statement (tested, not proved): a method invoked through the object reads `this` = the object.  Proved:
   the method stored in the object is a NEW function record bound to the object CELL (by reference: `.map obj`),
   with the declaration and declaration scope of the template's function; `buildFrame` (see
   `runFunction_uses_buildFrame`) writes `this` into the fresh frame before the parameters, into no other scope
   (`call_does_not_write_enclosing_frames`).  Missing: that no later parameter write replaces the value (true unless
   a parameter is itself called `this`). -/
theorem method_this_partial (obj : Nat) (initSuper : List Val) (k nv : Val) (id : Nat) (st st' : St) (ho : obj < st.maps.size)
    (h : runM (copyProp obj initSuper k (.func id)) st = (.ok nv, st')) :
    st'.entries obj = mapStore (st.entries obj) k nv ∧
    ∃ fr sup, st.funcs[id]? = some fr ∧ nv = .func st.funcs.size ∧
      st'.funcs[st.funcs.size]? = some { fr with this := some (.map obj), super := sup } := by
  have cr := copyProp_spec obj initSuper k (.func id) nv st st' ho h
  obtain ⟨fr, sup, h1, h2, h3, _, _⟩ := cr.bound id rfl
  exact ⟨cr.stored, fr, sup, h1, h2, by rw [h3]; simp⟩

/-- `new` runs the `init` held by the finished object exactly ONCE, with the constructor arguments after the
    template, as the last step: the result is the object unless init fails.  The init held is the template's own
    bound init, or an inherited one when the template has none (it is a copied property like any other:
    `new_has_all_template_props_partial`); its `super` is the list collected by `superLoop` (`addSuperClasses_order`,
    `copyProp`).  The evaluator passes `runInit id args := function.Run` with a fresh empty caller scope
    (`runBuiltin_uses`). -/
theorem init_once_with_args (runInit : Nat → List Val → M Val) (tr id : Nat) (rest : List Val) (st s1 : St)
    (r0 : Val) (err : Option Sig)
    (hadd : runM (addSuperClasses 200 st.maps.size [] tr) { st with maps := st.maps.push [] } = (.ok (r0, err), s1))
    (hinit : mapLookup (s1.entries st.maps.size) (.str initName) = some (.func id)) :
    runM (newB runInit (.map tr :: rest)) st =
      match runM (runInit id rest) s1 with
      | (.ok _, s2) => (.ok (.map st.maps.size), s2)
      | (.error e, s2) => (.error e, s2) :=
  new_runs_init_once runInit tr id rest st s1 r0 err hadd hinit

/-- non-vacuity: a template `{"init": f0}` — `new` binds init to the object and the hypotheses above hold -/
example : ∃ r s1, runM (addSuperClasses 200 1 [] 0)
    { maps := #[[(.str initName, .func 0)], []], funcs := #[⟨"", default, 0, none, none⟩] } = (.ok r, s1) ∧
    mapLookup (s1.entries 1) (.str initName) = some (.func 1) := ⟨_, _, rfl, rfl⟩

/-- the loop over the "super" list, in list order: a map element is added to the object by `rec` (its init is
    appended to the collected list, its error replaces the error variable), any other element is skipped -/
theorem superLoop_order (rec : Nat → M (Val × Option Sig)) (sr : Nat) (rest : List Val) (err : Option Sig) (acc : List Val) :
    superLoop rec [] err acc = pure (err, acc) ∧
    superLoop rec (.map sr :: rest) err acc = (do let (si, e) ← rec sr; superLoop rec rest e (acc ++ [si])) ∧
    (∀ a, (∀ r, a ≠ Val.map r) → superLoop rec (a :: rest) err acc = superLoop rec rest err acc) := by
  refine ⟨rfl, rfl, ?_⟩
  intro a ha
  cases a <;> first | rfl | (exfalso; exact ha _ rfl)

/-- Cycles in the super graph (fix f42b440): a template met again on the current path is cut — state unchanged, its
    init slot is null, the error variable carries "cycle" (`new` then fails with it unless an init replaces the
    error).  Fuel only bounds the depth of acyclic super chains (200 levels in `new`). -/
theorem addSuperClasses_cycle (f obj : Nat) (path : List Nat) (tr : Nat) (st : St) (h : path.contains tr = true) :
    runM (addSuperClasses (f + 1) obj path tr) st =
      (.ok (Val.null, some (plain "Super class hierarchy contains a cycle")), st) := by
  simp only [addSuperClasses, h, if_true, runM_pure]

/-- `new` — all templates.  Start: the state `s0` in which the fresh, empty object `obj` has just been allocated
    (`newB`), slot 0 of the list store being the nil slice.  After a successful `addSuperClasses`:
    every string key of the template and of every super template reachable through the "super" lists (`TKey`,
    transitively) is a key of the object; and the template's OWN non-function property is what the object holds
    (own template over supers).  Among the supers the list order decides: they are copied one after the other
    (`superLoop_order`), every copy overwrites (`mapStore`), so a LATER super wins over an earlier one
    (`own_property_wins` per copy step). -/
theorem new_has_all_template_props (st : St) (tr : Nat) (res : Val × Option Sig) (s1 : St)
    (h0 : st.backing 0 = []) (hsz : 0 < st.lists.size)
    (hadd : runM (addSuperClasses 200 st.maps.size [] tr) { st with maps := st.maps.push [] } = (.ok res, s1)) :
    (∀ key, TKey { st with maps := st.maps.push [] } st.maps.size 200 [] tr key →
      hasKey (s1.entries st.maps.size) (.str key) = true) ∧
    (∀ key v, tr ≠ st.maps.size → (Val.str key, v) ∈ ({ st with maps := st.maps.push [] } : St).entries tr → isFunc v = false →
      (∀ k w, (k, w) ∈ ({ st with maps := st.maps.push [] } : St).entries tr → keyEq k (.str key) = true → w = v) →
      mapLookup (s1.entries st.maps.size) (.str key) = some v) := by
  have hfill : Filling { st with maps := st.maps.push [] } st.maps.size { st with maps := st.maps.push [] } :=
    ⟨by simp, rfl, fun _ _ => rfl, listsKept_refl _ _⟩
  have ar := addSuperClasses_keys { st with maps := st.maps.push [] } st.maps.size h0 hsz 200 [] tr _ s1 res hfill hadd
  exact ⟨ar.keys, fun key v => ar.ownWins key v rfl⟩

/-- non-vacuity: template 1 = {"super": [template 0]}, template 0 = {"k": null}; key "k" is reachable -/
example : TKey { maps := #[[(.str [107], .null)], [(.str superName, .list 1 1)], []], lists := #[[], [.map 0]] } 2 200 [] 1 [107] :=
  TKey.sup 199 [] 1 1 1 0 [107] rfl (by decide) rfl (by decide) (by simp [St.elems, St.backing]) (TKey.own 198 [1] 0 [107] .null rfl (by decide) (by simp [St.entries]))

/-- A method invoked through the object reads `this` = the object cell (by reference): the function stored in the
    object is bound to `.map obj` (`method_this_partial`), `runFunction` builds its frame with `buildFrame`
    (`runFunction_uses_buildFrame`), and in the finished frame the nearest definition of `this` is the frame itself,
    holding `.map obj` (what a read yields: `lookup_nearest`).  Hypothesis: no parameter is itself called `this` —
    parameters are written after `this`, so such a parameter's value would replace it. -/
theorem method_this (ev : Ecal.Parse.Node → M Val) (fr : FuncRec) (params : List (Option Ecal.Parse.Node)) (args : List Val)
    (st st' : St) (fvs obj : Nat) (hthis : fr.this = some (.map obj))
    (hav : ParamsAvoid (bytesToString thisName) params)
    (hev : DefaultPreserves ev params (NameInv st.scopes.size (bytesToString thisName) (.map obj)))
    (h : runM (buildFrame ev fr params args) st = (.ok fvs, st')) :
    st'.nearest fvs (bytesToString thisName) = some fvs ∧ st'.valueIn fvs (bytesToString thisName) = .map obj := by
  have := buildFrame_this ev fr params args st st' fvs (.map obj) hthis hav hev h
  exact ⟨this.2.2.2, this.2.2.1⟩

/-- `init`'s `super` is the list of the collected super inits, in order: when the function under "init" is copied
    and something was collected (`initSuper ≠ []`, built by `superLoop` in list order, see `superLoop_order`), the
    new function record carries `super = ` a list value whose elements are exactly `initSuper`; with nothing
    collected it carries none.  In the frame of that init the nearest `super` is the frame's own, holding that
    list (`init_reads_super`).  Together with `init_once_with_args`. -/
theorem init_once_with_args_and_supers (obj : Nat) (initSuper : List Val) (id : Nat) (nv : Val) (st st' : St)
    (ho : obj < st.maps.size) (h0 : st.backing 0 = []) (hsz : 0 < st.lists.size)
    (h : runM (copyProp obj initSuper (.str initName) (.func id)) st = (.ok nv, st')) :
    ∃ fr sup, st.funcs[id]? = some fr ∧ nv = .func st.funcs.size ∧
      st'.funcs[st.funcs.size]? = some { fr with this := some (.map obj), super := sup } ∧
      (initSuper ≠ [] → ∃ r l, sup = some (.list r l) ∧ st'.elems r l = initSuper) ∧
      (initSuper = [] → sup = none) := by
  have cr := copyProp_spec obj initSuper (.str initName) (.func id) nv st st' ho h
  obtain ⟨fr, sup, h1, h2, h3, h4, h5⟩ := cr.bound id rfl
  refine ⟨fr, sup, h1, h2, by rw [h3]; simp, ?_, ?_⟩
  · intro hne
    apply h4 _ h0 hsz
    cases initSuper with
    | nil => exact absurd rfl hne
    | cons a b => simp [keyEq]
  · intro he
    apply h5
    subst he
    simp

theorem init_reads_super (ev : Ecal.Parse.Node → M Val) (fr : FuncRec) (params : List (Option Ecal.Parse.Node)) (args : List Val)
    (st st' : St) (fvs : Nat) (sl : Val) (hsuper : fr.super = some sl)
    (hav : ParamsAvoid (bytesToString superName) params)
    (hev : DefaultPreserves ev params (NameInv st.scopes.size (bytesToString superName) sl))
    (h : runM (buildFrame ev fr params args) st = (.ok fvs, st')) :
    st'.nearest fvs (bytesToString superName) = some fvs ∧ st'.valueIn fvs (bytesToString superName) = sl := by
  have := buildFrame_super ev fr params args st st' fvs sl hsuper hav hev h
  exact ⟨this.2.2.2, this.2.2.1⟩

end Ecal.Props.C05
