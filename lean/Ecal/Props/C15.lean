import Ecal.Model.Debug
import Ecal.Gen.C15
/-!
# C15 — debugging only observes; every suspended thread can be resumed

Theorems about `Ecal.Debug` (model of `interpreter/debug.go`).

* handshake (current code): `no_lost_resume`, `continue_releases`,
  `continue_completes`, `released_thread_progresses`, `stop_releases_all`;
  old code: `lost_resume_reachable` (negative witness);
* decision functions: `suspends_at_active_breakpoint`, `step_semantics_stepin`,
  `step_semantics_stepover`, `step_semantics_stepout`, and over TRACES: `suspends_whenever_arriving`
  (a thread in any debugging situation that arrives at a line with an active break point from a
  different position — `lastAt`, tied to the state by `pos_tracks_lastAt` — is suspended),
  `suspends_arriving_from_other_line` (the literal reading);
* the recorded call stack: `callstack_assertion_never_fails` (the sanity assertion of
  `VisitStepOutState` holds on every event stream `executeFunction` can show a debugger attached at
  any moment of one execution), `depth_is_stack_length` (the model's depth is that stack's length);
* "observer only": in the model the debugger cannot touch the evaluator's state BY TYPE — a remark
  (`example`), not an obligation. For the Go CODE "same result, log and variables" is NOT a theorem:
  it is the regenerated facts (`observer_accesses_allowed`, …: what the code's visit functions touch)
  plus the metamorphic comparison of debugged and plain runs in the correspondence check.
-/
namespace Ecal.Props.C15
open Ecal.Debug

/-! ## the handshake -/
section Handshake
open Hs Hs.Pc Hs.CPc Hs.Event

/-- inductive invariant of the current handshake -/
def Inv (s : State) : Prop :=
  (s.pc = waiting → s.running = false) ∧ (s.pc = woken → s.running = true) ∧
  (s.cpc ≠ idle → s.running = false)

theorem inv_init : Inv Hs.init := by simp [Inv, Hs.init]

theorem inv_step (s s' : State) (e : Event) (h : Inv s) (hs : step s e = some s') : Inv s' := by
  obtain ⟨pc, running, cmd, cpc⟩ := s
  obtain ⟨h1, h2, h3⟩ := h
  cases e <;> simp only [step] at hs <;> (repeat' split at hs) <;>
    simp_all [Inv] <;> (try subst hs) <;> simp_all

theorem inv_reachable (s : State) (h : Reachable s) : Inv s := by
  induction h with
  | init => exact inv_init
  | step e _ hs ih => exact inv_step _ _ e ih hs

/-- **No lost resume.** In no reachable state of the current handshake is the thread
parked in `cond.Wait()` while `running = true` — whether or not a `Continue` is still
in progress (this is stronger than "… and nothing pending"). -/
theorem no_lost_resume (s : State) (h : Reachable s) : ¬ (s.pc = waiting ∧ s.running = true) := by
  intro ⟨hp, hr⟩
  have := (inv_reachable s h).1 hp
  simp_all

/-- the schedule "the controller's `Continue(c)` runs to its end (the thread only moves
where the controller has to wait for the lock), then the thread runs" -/
def releaseSchedule (c : Cmd) : Pc → List Event
  | run => [cCheck c, cSetCmd, cFire]
  | marked => [cCheck c, cSetCmd, cFire, tlock, test]
  | holding => [cCheck c, cSetCmd, test, cFire, wake, test]
  | waiting => [cCheck c, cSetCmd, cFire, wake, test]
  | woken => []

/-- **Continue releases.** In every reachable state in which the thread is reported
suspended (`running = false`) — at whichever point between publishing the flag and
waiting it is — a `Continue(c)` is accepted, and after it the thread's own steps lead
back to executing code, with `c` as its pending command. -/
theorem continue_releases (s : State) (h : Reachable s) (hsusp : s.running = false)
    (hidle : s.cpc = idle) (c : Cmd) :
    ∃ s', runEvents s (releaseSchedule c s.pc) = some s' ∧
      s'.pc = run ∧ s'.running = true ∧ s'.cmd = c ∧ s'.cpc = idle := by
  obtain ⟨pc, running, cmd, cpc⟩ := s
  have hinv := inv_reachable _ h
  simp only at hsusp hidle
  subst hsusp hidle
  cases pc <;> simp_all [Inv, releaseSchedule, runEvents, step, List.foldlM]

example : ∃ s, Reachable s ∧ s.running = false ∧ s.cpc = idle ∧ s.pc = waiting :=
  ⟨⟨waiting, false, .stop, idle⟩,
    .step test (.step tlock (.step (s' := ⟨marked, false, .stop, idle⟩) mark .init (by decide))
      (s' := ⟨holding, false, .stop, idle⟩) (by decide)) (by decide), rfl, rfl, rfl⟩

/-- A started `Continue` always finishes: the controller's next step is enabled, or the
thread holds the lock and its `test` (which releases the lock) is enabled. -/
theorem continue_completes (s : State) (h : Reachable s) (hp : s.cpc ≠ idle) :
    (∃ e s', isThreadEvent e = false ∧ step s e = some s' ∧ ctlMeasure s' < ctlMeasure s) ∨
    (s.pc = holding ∧ ∃ s', step s test = some s' ∧ s'.pc ≠ holding ∧ s'.cpc = s.cpc) := by
  obtain ⟨pc, running, cmd, cpc⟩ := s
  have hinv := inv_reachable _ h
  cases cpc with
  | idle => simp at hp
  | armed c =>
    exact .inl ⟨cSetCmd, _, rfl, rfl, by simp [ctlMeasure]⟩
  | locking =>
    by_cases hh : pc = holding
    · subst hh
      refine .inr ⟨rfl, ?_⟩
      cases running <;> simp [step]
    · exact .inl ⟨cFire, ⟨if pc = waiting then woken else pc, true, cmd, idle⟩, rfl,
        by simp [step, hh], by simp [ctlMeasure]⟩

/-- Once `running = true` the thread is never blocked: whatever the controller does or
does not do, the thread's own next step is enabled and brings it closer to `run`. -/
theorem released_thread_progresses (s : State) (h : Reachable s) (hr : s.running = true)
    (hp : s.pc ≠ run) :
    ∃ e s', threadNext s = some e ∧ step s e = some s' ∧ threadMeasure s' < threadMeasure s ∧
      s'.running = true := by
  obtain ⟨pc, running, cmd, cpc⟩ := s
  have hinv := inv_reachable _ h
  simp only at hr hp
  subst hr
  cases pc <;> simp_all [Inv, threadNext, step, threadMeasure]

/-- **StopThreads releases all.** For any number of threads, each in a reachable state
with no `Continue` in progress: after `StopThreads` every thread has `running = true`
and is not parked; run alone it returns to executing code; and those that were reported
suspended carry the `Kill` command. -/
theorem stop_releases_all (ts : List State) (h : ∀ t ∈ ts, Reachable t ∧ t.cpc = idle) :
    ∀ t ∈ ts, (stopOne t).running = true ∧ (stopOne t).pc ≠ waiting ∧
      (threadRun (stopOne t)).pc = run ∧ (t.running = false → (stopOne t).cmd = .kill) := by
  intro t ht
  obtain ⟨hr, _⟩ := h t ht
  have hinv := inv_reachable _ hr
  obtain ⟨pc, running, cmd, cpc⟩ := t
  cases running <;> cases pc <;>
    simp_all [Inv, stopOne, threadRun, threadNext, step]

example : (stopOne ⟨waiting, false, .stop, idle⟩) = ⟨woken, true, .kill, idle⟩ := by decide


/-- the schedule of `StopThreads` on one thread reported suspended -/
def stopSchedule : Pc → List Event
  | holding => [cCheck .kill, cSetCmd, test, cFire]
  | _ => [cCheck .kill, cSetCmd, cFire]

/-- **`stopOne` is a schedule of the transition system** (so `stop_releases_all` is about `Hs.step`):
for a thread reported suspended with no `Continue` in progress, `StopThreads` is check, write `Kill`,
(wait for the lock while the thread holds it,) `setRunning`. The hypothesis `cpc = idle` EXCLUDES a
`StopThreads` racing a `Continue` of another controller (whose `is.cmd = c` may overwrite `Kill`). -/
theorem stopOne_is_schedule (t : State) (h : Reachable t) (hidle : t.cpc = idle)
    (hs : t.running = false) : runEvents t (stopSchedule t.pc) = some (stopOne t) := by
  have hinv := inv_reachable _ h
  obtain ⟨pc, running, cmd, cpc⟩ := t
  simp only at hidle hs
  subst hidle hs
  cases pc <;> simp_all [Inv, stopSchedule, stopOne, runEvents, step, List.foldlM]

/-- the events of the handshake proper: the controller finishing its `Continue`, the thread moving
through `waitForContinue` (NOT: a new suspension `mark`/`phantom`, a new `Continue` `cCheck`) -/
def isHandshakeEvent : Event → Bool
  | tlock | test | wake | cSetCmd | cFire => true
  | _ => false

/-- bound on the handshake steps still possible -/
def hsMeasure (s : State) : Nat :=
  if s.running then
    (match s.pc with | run => 0 | holding => 1 | marked => 2 | woken => 2 | waiting => 3)
  else
    4 + 3 * ctlMeasure s + (match s.pc with | marked => 2 | holding => 1 | _ => 0)

/-- a `Continue(c)` is in progress or has been completed -/
def Pending (c : Cmd) (s : State) : Prop :=
  (s.cpc = armed c ∨ (s.cmd = c ∧ (s.cpc = locking ∨ (s.cpc = idle ∧ s.running = true))))

theorem handshake_step (c : Cmd) (s s' : State) (e : Event) (hr : Reachable s) (hp : Pending c s)
    (he : isHandshakeEvent e = true) (hs : step s e = some s') :
    hsMeasure s' < hsMeasure s ∧ Pending c s' := by
  have hinv := inv_reachable _ hr
  obtain ⟨pc, running, cmd, cpc⟩ := s
  cases e <;> simp [isHandshakeEvent] at he <;>
    cases pc <;> cases running <;> cases cpc <;>
    simp_all [step, Pending, hsMeasure, ctlMeasure, Inv] <;>
    (try (subst hs; simp_all [Pending, hsMeasure, ctlMeasure]))

/-- **No lost wake-up, all schedules.** From any reachable state in which `Continue(c)` has passed
its check (`cpc = armed c`), EVERY sequence of handshake events — any interleaving of the
controller's remaining steps with the thread's steps — is at most `hsMeasure s ≤ 12` long, keeps the
`Continue` pending-or-done, and when no handshake event is enabled any more the thread executes
again (`pc = run`, `running`), with `c` as its command and the controller idle. So every fair run
releases the thread; no schedule parks it for ever. -/
theorem continue_always_releases (c : Cmd) (es : List Event) :
    ∀ (s s' : State), Reachable s → Pending c s → (∀ e ∈ es, isHandshakeEvent e = true) →
      runEvents s es = some s' →
      hsMeasure s' + es.length ≤ hsMeasure s ∧ Reachable s' ∧ Pending c s' ∧
      ((∀ e, isHandshakeEvent e = true → step s' e = none) →
        s'.pc = run ∧ s'.running = true ∧ s'.cmd = c ∧ s'.cpc = idle) := by
  induction es with
  | nil =>
    intro s s' hr hp _ hrun
    simp [runEvents, List.foldlM] at hrun
    subst hrun
    refine ⟨by simp, hr, hp, ?_⟩
    intro hstuck
    have hinv := inv_reachable _ hr
    obtain ⟨pc, running, cmd, cpc⟩ := s
    obtain ⟨h1, h2, h3⟩ := hinv
    have t1 := hstuck tlock rfl
    have t2 := hstuck test rfl
    have t3 := hstuck wake rfl
    have t4 := hstuck cSetCmd rfl
    have t5 := hstuck cFire rfl
    cases cpc <;> cases pc <;> cases running <;> simp_all [Pending, step]
  | cons e es ih =>
    intro s s' hr hp hall hrun
    simp only [runEvents, List.foldlM_cons] at hrun
    cases hstep : step s e with
    | none => simp [hstep] at hrun
    | some s1 =>
      simp only [hstep, Option.bind_eq_bind, Option.bind_some] at hrun
      have he : isHandshakeEvent e = true := hall e (by simp)
      obtain ⟨hlt, hp1⟩ := handshake_step c s s1 e hr hp he hstep
      obtain ⟨hm, hr', hp', hend⟩ := ih s1 s' (.step e hr hstep) hp1
        (fun x hx => hall x (by simp [hx])) hrun
      refine ⟨by simp only [List.length_cons]; omega, hr', hp', hend⟩

example : Pending .stepIn ⟨waiting, false, .stop, armed .stepIn⟩ := by simp [Pending]

/-- **Negative witness (code before fix a44f74f).** `Continue` issued between
`running = false` and `Lock; Wait` is lost: the thread is parked with `running = true`,
no `Continue` is in progress, no thread step is enabled and every further `Continue` is
refused because the thread is "running". -/
theorem lost_resume_reachable :
    ∃ s, [Pristine.PEvent.mark, .cCheck .resume, .cSetCmd, .cSetRunning, .cBroadcast, .wait].foldlM
        Pristine.step Pristine.init = some s ∧
      s.pc = waiting ∧ s.running = true ∧ s.cpc = .idle ∧ ∀ e, Pristine.step s e = none := by
  refine ⟨⟨waiting, true, .resume, .idle⟩, by decide, rfl, rfl, rfl, ?_⟩
  intro e
  cases e <;> simp [Pristine.step]

end Handshake

/-! ## the decision functions -/

/-- the thread is still executing (no `Goexit`, no Go panic) -/
def Alive (r : Run) : Prop := r.killed = false ∧ r.crashed = false

@[simp] theorem park_susp (r : Run) (l : Loc) : (park r l).susp = r.susp ++ [l] := by
  unfold park; split <;> rfl

@[simp] theorem park_killed (r : Run) (l : Loc) : (park r l).killed = r.killed := by
  unfold park; split <;> rfl

@[simp] theorem park_crashed (r : Run) (l : Loc) : (park r l).crashed = r.crashed := by
  unfold park; split <;> rfl

/-- the controller's plain answer "resume" -/
def resumeAct : Act := ⟨[], some .resume⟩

/-- **Suspension at active break points.** A thread without interrogation state that
visits a node on a line with an active break point reports suspension there (once).
Answered with `resume` it passes every further node of that line, suspends again at the
next line with an active break point it arrives at, and suspends again at the same
break point once it has left the line and comes back. -/
theorem suspends_at_active_breakpoint (d : Dbg) (l : Loc) (rest : List Act)
    (hnone : d.is = none) (hbp : bpActive d.bps l = true) :
    let r1 := stepEv (Run.init d (resumeAct :: rest)) (.visit l)
    r1.susp = [l] ∧
    (∀ same : List Loc, (∀ x ∈ same, x = l) → runTrace r1 (same.map .visit) = r1) ∧
    (∀ l2, l2 ≠ l → bpActive d.bps l2 = true →
      (stepEv r1 (.visit l2)).susp = [l, l2]) ∧
    (∀ l2, l2 ≠ l → bpActive d.bps l2 = false →
      (runTrace r1 [.visit l2, .visit l]).susp = [l, l]) := by
  obtain ⟨is, depth, bps, bos, boe⟩ := d
  simp only at hnone hbp
  subst hnone
  have hr1 : stepEv (Run.init ⟨none, depth, bps, bos, boe⟩ (resumeAct :: rest)) (.visit l)
      = ⟨⟨some ⟨.resume, l, 0, false, true⟩, depth, bps, false, boe⟩, rest, [l], false, false⟩ := by
    simp [stepEv, Run.init, visitState, visitFresh, hbp, park, resumeAct, applyAct, applyCont,
      freshState, Cont.toCmd]
  simp only [hr1]
  refine ⟨trivial, ?_, ?_, ?_⟩
  · intro same hsame
    induction same with
    | nil => rfl
    | cons x xs ih =>
      have hx : x = l := hsame x (by simp)
      have hxs : ∀ y ∈ xs, y = l := fun y hy => hsame y (by simp [hy])
      simp only [List.map_cons, runTrace, List.foldl_cons]
      have : stepEv ⟨⟨some ⟨.resume, l, 0, false, true⟩, depth, bps, false, boe⟩, rest, [l], false, false⟩
          (.visit x) = ⟨⟨some ⟨.resume, l, 0, false, true⟩, depth, bps, false, boe⟩, rest, [l], false, false⟩ := by
        simp [stepEv, visitState, hx]
      rw [this]
      exact ih hxs
  · intro l2 hne hb2
    simp [stepEv, visitState, visitFresh, hb2, park_susp, Ne.symm hne]
  · intro l2 hne hb2
    simp [runTrace, stepEv, visitState, visitFresh, hbp, hb2, park_susp,
      Ne.symm hne]

example : ∃ (d : Dbg) (l : Loc), d.is = none ∧ bpActive d.bps l = true :=
  ⟨{ Dbg.init false true with bps := [(⟨0, 3⟩, true)] }, ⟨0, 3⟩, rfl, by decide⟩



/-- REMARK, true BY CONSTRUCTION (no model function writes `crashed` any more; not an obligation): the one
Go panic the model knew (`VisitStepOutState` popping an empty call stack — the debugger was attached while
the call was running) is guarded in the code. NOT modelled: the sanity assertion of `VisitStepOutState`
(`errorutil.AssertTrue`: the top of the recorded call stack equals the returning call) — the model keeps
only the call DEPTH; a debugger detached inside one call and re-attached inside another sees a stale
stack and panics there (declared assumption: enter/exit are properly nested while attached). -/
example (r : Run) (e : Ev) : (stepEv r e).crashed = r.crashed := by
  have hv : ∀ (r : Run) (l : Loc), (visitState r l).crashed = r.crashed := by
    intro r l
    unfold visitState visitFresh
    repeat' split
    all_goals simp
  unfold stepEv
  split
  · rfl
  · cases e with
    | visit l => exact hv r l
    | enter l =>
      simp only [stepInState]
      split
      · rfl
      · split <;> simp [hv]
    | exit l err =>
      simp only [stepOutState]
      repeat' split
      all_goals simp
    | finished => rfl

/-! ### stepping -/

/-- a trace piece in which every call returns: visits and complete calls -/
inductive Balanced : List Ev → Prop where
  | nil : Balanced []
  | visit (l : Loc) {t : List Ev} : Balanced t → Balanced (.visit l :: t)
  | call (l l' : Loc) (e : Bool) {b t : List Ev} :
      Balanced b → Balanced t → Balanced (.enter l :: (b ++ .exit l' e :: t))

/-- no call of the trace returns with an error while `breakOnError` is set
(an error return suspends the thread by itself, whatever the stepping command) -/
def Quiet (boe : Bool) (t : List Ev) : Prop := ∀ l e, Ev.exit l e ∈ t → (boe && e) = false

/-- no node of the trace lies on a line with an active break point -/
def NoBp (bps : List (Loc × Bool)) (t : List Ev) : Prop := ∀ l, Ev.visit l ∈ t → bpActive bps l = false

/-- `is.err` and the position marker `is.node` are all a quiet balanced piece without break
points changes while stepping out -/
def setEL (r : Run) (b : Bool) (ln : Loc) : Run :=
  { r with d := { r.d with is := r.d.is.map (fun is => { is with err := b, pos := ln }) } }

/-- the thread passes everything (except break points) until its call depth comes back to `n` -/
def SteppingOut (r : Run) (n : Nat) : Prop :=
  Alive r ∧ ∃ is, r.d.is = some is ∧ is.cmd = .stepOut ∧ is.soDepth = n ∧ n < r.d.depth

theorem steppingOut_balanced {t : List Ev} (hb : Balanced t) :
    ∀ (r : Run) (n : Nat), SteppingOut r n → Quiet r.d.breakOnError t → NoBp r.d.bps t →
      ∃ b ln, runTrace r t = setEL r b ln := by
  induction hb with
  | nil =>
    intro r n ⟨_, is, his, _⟩ _ _
    refine ⟨is.err, is.pos, ?_⟩
    obtain ⟨⟨is', depth, bps, bos, boe⟩, script, susp, killed, crashed⟩ := r
    simp only at his
    subst his
    simp [runTrace, setEL]
  | visit l _ ih =>
    intro r n hs hq hnb
    obtain ⟨⟨is', depth, bps, bos, boe⟩, script, susp, killed, crashed⟩ := r
    obtain ⟨⟨hk, hc⟩, is, his, hcmd, hso, hlt⟩ := hs
    simp only at his hk hc hlt hq hnb
    subst his hk hc
    have hbp : bpActive bps l = false := hnb l (by simp)
    have hstep : stepEv ⟨⟨some is, depth, bps, bos, boe⟩, script, susp, false, false⟩ (.visit l)
        = setEL ⟨⟨some is, depth, bps, bos, boe⟩, script, susp, false, false⟩ is.err l := by
      by_cases hl : is.pos = l
      · obtain ⟨c, ln, so, er, ru⟩ := is
        simp only at hcmd hl
        subst hcmd hl
        simp [stepEv, visitState, setEL]
      · simp [stepEv, visitState, hcmd, hl, hbp, setEL]
    have hq' : Quiet boe _ := fun l' e h => hq l' e (List.mem_cons_of_mem _ h)
    have hnb' : NoBp bps _ := fun l' h => hnb l' (List.mem_cons_of_mem _ h)
    obtain ⟨b, ln, h⟩ := ih (setEL ⟨⟨some is, depth, bps, bos, boe⟩, script, susp, false, false⟩ is.err l) n
      ⟨⟨rfl, rfl⟩, { is with err := is.err, pos := l }, rfl, hcmd, hso, hlt⟩ hq' hnb'
    refine ⟨b, ln, ?_⟩
    simp only [runTrace, List.foldl_cons] at h ⊢
    rw [hstep, h]
    simp [setEL]
  | call l l' e hb1 hb2 ih1 ih2 =>
    rename_i b t
    intro r n hs hq hnb
    obtain ⟨⟨is', depth, bps, bos, boe⟩, script, susp, killed, crashed⟩ := r
    obtain ⟨⟨hk, hc⟩, is, his, hcmd, hso, hlt⟩ := hs
    simp only at his hk hc hlt hq hnb
    subst his hk hc
    have henter : stepEv ⟨⟨some is, depth, bps, bos, boe⟩, script, susp, false, false⟩ (.enter l)
        = ⟨⟨some is, depth + 1, bps, bos, boe⟩, script, susp, false, false⟩ := by
      simp [stepEv, stepInState, hcmd, enterCmd]
    have hq1 : Quiet boe b := fun l'' e'' h => hq l'' e'' (by simp [h])
    have hq2 : Quiet boe t := fun l'' e'' h => hq l'' e'' (by simp [h])
    have hn1 : NoBp bps b := fun l'' h => hnb l'' (by simp [h])
    have hn2 : NoBp bps t := fun l'' h => hnb l'' (by simp [h])
    have hqe : (boe && e) = false := hq l' e (by simp)
    obtain ⟨b1, ln1, h1⟩ := ih1 ⟨⟨some is, depth + 1, bps, bos, boe⟩, script, susp, false, false⟩ n
      ⟨⟨rfl, rfl⟩, is, rfl, hcmd, hso, by simp only; omega⟩ hq1 hn1
    have hexit : stepEv (setEL ⟨⟨some is, depth + 1, bps, bos, boe⟩, script, susp, false, false⟩ b1 ln1)
        (.exit l' e) = setEL ⟨⟨some is, depth, bps, bos, boe⟩, script, susp, false, false⟩ e ln1 := by
      have : depth ≠ is.soDepth := by omega
      simp [stepEv, setEL, stepOutState, hqe, exitCmd, hcmd, this]
    obtain ⟨b2, ln2, h2⟩ := ih2 (setEL ⟨⟨some is, depth, bps, bos, boe⟩, script, susp, false, false⟩ e ln1) n
      ⟨⟨rfl, rfl⟩, { is with err := e, pos := ln1 }, rfl, hcmd, hso, hlt⟩ hq2 hn2
    refine ⟨b2, ln2, ?_⟩
    simp only [runTrace, List.foldl_cons, List.foldl_append] at h1 h2 ⊢
    rw [henter, h1, hexit, h2]
    simp [setEL]

/-- **Step in.** With `stepIn` pending, the thread passes the remaining nodes of the line it
stopped on, suspends at the first node on another line, and when a function call is
entered first, suspends at the very next node (whatever its line). -/
theorem step_semantics_stepin (r : Run) (is : IState) (hal : Alive r)
    (his : r.d.is = some is) (hcmd : is.cmd = .stepIn) :
    (∀ l, l = is.pos → stepEv r (.visit l) = r) ∧
    (∀ l, l ≠ is.pos → (stepEv r (.visit l)).susp = r.susp ++ [l]) ∧
    (∀ l l2, (runTrace r [.enter l, .visit l2]).susp = r.susp ++ [l2] ∧
      (stepEv r (.enter l)).susp = r.susp) := by
  obtain ⟨⟨is', depth, bps, bos, boe⟩, script, susp, killed, crashed⟩ := r
  obtain ⟨hk, hc⟩ := hal
  simp only at his hk hc
  subst his hk hc
  refine ⟨?_, ?_, ?_⟩
  · intro l hl
    simp [stepEv, visitState, hcmd, hl]
  · intro l hl
    simp [stepEv, visitState, hcmd, Ne.symm hl]
  · intro l l2
    simp [runTrace, stepEv, stepInState, visitState, hcmd, enterCmd]

/-- **Step over.** With `stepOver` pending at call depth `n`, a complete function call
(`enter`, a balanced body at any nesting without active break points, its `exit`) is passed
without suspension — and the next node visited afterwards (on whatever line) suspends the
thread at depth `n`. (Break points inside the call DO stop the thread:
`suspends_whenever_arriving`.) -/
theorem step_semantics_stepover (r : Run) (is : IState) (hal : Alive r)
    (his : r.d.is = some is) (hcmd : is.cmd = .stepOver)
    (l l' : Loc) (e : Bool) (body : List Ev) (hb : Balanced body)
    (hq : Quiet r.d.breakOnError (body ++ [.exit l' e])) (hnb : NoBp r.d.bps body) :
    let r' := runTrace r (.enter l :: (body ++ [.exit l' e]))
    r'.susp = r.susp ∧ r'.d.depth = r.d.depth ∧ Alive r' ∧
      ∀ l2, (stepEv r' (.visit l2)).susp = r.susp ++ [l2] := by
  obtain ⟨⟨is', depth, bps, bos, boe⟩, script, susp, killed, crashed⟩ := r
  obtain ⟨hk, hc⟩ := hal
  simp only at his hk hc hq hnb
  subst his hk hc
  have henter : stepEv ⟨⟨some is, depth, bps, bos, boe⟩, script, susp, false, false⟩ (.enter l)
      = ⟨⟨some { is with cmd := .stepOut, soDepth := depth }, depth + 1, bps, bos, boe⟩, script, susp,
          false, false⟩ := by
    simp [stepEv, stepInState, hcmd, enterCmd]
  have hq1 : Quiet boe body := fun l'' e'' h => hq l'' e'' (by simp [h])
  have hqe : (boe && e) = false := hq l' e (by simp)
  obtain ⟨b1, ln1, h1⟩ := steppingOut_balanced hb
    ⟨⟨some { is with cmd := .stepOut, soDepth := depth }, depth + 1, bps, bos, boe⟩, script, susp, false, false⟩
    depth ⟨⟨rfl, rfl⟩, _, rfl, rfl, rfl, by simp⟩ hq1 hnb
  have hfin : runTrace ⟨⟨some is, depth, bps, bos, boe⟩, script, susp, false, false⟩
      (.enter l :: (body ++ [.exit l' e]))
      = ⟨⟨some { is with cmd := .stop, soDepth := depth, err := e, pos := ln1 }, depth, bps, bos, boe⟩,
          script, susp, false, false⟩ := by
    simp only [runTrace, List.foldl_cons, List.foldl_append, List.foldl_nil] at h1 ⊢
    rw [henter, h1]
    simp [stepEv, setEL, stepOutState, hqe, exitCmd]
  intro r'
  have hr' : r' = _ := hfin
  clear_value r'
  subst hr'
  refine ⟨rfl, rfl, ⟨rfl, rfl⟩, ?_⟩
  intro l2
  simp [stepEv, visitState]

/-- **Step out.** A thread suspended inside a call (depth `n + 1`) that is continued with
`stepOut` passes the rest of the function body (balanced, at any nesting, without active break
points) and the return, and suspends at the next node visited in the caller (depth `n`). -/
theorem step_semantics_stepout (r : Run) (is : IState) (n : Nat) (hal : Alive r)
    (his : r.d.is = some is) (hsusp : is.running = false) (hdepth : r.d.depth = n + 1)
    (l' : Loc) (e : Bool) (body : List Ev) (hb : Balanced body)
    (hq : Quiet r.d.breakOnError (body ++ [.exit l' e])) (hnb : NoBp r.d.bps body) :
    let r' := runTrace { r with d := applyCont r.d .stepOut } (body ++ [.exit l' e])
    r'.susp = r.susp ∧ r'.d.depth = n ∧ Alive r' ∧
      ∀ l2, (stepEv r' (.visit l2)).susp = r.susp ++ [l2] := by
  obtain ⟨⟨is', depth, bps, bos, boe⟩, script, susp, killed, crashed⟩ := r
  obtain ⟨hk, hc⟩ := hal
  simp only at his hk hc hq hdepth hnb
  subst his hk hc hdepth
  have hcont : applyCont ⟨some is, n + 1, bps, bos, boe⟩ .stepOut
      = ⟨some { is with cmd := .stepOut, soDepth := n, running := true }, n + 1, bps, bos, boe⟩ := by
    simp [applyCont, hsusp, Cont.toCmd]
  have hq1 : Quiet boe body := fun l'' e'' h => hq l'' e'' (by simp [h])
  have hqe : (boe && e) = false := hq l' e (by simp)
  obtain ⟨b1, ln1, h1⟩ := steppingOut_balanced hb
    ⟨⟨some { is with cmd := .stepOut, soDepth := n, running := true }, n + 1, bps, bos, boe⟩, script, susp,
      false, false⟩
    n ⟨⟨rfl, rfl⟩, _, rfl, rfl, rfl, by simp⟩ hq1 hnb
  have hfin : runTrace ⟨applyCont ⟨some is, n + 1, bps, bos, boe⟩ .stepOut, script, susp, false, false⟩
      (body ++ [.exit l' e])
      = ⟨⟨some { is with cmd := .stop, soDepth := n, running := true, err := e, pos := ln1 }, n, bps, bos,
          boe⟩, script, susp, false, false⟩ := by
    simp only [runTrace, List.foldl_cons, List.foldl_append, List.foldl_nil] at h1 ⊢
    rw [hcont, h1]
    simp [stepEv, setEL, stepOutState, hqe, exitCmd]
  intro r'
  have hr' : r' = _ := hfin
  clear_value r'
  subst hr'
  refine ⟨rfl, rfl, ⟨rfl, rfl⟩, ?_⟩
  intro l2
  simp [stepEv, visitState]

example : Balanced [.visit ⟨0, 2⟩, .enter ⟨0, 2⟩, .visit ⟨0, 7⟩, .exit ⟨0, 2⟩ false] :=
  .visit _ (.call (b := [.visit ⟨0, 7⟩]) (t := []) _ _ _ (.visit _ .nil) .nil)

/-! ### "whenever it arrives, from a different line, at a line with an active break point" -/

theorem applyAct_line (d : Dbg) (a : Act) (is : IState) (ln : Loc)
    (h : ∀ is0, d.is = some is0 → is0.pos = ln) (h' : (applyAct d a).is = some is) : is.pos = ln := by
  have hops : ∀ (ops : List BpOp) (d : Dbg), (ops.foldl applyOp d).is = d.is := by
    intro ops
    induction ops with
    | nil => intro d; rfl
    | cons o os ih =>
      intro d
      simp only [List.foldl_cons]
      rw [ih]
      cases o <;> simp [applyOp] <;> split <;> rfl
  unfold applyAct at h'
  have h0 := hops a.ops d
  generalize (a.ops.foldl applyOp d) = d1 at h' h0
  cases hc : a.cmd with
  | none =>
    simp only [hc, applyKill] at h'
    cases hi : d1.is with
    | none => simp [hi] at h'
    | some is1 =>
      have := h is1 (by rw [← h0, hi])
      simp only [hi] at h'
      split at h' <;> simp_all <;> (subst h'; simp_all)
  | some c =>
    simp only [hc, applyCont] at h'
    cases hi : d1.is with
    | none => simp [hi] at h'
    | some is1 =>
      have := h is1 (by rw [← h0, hi])
      simp only [hi] at h'
      split at h' <;> simp_all <;> (subst h'; simp_all)

theorem park_line (r : Run) (l : Loc) (is : IState) (ln : Loc)
    (h : ∀ is0, r.d.is = some is0 → is0.pos = ln) (h' : (park r l).d.is = some is) : is.pos = ln := by
  unfold park at h'
  split at h'
  · exact applyAct_line _ _ _ _ h h'
  · exact applyAct_line _ _ _ _ h h'

/-- **`is.node` follows the thread.** After any node visit, an interrogation state that
exists carries the line of that node: so in the next theorem "`is.pos ≠ l`" says
exactly "the thread arrives from a different line". -/
theorem line_tracks_last_visit (r : Run) (l : Loc) (hal : Alive r) (is' : IState)
    (h' : (stepEv r (.visit l)).d.is = some is') (hal' : Alive (stepEv r (.visit l))) :
    is'.pos = l := by
  obtain ⟨⟨is, depth, bps, bos, boe⟩, script, susp, killed, crashed⟩ := r
  obtain ⟨hk, hc⟩ := hal
  simp only at hk hc
  subst hk hc
  simp only [stepEv, Bool.or_self, Bool.false_eq_true, if_false] at h' hal'
  cases is with
  | none =>
    simp only [visitState, visitFresh] at h'
    split at h'
    · exact park_line _ _ _ _ (by simp [freshState]) h'
    · simp at h'
  | some is =>
    simp only [visitState] at h' hal'
    split at h' <;> (try simp only [] at h' hal')
    · -- resume
      split at h'
      · simp only [visitFresh] at h'
        split at h'
        · exact park_line _ _ _ _ (by simp [freshState]) h'
        · simp at h'
      · simp_all
    · -- kill
      split at h'
      · simp at h'
      · simp_all
    · -- stepOut
      split at h'
      · split at h'
        · exact park_line _ _ _ _ (by simp) h'
        · simp at h'; subst h'; rfl
      · simp_all
    · split at h'
      · exact park_line _ _ _ _ (by simp) h'
      · simp_all


/-! ### "arrives from a different line": the trace-level statement -/

/-- where the thread IS after the events of a trace: the position of the node it visited last, or — if
later — the position of the call at which it was last reported suspended (the stop before a call is
entered, the error stop at a returning call). `last` is where it was before the trace. -/
def lastAt (r : Run) (last : Option Loc) : List Ev → Option Loc
  | [] => last
  | e :: t =>
    let r' := stepEv r e
    let last' := match e with
      | .visit l => some l
      | .enter l => if r.susp.length < r'.susp.length then some l else last
      | .exit l _ => if r.susp.length < r'.susp.length then some l else last
      | .finished => last
    lastAt r' last' t

theorem runTrace_cons (r : Run) (e : Ev) (t : List Ev) : runTrace r (e :: t) = runTrace (stepEv r e) t := rfl

theorem stepEv_dead (r : Run) (e : Ev) (h : ¬ Alive r) : stepEv r e = r := by
  obtain ⟨d, script, susp, killed, crashed⟩ := r
  cases killed <;> cases crashed <;> simp_all [Alive, stepEv]

theorem runTrace_dead (t : List Ev) : ∀ (r : Run), ¬ Alive r → runTrace r t = r := by
  induction t with
  | nil => intro r _; rfl
  | cons e t ih =>
    intro r h
    rw [runTrace_cons, stepEv_dead r e h]
    exact ih r h

theorem enterCmd_pos (is : IState) (n : Nat) : (enterCmd is n).pos = is.pos := by
  unfold enterCmd; split <;> rfl

theorem exitCmd_pos (is : IState) (n : Nat) : (exitCmd is n).pos = is.pos := by
  unfold exitCmd; split <;> rfl

/-- one event: an existing interrogation state carries the position `lastAt` computes -/
theorem pos_step (r : Run) (e : Ev) (last : Option Loc) (hal : Alive r)
    (h : ∀ is, r.d.is = some is → some is.pos = last) (hal' : Alive (stepEv r e)) :
    ∀ is', (stepEv r e).d.is = some is' → some is'.pos = lastAt r last [e] := by
  intro is' h'
  cases e with
  | visit l =>
    simp only [lastAt]
    exact congrArg some (line_tracks_last_visit r l hal is' h' hal')
  | finished =>
    obtain ⟨⟨is, depth, bps, bos, boe⟩, script, susp, killed, crashed⟩ := r
    obtain ⟨hk, hc⟩ := hal
    simp only at hk hc
    subst hk hc
    simp [stepEv, threadFinished] at h'
  | enter l =>
    obtain ⟨⟨is, depth, bps, bos, boe⟩, script, susp, killed, crashed⟩ := r
    obtain ⟨hk, hc⟩ := hal
    simp only at hk hc
    subst hk hc
    cases is with
    | none => simp [stepEv, stepInState] at h'
    | some is =>
      have hpos := h is rfl
      by_cases hstop : is.cmd = Cmd.stop
      · -- stop before the call: the thread is reported suspended at the call's position
        have hv : ∃ P, visitState ⟨⟨some is, depth, bps, bos, boe⟩, script, susp, false, false⟩ l = P ∧
            P.susp = susp ++ [l] ∧ (∀ isp, P.d.is = some isp → isp.pos = l) := by
          refine ⟨_, rfl, ?_, ?_⟩
          · simp [visitState, hstop]
          · intro isp hisp
            simp only [visitState, hstop, or_true, if_true] at hisp
            exact park_line _ l isp l (by simp) hisp
        obtain ⟨P, hP, hPs, hPl⟩ := hv
        simp only [stepEv, Bool.or_self, Bool.false_eq_true, if_false, stepInState, hstop, if_true, hP] at h'
        simp only [lastAt, stepEv, Bool.or_self, Bool.false_eq_true, if_false, stepInState, hstop, if_true, hP, hPs,
          List.length_append, List.length_cons, List.length_nil, Nat.lt_add_one]
        cases hp : P.d.is with
        | none => simp [hp] at h'
        | some isp =>
          simp [hp] at h'
          subst h'
          rw [enterCmd_pos, hPl isp hp]
      · simp only [stepEv, Bool.or_self, Bool.false_eq_true, if_false, stepInState, hstop] at h' ⊢
        simp only [lastAt, stepEv, Bool.or_self, Bool.false_eq_true, if_false, stepInState, hstop]
        simp at h'
        subst h'
        simp [enterCmd]
        split <;> simp_all
  | exit l err =>
    obtain ⟨⟨is, depth, bps, bos, boe⟩, script, susp, killed, crashed⟩ := r
    obtain ⟨hk, hc⟩ := hal
    simp only at hk hc
    subst hk hc
    by_cases hd : depth = 0
    · subst hd
      simp only [stepEv, Bool.or_self, Bool.false_eq_true, if_false, stepOutState, if_true] at h'
      simp only [lastAt, stepEv, Bool.or_self, Bool.false_eq_true, if_false, stepOutState, if_true, Nat.lt_irrefl]
      exact h is' h'
    · by_cases hbe : (boe && err) = true
      · cases is with
        | none =>
          simp only [stepEv, Bool.or_self, Bool.false_eq_true, if_false, stepOutState, hd, hbe, if_true, freshState] at h'
          simp only [lastAt, stepEv, Bool.or_self, Bool.false_eq_true, if_false, stepOutState, hd, hbe, if_true,
            freshState, park_susp, List.length_append, List.length_cons, List.length_nil, Nat.lt_add_one]
          exact congrArg some (park_line _ l is' l (by simp) h')
        | some is =>
          have hpos := h is rfl
          cases hie : is.err with
          | true =>
            simp only [stepEv, Bool.or_self, Bool.false_eq_true, if_false, stepOutState, hd, hbe, if_true, hie] at h'
            simp only [lastAt, stepEv, Bool.or_self, Bool.false_eq_true, if_false, stepOutState, hd, hbe, if_true, hie,
              Nat.lt_irrefl]
            simp at h'
            subst h'
            exact hpos
          | false =>
            simp only [stepEv, Bool.or_self, Bool.false_eq_true, if_false, stepOutState, hd, hbe, if_true, hie] at h'
            simp only [lastAt, stepEv, Bool.or_self, Bool.false_eq_true, if_false, stepOutState, hd, hbe, if_true, hie,
              park_susp, List.length_append, List.length_cons, List.length_nil, Nat.lt_add_one]
            exact congrArg some (park_line _ l is' l (by simp) h')
      · have hbe' : (boe && err) = false := by simpa using hbe
        cases is with
        | none =>
          simp [stepEv, stepOutState, hd, hbe'] at h'
        | some is =>
          have hpos := h is rfl
          simp only [stepEv, Bool.or_self, Bool.false_eq_true, if_false, stepOutState, hd, hbe'] at h'
          simp only [lastAt, stepEv, Bool.or_self, Bool.false_eq_true, if_false, stepOutState, hd, hbe', Nat.lt_irrefl]
          simp at h'
          subst h'
          simp [exitCmd]
          split <;> simp_all

/-- Single step behind `suspends_whenever_arriving`: a thread in ANY debugging situation (not interrogated,
resumed, stepping in / over / out at any depth) except one that `StopThreads` has told to end, whose
interrogation state — if there is one — carries a position different from `l`, reports suspension when it
visits a node at `l` on a line with an active break point. (`pos_tracks_lastAt` says what that position
is in terms of the trace.) -/
theorem suspends_on_position_change (r : Run) (l : Loc) (hal : Alive r)
    (hbp : bpActive r.d.bps l = true)
    (hfrom : ∀ is, r.d.is = some is → is.pos ≠ l ∧ is.cmd ≠ .kill) :
    (stepEv r (.visit l)).susp = r.susp ++ [l] := by
  obtain ⟨⟨is, depth, bps, bos, boe⟩, script, susp, killed, crashed⟩ := r
  obtain ⟨hk, hc⟩ := hal
  simp only at hk hc hbp
  subst hk hc
  cases is with
  | none => simp [stepEv, visitState, visitFresh, hbp]
  | some is =>
    obtain ⟨hl, hkill⟩ := hfrom is rfl
    cases hcmd : is.cmd <;> simp_all [stepEv, visitState, visitFresh]

example : ∃ (r : Run) (l : Loc), Alive r ∧ bpActive r.d.bps l = true ∧
    (∃ is, r.d.is = some is ∧ is.cmd = .stepOut) ∧
    (∀ is, r.d.is = some is → is.pos ≠ l ∧ is.cmd ≠ .kill) :=
  ⟨Run.init { Dbg.init false true with bps := [(⟨0, 3⟩, true)], is := some ⟨.stepOut, ⟨1, 3⟩, 0, false, true⟩, depth := 2 } [],
    ⟨0, 3⟩, ⟨rfl, rfl⟩, by decide, ⟨_, rfl, rfl⟩, by decide⟩

/-- **`is.pos` is where the thread is.** Along EVERY trace (visits, calls entered and left with or without
error, finished executions; any break points, any script), as long as the thread is alive: an existing
interrogation state carries exactly the position `lastAt` computes from the trace — the node visited
last, or the call at which the thread was last reported suspended if that is later. In particular an
error that only passes outer calls, a normal return, a call entered while stepping do NOT move it. -/
theorem pos_tracks_lastAt (t : List Ev) :
    ∀ (r : Run) (last : Option Loc), (∀ is, r.d.is = some is → some is.pos = last) →
      Alive (runTrace r t) → ∀ is', (runTrace r t).d.is = some is' → some is'.pos = lastAt r last t := by
  induction t with
  | nil =>
    intro r last h _ is' h'
    exact h is' h'
  | cons e t ih =>
    intro r last h hal is' h'
    rw [runTrace_cons] at hal h'
    have hr : Alive r := by
      by_cases hr : Alive r
      · exact hr
      · rw [stepEv_dead r e hr, runTrace_dead t r hr] at hal
        exact absurd hal hr
    have hr' : Alive (stepEv r e) := by
      by_cases hr' : Alive (stepEv r e)
      · exact hr'
      · rw [runTrace_dead t _ hr'] at hal
        exact absurd hal hr'
    have hstep := pos_step r e last hr h hr'
    have := ih (stepEv r e) (lastAt r last [e]) hstep hal is' h'
    simpa [lastAt] using this

/-- **Suspension whenever a thread arrives, from a different position, at a line with an active break
point — over traces.** Let a thread run ANY trace `t` (from a state whose interrogation state, if any,
sits at `last0`), stay alive, and not have been told to end by `StopThreads`. If the place where the
thread is after `t` (`lastAt`: the node it visited last, or the call at which it was last reported
suspended) is not `l` (another line OR another source), and `l` lies on a line with an active break
point, then visiting a node at `l` reports suspension at `l`. Whatever the thread was doing: not
interrogated, resumed, stepping in / over / out at any depth, after errors passed any number of calls. -/
theorem suspends_whenever_arriving (r0 : Run) (last0 : Option Loc) (t : List Ev) (l : Loc)
    (h0 : ∀ is, r0.d.is = some is → some is.pos = last0)
    (hal : Alive (runTrace r0 t))
    (hbp : bpActive (runTrace r0 t).d.bps l = true)
    (hfrom : lastAt r0 last0 t ≠ some l)
    (hkill : ∀ is, (runTrace r0 t).d.is = some is → is.cmd ≠ .kill) :
    (runTrace r0 (t ++ [.visit l])).susp = (runTrace r0 t).susp ++ [l] := by
  have happ : runTrace r0 (t ++ [.visit l]) = stepEv (runTrace r0 t) (.visit l) := by
    simp [runTrace, List.foldl_append]
  rw [happ]
  apply suspends_on_position_change _ l hal hbp
  intro is his
  refine ⟨?_, hkill is his⟩
  intro heq
  have := pos_tracks_lastAt t r0 last0 h0 hal is his
  rw [heq] at this
  exact hfrom this.symm

theorem lastAt_append_visit (t : List Ev) (l' : Loc) :
    ∀ (r : Run) (last : Option Loc), lastAt r last (t ++ [.visit l']) = some l' := by
  induction t with
  | nil => intro r last; simp [lastAt]
  | cons e t ih => intro r last; simp only [List.cons_append, lastAt]; exact ih _ _

/-- **The literal reading.** A thread without interrogation state at the start runs any trace whose last
event is the visit of a node at `l'`; if `l ≠ l'` (different line or different source) and `l` has an active
break point, the next visit, at `l`, suspends the thread (unless it died or was told to end). -/
theorem suspends_arriving_from_other_line (r0 : Run) (t : List Ev) (l' l : Loc)
    (h0 : r0.d.is = none) (hne : l' ≠ l)
    (hal : Alive (runTrace r0 (t ++ [.visit l'])))
    (hbp : bpActive (runTrace r0 (t ++ [.visit l'])).d.bps l = true)
    (hkill : ∀ is, (runTrace r0 (t ++ [.visit l'])).d.is = some is → is.cmd ≠ .kill) :
    (runTrace r0 (t ++ [.visit l'] ++ [.visit l])).susp = (runTrace r0 (t ++ [.visit l'])).susp ++ [l] := by
  refine suspends_whenever_arriving r0 none (t ++ [Ev.visit l']) l (by simp [h0]) hal hbp ?_ hkill
  rw [lastAt_append_visit]
  intro h
  exact hne (Option.some.inj h)

/-- the one-line try/except of the second review: break point on line 7, an error raised on line 2 passes two
calls -/
def tryExceptDbg : Dbg := { Dbg.init false true with bps := [(⟨0, 7⟩, true)] }

def tryExceptTrace : List Ev :=
  [.visit ⟨0, 7⟩, .enter ⟨0, 7⟩, .visit ⟨0, 5⟩, .enter ⟨0, 5⟩, .visit ⟨0, 2⟩, .enter ⟨0, 2⟩,
   .exit ⟨0, 2⟩ true, .exit ⟨0, 5⟩ true, .exit ⟨0, 7⟩ true]

/-- non-vacuity of `suspends_whenever_arriving`: after the error passed, the thread is at line 2, comes back
to line 7 and is suspended again — suspensions `[7, 2, 7]` -/
example :
    lastAt (Run.init tryExceptDbg []) none tryExceptTrace = some ⟨0, 2⟩ ∧
    ((runTrace (Run.init tryExceptDbg []) tryExceptTrace).killed = false ∧
      (runTrace (Run.init tryExceptDbg []) tryExceptTrace).crashed = false) ∧
    (runTrace (Run.init tryExceptDbg []) (tryExceptTrace ++ [.visit ⟨0, 7⟩])).susp = [⟨0, 7⟩, ⟨0, 2⟩, ⟨0, 7⟩] := by
  refine ⟨by decide, ⟨by decide, by decide⟩, by decide⟩

/-! ### the recorded call stack always matches (the sanity assertion of `VisitStepOutState`)

The model the driver runs keeps the call DEPTH only. Go keeps the stack of call nodes and asserts, when a
call returns, that the node on top is the returning call (`errorutil.AssertTrue`, a panic of the program
thread otherwise). Here: the stack as a ghost (`goStack`), the assertion (`assertsOk`), the shape of the
event streams `executeFunction` can produce for a debugger attached at any moment of one execution
(`Seen`), the theorem that the assertion holds at every return of such a stream, and the link to the
model: its depth is the length of that stack. NOT covered (declared assumption): one debugger object
detached inside one call and re-attached inside another (its stack is stale). -/

/-- `callStacks[tid]` after an event: push at `VisitStepInState`, pop at `VisitStepOutState` (nothing to pop
if the debugger was attached while the call was running), dropped by `RecordThreadFinished` -/
def goStackStep (st : List Loc) : Ev → List Loc
  | .enter l => l :: st
  | .exit _ _ => st.tail
  | .finished => []
  | .visit _ => st

def goStack (st : List Loc) (t : List Ev) : List Loc := t.foldl goStackStep st

/-- the sanity assertion at one event: at a return, a non-empty stack has the returning call on top -/
def assertOk (st : List Loc) : Ev → Bool
  | .exit l _ => st.head? == none || st.head? == some l
  | _ => true

/-- the assertion holds at every event of the trace -/
def assertsOk (st : List Loc) : List Ev → Bool
  | [] => true
  | e :: t => assertOk st e && assertsOk (goStackStep st e) t

/-- complete pieces of an execution: node visits and calls that are entered AND left, properly nested, the
return announced with the node of the call (`executeFunction`: `VisitStepInState(node)` … `VisitStepOutState(node)`) -/
inductive Matched : List Ev → Prop where
  | nil : Matched []
  | visit (l : Loc) {t : List Ev} : Matched t → Matched (.visit l :: t)
  | call (l : Loc) (e : Bool) {b t : List Ev} : Matched b → Matched t → Matched (.enter l :: (b ++ .exit l e :: t))

/-- the end of what the debugger sees: complete pieces, then calls that are still running -/
inductive Open : List Ev → Prop where
  | done {b : List Ev} : Matched b → Open b
  | call (l : Loc) {b t : List Ev} : Matched b → Open t → Open (b ++ .enter l :: t)

/-- what a debugger attached at ANY moment sees of one execution: returns of calls that were already
running when it was attached (each after complete pieces), then `Open` -/
inductive Seen : List Ev → Prop where
  | tail {t : List Ev} : Open t → Seen t
  | ret (l : Loc) (e : Bool) {b t : List Ev} : Matched b → Seen t → Seen (b ++ .exit l e :: t)

theorem goStack_append (st : List Loc) (a b : List Ev) : goStack st (a ++ b) = goStack (goStack st a) b := by
  simp [goStack, List.foldl_append]

theorem assertsOk_append (a b : List Ev) : ∀ st : List Loc,
    assertsOk st (a ++ b) = (assertsOk st a && assertsOk (goStack st a) b) := by
  induction a with
  | nil => intro st; simp [assertsOk, goStack]
  | cons e a ih =>
    intro st
    simp only [List.cons_append, assertsOk, ih, goStack, List.foldl_cons, Bool.and_assoc]

/-- a complete piece leaves the stack as it found it and never trips the assertion -/
theorem matched_ok {b : List Ev} (h : Matched b) : ∀ st : List Loc, goStack st b = st ∧ assertsOk st b = true := by
  induction h with
  | nil => intro st; simp [goStack, assertsOk]
  | visit l _ ih =>
    intro st
    obtain ⟨h1, h2⟩ := ih st
    exact ⟨by simpa [goStack, goStackStep] using h1, by simpa [assertsOk, assertOk, goStackStep] using h2⟩
  | call l e _ _ ih1 ih2 =>
    rename_i b t _ _
    intro st
    obtain ⟨hb1, hb2⟩ := ih1 (l :: st)
    obtain ⟨ht1, ht2⟩ := ih2 st
    have hst : goStack (l :: st) (b ++ .exit l e :: t) = st := by
      rw [goStack_append, hb1]
      simpa [goStack, goStackStep] using ht1
    have has : assertsOk (l :: st) (b ++ .exit l e :: t) = true := by
      rw [assertsOk_append, hb2, hb1]
      simpa [assertsOk, assertOk, goStackStep] using ht2
    exact ⟨by simpa [goStack, goStackStep] using hst, by simpa [assertsOk, assertOk, goStackStep] using has⟩

theorem open_ok {t : List Ev} (h : Open t) : ∀ st : List Loc, assertsOk st t = true := by
  induction h with
  | done hb => intro st; exact (matched_ok hb st).2
  | call l hb _ ih =>
    intro st
    rw [assertsOk_append, (matched_ok hb st).2, (matched_ok hb st).1]
    simpa [assertsOk, assertOk, goStackStep] using ih (l :: st)

/-- **The call stack always matches.** For every event stream a debugger can see of one execution —
attached before it, or at any moment while any number of calls are running (`Seen`), with an empty recorded
stack at that moment — the sanity assertion of `VisitStepOutState` holds at every return: the recorded
stack is empty (the call was entered before the debugger was attached: fix 748f41f) or its top is the
returning call. So the visit functions cannot panic on such a stream. -/
theorem callstack_assertion_never_fails {t : List Ev} (h : Seen t) : assertsOk [] t = true := by
  induction h with
  | tail ho => exact open_ok ho []
  | ret l e hb _ ih =>
    rw [assertsOk_append, (matched_ok hb []).2, (matched_ok hb []).1]
    simpa [assertsOk, assertOk, goStackStep] using ih

theorem applyAct_depth (d : Dbg) (a : Act) : (applyAct d a).depth = d.depth := by
  have hops : ∀ (ops : List BpOp) (d : Dbg), (ops.foldl applyOp d).depth = d.depth := by
    intro ops
    induction ops with
    | nil => intro d; rfl
    | cons o os ih =>
      intro d
      simp only [List.foldl_cons]
      rw [ih]
      cases o <;> simp [applyOp] <;> split <;> rfl
  unfold applyAct
  have h0 := hops a.ops d
  generalize (a.ops.foldl applyOp d) = d1 at h0 ⊢
  cases a.cmd with
  | none =>
    simp only [applyKill]
    split
    · exact h0
    · split <;> simp [h0]
  | some c =>
    simp only [applyCont]
    split
    · exact h0
    · split <;> simp [h0]

theorem park_depth (r : Run) (l : Loc) : (park r l).d.depth = r.d.depth := by
  unfold park
  split <;> simp [applyAct_depth]

theorem visitState_depth (r : Run) (l : Loc) : (visitState r l).d.depth = r.d.depth := by
  unfold visitState visitFresh
  repeat' split
  all_goals simp [park_depth]

/-- one event: the model's call depth stays the length of the recorded stack -/
theorem depth_step (r : Run) (e : Ev) (st : List Loc) (hal : Alive r) (h : r.d.depth = st.length) :
    (stepEv r e).d.depth = (goStackStep st e).length := by
  obtain ⟨⟨is, depth, bps, bos, boe⟩, script, susp, killed, crashed⟩ := r
  obtain ⟨hk, hc⟩ := hal
  simp only at hk hc h
  subst hk hc h
  cases e with
  | visit l => simp [stepEv, goStackStep, visitState_depth]
  | finished => simp [stepEv, goStackStep, threadFinished]
  | enter l =>
    simp only [stepEv, Bool.or_self, Bool.false_eq_true, if_false, stepInState, goStackStep, List.length_cons]
  | exit l err =>
    simp only [stepEv, Bool.or_self, Bool.false_eq_true, if_false, stepOutState, goStackStep, List.length_tail]
    repeat' split
    all_goals simp_all [park_depth]

/-- **The model's depth is the length of the recorded call stack.** Along every trace on which the thread
stays alive, the call depth of the model the driver runs (`Dbg.depth`, what step-over / step-out compare)
equals the length of the stack Go records (`goStack`) — so the ghost stack of
`callstack_assertion_never_fails` is a refinement of the model's state, not a second model. -/
theorem depth_is_stack_length (t : List Ev) :
    ∀ (r : Run) (st : List Loc), r.d.depth = st.length → Alive (runTrace r t) →
      (runTrace r t).d.depth = (goStack st t).length := by
  induction t with
  | nil => intro r st h _; exact h
  | cons e t ih =>
    intro r st h hal
    rw [runTrace_cons] at hal ⊢
    have hr : Alive r := by
      by_cases hr : Alive r
      · exact hr
      · rw [stepEv_dead r e hr, runTrace_dead t r hr] at hal
        exact absurd hal hr
    have := ih (stepEv r e) (goStackStep st e) (depth_step r e st hr h) hal
    simpa [goStack] using this

example : (runTrace (Run.init tryExceptDbg []) tryExceptTrace).d.depth = (goStack [] tryExceptTrace).length := by
  decide

/-- non-vacuity: attached inside `g` called from `f`; `g` returns, `f` calls `h` and returns; then a call
that is still running -/
example : Seen [.visit ⟨0, 3⟩, .exit ⟨0, 9⟩ false, .enter ⟨0, 5⟩, .visit ⟨0, 1⟩, .exit ⟨0, 5⟩ false,
    .exit ⟨0, 12⟩ true, .visit ⟨0, 13⟩, .enter ⟨0, 14⟩, .visit ⟨0, 2⟩] :=
  .ret (b := [.visit ⟨0, 3⟩]) ⟨0, 9⟩ false (.visit _ .nil)
    (.ret (b := [.enter ⟨0, 5⟩, .visit ⟨0, 1⟩, .exit ⟨0, 5⟩ false]) ⟨0, 12⟩ true
      (.call (b := [.visit ⟨0, 1⟩]) (t := []) ⟨0, 5⟩ false (.visit _ .nil) .nil)
      (.tail (.call (b := [.visit ⟨0, 13⟩]) ⟨0, 14⟩ (.visit _ .nil) (.done (.visit _ .nil)))))

/-- a stream that is NOT of that shape trips the assertion (the return of another call than the one on top) -/
example : assertsOk [] [.enter ⟨0, 5⟩, .exit ⟨0, 6⟩ false] = false := by decide

/-! ### the debugger only observes -/

/-- an undebugged evaluator, abstractly: any deterministic machine whose state `M` holds
everything the program can see (scopes, heap, log) and which announces its node visits and
calls -/
def runPlain {M : Type} (next : M → Option (Ev × M)) : Nat → M → M
  | 0, m => m
  | n + 1, m =>
    match next m with
    | none => m
    | some (_, m') => runPlain next n m'

/-- the same machine with the debugger attached: every announced event goes through the
visit functions (which may suspend the thread and consult the controller's script); the
machine stops early only if the debugger ended the thread -/
def runAttached {M : Type} (next : M → Option (Ev × M)) : Nat → M → Run → M × Run
  | 0, m, r => (m, r)
  | n + 1, m, r =>
    match next m with
    | none => (m, r)
    | some (e, m') =>
      let r' := stepEv r e
      if r'.killed || r'.crashed then (m, r') else runAttached next n m' r'

/-- REMARK, true BY CONSTRUCTION (parametricity of `runAttached`; not counted as an obligation):
observer only (model). The visit functions take and return a `Run` (debugger data)
and an `Ev` — there is no scope, heap or log in their type — so for every evaluator, every
break point set and every controller script, the evaluator state after `n` steps with the
debugger attached is the state after `n` steps without it, unless the debugger ended the
thread (`StopThreads`). This is a statement about the MODEL; for the Go code the same
claim is tested (not proved) by comparing debugged and plain runs. -/
example {M : Type} (next : M → Option (Ev × M)) (n : Nat) (m : M) (r : Run)
    (hk : (runAttached next n m r).2.killed = false)
    (hc : (runAttached next n m r).2.crashed = false) :
    (runAttached next n m r).1 = runPlain next n m := by
  induction n generalizing m r with
  | zero => rfl
  | succ n ih =>
    simp only [runAttached, runPlain] at hk hc ⊢
    split
    · rfl
    · rename_i e m' hnext
      simp only [hnext] at hk hc
      by_cases hstop : ((stepEv r e).killed || (stepEv r e).crashed) = true
      · simp only [hstop, if_true] at hk hc
        simp [hk, hc] at hstop
      · simp only [hstop] at hk hc ⊢
        exact ih m' (stepEv r e) hk hc


/-! ### the regenerated fact `debugger_is_read_only` and what it gives

`lean/Ecal/Gen/C15.lean` is regenerated on every run by `harness C15 -tool extract`: package
interpreter is type-checked and every function reachable from `VisitState`, `VisitStepInState`,
`VisitStepOutState`, `RecordThreadFinished`, `RecordSource` (calls into same-package functions
followed; the command side — `InjectValue`, `ExtractValue` — is not reachable from there), plus
the statements of the evaluator that only run with a debugger attached, is scanned for accesses
to the program's world, classified BY STATIC TYPE. Three-valued: if the source does not
type-check, an entry point is missing or something is `unresolved`, the lists prove nothing
(UNKNOWN: evidence note + amplified metamorphic search, no violation); an access outside the
allowed list REFUTES the fact and breaks `observer_accesses_allowed`. -/

/-- Accesses that MUTATE the program's world or run its code — any of these REFUTES the fact:
* `scope:SetValue`, `scope:SetLocalValue`, `scope:Clear`, `scope:NewChild` (appends a child to the program's
  scope tree), any function of package `scope` (`scopepkg`);
* any method of a logger (`logger`), any method of a runtime component (`runtime`: evaluation);
* any assignment to a field of an AST node / runtime component / foreign struct or to a package variable
  (`astwrite`, `rtwrite`, `otherwrite`, `pkgvarwrite`). -/
def deniedAccess (cat detail : String) : Bool :=
  cat == "scopepkg" || cat == "logger" || cat == "runtime" || cat == "astwrite" || cat == "rtwrite" ||
  cat == "otherwrite" || cat == "pkgvarwrite" ||
  (cat == "scope" && (detail == "SetValue" || detail == "SetLocalValue" || detail == "Clear" || detail == "NewChild"))

/-- Accesses ESTABLISHED as observations (informative; `props/C15.py` reports every access that is neither
denied nor in this list as "not established" — an evidence note and an amplified metamorphic search, never
a violation): scope navigation / name / snapshot (`Parent`, `Name`, `ToJSONObject`), the sanity comparison of
the call nodes (`ast:Equals`) and its assertion text (`ext:fmt.Sprintf[ast]`), the calls through the debugger
interface. -/
def establishedReads : List (String × String) :=
  [("scope", "Parent"), ("scope", "Name"), ("scope", "ToJSONObject"), ("ast", "Equals"), ("ext", "fmt.Sprintf[ast]"),
   ("debugger", "VisitState"), ("debugger", "VisitStepInState"), ("debugger", "VisitStepOutState"),
   ("debugger", "SetLockingState"), ("debugger", "SetThreadPool"), ("debugger", "RecordThreadFinished")]

/-- **Obligation over the regenerated fact (a), (b), (c).** The evaluator side of the debugger (functions
reachable from the visit functions, and the evaluator's debugger-attached regions) makes NO access of a
denied kind: no mutating scope method, no logger call, no evaluation, no assignment to AST nodes, runtime
components, foreign structs or package variables. Accesses of other kinds (read-only methods, formatting
functions) do not affect this obligation. -/
theorem observer_accesses_allowed :
    Ecal.Gen.C15.observerAccesses.all (fun p => !deniedAccess p.2.1 p.2.2) = true := by decide

/-- **Obligation (d), evaluator side only.** The fields of `ecalDebugger` itself are written under its
write lock (exception: the `lastVisit` time stamp, under the read lock; only `StopThreads`' idle wait
reads it). Writes to fields of the calling thread's `interrogationState` (class `is`) are LISTED but not
lock-checked here: the thread owns its state while it runs; `running` is covered by the handshake
model; the controller side (`Continue` writes `cmd`/`stepOutStack` under the read lock, `StopThreads`
writes `cmd`) only touches states reported suspended. Map accesses on both sides: `own_reads_locked`. -/
theorem own_writes_locked :
    Ecal.Gen.C15.ownWrites.all (fun w => w.2.2 == "w" || w.2.2 == "is" ||
      (w.2.1 == "ecalDebugger.lastVisit" && w.2.2 == "r")) = true := by decide


/-- **Obligation over the regenerated fact `own_reads_locked`.** In EVERY method of the debugger
(evaluator side and command side) each element read, element write, delete and iteration on the maps
the debugger owns (`breakPoints`, `interrogationStates`, `callStacks`, the snapshot maps, `sources`) happens
while `ed.lock` is held — writes under the write lock, reads and iterations at least under the read
lock. An access with lock mode `none` (Go: `fatal error: concurrent map read and map write` /
`concurrent map iteration and map write` as soon as a controller edits break points or calls
`StopThreads` while threads run — the process dies) refutes it. -/
theorem own_reads_locked :
    Ecal.Gen.C15.mapAccesses.all (fun a => a.2.2.2 == "w" || (a.2.2.2 == "r" && a.2.2.1 != "write")) = true := by
  decide

/-- **Obligation over the regenerated fact `visit_returns_nil`.** The value the visit functions hand
back to `baseRuntime.Eval` (which passes it on as the evaluation's error) is always `nil`: every return
statement returns `nil`, the result of another visit function, or a local that only ever holds those. -/
theorem visit_returns_nil :
    Ecal.Gen.C15.visitReturns.all (fun p => p.2 == "nil" || p.2 == "visit-call" ||
      p.2 == "local(nil|visit-call)") = true := by
  decide

/-! ### life cycle: the attach point does not matter -/

/-- a debugger that is attached after the first `k` events of a thread's visit stream sees the rest -/
def runAttachedAt (r : Run) (t : List Ev) (k : Nat) : Run := runTrace r (t.drop k)

/-- REMARK, true BY CONSTRUCTION (it is `List.drop_left`; not counted as an obligation): break points
are decided at VISIT time. The decision functions take the current debugger
state and the visited position — no parse-time input: whatever the thread executed (and whatever
code was loaded) before the debugger was attached, the suspensions after the attach point are those
of the visits made from then on, for any two histories `pre₁`, `pre₂`. (For the CODE this needs every
evaluated node to reach the debugger that is attached NOW: fact `debugger_read_at_eval_time` and the
life-cycle cases of the correspondence.) -/
example (r : Run) (pre₁ pre₂ suffix : List Ev) :
    runAttachedAt r (pre₁ ++ suffix) pre₁.length = runAttachedAt r (pre₂ ++ suffix) pre₂.length ∧
    runAttachedAt r (pre₁ ++ suffix) pre₁.length = runTrace r suffix := by
  simp [runAttachedAt]

/-- **Obligation over the regenerated fact `debugger_read_at_eval_time`.** Every debugger value the
evaluator side calls or tests is read from the runtime provider at that moment (`provider-field`) or
is a local assigned from it in the same function (`local-from-provider`) — never a value stored in a
runtime component when it was constructed (`stored:…`), which would make nodes parsed before the
attach point invisible to the debugger. -/
theorem debugger_read_at_eval_time :
    Ecal.Gen.C15.debuggerUses.all (fun p => p.2 == "provider-field" || p.2 == "local-from-provider") = true := by
  decide

end Ecal.Props.C15
