import Ecal.Model.Bridge
import Ecal.Lemmas.Bridge
import Ecal.Gen.C19
import Ecal.Model.Reentry
/-!
# C19 — the Go function bridge is total and converts numbers faithfully

Theorems about `Ecal.Bridge.run` (the model of `ECALFunctionAdapter.Run`,
stdlib/adapter.go). Everything is quantified over

* every signature `sig` (any parameter / result types, variadic or not),
* every function body `body` (any function from the received Go values to results
  or a panic),
* every argument vector `args` of any length over all Go values an ECAL program can hold,
* every out-of-range float→integer oracle `oob` (implementation-defined in Go).

`Gen.C19.recoverFact / arityFact / pluginFact` are regenerated from stdlib/*.go on every check
(three-valued, decided semantically — independent of how the code is cut into functions). The
side obligations `shape_recovers`, `shape_arity_checked`, `plugin_goes_through_bridge` fail exactly
when a fact is positively refuted; a fact that is merely not established (`unknown`) is assumed
here and reported by the check, which then searches harder.
-/
namespace Ecal.Props.C19
open Ecal.Bridge

def shape : Shape :=
  { recovers := Ecal.Gen.C19.recoverFact.notRefuted, arityChecked := Ecal.Gen.C19.arityFact.notRefuted,
    nilPanicReported := Ecal.Gen.C19.nilPanicFact.notRefuted }

/-- whether `executeFunction` handles the returned error value safely (established or assumed) -/
def errGuarded : Bool := Ecal.Gen.C19.errorValueFact.notRefuted

/-- whether plugin functions are registered behind the adapter (established or assumed) -/
def pluginViaAdapter : Bool := Ecal.Gen.C19.pluginFact.notRefuted

/-- Side obligation on the regenerated source facts: it is not refuted that `Run` defers a function
    whose own body calls `recover()` and assigns the named error result. (Refuted by: no deferred
    call, `recover()` only in a nested closure or in a helper, result not assigned / shadowed.) -/
theorem shape_recovers : shape.recovers = true := by decide

/-- Second side obligation: it is not refuted that surplus arguments are rejected by an explicit
    comparison with `NumIn()` before `Call`. (Refuted by: no such comparison in `Run` or its helpers.) -/
theorem shape_arity_checked : shape.arityChecked = true := by decide

/-- Side obligation: it is not refuted that the deferred function also reports a panic for which
    `recover()` returned nil (`panic(nil)` under GODEBUG panicnil=1, the semantics of every binary built
    from a main module declaring go < 1.21 — /repo's go.mod says go 1.12). (Refuted by: the assignment
    of the error result is guarded by `recovered != nil` alone.) -/
theorem shape_nil_panic_reported : shape.nilPanicReported = true := by decide

/-- Side obligation (interpreter/rt_identifier.go, `executeFunction`): it is not refuted that the error
    value a function returned is only asked for its text under a recover and that nil runtime-error
    pointers are not dereferenced. (Refuted by: `err.Error()` on Run's error in a function without a
    recovering defer.) -/
theorem error_value_guarded : errGuarded = true := by decide

/-- `o` is an error made by the bridge itself (not by the wrapped function): `Run` returned
    `(nil, err)` with `err` one of: too many parameters, wrong parameter type, recovered panic. -/
def IsBridgeError (o : Outcome) : Prop :=
  ∃ e, o = .done (.one .nil) (some e) ∧ ∀ v, e ≠ .func v

/-! ## Totality -/

/-- **Totality.** Whatever is wrapped (a function of any signature with any body, even a
    non-function), whatever the arguments: no panic escapes `Run`.

    What this rests on — and what it does not: in the model every panic raised after the `defer` statement
    (reflect's, the body's) is turned into `(nil, error)` exactly when `shape.recovers` holds, so the proof
    is two rewrites and would go through for any `runRaw`. The theorem is therefore the conjunction of
    (1) Go's defer/recover semantics (trusted), (2) the regenerated three-valued source fact
    `Gen.C19.recoverFact` — decided semantically by the extractor on every check: `Run`'s deferred function
    itself calls `recover()` and assigns the named error result; `shape.recovers` is `recoverFact ≠ no`
    (`shape_recovers`), so a tree in which the recover is removed, nested, shadowed or narrowed breaks THIS
    proof, and a tree whose shape the extractor does not understand is reported as "assumed" and searched
    harder — and (3) `shape_nil_panic_reported` for panics whose `recover()` returns nil. The model of
    reflect's own panics contributes nothing to totality; it matters for the error theorems below. -/
theorem bridge_total (oob : IntKind → Num → Int) (t : Target) (args : List Val) :
    ∀ r, run shape oob t args = r → r ≠ .escaped := by
  intro r h
  unfold run at h
  split at h
  · subst h; intro hh; cases hh
  · rw [shape_recovers] at h; subst h; intro hh; cases hh
  · simp [shape_recovers, shape_nil_panic_reported] at h; subst h; intro hh; cases hh

/-- Totality as the ECAL program sees it — `executeFunction`, including what it does with the error
    value OUTSIDE `Run`'s recover scope (`err.Error()`, `AddTrace`): for each of the six kinds of error value
    the model distinguishes (plain, `Error()` panics / typed nil, proper runtime error, nil runtime-error
    pointer, runtime error without `Type`) the call yields a value or a runtime error WITH a `Type`. The
    statement ends at `executeFunction`'s return; `try_except_never_crashes` adds try/except's reading of
    `Type`. Other consumers of the error (sink error maps) are not modelled. -/
theorem interpreter_never_crashes (oob : IntKind → Num → Int) (kind : Val → ErrKind) (t : Target)
    (args : List Val) :
    (∃ r, executeFunction errGuarded kind (run shape oob t args) = .value r) ∨
      executeFunction errGuarded kind (run shape oob t args) = .runtimeError := by
  have h := bridge_total oob t args _ rfl
  rw [error_value_guarded]
  cases hr : run shape oob t args with
  | escaped => exact absurd hr h
  | done r e =>
    cases e with
    | none => simp [executeFunction]
    | some e =>
      cases e with
      | bridge _ => simp [executeFunction]
      | recovered => simp [executeFunction]
      | func v => cases hk : kind v <;> simp [executeFunction, hk]

/-- … and inside `try { … } except e { … }` (which reads the runtime error's `Type` to select the clause):
    the call yields its value or the except block runs — for every kind of error value, including a
    runtime error whose `Type` is nil. -/
theorem try_except_never_crashes (oob : IntKind → Num → Int) (kind : Val → ErrKind) (t : Target)
    (args : List Val) : tryExcept (executeFunction errGuarded kind (run shape oob t args)) ≠ .crash := by
  rcases interpreter_never_crashes oob kind t args with ⟨r, h⟩ | h <;> simp [h, tryExcept]

/-- Handed on as it is, a runtime error without a `Type` is reported by a plain call but crashes try/except. -/
example : tryExcept (executeFunction false (fun _ => .runtimeErrorNoType)
    (run shape (fun _ _ => 0) (.fn ⟨[], false, [.error]⟩ (fun _ => .ret [.foreign (.other 0) "no type"])) []))
    = .crash := by decide

/-- Unguarded, an error value whose `Error()` panics crashes the interpreter after `Run` has returned:
    the model can express the failure the obligation excludes. -/
example : executeFunction false (fun _ => .errorPanics)
    (run shape (fun _ _ => 0) (.fn ⟨[], false, [.error]⟩ (fun _ => .ret [.foreign (.other 0) "typed nil"])) [])
    = .crash := by decide

/-- Without the deferred `recover` the theorem is false: the model is able to express the crash. -/
example : run { shape with recovers := false } (fun _ _ => 0)
    (.fn ⟨[], false, []⟩ (fun _ => .panic)) [] = .escaped := by decide

/-! ## The two ways a call can go -/

/-- If the arguments do not get as far as the function, the outcome is one bridge error, the same
    for every body: the function is not run. -/
theorem not_reaching_is_error {oob : IntKind → Num → Int} {sig : Sig} {args : List Val}
    (h : reaches oob sig args = none) :
    ∃ e, (∀ v, e ≠ Err.func v) ∧
      ∀ body, run shape oob (.fn sig body) args = .done (.one .nil) (some e) := by
  unfold reaches at h
  cases hb : buildArgs true oob sig.params args with
  | error e =>
    exact ⟨.bridge e, (fun v hh => by cases hh), (by intro body; simp [run, runRaw, shape_arity_checked, hb])⟩
  | panic =>
    exact ⟨.recovered, (fun v hh => by cases hh), (by intro body; simp [run, runRaw, shape_arity_checked, hb, shape_recovers])⟩
  | ok f =>
    simp [hb] at h
    exact ⟨.recovered, (fun v hh => by cases hh), (by intro body; simp [run, runRaw, shape_arity_checked, hb, h, shape_recovers])⟩

/-- If they do, the function is run once on the converted arguments and its results are converted. -/
theorem reaching_runs_body {oob : IntKind → Num → Int} {sig : Sig} {args f : List Val}
    (h : reaches oob sig args = some f) (body : List Val → BodyOut) :
    run shape oob (.fn sig body) args = finish shape sig (body f) := by
  unfold reaches at h
  cases hb : buildArgs true oob sig.params args with
  | error e => simp [hb] at h
  | panic => simp [hb] at h
  | ok f' =>
    simp [hb] at h
    obtain ⟨hc, rfl⟩ := h
    simp only [run, runRaw, shape_arity_checked, hb, hc, finish]
    cases body f' <;> simp

/-- **The function's results are returned.** A non-variadic function called with as many arguments
    as it has parameters, each fitting its parameter (an ECAL number for a numeric parameter, otherwise
    a value of exactly the parameter's type), IS run — once, on values of exactly its parameter types —
    and `Run` returns its converted results. (The bridge does not answer everything with an error.) -/
theorem fitting_call_runs_function (oob : IntKind → Num → Int) (sig : Sig) (args : List Val)
    (hv : sig.variadic = false) (hfit : AllFit sig.params args) (body : List Val → BodyOut) :
    ∃ f, reaches oob sig args = some f ∧ TypesMatch f sig.params ∧
      run shape oob (.fn sig body) args = finish shape sig (body f) := by
  obtain ⟨f, hb, hty⟩ := buildArgs_of_fits (chk := true) (oob := oob) hfit
  have hr : reaches oob sig args = some f := by
    simp [reaches, hb, callCheck, hv, allAssignable_of_types hty]
  exact ⟨f, hr, hty, reaching_runs_body hr body⟩

example : ∃ f, reaches (fun _ _ => 0) ⟨[.int .int8, .str], false, [.bool]⟩ [.f64 (.fin 5 0), .str "s:61"] = some f :=
  let ⟨f, h, _⟩ := fitting_call_runs_function (fun _ _ => 0) ⟨[.int .int8, .str], false, [.bool]⟩
    [.f64 (.fin 5 0), .str "s:61"] rfl
    ⟨.inl ⟨_, rfl, rfl, by decide⟩, .inr ⟨rfl, fun _ h => by cases h⟩, trivial⟩ (fun _ => .ret [])
  ⟨f, h⟩

/-- The same for the shape of plugin functions, `func(fixed…, rest ...interface{})`: with fitting
    fixed arguments and **at most one** further argument (any value but NULL — the only value without a
    dynamic type —, passed on unchanged) the
    function is run. (A second variadic argument is "too many": `NumIn` counts the slice once.) -/
theorem variadic_iface_call_runs_function (oob : IntKind → Num → Int) (fixed rs : List Ty)
    (fargs extra : List Val) (hfit : AllFit fixed fargs) (hx : extra.length ≤ 1)
    (hnn : ∀ v ∈ extra, v.ty ≠ none) (body : List Val → BodyOut) :
    ∃ f, TypesMatch f fixed ∧
      run shape oob (.fn ⟨fixed ++ [.list], true, rs⟩ body) (fargs ++ extra) =
        finish shape ⟨fixed ++ [.list], true, rs⟩ (body (f ++ extra)) := by
  obtain ⟨f, hty, hf⟩ := buildArgs_append_of_fits (chk := true) (oob := oob) hfit
  have hlen := typesMatch_length hty
  have hextra : buildArgs true oob [Ty.list] extra = .ok extra := by
    match extra, hx with
    | [], _ => simp [buildArgs]
    | [e], _ => simp [buildArgs, checkArg_list]
  have hb : buildArgs true oob (fixed ++ [Ty.list]) (fargs ++ extra) = .ok (f ++ extra) := by
    rw [hf, hextra]
  have hall : (extra.all fun v => valAssignable v Ty.iface) = true := by
    rw [List.all_eq_true]
    intro v hv
    have := hnn v hv
    cases hty : v.ty with
    | none => exact absurd hty this
    | some t => simp [valAssignable, hty, assignable]
  have hc : callCheck ⟨fixed ++ [.list], true, rs⟩ (f ++ extra) = true := by
    simp [callCheck, ← hlen, allAssignable_of_types hty, hall]
  have hr : reaches oob ⟨fixed ++ [.list], true, rs⟩ (fargs ++ extra) = some (f ++ extra) := by
    simp [reaches, hb, hc]
  exact ⟨f, hty, reaching_runs_body hr body⟩

/-! ## Wrong number of arguments -/

/-- **Too many arguments** — more than `NumIn` — give a bridge error; the function is not run. -/
theorem too_many_is_error (oob : IntKind → Num → Int) (sig : Sig) (args : List Val)
    (h : sig.params.length < args.length) (body : List Val → BodyOut) :
    IsBridgeError (run shape oob (.fn sig body) args) := by
  have hr : reaches oob sig args = none := by
    unfold reaches
    cases hb : buildArgs true oob sig.params args with
    | ok f => have := (buildArgs_ok_length hb).2; omega
    | _ => rfl
  obtain ⟨e, he, hrun⟩ := not_reaching_is_error hr
  exact ⟨e, hrun body, he⟩

example : IsBridgeError (run shape (fun _ _ => 0) (.fn ⟨[.f64], false, [.f64]⟩ .ret) [.f64 (.fin 1 0), .f64 (.fin 2 0)]) :=
  too_many_is_error _ _ _ (by decide) _

/-- … and it is the bridge's own, explicit error — not a reflect panic that happened to be
    recovered: if the first `NumIn` arguments are acceptable, `Run` returns "too many parameters". -/
theorem too_many_is_checked (oob : IntKind → Num → Int) (sig : Sig) (args f : List Val)
    (h : sig.params.length < args.length)
    (hok : buildArgs true oob sig.params (args.take sig.params.length) = .ok f)
    (body : List Val → BodyOut) :
    run shape oob (.fn sig body) args = .done (.one .nil) (some (.bridge .tooMany)) := by
  have hsplit := List.take_append_drop sig.params.length args
  have hb := buildArgs_surplus (args.drop sig.params.length) hok
    (by simp; omega) (by intro hd; have := congrArg List.length hd; simp at this; omega)
  rw [hsplit] at hb
  simp [run, runRaw, shape_arity_checked, hb]

example : run shape (fun _ _ => 0) (.fn ⟨[.f64], false, [.f64]⟩ .ret) [.f64 (.fin 1 0), .str "s:61"]
    = .done (.one .nil) (some (.bridge .tooMany)) :=
  too_many_is_checked _ _ _ [.f64 (.fin 1 0)] (by decide) (by decide) _

/-- **Too few arguments** — fewer than `NumIn` (`NumIn - 1` for a variadic function) — give a
    bridge error (reflect's panic, recovered); the function is not run. -/
theorem too_few_is_error (oob : IntKind → Num → Int) (sig : Sig) (args : List Val)
    (h : args.length < (if sig.variadic then sig.params.length - 1 else sig.params.length))
    (body : List Val → BodyOut) :
    IsBridgeError (run shape oob (.fn sig body) args) := by
  have hr : reaches oob sig args = none := by
    unfold reaches
    cases hb : buildArgs true oob sig.params args with
    | ok f =>
      have hl := (buildArgs_ok_length hb).1
      by_cases hc : callCheck sig f = true
      · have := callCheck_length hc
        split at this <;> simp_all <;> omega
      · simp [hc]
    | _ => rfl
  obtain ⟨e, he, hrun⟩ := not_reaching_is_error hr
  exact ⟨e, hrun body, he⟩

example : IsBridgeError (run shape (fun _ _ => 0) (.fn ⟨[.f64, .f64], false, [.f64]⟩ .ret) [.f64 (.fin 1 0)]) :=
  too_few_is_error _ _ _ (by decide) _

/-! ## Wrong kinds, NULL -/

/-- **Wrong kind.** If some argument is not of the kind its parameter takes (`compatible`), the
    outcome is a bridge error and the function is not run — whatever the other arguments are. -/
theorem wrong_kind_is_error (oob : IntKind → Num → Int) (sig : Sig) (args : List Val)
    (i : Nat) (p : Ty) (a : Val) (hp : sig.params[i]? = some p) (ha : args[i]? = some a)
    (hbad : compatible p a = false) (body : List Val → BodyOut) :
    IsBridgeError (run shape oob (.fn sig body) args) := by
  have hr : reaches oob sig args = none := by
    unfold reaches
    cases hb : buildArgs true oob sig.params args with
    | ok f =>
      have := buildArgs_ok_compatible hb i p a hp ha
      simp [this] at hbad
    | _ => rfl
  obtain ⟨e, he, hrun⟩ := not_reaching_is_error hr
  exact ⟨e, hrun body, he⟩

example : IsBridgeError (run shape (fun _ _ => 0) (.fn ⟨[.f64, .str], false, [.f64]⟩ .ret)
    [.f64 (.fin 1 0), .f64 (.fin 2 0)]) :=
  wrong_kind_is_error _ _ _ 1 .str (.f64 (.fin 2 0)) rfl rfl (by decide) _

/-- **Wrong kind for a list parameter.** A `[]interface{}` parameter that is not the variadic one lets
    every value through the bridge's own check, but reflect refuses all but a `[]interface{}`: a
    number, string, map … passed for it ends in a bridge error and the function is not run. -/
theorem wrong_kind_for_list_is_error (oob : IntKind → Num → Int) (sig : Sig) (args : List Val)
    (i : Nat) (a : Val) (hp : sig.params[i]? = some Ty.list) (ha : args[i]? = some a)
    (hnv : sig.variadic = false) (hbad : a.ty ≠ some Ty.list) (body : List Val → BodyOut) :
    IsBridgeError (run shape oob (.fn sig body) args) := by
  have hr : reaches oob sig args = none := by
    unfold reaches
    cases hb : buildArgs true oob sig.params args with
    | ok f =>
      by_cases hc : callCheck sig f = true
      · exfalso
        have hfi := buildArgs_list_unchanged hb i a hp ha
        simp [callCheck, hnv] at hc
        have := allAssignable_get hc i a Ty.list hfi hp
        cases hty : a.ty with
        | none => simp [valAssignable, hty] at this
        | some t =>
          simp [valAssignable, hty, assignable, Ty.list] at this
          exact hbad (by rw [hty, this])
      · simp [hc]
    | _ => rfl
  obtain ⟨e, he, hrun⟩ := not_reaching_is_error hr
  exact ⟨e, hrun body, he⟩

example : IsBridgeError (run shape (fun _ _ => 0) (.fn ⟨[.list], false, [.list]⟩ .ret) [.str "s:61"]) :=
  wrong_kind_for_list_is_error _ _ _ 0 (.str "s:61") rfl rfl rfl (by decide) _

/-- Numeric variadics (`...int`, `...float64`) accept no number at all: the parameter type is the
    slice, `convertNumber` leaves the float64 unchanged and the type comparison fails. (A limitation
    of the code, inside the property: an error, no crash.) -/
theorem numeric_variadic_rejects_numbers (oob : IntKind → Num → Int) (t : Ty) (x : Num)
    (ht : t ≠ .iface) : checkArg oob (.slice t) (.f64 x) = .error := by
  have h1 : ¬ (Ty.f64 = Ty.slice t) := by intro h; cases h
  have h2 : ¬ (Ty.slice t = Ty.list) := by intro h; simp [Ty.list] at h; exact ht h
  simp [checkArg, outOfRange, numberFits, checkArgCore, convertNumber, Val.ty, h1, h2, Ty.isInterface]

/-- **A number that cannot be converted is an error, not a wrapped value.** If some argument is a number
    whose truncation is outside the range of its parameter's integer kind (300 for an int8, -1 for a uint8,
    2^63 for an int, NaN, ±Inf — also for a defined integer type), the outcome is a bridge error and the
    function is not run; the platform-dependent result of Go's conversion is never used. -/
theorem out_of_range_argument_is_error (oob : IntKind → Num → Int) (sig : Sig) (args : List Val)
    (i : Nat) (p : Ty) (x : Num) (hp : sig.params[i]? = some p) (ha : args[i]? = some (.f64 x))
    (hbad : numberFits x p = false) (body : List Val → BodyOut) :
    IsBridgeError (run shape oob (.fn sig body) args) := by
  have hr : reaches oob sig args = none := by
    unfold reaches
    cases hb : buildArgs true oob sig.params args with
    | ok f =>
      exfalso
      have key : ∀ {ps : List Ty} {as f : List Val}, buildArgs true oob ps as = .ok f →
          ∀ (i : Nat) p, ps[i]? = some p → as[i]? = some (Val.f64 x) → numberFits x p = true := by
        intro ps
        induction ps with
        | nil => intro as f _ i p hp; simp at hp
        | cons p0 ps ih =>
          intro as f hb i p hp ha
          cases as with
          | nil => simp at ha
          | cons a0 as =>
            obtain ⟨v, vs, _, hc, hb'⟩ := buildArgs_ok_cons hb
            cases i with
            | succ i => simp at hp ha; exact ih hb' i p hp ha
            | zero =>
              simp at hp ha; subst hp ha
              have := (checkArg_accept hc).1
              simpa [outOfRange] using this
      have := key hb i p hp ha
      simp [this] at hbad
    | _ => rfl
  obtain ⟨e, he, hrun⟩ := not_reaching_is_error hr
  exact ⟨e, hrun body, he⟩

example : IsBridgeError (run shape (fun _ _ => 44) (.fn ⟨[.int .int8], false, [.int .int8]⟩ .ret) [.f64 (.fin 300 0)]) :=
  out_of_range_argument_is_error _ _ _ 0 (.int .int8) (.fin 300 0) rfl rfl (by decide) _

/-- **NULL.** A NULL anywhere in the argument vector always ends in a bridge error (type error,
    or reflect's nil-type / zero-Value panic, recovered) and the function is not run — for every
    signature, including `interface{}` and `[]interface{}` parameters. -/
theorem null_is_handled (oob : IntKind → Num → Int) (sig : Sig) (args : List Val)
    (h : Val.nil ∈ args) (body : List Val → BodyOut) :
    IsBridgeError (run shape oob (.fn sig body) args) := by
  have hr : reaches oob sig args = none := by
    unfold reaches
    cases hb : buildArgs true oob sig.params args with
    | ok f => simp [callCheck_nil_mem (buildArgs_ok_nil_mem hb h)]
    | _ => rfl
  obtain ⟨e, he, hrun⟩ := not_reaching_is_error hr
  exact ⟨e, hrun body, he⟩

example : IsBridgeError (run shape (fun _ _ => 0) (.fn ⟨[.slice .iface], true, [.f64]⟩ .ret) [.nil]) :=
  null_is_handled _ _ _ (by simp) _

/-! ## Numbers -/

/-- **Numeric arguments arrive converted.** Whenever the call reaches the function: an ECAL number
    whose truncation towards zero is `n` (1.5 ↦ 1, -0.5 ↦ 0, an integral number ↦ itself), passed for
    a parameter of integer kind `k` whose range contains `n`, is received as exactly the Go value
    `k(n)`; for a `float64` parameter the number is received unchanged; for a `float32` parameter as
    its IEEE rounding `toF32` (see `float32_exact_when_representable`). (No 2^53 bound is needed in
    this direction: the ECAL number already *is* a float64.) -/
theorem numeric_in_range_exact {oob : IntKind → Num → Int} {sig : Sig} {args f : List Val}
    (h : reaches oob sig args = some f) (i : Nat) (x : Num) (ha : args[i]? = some (.f64 x)) :
    (∀ k n, sig.params[i]? = some (.int k) → x.trunc = some n → k.inRange n = true → f[i]? = some (.int k n)) ∧
    (sig.params[i]? = some .f64 → f[i]? = some (.f64 x)) ∧
    (sig.params[i]? = some .f32 → f[i]? = some (.f32 x.toF32)) := by
  have hb : buildArgs true oob sig.params args = .ok f := by
    unfold reaches at h
    cases hb : buildArgs true oob sig.params args with
    | ok f' => simp [hb] at h; rw [h.2]
    | error e => simp [hb] at h
    | panic => simp [hb] at h
  exact buildArgs_numeric_exact hb i x ha

/-- `float32(f)` is exact whenever `f = m·2^e` fits: at most 24 significant bits, last bit not below
    2^-149, magnitude below 2^128 — every integer up to 2^24, 1.5, 2^31, … arrive unchanged. -/
theorem float32_exact_when_representable (m e : Int) (h24 : bitLen m.natAbs ≤ 24) (hlo : -149 ≤ e)
    (hhi : (bitLen m.natAbs : Int) + e ≤ 128) : (Num.fin m e).toF32 = .fin m e := by
  have h1 : ¬ ((bitLen m.natAbs : Int) > 24) := by omega
  have h2 : ¬ (e < -149) := by omega
  have h3 : ¬ ((bitLen m.natAbs : Int) + e > 128) := by omega
  simp [Num.toF32, Num.f32Exp, h1, h2, h3]

/-- 16777217 = 2^24+1 is not representable: it is rounded to even (2^24), 2^24+3 to 2^24+4; 1e-46-sized
    values underflow to (signed) zero; 2^128 overflows to +Inf. -/
example : (Num.fin 16777217 0).toF32 = .fin 8388608 1 ∧ (Num.fin 16777219 0).toF32 = .fin 8388610 1 ∧
    (Num.fin (-1) (-160)).toF32 = .negZero ∧ (Num.fin 3 (-150)).toF32 = .fin 2 (-149) ∧
    (Num.fin 1 128).toF32 = .inf false := by decide

/-- A fractional number for an integer parameter is truncated towards zero: 1.5 ↦ int8(1), -0.5 ↦ uint8(0). -/
example : reaches (fun _ _ => 77) ⟨[.int .int8, .int .uint8], false, []⟩ [.f64 (.fin 3 (-1)), .f64 (.fin (-1) (-1))]
    = some [.int .int8 1, .int .uint8 0] := by decide

/-- **Numeric results come back exactly**: a Go integer result of any integer kind with
    |n| ≤ 2^53 is delivered as the ECAL number n; float32/float64 results as the same number. -/
theorem numeric_result_exact :
    (∀ k n, n.natAbs ≤ 2 ^ 53 → convertResultNumber (.int k) (.int k n) = .f64 (.fin n 0)) ∧
    (∀ x, convertResultNumber .f32 (.f32 x) = .f64 x) ∧
    (∀ x, convertResultNumber .f64 (.f64 x) = .f64 x) := by
  refine ⟨?_, fun _ => rfl, fun _ => rfl⟩
  intro k n h
  simp [convertResultNumber, Ty.isInterface, numericOf, Num.ofInt, h]

/-- Every result of a numeric static type is delivered as an ECAL number (a float64), whatever
    its size: no Go integer or float32 leaks into the ECAL program through a numerically typed result.
    (`foreign` stands for values of non-primitive types only.) -/
theorem numeric_result_is_number (t : Ty) (v : Val) (ht : t.isNumeric = true) (hv : v.ty = some t)
    (hw : ∀ t' c, v ≠ .foreign t' c) : ∃ x, convertResultNumber t v = .f64 x := by
  cases t <;> simp [Ty.isNumeric] at ht <;> cases v <;> simp_all [Val.ty, convertResultNumber, Ty.isInterface, numericOf]

/-- … also through a result declared as an interface (`interface{}`: every plugin function): the
    number in it is converted by its own kind. -/
theorem iface_result_is_number (t : Ty) (v : Val) (ht : t.isNumeric = true) (hv : v.ty = some t)
    (hw : ∀ t' c, v ≠ .foreign t' c) : ∃ x, convertResultNumber .iface v = .f64 x := by
  cases t <;> simp [Ty.isNumeric] at ht <;> cases v <;> simp_all [Val.ty, convertResultNumber, Ty.isInterface, numericOf]

/-- **Known finding `nested-result-numbers`: numbers nested in a returned slice / array / map are NOT
    delivered as ECAL numbers.** The code converts a result by the Kind of the result itself; a Go slice,
    array or map of Go values (`[]int`, `[2]uint8`, `map[string]int`, …) — declared with that type or as
    `interface{}` — reaches the ECAL program as it is: not an ECAL container at all (`l[0]`: "Variable l is
    not a container", `len(l)` fails, `for x in l` silently does nothing), its elements Go integers. -/
theorem nested_results_are_passed_raw (static t kt vt : Ty) (xs kvs : Vals) :
    convertResultNumber static (.seq t xs) = .seq t xs ∧
    convertResultNumber static (.gomap kt vt kvs) = .gomap kt vt kvs := by
  simp [convertResultNumber, numericOf_seq, numericOf_gomap]

/-- `func() []int { return []int{1, 2} }` through `Run`: the ECAL program gets the raw Go slice. -/
example : run shape (fun _ _ => 0)
    (.fn ⟨[], false, [.slice (.int .int)]⟩ (fun _ => .ret [.seq (.int .int) (.cons (.int .int 1) (.cons (.int .int 2) .nil))])) []
    = .done (.one (.seq (.int .int) (.cons (.int .int 1) (.cons (.int .int 2) .nil)))) none := by decide

/-- About the CANDIDATE repair only (`demandedResult` = what `fixes/C19-nested-result-numbers.patch` would
    do; the patch is NOT applied because turning every slice into an ECAL list breaks Go→Go round trips
    through ECAL that work today, e.g. a raw `[]string` result handed back to a `[]string` parameter): a
    slice or array of a numeric element type would be delivered as an ECAL list in which every element is
    an ECAL number. This is what the correspondence run reports as `spec=` on the known-finding cases. -/
theorem candidate_repair_delivers_nested_numbers (static t : Ty) (xs : Vals) (ht : t.isNumeric = true)
    (hty : ∀ v ∈ xs.toList, v.ty = some t ∧ (∀ t' c, v ≠ .foreign t' c) ∧
      (∀ t' ys, v ≠ .seq t' ys) ∧ (∀ a b ys, v ≠ .gomap a b ys)) :
    ∃ ys, demandedResult static (.seq t xs) = .elist ys ∧ (Val.elist ys).ty = some Ty.list ∧
      ys.toList.length = xs.toList.length ∧ ∀ y ∈ ys.toList, ∃ x, y = .f64 x := by
  have hne : t ≠ Ty.iface := by intro h; subst h; simp [Ty.isNumeric] at ht
  refine ⟨demandedSeq t xs, by simp [demandedResult, hne], rfl, by simp [demandedSeq_toList], ?_⟩
  intro y hy
  rw [demandedSeq_toList] at hy
  obtain ⟨v, hv, rfl⟩ := List.mem_map.mp hy
  obtain ⟨h1, h2, h3, h4⟩ := hty v hv
  have : demandedResult t v = convertResultNumber t v := by
    cases v <;> first | rfl | exact absurd rfl (h3 _ _) | exact absurd rfl (h4 _ _ _)
  rw [this]
  exact numeric_result_is_number t v ht h1 h2

example : demandedResult .iface (.seq (.int .int) (.cons (.int .int 1) (.cons (.int .int 2) .nil)))
    = .elist (.cons (.f64 (.fin 1 0)) (.cons (.f64 (.fin 2 0)) .nil)) := by decide

/-- **Through `Run`, for every position of a multi-result.** When the call reaches a function without
    trailing error whose body returns `vals` (one per declared result), `Run` delivers
    `convertResultNumber` of each — so every position whose static type is numeric and whose value is
    of that type is an ECAL number. (With a trailing error: `trailing_error_delivered`.) -/
theorem numeric_results_delivered {oob : IntKind → Num → Int} {sig : Sig} {args f vals : List Val}
    {body : List Val → BodyOut} (h : reaches oob sig args = some f) (hb : body f = .ret vals)
    (hl : vals.length = sig.results.length) (hne : sig.results.getLast? ≠ some Ty.error) :
    run shape oob (.fn sig body) args = .done (packRet (List.zipWith convertResultNumber sig.results vals)) none ∧
    ∀ (i : Nat) t v, sig.results[i]? = some t → vals[i]? = some v → t.isNumeric = true → v.ty = some t →
      (∀ t' c, v ≠ .foreign t' c) →
      ∃ x, (List.zipWith convertResultNumber sig.results vals)[i]? = some (.f64 x) := by
  refine ⟨by rw [reaching_runs_body h, hb]; simp [finish, convertResults_no_error vals sig.results hl hne], ?_⟩
  intro i t v ht hv hnum hty hw
  obtain ⟨x, hx⟩ := numeric_result_is_number t v hnum hty hw
  exact ⟨x, by simp [List.getElem?_zipWith, ht, hv, hx]⟩

/-- Defined types (`type Duration int64`): a result of a defined numeric type is converted by its
    Kind like the plain type — exactly up to 2^53. -/
theorem named_numeric_result_exact (id : Nat) (k : IntKind) (n : Int) (h : n.natAbs ≤ 2 ^ 53) :
    convertResultNumber (.named id (.int k)) (.named id (.int k n)) = .f64 (.fin n 0) := by
  simp [convertResultNumber, Ty.isInterface, numericOf, Num.ofInt, h]

/-- … but a *parameter* of a defined numeric type never accepts an ECAL number: `convertNumber`
    produces the plain `intN`/`floatN` and the identity comparison of the types then fails. (A
    limitation of the code, inside the property: the answer is an error, not a crash.) -/
theorem named_numeric_param_rejects_numbers (oob : IntKind → Num → Int) (id : Nat) (u : Ty) (x : Num) :
    checkArg oob (.named id u) (.f64 x) = .error := by
  obtain ⟨t', ht', hn⟩ := convertNumber_ty (oob := oob) x u
  have hne : t' ≠ Ty.named id u := by intro h; subst h; simp [Ty.isNumeric] at hn
  unfold checkArg
  split
  · rfl
  · simp [checkArgCore, convertNumber, ht', hne, Ty.isInterface, Ty.list]

/-- Both directions end to end: for every integer kind `k` and every integer `n` in its range with
    |n| ≤ 2^53, a function `func(x k) k { return x }` called with the ECAL number `n` receives
    exactly `k(n)` and the ECAL program gets exactly `n` back. -/
theorem numeric_roundtrip_echo (oob : IntKind → Num → Int) (k : IntKind) (n : Int)
    (hr : k.inRange n = true) (hn : n.natAbs ≤ 2 ^ 53) (log : List Val → BodyOut)
    (hlog : ∀ l, log l = .ret l) :
    reaches oob ⟨[.int k], false, [.int k]⟩ [.f64 (.fin n 0)] = some [.int k n] ∧
    run shape oob (.fn ⟨[.int k], false, [.int k]⟩ log) [.f64 (.fin n 0)] =
      .done (.one (.f64 (.fin n 0))) none := by
  have ht : (Num.fin n 0).trunc = some n := Num.trunc_of_isInt (Num.isInt_ofInt n hn)
  have h1 : reaches oob ⟨[.int k], false, [.int k]⟩ [.f64 (.fin n 0)] = some [.int k n] := by
    simp [reaches, buildArgs, checkArg, outOfRange, numberFits, checkArgCore, convertNumber, ht, hr, Val.ty, callCheck, allAssignable,
      valAssignable, assignable]
  refine ⟨h1, ?_⟩
  rw [reaching_runs_body h1, hlog]
  simp [finish, convertResults, convertResultNumber, Ty.isInterface, numericOf, Num.ofInt, hn, packRet]

example : run shape (fun _ _ => 0) (.fn ⟨[.int .uint8], false, [.int .uint8]⟩ .ret) [.f64 (.fin 255 0)]
    = .done (.one (.f64 (.fin 255 0))) none :=
  (numeric_roundtrip_echo _ .uint8 255 (by decide) (by decide) .ret (fun _ => rfl)).2

/-- 6·2^-1 = 3 passed for an int8 parameter arrives as int8(3); 256 does not fit a uint8: an error, the
    function is not reached (whatever the platform would have made of the conversion). -/
example : reaches (fun _ _ => 77) ⟨[.int .int8], false, []⟩ [.f64 (.fin 6 (-1))] = some [.int .int8 3] ∧
    reaches (fun _ _ => 77) ⟨[.int .int8, .int .uint8], false, []⟩ [.f64 (.fin 6 (-1)), .f64 (.fin 256 0)] = none := by
  decide

/-! ## Results -/

/-- **Trailing error.** When the call reaches a function whose last result type is `error`, the
    last result is not part of the ECAL value: non-nil, it is delivered as the error of the call
    (`Err.func e`, the function's own error value); nil, there is no error. The other results are
    converted and delivered (one value as itself, otherwise as a list). -/
theorem trailing_error_delivered {oob : IntKind → Num → Int} {outs : List Ty} {ps : List Ty} {v : Bool}
    {args f init : List Val} {e : Val} {body : List Val → BodyOut}
    (h : reaches oob ⟨ps, v, outs ++ [.error]⟩ args = some f)
    (hb : body f = .ret (init ++ [e])) (hl : init.length = outs.length) :
    run shape oob (.fn ⟨ps, v, outs ++ [.error]⟩ body) args =
      .done (packRet (List.zipWith convertResultNumber outs init))
        (if e = .nil then none else some (.func e)) := by
  rw [reaching_runs_body h, hb]
  simp [finish, convertResults_trailing_error init outs e hl]

example : run shape (fun _ _ => 0)
    (.fn ⟨[], false, [.int .int, .error]⟩ (fun _ => .ret [.int .int 5, .foreign (.other 0) "boom"])) []
    = .done (.one (.f64 (.fin 5 0))) (some (.func (.foreign (.other 0) "boom"))) := by decide

example : run shape (fun _ _ => 0)
    (.fn ⟨[], false, [.int .int, .error]⟩ (fun _ => .ret [.int .int 5, .nil])) []
    = .done (.one (.f64 (.fin 5 0))) none := by decide

/-- **Panicking function, for the arguments at hand.** If the call reaches the function and its body
    panics on what it receives — also with `panic(nil)` under the pre-1.21 semantics, where `recover()`
    returns nil — `Run` returns `(nil, error)`, never a silent NULL. -/
theorem panicking_body_is_error {oob : IntKind → Num → Int} {sig : Sig} {args f : List Val}
    (hr : reaches oob sig args = some f) (body : List Val → BodyOut)
    (hp : body f = .panic ∨ body f = .panicNil) :
    run shape oob (.fn sig body) args = .done (.one .nil) (some .recovered) := by
  rw [reaching_runs_body hr]
  rcases hp with hp | hp <;> simp [hp, finish, shape_recovers, shape_nil_panic_reported]

example : run shape (fun _ _ => 0) (.fn ⟨[], false, []⟩ (fun _ => .panicNil)) []
    = .done (.one .nil) (some .recovered) := by decide

/-- With `if r := recover(); r != nil` alone a `panic(nil)` would come back as a silent NULL. -/
example : run { shape with nilPanicReported := false } (fun _ _ => 0) (.fn ⟨[], false, []⟩ (fun _ => .panicNil)) []
    = .done (.one .nil) none := by decide

/-- **Panicking function.** If the function body panics on the arguments it receives (or on every
    input), the call returns `(nil, error)`: a recovered-panic error if the body was reached, a
    bridge error otherwise. -/
theorem panicking_function_is_error (oob : IntKind → Num → Int) (sig : Sig) (args : List Val)
    (body : List Val → BodyOut) (hp : ∀ l, body l = .panic) :
    IsBridgeError (run shape oob (.fn sig body) args) := by
  cases hr : reaches oob sig args with
  | none =>
    obtain ⟨e, he, hrun⟩ := not_reaching_is_error hr
    exact ⟨e, hrun body, he⟩
  | some f =>
    rw [reaching_runs_body hr, hp]
    exact ⟨.recovered, (by simp [finish, shape_recovers]), (fun v hh => by cases hh)⟩

example : run shape (fun _ _ => 0) (.fn ⟨[.f64], false, [.f64]⟩ (fun _ => .panic)) [.f64 (.fin 1 0)]
    = .done (.one .nil) (some .recovered) := by decide

/-! ## Plugin functions -/

/-- Third side obligation (stdlib/stdlib.go): it is not refuted that every function object
    `AddStdlibPluginFunc` registers is an `ECALFunctionAdapter` around a
    `func(...interface{}) (interface{}, error)` closure. (Refuted by: an object of another type whose
    own `Run` does not recover.) -/
theorem plugin_goes_through_bridge : pluginViaAdapter = true := by decide

/-- **Plugin functions are total too**: whatever a plugin's `Run` does — return, return an error,
    panic on a missing argument / NULL / wrong kind — and whatever the arguments, the call returns. -/
theorem plugin_total (oob : IntKind → Num → Int) (body : List Val → BodyOut) (args : List Val) :
    ∀ r, runPlugin pluginViaAdapter shape oob body args = r → r ≠ .escaped := by
  intro r h
  rw [plugin_goes_through_bridge] at h
  exact bridge_total oob (.fn pluginSig body) args r h

/-- A panicking plugin body gives `(nil, error)`. -/
theorem plugin_panic_is_error (oob : IntKind → Num → Int) (body : List Val → BodyOut) (args : List Val)
    (hp : ∀ l, body l = .panic) :
    IsBridgeError (runPlugin pluginViaAdapter shape oob body args) := by
  rw [plugin_goes_through_bridge]
  exact panicking_function_is_error oob pluginSig args body hp

/-- Registered directly (not through the adapter) a panicking plugin takes the interpreter down:
    the model can express the failure the obligation excludes. -/
example : runPlugin false shape (fun _ _ => 0) (fun _ => .panic) [] = .escaped := by decide

/-- A value that is of the right kind everywhere does reach the function (non-vacuity of the
    error theorems: the bridge does not answer everything with an error). -/
example : run shape (fun _ _ => 0)
    (.fn ⟨[.str, .slice .iface], true, [.str, .int .int]⟩ (fun l => .ret [l.headD .nil, .int .int (l.length - 1)]))
    [.str "a", .bool true] = .done (.many [.str "a", .f64 (.fin 1 0)]) none := by decide

/-! ## The interpreter side: every activation of a call site owns its arguments

`Ecal.Reentry.eval` is the reference semantics the correspondence run holds `rt_identifier.go`
(`resolveFunction`) against: programs whose bridged call sites are re-entered through their own
argument expressions, one AST evaluated repeatedly and from several goroutines. -/

/-- What the Go function receives for in-range integers is exactly those integers, in the
    parameter's kind: `radd3(a int, b int64, c float64)` called with the values 2, 3, 4. -/
example : Reentry.bridged "radd3" [2, 3, 4] =
    some (9, [.int .int 2, .int .int64 3, .f64 (.fin 4 0)]) := by decide

/-- `sum(n) := if n == 0 then 0 else radd(n, sum(n-1))`: the call site `radd(n, sum(n-1))` is
    re-entered twice while its first argument is already evaluated; each activation keeps its own. -/
example : Reentry.eval
    [⟨"sum", ["n"], .num 0, .callB "radd" (.cons (.var "n") (.cons (.callU "sum" (.cons (.sub (.var "n") (.num 1)) .nil)) .nil))⟩]
    40 [] (.callU "sum" (.cons (.num 3) .nil)) [] =
    some (6, [[.f64 (.fin 1 0), .f64 (.fin 0 0)], [.f64 (.fin 2 0), .f64 (.fin 1 0)], [.f64 (.fin 3 0), .f64 (.fin 3 0)]]) := by
  decide

end Ecal.Props.C19
