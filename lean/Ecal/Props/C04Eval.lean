import Ecal.Props.C04
import Ecal.Lemmas.C04Wiring
import Ecal.Lemmas.C04Shape
/-!
# C04 at the level of `eval`

The headline theorems of Props/C04.lean (about the control-flow combinators) restated for
`Ecal.Ev.eval` on statement nodes, for arbitrary fuel and arbitrary sub-trees, through the wiring lemmas
of Lemmas/C04Wiring.lean (`eval` on a node of a kind IS the combinator applied to the evaluations of its
children). Node-shape hypotheses are the ones C07's `WellFormed` gives (Lemmas/C04Shape.lean:
`wf_try_shape`, `wf_block_shape`, `wf_if_shape`, `wf_loop_shape`, `wf_return_shape`).
-/
namespace Ecal.Props.C04
open Ecal.Ev
open Ecal.Parse (Node)
open Ecal.Lex (Tok)

/-- name of the child scope of a block statement -/
def blockName (n : Node) (t : Tok) : String := s!"block: {n.name} (Line:{t.line} Pos:{t.col})"

theorem scopeName_eq (n : Node) (t : Tok) (ht : n.tok = some t) : scopeName n = pure (blockName n t) := by
  simp [scopeName, tokOf, ht, blockName]

/-- the part of a try statement the finally block is deferred around -/
def tryMain (f sc : Nat) (n body : Node) (clauses : List Node) : M Val := do
  let tvs ← newChild sc (← scopeName n)
  tryCore (eval f tvs body) (tryHandlers f sc clauses) (tryOtherwise f sc clauses)

/-- **eval_finally_exactly_once**: evaluating a try node whose last clause is `finally { fb }`: whatever
    the outcome `r` of everything before it (value, error, return, break, continue) the block `fb` is
    evaluated exactly once, last, in the scope made for it, and `r` is the outcome of the statement -/
theorem eval_finally_exactly_once (f sc fs : Nat) (n body last fb : Node) (clauses : List Node) (tl : Tok)
    (s s0 s1 : St) (r : Except Sig Val)
    (hn : n.name = "try") (hc : n.children = some body :: clauses.map some)
    (hl : (body :: clauses).getLast? = some last) (hfn : last.name = "finally")
    (hfc : last.children = [some fb]) (hlt : last.tok = some tl)
    (hsc : run (newChild sc (blockName last tl)) s = (.ok fs, s0))
    (hm : run (tryMain f sc n body clauses) s0 = (r, s1))
    (hr : ∀ w, r ≠ .error (.unsupported w)) (hr' : r ≠ .error .fuel) :
    run (eval (f+2) sc n) s = afterFinally r (run (eval f fs fb) s1) := by
  rw [eval_try_is_tryFinally_tryCore_dispatchExcept f sc n body last clauses hn hc hl]
  have hfin : tryFin f sc last = (do
      let fs ← newChild sc (blockName last tl)
      pure (some (eval f fs fb))) := by
    simp [tryFin, hfn, scopeName_eq _ _ hlt, child, hfc]
  rw [hfin]
  simp only [run_bind, hsc, run_pure]
  exact finally_exactly_once _ _ s0 s1 r hm hr hr'

/-- a try node without finally clause is its main part -/
theorem eval_try_no_finally (f sc : Nat) (n body last : Node) (clauses : List Node) (s : St)
    (hn : n.name = "try") (hc : n.children = some body :: clauses.map some)
    (hl : (body :: clauses).getLast? = some last) (hfn : last.name ≠ "finally") :
    run (eval (f+2) sc n) s = run (tryMain f sc n body clauses) s := by
  rw [eval_try_is_tryFinally_tryCore_dispatchExcept f sc n body last clauses hn hc hl]
  have hfin : tryFin f sc last = pure none := by simp [tryFin, hfn]
  rw [hfin]
  simp only [run_bind, run_pure]
  exact no_finally _ _

/-- the main part of a try node, once its scope `tvs` exists, is `tryCore` -/
theorem run_tryMain (f sc tvs : Nat) (n body : Node) (clauses : List Node) (t : Tok) (s s0 : St)
    (ht : n.tok = some t) (hsc : run (newChild sc (blockName n t)) s = (.ok tvs, s0)) :
    run (tryMain f sc n body clauses) s =
      run (tryCore (eval f tvs body) (tryHandlers f sc clauses) (tryOtherwise f sc clauses)) s0 := by
  simp only [tryMain, scopeName_eq _ _ ht, pure_bind, run_bind, hsc]

/-- **eval_otherwise_iff_no_error** (⇐): the try block evaluated to a value — the otherwise clause (if
    any) is evaluated once, right after it, and the value of the block is kept -/
theorem eval_otherwise_if_no_error (f sc tvs : Nat) (n body : Node) (clauses : List Node) (t : Tok) (s s0 s1 : St)
    (v : Val) (ht : n.tok = some t) (hsc : run (newChild sc (blockName n t)) s = (.ok tvs, s0))
    (hb : run (eval f tvs body) s0 = (.ok v, s1)) :
    run (tryMain f sc n body clauses) s = match tryOtherwise f sc clauses with
      | some o => (match run o s1 with
          | (.ok _, s2) => (.ok v, s2)
          | (.error e, s2) => (.error e, s2))
      | none => (.ok v, s1) := by
  rw [run_tryMain f sc tvs n body clauses t s s0 ht hsc, tryCore_eq, hb]
  cases tryOtherwise f sc clauses <;> rfl

/-- **eval_otherwise_iff_no_error** (⇒): the try block raised anything — the otherwise clause plays no
    part: control signals travel on, errors go to the except clauses in source order -/
theorem eval_otherwise_only_if_no_error (f sc tvs : Nat) (n body : Node) (clauses : List Node) (t : Tok)
    (s s0 s1 : St) (e : Sig) (ht : n.tok = some t) (hsc : run (newChild sc (blockName n t)) s = (.ok tvs, s0))
    (hb : run (eval f tvs body) s0 = (.error e, s1)) :
    run (tryMain f sc n body clauses) s =
      if e.isFatal || e.isControl then (.error e, s1) else run (dispatchExcept (tryHandlers f sc clauses) e) s1 := by
  rw [run_tryMain f sc tvs n body clauses t s s0 ht hsc, tryCore_eq, hb]

/-- **eval_first_matching_except**: the except clauses of the node are consulted in source order; the
    first that accepts the error (clauses before it declined) decides the outcome; if all decline the
    error leaves the statement unchanged -/
theorem eval_first_matching_except (f sc tvs : Nat) (n body : Node) (pre post : List Node) (c : Node) (t : Tok)
    (s s0 s1 s2 : St) (e : Sig) (ht : n.tok = some t) (hsc : run (newChild sc (blockName n t)) s = (.ok tvs, s0))
    (hb : run (eval f tvs body) s0 = (.error e, s1)) (hc : e.isControl = false) (hf : e.isFatal = false)
    (hcn : c.name = "except")
    (hd : Decline e (tryHandlers f sc pre) s1 s2) :
    run (tryMain f sc n body (pre ++ c :: post)) s = match run (exceptHandler f sc c e) s2 with
      | (.ok (some v), s3) => (.ok v, s3)
      | (.ok none, s3) => run (dispatchExcept (tryHandlers f sc post) e) s3
      | (.error e', s3) => (.error e', s3) := by
  rw [eval_otherwise_only_if_no_error f sc tvs n body _ t s s0 s1 e ht hsc hb]
  have hh : tryHandlers f sc (pre ++ c :: post) = tryHandlers f sc pre ++ exceptHandler f sc c :: tryHandlers f sc post := by
    simp [tryHandlers, List.filter_append, List.filter_cons, hcn]
  simp only [hc, hf, Bool.or_false, Bool.false_eq_true, ↓reduceIte, hh]
  exact try_first_matching_except _ _ _ e s1 s2 hd

theorem eval_unhandled_propagates_unchanged (f sc tvs : Nat) (n body : Node) (clauses : List Node) (t : Tok)
    (s s0 s1 s2 : St) (e : Sig) (ht : n.tok = some t) (hsc : run (newChild sc (blockName n t)) s = (.ok tvs, s0))
    (hb : run (eval f tvs body) s0 = (.error e, s1)) (hc : e.isControl = false) (hf : e.isFatal = false)
    (hd : Decline e (tryHandlers f sc clauses) s1 s2) :
    run (tryMain f sc n body clauses) s = (.error e, s2) := by
  rw [eval_otherwise_only_if_no_error f sc tvs n body _ t s s0 s1 e ht hsc hb]
  simp only [hc, hf, Bool.or_false, Bool.false_eq_true, ↓reduceIte]
  exact unhandled_propagates_unchanged _ e s1 s2 hd

end Ecal.Props.C04
