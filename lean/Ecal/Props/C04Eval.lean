import Ecal.Props.C04
import Ecal.Lemmas.C04Wiring
import Ecal.Lemmas.C04Shape
import Ecal.Lemmas.C04Order
/-!
# C04 at the level of `eval`

The headline theorems of Props/C04.lean (about the control-flow combinators) restated for
`Ecal.Ev.eval` on statement nodes, for arbitrary fuel and arbitrary sub-trees, through the wiring lemmas
of Lemmas/C04Wiring.lean (`eval` on a node of a kind IS the combinator applied to the evaluations of its
children). Node-shape hypotheses are the ones C07's `WellFormed` gives (Lemmas/C04Shape.lean:
`wf_try_shape`, `wf_block_shape`, `wf_if_shape`, `wf_loop_shape`, `wf_return_shape`).
-/
namespace Ecal.Props.C04
open Ecal.Ev
open Ecal.Parse (Node)
open Ecal.Lex (Tok)

/-- name of the child scope of a block statement -/
def blockName (n : Node) (t : Tok) : String := s!"block: {n.name} (Line:{t.line} Pos:{t.col})"

theorem scopeName_eq (n : Node) (t : Tok) (ht : n.tok = some t) : scopeName n = pure (blockName n t) := by
  simp [scopeName, tokOf, ht, blockName]

/-- the part of a try statement the finally block is deferred around -/
def tryMain (f sc : Nat) (n body : Node) (clauses : List Node) : M Val := do
  let tvs ← newChild sc (← scopeName n)
  tryCore (eval f tvs body) (tryHandlers f sc clauses) (tryOtherwise f sc clauses)

/-- **eval_finally_exactly_once**: evaluating a try node whose last clause is `finally { fb }`: whatever
    the outcome `r` of everything before it (value, error, return, break, continue) the block `fb` is
    evaluated exactly once, last, in the scope made for it, and `r` is the outcome of the statement -/
theorem eval_finally_exactly_once (f sc fs : Nat) (n body last fb : Node) (clauses : List Node) (tl : Tok)
    (s s0 s1 : St) (r : Except Sig Val)
    (hn : n.name = "try") (hc : n.children = some body :: clauses.map some)
    (hl : (body :: clauses).getLast? = some last) (hfn : last.name = "finally")
    (hfc : last.children = [some fb]) (hlt : last.tok = some tl)
    (hsc : run (newChild sc (blockName last tl)) s = (.ok fs, s0))
    (hm : run (tryMain f sc n body clauses) s0 = (r, s1))
    (hr : ∀ w, r ≠ .error (.unsupported w)) (hr' : r ≠ .error .fuel) :
    run (eval (f+2) sc n) s = afterFinally r (run (eval f fs fb) s1) := by
  rw [eval_try_is_tryFinally_tryCore_dispatchExcept f sc n body last clauses hn hc hl]
  have hfin : tryFin f sc last = (do
      let fs ← newChild sc (blockName last tl)
      pure (some (eval f fs fb))) := by
    simp [tryFin, hfn, scopeName_eq _ _ hlt, child, hfc]
  rw [hfin]
  simp only [run_bind, hsc, run_pure]
  exact finally_exactly_once _ _ s0 s1 r hm hr hr'

/-- a try node without finally clause is its main part -/
theorem eval_try_no_finally (f sc : Nat) (n body last : Node) (clauses : List Node) (s : St)
    (hn : n.name = "try") (hc : n.children = some body :: clauses.map some)
    (hl : (body :: clauses).getLast? = some last) (hfn : last.name ≠ "finally") :
    run (eval (f+2) sc n) s = run (tryMain f sc n body clauses) s := by
  rw [eval_try_is_tryFinally_tryCore_dispatchExcept f sc n body last clauses hn hc hl]
  have hfin : tryFin f sc last = pure none := by simp [tryFin, hfn]
  rw [hfin]
  simp only [run_bind, run_pure]
  exact no_finally _ _

/-- the main part of a try node, once its scope `tvs` exists, is `tryCore` -/
theorem run_tryMain (f sc tvs : Nat) (n body : Node) (clauses : List Node) (t : Tok) (s s0 : St)
    (ht : n.tok = some t) (hsc : run (newChild sc (blockName n t)) s = (.ok tvs, s0)) :
    run (tryMain f sc n body clauses) s =
      run (tryCore (eval f tvs body) (tryHandlers f sc clauses) (tryOtherwise f sc clauses)) s0 := by
  simp only [tryMain, scopeName_eq _ _ ht, pure_bind, run_bind, hsc]

/-- **eval_otherwise_iff_no_error** (⇐): the try block evaluated to a value — the otherwise clause (if
    any) is evaluated once, right after it, and the value of the block is kept -/
theorem eval_otherwise_if_no_error (f sc tvs : Nat) (n body : Node) (clauses : List Node) (t : Tok) (s s0 s1 : St)
    (v : Val) (ht : n.tok = some t) (hsc : run (newChild sc (blockName n t)) s = (.ok tvs, s0))
    (hb : run (eval f tvs body) s0 = (.ok v, s1)) :
    run (tryMain f sc n body clauses) s = match tryOtherwise f sc clauses with
      | some o => (match run o s1 with
          | (.ok _, s2) => (.ok v, s2)
          | (.error e, s2) => (.error e, s2))
      | none => (.ok v, s1) := by
  rw [run_tryMain f sc tvs n body clauses t s s0 ht hsc, tryCore_eq, hb]
  cases tryOtherwise f sc clauses <;> rfl

/-- **eval_otherwise_iff_no_error** (⇒): the try block raised anything — the otherwise clause plays no
    part: control signals travel on, errors go to the except clauses in source order -/
theorem eval_otherwise_only_if_no_error (f sc tvs : Nat) (n body : Node) (clauses : List Node) (t : Tok)
    (s s0 s1 : St) (e : Sig) (ht : n.tok = some t) (hsc : run (newChild sc (blockName n t)) s = (.ok tvs, s0))
    (hb : run (eval f tvs body) s0 = (.error e, s1)) :
    run (tryMain f sc n body clauses) s =
      if e.isFatal || e.isControl then (.error e, s1) else run (dispatchExcept (tryHandlers f sc clauses) e) s1 := by
  rw [run_tryMain f sc tvs n body clauses t s s0 ht hsc, tryCore_eq, hb]

/-- **eval_first_matching_except**: the except clauses of the node are consulted in source order; the
    first that accepts the error (clauses before it declined) decides the outcome; if all decline the
    error leaves the statement unchanged -/
theorem eval_first_matching_except (f sc tvs : Nat) (n body : Node) (pre post : List Node) (c : Node) (t : Tok)
    (s s0 s1 s2 : St) (e : Sig) (ht : n.tok = some t) (hsc : run (newChild sc (blockName n t)) s = (.ok tvs, s0))
    (hb : run (eval f tvs body) s0 = (.error e, s1)) (hc : e.isControl = false) (hf : e.isFatal = false)
    (hcn : c.name = "except")
    (hd : Decline e (tryHandlers f sc pre) s1 s2) :
    run (tryMain f sc n body (pre ++ c :: post)) s = match run (exceptHandler f sc c e) s2 with
      | (.ok (some v), s3) => (.ok v, s3)
      | (.ok none, s3) => run (dispatchExcept (tryHandlers f sc post) e) s3
      | (.error e', s3) => (.error e', s3) := by
  rw [eval_otherwise_only_if_no_error f sc tvs n body _ t s s0 s1 e ht hsc hb]
  have hh : tryHandlers f sc (pre ++ c :: post) = tryHandlers f sc pre ++ exceptHandler f sc c :: tryHandlers f sc post := by
    simp [tryHandlers, List.filter_append, List.filter_cons, hcn]
  simp only [hc, hf, Bool.or_false, Bool.false_eq_true, ↓reduceIte, hh]
  exact try_first_matching_except _ _ _ e s1 s2 hd

theorem eval_unhandled_propagates_unchanged (f sc tvs : Nat) (n body : Node) (clauses : List Node) (t : Tok)
    (s s0 s1 s2 : St) (e : Sig) (ht : n.tok = some t) (hsc : run (newChild sc (blockName n t)) s = (.ok tvs, s0))
    (hb : run (eval f tvs body) s0 = (.error e, s1)) (hc : e.isControl = false) (hf : e.isFatal = false)
    (hd : Decline e (tryHandlers f sc clauses) s1 s2) :
    run (tryMain f sc n body clauses) s = (.error e, s2) := by
  rw [eval_otherwise_only_if_no_error f sc tvs n body _ t s s0 s1 e ht hsc hb]
  simp only [hc, hf, Bool.or_false, Bool.false_eq_true, ↓reduceIte]
  exact unhandled_propagates_unchanged _ e s1 s2 hd

/-! ### loops, functions, if -/

theorem run_get (s : St) : run (get : M St) s = (.ok s, s) := rfl
theorem run_set (s' s : St) : run (set s' : M Unit) s = (.ok (), s') := rfl
theorem run_modify (g : St → St) (s : St) : run (modify g : M Unit) s = (.ok (), g s) := rfl

/-- a fresh instance-state map around `m` changes neither value nor signal of `m` -/
theorem withFreshIs_outcome {α : Type} (m : M α) (s : St) :
    (run (withFreshIs m) s).1 = (run m { s with isStore := s.isStore.push [], curIs := s.isStore.size }).1 := by
  unfold withFreshIs
  simp only [run_bind, run_get, run_set, run_attempt, run_modify]
  rcases hm : run m { s with isStore := s.isStore.push [], curIs := s.isStore.size } with ⟨r, s1⟩
  cases r <;> rfl

/-- **eval_break_innermost** (condition loop): evaluating a `for guard { block }` node never ends in a break
    signal — a `break` raised in the block (at any depth that is not inside a nested loop) ends this loop -/
theorem eval_break_innermost_guard (f sc ls : Nat) (n g body : Node) (t : Tok) (s s0 s' : St) (e : Sig)
    (hn : n.name = "loop") (hc : n.children = [some g, some body]) (hg : g.name = "guard") (ht : n.tok = some t)
    (hsc : run (newChild sc (blockName n t)) s = (.ok ls, s0))
    (h : run (eval (f+2) sc n) s = (.error e, s')) : e.isBreak = false := by
  rw [eval_guardloop_is_guardLoop f sc n g body hn hc hg, scopeName_eq _ _ ht] at h
  simp only [pure_bind, run_bind, hsc] at h
  have h1 := withFreshIs_outcome (guardLoop (eval f ls g) (eval f ls body) f) s0
  rw [h] at h1
  rcases hm : run (guardLoop (eval f ls g) (eval f ls body) f)
      { s0 with isStore := s0.isStore.push [], curIs := s0.isStore.size } with ⟨r, s1⟩
  rw [hm] at h1
  simp only at h1
  subst h1
  exact break_innermost_guard _ _ f _ s1 e hm

/-- **eval_return_innermost_function**: once the frame of a declared function exists, running it is
    `callCore` of its body: a return signal raised anywhere in the body (not inside a nested call) ends
    THIS call with the returned value, and never reaches the caller -/
theorem eval_return_innermost_function (f fvs : Nat) (body : Node) (s : St) :
    run (callCore (withFreshIs (eval f fvs body))) s = match run (withFreshIs (eval f fvs body)) s with
      | (.ok v, s1) => (.ok v, s1)
      | (.error (.ret _ v), s1) => (.ok v, s1)
      | (.error e, s1) => (.error e, s1) :=
  return_innermost_function _ s

theorem eval_return_stops_at_call (f fvs : Nat) (body : Node) (s s' : St) (e : RtErr) (v : Val) :
    run (callCore (withFreshIs (eval f fvs body))) s ≠ (.error (.ret e v), s') :=
  return_stops_at_call _ s s' e v

theorem ifPairs_append (sc : Nat) : ∀ (a r : List (Node × Node)) (k : Nat),
    ifPairs sc (a.length + k) (a ++ r) = ifPairs sc (a.length + k) a ++ ifPairs sc k r
  | [], r, k => by cases r <;> cases k <;> simp [ifPairs]
  | (g, b) :: a, r, k => by
    have h : ((g, b) :: a).length + k = (a.length + k) + 1 := by simp; omega
    rw [h]
    simp only [List.cons_append, ifPairs, ifPairs_append sc a r k]

/-- **eval_if_first_true**: evaluating an `if` node: with the guards before `g` evaluated (in the node's
    child scope `bs`) to values other than `true` and `g` to `true`, the outcome is the evaluation of the
    block `b` of `g`, in `bs` — and nothing else of the statement is evaluated -/
theorem eval_if_first_true (sc bs m : Nat) (n g b : Node) (pre post : List (Node × Node)) (t : Tok)
    (s s0 s1 s2 : St) (hn : n.name = "if") (hc : n.children = flatPairs (pre ++ (g, b) :: post))
    (ht : n.tok = some t) (hm : post.length < m)
    (hsc : run (newChild sc (blockName n t)) s = (.ok bs, s0))
    (hpre : GuardsFalse (ifPairs bs (pre.length + (m + 1)) pre) s0 s1)
    (hg : run (eval m bs g) s1 = (.ok (.bool true), s2)) :
    run (eval (pre.length + (m + 1) + 1) sc n) s = run (eval m bs b) s2 := by
  rw [eval_if_is_ifChain (pre.length + (m + 1)) sc n _ hn hc (by simp; omega), scopeName_eq _ _ ht]
  simp only [pure_bind, run_bind, hsc, ifPairs_append, ifPairs]
  exact if_first_true _ _ _ _ s0 s1 s2 hpre hg

/-! ### with the shape hypotheses discharged by C07's `WellFormed` -/

/-- **eval_finally_exactly_once** for every well-formed try node: the shape facts (block first, clauses
    after it, a `finally` clause has exactly its block and a token) come from `WellFormed` -/
theorem eval_finally_exactly_once_wf (n : Node) (hwf : Ecal.Parse.WellFormed n = true) (hn : n.name = "try") :
    ∃ (body : Node) (clauses : List Node), n.children = some body :: clauses.map some ∧
      ∀ last, (body :: clauses).getLast? = some last → last.name = "finally" →
        ∃ (fb : Node) (tl : Tok), last.children = [some fb] ∧ last.tok = some tl ∧
          ∀ (f sc fs : Nat) (s s0 s1 : St) (r : Except Sig Val),
            run (newChild sc (blockName last tl)) s = (.ok fs, s0) →
            run (tryMain f sc n body clauses) s0 = (r, s1) →
            (∀ w, r ≠ .error (.unsupported w)) → r ≠ .error .fuel →
            run (eval (f+2) sc n) s = afterFinally r (run (eval f fs fb) s1) := by
  obtain ⟨body, clauses, hc, hbn, _, hcl⟩ := wf_try_shape hwf hn
  refine ⟨body, clauses, hc, ?_⟩
  intro last hl hfn
  have hmem : last ∈ body :: clauses := List.mem_of_getLast? hl
  have hlc : last ∈ clauses := by
    rcases List.mem_cons.1 hmem with rfl | h
    · rw [hbn] at hfn; exact absurd hfn (by decide)
    · exact h
  obtain ⟨fb, tl, hfc, _, hlt, _⟩ := wf_block_shape (hcl last hlc).2 (Or.inl hfn)
  refine ⟨fb, tl, hfc, hlt, ?_⟩
  intro f sc fs s s0 s1 r hsc hm hr hr'
  exact eval_finally_exactly_once f sc fs n body last fb clauses tl s s0 s1 r hn hc hl hfn hfc hlt hsc hm hr hr'

/-- every well-formed `if` node is `ifChain` over its (guard, block) pairs (fuel beyond their number) -/
theorem eval_if_is_ifChain_wf (n : Node) (hwf : Ecal.Parse.WellFormed n = true) (hn : n.name = "if") :
    ∃ (ps : List (Node × Node)) (t : Tok), n.children = flatPairs ps ∧ n.tok = some t ∧
      ∀ (f sc : Nat), ps.length < f →
        eval (f+1) sc n = (do let bs ← newChild sc (blockName n t); ifChain (ifPairs bs f ps)) := by
  obtain ⟨ps, t, hc, ht, _⟩ := wf_if_shape hwf hn
  refine ⟨ps, t, hc, ht, ?_⟩
  intro f sc hf
  rw [eval_if_is_ifChain f sc n ps hn hc hf, scopeName_eq _ _ ht]
  simp

/-- every well-formed condition loop is `guardLoop` over the evaluations of its guard and block -/
theorem eval_guardloop_is_guardLoop_wf (n : Node) (hwf : Ecal.Parse.WellFormed n = true) (hn : n.name = "loop") :
    ∃ (c0 body : Node) (t : Tok), n.children = [some c0, some body] ∧ n.tok = some t ∧
      (c0.name = "guard" → ∀ (f sc : Nat), eval (f+2) sc n = (do
        let ls ← newChild sc (blockName n t)
        withFreshIs (guardLoop (eval f ls c0) (eval f ls body) f))) := by
  obtain ⟨c0, body, t, hc, _, ht, _, _, _⟩ := wf_loop_shape hwf hn
  refine ⟨c0, body, t, hc, ht, ?_⟩
  intro hg f sc
  rw [eval_guardloop_is_guardLoop f sc n c0 body hn hc hg, scopeName_eq _ _ ht]
  simp

/-! ### the loop-variable binder raises no loop signal; break / continue in `for … in` loops -/

/-- `m` never ends in a break or continue signal -/
def NoSig {α : Type} (m : M α) : Prop :=
  ∀ s e s', run m s = (.error e, s') → e.isBreak = false ∧ e.isContinue = false

theorem NoSig.pure {α : Type} (a : α) : NoSig (pure a : M α) := by intro s e s' h; cases h
theorem NoSig.throw {α : Type} (e : Sig) (h : e.isBreak = false ∧ e.isContinue = false) : NoSig (throw e : M α) := by
  intro s e' s' h'; cases h'; exact h
theorem NoSig.bind {α β : Type} (m : M α) (k : α → M β) (hm : NoSig m) (hk : ∀ a, NoSig (k a)) : NoSig (m >>= k) := by
  intro s e s' h
  rw [run_bind] at h
  rcases hr : run m s with ⟨r, s1⟩
  rw [hr] at h
  cases r with
  | ok a => exact hk a s1 e s' h
  | error e1 => cases h; exact hm s _ _ hr
theorem NoSig.attempt {α : Type} (m : M α) : NoSig (attemptE m) := by
  intro s e s' h; rw [run_attempt] at h; cases h

theorem NoSig.forIn {α β : Type} (l : List α) (g : α → β → M (ForInStep β)) (h : ∀ a b, NoSig (g a b)) :
    ∀ b, NoSig (forIn l b g) := by
  induction l with
  | nil => intro b; simp only [List.forIn_nil]; exact NoSig.pure b
  | cons a l ih =>
    intro b
    simp only [List.forIn_cons]
    refine NoSig.bind _ _ (h a b) ?_
    intro r
    cases r with
    | done b' => exact NoSig.pure b'
    | yield b' => exact ih b'

theorem getList_noSig (r l : Nat) : NoSig (getList r l) := by
  intro s e s' h; cases h

/-- **bindLoopVars raises neither break nor continue** (its failures are "Runtime error"s at the loop) -/
theorem bindLoopVars_noSig (ls : Nat) (n : Node) (vars : List (List Nat)) (item : Val) :
    NoSig (bindLoopVars ls n vars item) := by
  have hwrap : ∀ m : M Unit, NoSig (do
      match ← attemptE m with
      | .ok _ => Pure.pure ()
      | .error e => if e.isFatal then throw e else throw (rtErr "Runtime error" n)) := by
    intro m
    refine NoSig.bind _ _ (NoSig.attempt m) ?_
    intro r
    cases r with
    | ok _ => exact NoSig.pure ()
    | error e =>
      by_cases hf : e.isFatal = true
      · simp only [hf, if_true]; exact NoSig.throw e (not_signal_of_fatal hf)
      · simp only [hf]; exact NoSig.throw _ (rtErr_runtime_not_signal n)
  unfold bindLoopVars
  simp only []
  split
  · exact hwrap _
  · split
    · refine NoSig.bind _ _ (getList_noSig _ _) ?_
      intro xs
      split
      · exact NoSig.throw _ (rtErr_runtime_not_signal n)
      · refine NoSig.bind _ _ (NoSig.forIn _ _ ?_ _) (fun _ => NoSig.pure _)
        intro a b
        exact NoSig.bind _ _ (hwrap _) (fun _ => NoSig.pure _)
    · exact NoSig.throw _ (rtErr_runtime_not_signal n)

/-- **eval_break_continue_innermost** (`for v in e` loop): once the iterable has been evaluated (`loopStart`
    succeeded), evaluating the loop node never ends in a break or a continue signal: both act on THIS
    loop, whatever the block does and however deep they are raised (outside nested loops) -/
theorem eval_break_continue_innermost_forin (f sc ls : Nat) (n c0 iv it body : Node) (t tv : Tok)
    (s s0 s2 s' : St) (start : IterSt) (e : Sig)
    (hn : n.name = "loop") (hc : n.children = [some c0, some body]) (h0 : c0.name = "in")
    (h0c : c0.children = [some iv, some it]) (hiv : iv.name = "identifier") (hivc : iv.children = [])
    (hivt : iv.tok = some tv) (ht : n.tok = some t)
    (hsc : run (newChild sc (blockName n t)) s = (.ok ls, s0))
    (hst : run (loopStart f ls it) { s0 with isStore := s0.isStore.push [], curIs := s0.isStore.size } = (.ok start, s2))
    (h : run (eval (f+2) sc n) s = (.error e, s')) : e.isBreak = false ∧ e.isContinue = false := by
  rw [eval_iterloop_is_iterLoop f sc n c0 iv it body tv hn hc h0 h0c hiv hivc hivt, scopeName_eq _ _ ht] at h
  simp only [pure_bind, run_bind, hsc] at h
  have h1 := withFreshIs_outcome (do
      let start ← loopStart f ls it
      iterLoop (iterNext f ls n it) (bindLoopVars ls n [tv.val]) (eval f ls body) f start) s0
  rw [h] at h1
  simp only [run_bind, hst] at h1
  rcases hm : run (iterLoop (iterNext f ls n it) (bindLoopVars ls n [tv.val]) (eval f ls body) f start) s2 with ⟨r, s3⟩
  rw [hm] at h1
  simp only at h1
  subst h1
  exact break_continue_innermost_iter _ _ _ (fun v s e s' hb => bindLoopVars_noSig ls n [tv.val] v s e s' hb) f start s2 s3 e hm

/-! ### map order, unconditional -/

/-- **loop_map_sorted**: the keys of a `for [k, v] in map` loop, as the evaluator orders them
    (`sortBy` with the byte order of their string forms), are a permutation of the keys in ascending byte
    order of the string forms -/
theorem loop_map_sorted (keyed : List (List Nat × Val)) :
    (sortBy (fun a b => bytesLt a.1 b.1) keyed).Perm keyed ∧
    (sortBy (fun a b => bytesLt a.1 b.1) keyed).Pairwise (fun a b => bytesLt b.1 a.1 = false) :=
  ⟨sortBy_perm _ _, sortBy_sorted _ (fun a b h => bytesLt_asym a.1 b.1 h)
    (fun a b c h1 h2 => bytesLt_le_trans a.1 b.1 c.1 h1 h2) keyed⟩

end Ecal.Props.C04
