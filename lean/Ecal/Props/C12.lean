import Ecal.Model.Mutex
import Ecal.Model.ThreadId
import Ecal.Lemmas.Mutex
import Ecal.Gen.C12
/-!
# C12 — mutex blocks of one name are mutually exclusive, re-entrant and always released

Theorems about `Ecal.Mutex` (the model of `mutexRuntime.Eval`): they hold in **every reachable
state**, i.e. for every number of threads (all ids > 0, pairwise distinct — a thread *is* its id),
every number of names, every nesting depth, every program (the model lets a thread start or end
a block whenever it is not inside the entry/exit protocol) and every schedule.
-/
namespace Ecal.Props.C12
open Ecal.Mutex

/-- number of frames in a stack which acquired the lock of name `a` -/
def countAcq (st : List Frame) (a : Nat) : Nat := (st.filter fun f => f.name == a && f.acquired).length

theorem countAcq_of_wf {st : List Frame} (hw : stackWf st = true) (a : Nat) :
    countAcq st a = if hasAcq st a then 1 else 0 := by
  induction st with
  | nil => simp [countAcq]
  | cons f r ih =>
    simp [stackWf] at hw
    have ih := ih hw.2
    simp only [countAcq] at ih ⊢
    by_cases hf : (f.name == a && f.acquired) = true
    · simp [hf, ih]
      simp at hf
      obtain ⟨rfl, hacq⟩ := hf
      simp [hacq] at hw
      simp [hw.1]
    · simp [hf, ih]

/-- **Mutual exclusion.** In every reachable state, if thread `t1` holds the lock of name `a`
    (it has a frame that acquired it, or it is between `mutex.Lock()` and `mutex.Unlock()` in
    the entry/exit protocol) and thread `t2` executes inside a block of name `a` or also holds
    the lock, then `t1 = t2`. -/
theorem mutual_exclusion {s : State} (h : Reach s) (a t1 t2 : Nat)
    (h1 : (s.thr t1).holds a = true)
    (h2 : (s.thr t2).holds a = true ∨ inBlock (s.thr t2).stack a = true) : t1 = t2 := by
  have hi := inv_reach h
  have h2' : (s.thr t2).holds a = true := by
    rcases h2 with h2 | h2
    · exact h2
    · simp [Thread.holds, inBlock_hasAcq (hi.wf t2).st h2]
  have e1 := (hi.hold a t1).mp h1
  have e2 := (hi.hold a t2).mp h2'
  rw [e1] at e2
  exact Option.some.inj e2

/-- **At most one acquired frame, every thread inside is the owner.** Two threads that execute
    inside blocks of the same name are the same thread; that thread has exactly one frame which
    acquired the lock (all its other frames of that name are re-entrant), the `sync.Mutex` is
    locked and the owner table names that thread. -/
theorem inside_is_owner {s : State} (h : Reach s) (a t1 t2 : Nat)
    (h1 : inBlock (s.thr t1).stack a = true) (h2 : inBlock (s.thr t2).stack a = true) :
    t1 = t2 ∧ countAcq (s.thr t1).stack a = 1 ∧ (s.mtx a).locked = true ∧ (s.mtx a).owner = t1 := by
  have hi := inv_reach h
  have ha1 := inBlock_hasAcq (hi.wf t1).st h1
  have hh1 : (s.thr t1).holds a = true := by simp [Thread.holds, ha1]
  refine ⟨mutual_exclusion h a t1 t2 hh1 (Or.inr h2), ?_, ?_, ?_⟩
  · rw [countAcq_of_wf (hi.wf t1).st, ha1]; rfl
  · have := (hi.hold a t1).mp hh1
    exact (hi.lock a).mpr (by simp [this])
  · exact ((hi.own a t1).mp (by simp [Thread.ownerReg, ha1])).1

/-- blocks of two different names are occupied by two different threads at the same time -/
example : ∃ s, Reach s ∧ inBlock (s.thr 1).stack 0 = true ∧ inBlock (s.thr 2).stack 1 = true := by
  have h1 : (run init [.look 1 0, .decide 1, .lock 1, .setOwner 1, .look 2 1, .decide 2, .lock 2,
      .setOwner 2]).map (fun s => (inBlock (s.thr 1).stack 0, inBlock (s.thr 2).stack 1))
      = some (true, true) := by decide
  cases hs : run init [.look 1 0, .decide 1, .lock 1, .setOwner 1, .look 2 1, .decide 2, .lock 2,
      .setOwner 2] with
  | none => rw [hs] at h1; cases h1
  | some s =>
    rw [hs] at h1
    simp at h1
    exact ⟨s, Reach.run Reach.init hs, h1.1, h1.2⟩

/-- the thread an event belongs to -/
def thread : Event → Nat
  | .look t _ | .decide t | .lock t | .setOwner t | .bodyEnd t _ | .resetOwner t | .unlock t
  | .read t _ | .write t => t

def pcName : Pc → Option Nat
  | .run => none
  | .decide a _ | .wantLock a | .lockedNoOwner a | .releasing a | .unlocking a => some a

/-- the mutex name an event operates on (given the acting thread's local state) -/
def evName (s : State) : Event → Option Nat
  | .look _ a | .read _ a => some a
  | .decide t | .lock t | .setOwner t | .resetOwner t | .unlock t => pcName (s.thr t).pc
  | .bodyEnd t _ => (s.thr t).stack.head?.map (·.name)
  | .write t => (s.thr t).rmw.map (·.1)

/-- **Blocks of different names do not exclude each other.** Whether an event is enabled depends
    only on the acting thread's own local state and on the state of the one name the event
    operates on: two states that agree on these (and differ arbitrarily in all other names and
    threads) enable the same events. In particular nothing that happens to name `b` can block an
    entry into, or an exit from, a block of name `a ≠ b`. -/
theorem different_names_independent (s s' : State) (e : Event)
    (hthr : s.thr (thread e) = s'.thr (thread e))
    (hname : ∀ a, evName s e = some a → s.mtx a = s'.mtx a) :
    (step s e).isSome = (step s' e).isSome := by
  cases e <;> simp only [thread, evName] at hthr hname <;> simp only [step, ← hthr]
  case look t a => split <;> simp
  case decide t => split <;> (try split) <;> simp
  case lock t =>
    split
    · rename_i a hp
      rw [← hname a (by simp [hp, pcName])]
      split <;> simp
    · simp
  case setOwner t => split <;> simp
  case bodyEnd t k => split <;> (try split) <;> simp
  case resetOwner t => split <;> simp
  case unlock t => split <;> simp
  case read t a => split <;> simp
  case write t => split <;> simp

/-- … and an event changes the shared state of no other name. -/
theorem other_names_untouched {s s' : State} {e : Event} (hs : step s e = some s') (b : Nat)
    (hb : evName s e ≠ some b) : s'.mtx b = s.mtx b := by
  cases e <;> simp only [step] at hs <;> simp only [evName] at hb
  case look t a =>
    split at hs <;> cases hs
    have : b ≠ a := fun e => hb (by rw [e]); simp [this]
  case decide t =>
    split at hs
    · split at hs <;> cases hs <;> rfl
    · cases hs
  case lock t =>
    split at hs
    · rename_i a hp
      split at hs <;> cases hs
      have : b ≠ a := fun e => hb (by simp [hp, pcName, e]); simp [this]
    · cases hs
  case setOwner t =>
    split at hs
    · rename_i a hp
      cases hs
      have : b ≠ a := fun e => hb (by simp [hp, pcName, e]); simp [this]
    · cases hs
  case bodyEnd t k =>
    split at hs
    · split at hs <;> cases hs <;> rfl
    · cases hs
  case resetOwner t =>
    split at hs
    · rename_i a hp
      cases hs
      have : b ≠ a := fun e => hb (by simp [hp, pcName, e]); simp [this]
    · cases hs
  case unlock t =>
    split at hs
    · rename_i a hp
      cases hs
      have : b ≠ a := fun e => hb (by simp [hp, pcName, e]); simp [this]
    · cases hs
  case read t a => split at hs <;> cases hs; rfl
  case write t =>
    split at hs
    · rename_i a v hp hr
      cases hs
      have : b ≠ a := fun e => hb (by simp [hr, e]); simp [this]
    · cases hs

/-- the only blocking event is `lock`, and it waits for nothing but its own name's mutex -/
theorem lock_enabled_iff (s : State) (t : Nat) :
    (step s (.lock t)).isSome = true ↔ ∃ a, (s.thr t).pc = .wantLock a ∧ (s.mtx a).locked = false := by
  simp only [step]
  split
  · rename_i a hp
    split <;> simp_all
  · rename_i hn
    simp
    intro a hp; exact absurd hp (hn a)

/-- **Re-entrancy.** A thread that owns name `a` (executing anywhere inside its block) enters a
    nested block of name `a` by the table section and the decision alone — no `lock` event, so it
    cannot block — and the nested frame is marked as not having acquired the lock. The mutex
    state of `a` is unchanged. -/
theorem reentrant_no_block {s : State} (h : Reach s) (t a : Nat)
    (hp : (s.thr t).pc = .run) (hin : inBlock (s.thr t).stack a = true) :
    ∃ s1 s2, step s (.look t a) = some s1 ∧ step s1 (.decide t) = some s2 ∧
      s2.thr t = { s.thr t with stack := ⟨a, false⟩ :: (s.thr t).stack } ∧
      (s2.mtx a).locked = (s.mtx a).locked ∧ (s2.mtx a).owner = (s.mtx a).owner ∧
      (s2.mtx a).holder = (s.mtx a).holder := by
  have hi := inv_reach h
  have hacq := inBlock_hasAcq (hi.wf t).st hin
  have hown := ((hi.own a t).mp (by simp [Thread.ownerReg, hacq]))
  have ht : t ≠ 0 := hown.2
  have e1 : step s (.look t a) = some (setThr (setMtx s a { s.mtx a with created := true }) t
      { s.thr t with pc := .decide a (s.mtx a).owner }) := by
    simp only [step]; rw [if_pos ⟨ht, hp⟩]
  refine ⟨_, setThr (setMtx s a { s.mtx a with created := true }) t
      { s.thr t with pc := .run, stack := ⟨a, false⟩ :: (s.thr t).stack }, e1, ?_, ?_⟩
  · simp [step, hown.1, setThr]
    funext x; by_cases hx : x = t <;> simp [hx]
  · simp [hp]

/-- The decision is stable under interference: whatever other threads do between the table
    section and the comparison, a thread that is inside a block of name `a` finds itself as the
    owner (it takes the re-entrant branch), and a thread that is not finds another value (it
    takes the locking branch). -/
theorem decision_matches_ownership {s : State} (h : Reach s) (t a o : Nat)
    (hp : (s.thr t).pc = .decide a o) : (o = t ↔ inBlock (s.thr t).stack a = true) := by
  have hi := inv_reach h
  have := (hi.wf t).pc
  simp only [hp, pcWf] at this
  rw [this]
  constructor
  · intro hh
    unfold hasAcq at hh; unfold inBlock
    simp at hh ⊢
    obtain ⟨f, hf, hn, _⟩ := hh
    exact ⟨f, hf, hn⟩
  · exact inBlock_hasAcq (hi.wf t).st

/-- **Released on every way out.** Let thread `t` execute the body of its innermost block, whose
    frame is `⟨a, acq⟩`. For each outcome `k` (normal end, error, return, break, continue, panic;
    `step = stepD true`: the release is deferred — `outcome_matters_only_without_defer`) the exit is enabled and never blocks; if the frame acquired the lock, the exit
    (`bodyEnd`, `resetOwner`, `unlock`) ends with the mutex of `a` unlocked, owner 0, nobody
    holding it and the frame popped; if the frame was re-entrant, the pop leaves the mutex of `a`
    exactly as it was (still locked, still owned by `t`). -/
theorem released_on_every_exit {s : State} (h : Reach s) (t a : Nat) (acq : Bool) (rest : List Frame)
    (k : Outcome) (hp : (s.thr t).pc = .run) (hst : (s.thr t).stack = ⟨a, acq⟩ :: rest) :
    (acq = true →
      ∃ s1 s2 s3, step s (.bodyEnd t k) = some s1 ∧ step s1 (.resetOwner t) = some s2 ∧
        step s2 (.unlock t) = some s3 ∧
        (s3.mtx a).locked = false ∧ (s3.mtx a).owner = 0 ∧ (s3.mtx a).holder = none ∧
        (s3.thr t).pc = .run ∧ (s3.thr t).stack = rest ∧ inBlock rest a = false) ∧
    (acq = false →
      ∃ s1, step s (.bodyEnd t k) = some s1 ∧ s1.mtx = s.mtx ∧
        (s1.thr t).pc = .run ∧ (s1.thr t).stack = rest ∧
        (s.mtx a).locked = true ∧ (s.mtx a).owner = t ∧ hasAcq rest a = true) := by
  have hi := inv_reach h
  have hw := (hi.wf t).st
  simp only [hst, stackWf] at hw
  constructor
  · intro ha
    subst ha
    simp at hw
    have hnot : inBlock rest a = false := by
      cases hb : inBlock rest a with
      | false => rfl
      | true => have := inBlock_hasAcq hw.2 hb; simp [hw.1] at this
    have e1 : step s (.bodyEnd t k) = some (setThr s t
        { pc := .releasing a, stack := rest, rmw := clearRmw (s.thr t).rmw a }) := by
      simp only [step, hp, hst]; rfl
    refine ⟨_, setThr (setMtx s a { s.mtx a with owner := 0 }) t
        { pc := .unlocking a, stack := rest, rmw := clearRmw (s.thr t).rmw a },
      setThr (setMtx s a { s.mtx a with owner := 0, locked := false, holder := none }) t
        { pc := .run, stack := rest, rmw := clearRmw (s.thr t).rmw a }, e1, ?_, ?_, ?_⟩
    · simp [step, setThr, setMtx]
      funext x; by_cases hx : x = t <;> simp [hx]
    · simp [step, setThr, setMtx]
      constructor
      · funext x; by_cases hx : x = a <;> simp [hx]
      · funext x; by_cases hx : x = t <;> simp [hx]
    · simp [hnot]
  · intro ha
    subst ha
    simp at hw
    have hh : (s.thr t).holds a = true := by simp [Thread.holds, hst, hw.1]
    have hg := (hi.hold a t).mp hh
    have e1 : step s (.bodyEnd t k) = some (setThr s t { s.thr t with stack := rest }) := by
      simp only [step, hp, hst]; rfl
    refine ⟨_, e1, by simp, by simp [hp], by simp, ?_, ?_, hw.1⟩
    · exact (hi.lock a).mpr (by simp [hg])
    · exact ((hi.own a t).mp (by simp [Thread.ownerReg, hst, hw.1])).1

/-- The deferred release cannot get stuck half-way, whatever other threads do in between:
    its two steps are enabled whenever the thread is at them. -/
theorem release_steps_never_block (s : State) (t a : Nat) :
    ((s.thr t).pc = .releasing a → (step s (.resetOwner t)).isSome = true) ∧
    ((s.thr t).pc = .unlocking a → (step s (.unlock t)).isSome = true) := by
  constructor <;> intro hp <;> simp [step, hp]

/-- **A later entrant is never locked out (safety part; progress: `waiter_progress`).** No reachable state has a thread blocked at `mutex.Lock()`
    of name `a` while no thread holds `a`: if nobody holds it, the `lock` event of the waiting
    thread is enabled. (A thread holds `a` only while it is inside a block of `a` or inside the
    entry/exit protocol — `Thread.holds` — so a lock is never left behind by a thread that has
    gone, whatever the outcome of its body was.) -/
theorem later_entrant_gets_in {s : State} (h : Reach s) (t a : Nat)
    (hp : (s.thr t).pc = .wantLock a) (hfree : ∀ x, (s.thr x).holds a = false) :
    ∃ s', step s (.lock t) = some s' ∧ (s'.thr t).pc = .lockedNoOwner a := by
  have hi := inv_reach h
  have hl : (s.mtx a).locked = false := by
    cases hb : (s.mtx a).locked with
    | false => rfl
    | true =>
      have := (hi.lock a).mp hb
      cases hg : (s.mtx a).holder with
      | none => exact absurd hg this
      | some y => have := (hi.hold a y).mpr hg; simp [hfree y] at this
  have e1 : step s (.lock t) = some (setThr (setMtx s a { s.mtx a with locked := true, holder := some t }) t
      { s.thr t with pc := .lockedNoOwner a }) := by
    simp only [step, hp]; rw [if_pos hl]
  exact ⟨_, e1, by simp⟩

/-- a locked mutex always has a live holder, and a waiting thread is never the holder itself
    (no self-deadlock) -/
theorem locked_has_live_holder {s : State} (h : Reach s) (a : Nat) (hl : (s.mtx a).locked = true) :
    ∃ x, x ≠ 0 ∧ (s.thr x).holds a = true ∧ (s.thr x).pc ≠ .wantLock a := by
  have hi := inv_reach h
  have := (hi.lock a).mp hl
  cases hg : (s.mtx a).holder with
  | none => exact absurd hg this
  | some y =>
    have hh := (hi.hold a y).mpr hg
    refine ⟨y, ?_, hh, ?_⟩
    · intro e; subst e; rw [hi.zero] at hh; simp [Thread.holds, idle, pcHolds] at hh
    · intro hp
      have := (hi.wf y).pc
      simp [hp, pcWf] at this
      simp [Thread.holds, hp, pcHolds, this] at hh

/-- **Release, step by step.** In any reachable state — whatever other threads did since the
    body ended — the `unlock` step of a thread leaves the name free: unlocked, owner 0, no holder. -/
theorem unlock_frees_name {s s' : State} (h : Reach s) (t a : Nat)
    (hp : (s.thr t).pc = .unlocking a) (hs : step s (.unlock t) = some s') :
    (s'.mtx a).locked = false ∧ (s'.mtx a).owner = 0 ∧ (s'.mtx a).holder = none := by
  have hi := inv_reach h
  have hgt : (s.mtx a).holder = some t := (hi.hold a t).mp (by simp [Thread.holds, hp, pcHolds])
  have hacq : hasAcq (s.thr t).stack a = false := by
    have := (hi.wf t).pc; simpa [hp, pcWf] using this
  have ho : (s.mtx a).owner = 0 := by
    cases hx : (s.mtx a).owner with
    | zero => rfl
    | succ n =>
      have hreg := (hi.own a (n + 1)).mpr ⟨hx, by omega⟩
      have := (hi.hold a (n + 1)).mp (ownerReg_holds hreg)
      rw [hgt] at this
      have e : t = n + 1 := Option.some.inj this
      rw [← e] at hreg
      simp [Thread.ownerReg, hp, pcOwner, hacq] at hreg
  simp only [step, hp] at hs
  cases hs
  simp [ho]

/-- **Progress of a waiter.** In every reachable state a thread `t` that waits for the mutex of
    name `a` either can take it now, or the mutex is held by another thread `x` that is executing
    its body, or has an enabled protocol step of its own, or is itself waiting for a *different*
    name `b`. So the protocol alone never blocks anybody for good: a wait cycle needs at least two
    names, taken in conflicting orders by the program. -/
theorem waiter_progress {s : State} (h : Reach s) (t a : Nat) (hp : (s.thr t).pc = .wantLock a) :
    (step s (.lock t)).isSome = true ∨
    ∃ x, x ≠ t ∧ (s.thr x).holds a = true ∧
      ((s.thr x).pc = .run ∨ (∃ e, thread e = x ∧ (step s e).isSome = true) ∨
        ∃ b, b ≠ a ∧ (s.thr x).pc = .wantLock b) := by
  cases hl : (s.mtx a).locked with
  | false => left; simp [step, hp, hl]
  | true =>
    right
    obtain ⟨x, _, hh, hne⟩ := locked_has_live_holder h a hl
    have hxt : x ≠ t := by intro e; subst e; exact hne hp
    refine ⟨x, hxt, hh, ?_⟩
    cases hpx : (s.thr x).pc with
    | run => left; rfl
    | decide a' o =>
      right; left; refine ⟨.decide x, rfl, ?_⟩
      simp only [step, hpx]; split <;> rfl
    | wantLock b =>
      right; right; refine ⟨b, ?_, rfl⟩
      intro e; subst e; exact hne hpx
    | lockedNoOwner b => right; left; exact ⟨.setOwner x, rfl, by simp [step, hpx]⟩
    | releasing b => right; left; exact ⟨.resetOwner x, rfl, by simp [step, hpx]⟩
    | unlocking b => right; left; exact ⟨.unlock x, rfl, by simp [step, hpx]⟩

/-- Single-name corollary: if all waiting in the system is for one name `a`, then whenever some
    thread waits for `a`, either the waiter can take the lock now, or the thread that HOLDS `a`
    is executing its body or has an enabled protocol step of its own — the protocol never leaves
    the holder of the only contended name stuck. (The conclusion is about the holder: that *some*
    event is enabled would be true in every state, an idle thread can always `look`.) -/
theorem single_name_no_deadlock {s : State} (h : Reach s) (t a : Nat)
    (hp : (s.thr t).pc = .wantLock a) (hone : ∀ x b, (s.thr x).pc = .wantLock b → b = a) :
    (step s (.lock t)).isSome = true ∨
    ∃ x, x ≠ t ∧ (s.thr x).holds a = true ∧
      ((s.thr x).pc = .run ∨ ∃ e, thread e = x ∧ (step s e).isSome = true) := by
  rcases waiter_progress h t a hp with h1 | ⟨x, hxt, hh, h2 | ⟨e, he1, he2⟩ | ⟨b, hb, hpb⟩⟩
  · exact Or.inl h1
  · exact Or.inr ⟨x, hxt, hh, Or.inl h2⟩
  · exact Or.inr ⟨x, hxt, hh, Or.inr ⟨e, he1, he2⟩⟩
  · exact absurd (hone x b hpb) hb

/-- the vacuous form, for the record: an unrelated idle thread can always start a block -/
example (s : State) (t a : Nat) (ht : t ≠ 0) (hp : (s.thr t).pc = .run) :
    (step s (.look t a)).isSome = true := by simp [step, ht, hp]

/-- A thread that waits for a mutex can do nothing else: the only event of its own that can be
    enabled is `lock`. -/
theorem waiting_thread_only_lock {s : State} {t a : Nat} {e : Event}
    (hp : (s.thr t).pc = .wantLock a) (ht : thread e = t) (he : (step s e).isSome = true) :
    e = .lock t := by
  cases e <;> simp only [thread] at ht <;> subst ht <;> simp [step, hp] at he ⊢

/-- **No deadlock when names are nested in one global order.** Let `s` be reachable, let all names
    anybody waits for lie below some bound `N` (the program has finitely many names), and let every
    thread nest names in increasing order: a thread that waits for `b` holds only names `a < b`
    (a hypothesis about the PROGRAM — the protocol cannot enforce it). If some thread waits, then
    the system is not stuck, and not for a vacuous reason: some thread that is *inside the
    protocol* (its pc is not `run`, so this is not an unrelated idle thread starting a block) has
    an enabled step, or some thread that holds a name is executing its body. Proof: follow the
    chain waiter → holder → the name the holder waits for; names strictly increase along it and
    are bounded by `N` (`waiter_progress` at every link). -/
theorem ordered_names_no_deadlock {s : State} (h : Reach s) (N : Nat)
    (hbound : ∀ x b, (s.thr x).pc = .wantLock b → b < N)
    (hord : ∀ x a b, (s.thr x).pc = .wantLock b → (s.thr x).holds a = true → a < b)
    (t a : Nat) (hp : (s.thr t).pc = .wantLock a) :
    (∃ x e, thread e = x ∧ (s.thr x).pc ≠ .run ∧ (step s e).isSome = true) ∨
    (∃ x c, (s.thr x).pc = .run ∧ (s.thr x).holds c = true) := by
  have key : ∀ k, ∀ t a, N - a = k → (s.thr t).pc = .wantLock a →
      ((∃ x e, thread e = x ∧ (s.thr x).pc ≠ .run ∧ (step s e).isSome = true) ∨
       (∃ x c, (s.thr x).pc = .run ∧ (s.thr x).holds c = true)) := by
    intro k
    induction k using Nat.strongRecOn with
    | _ k ih =>
      intro t a hk hp
      rcases waiter_progress h t a hp with h1 | ⟨x, _, hh, h2 | ⟨e, he1, he2⟩ | ⟨b, hb, hpb⟩⟩
      · exact Or.inl ⟨t, .lock t, rfl, by simp [hp], h1⟩
      · exact Or.inr ⟨x, a, h2, hh⟩
      · by_cases hr : (s.thr x).pc = .run
        · exact Or.inr ⟨x, a, hr, hh⟩
        · exact Or.inl ⟨x, e, he1, hr, he2⟩
      · have hab : a < b := hord x a b hpb hh
        have hbN : b < N := hbound x b hpb
        have haN : a < N := hbound t a hp
        exact ih (N - b) (by omega) x b rfl hpb
  exact key (N - a) t a rfl hp

/-- non-vacuity: a reachable state with a waiter in which the hypotheses of
    `ordered_names_no_deadlock` hold (thread 1 is in the body of a block of name 0, thread 2 waits
    for name 0 and holds nothing; bound `N = 1`) -/
example : ∃ s, Reach s ∧ (s.thr 2).pc = .wantLock 0 ∧
    (∀ x b, (s.thr x).pc = .wantLock b → b < 1) ∧
    (∀ x a b, (s.thr x).pc = .wantLock b → (s.thr x).holds a = true → a < b) := by
  cases hs : run init [.look 1 0, .decide 1, .lock 1, .setOwner 1, .look 2 0, .decide 2] with
  | none => exact absurd hs (by decide)
  | some s =>
    have hr : Reach s := Reach.run Reach.init hs
    simp [run, step, init, idle, setThr, setMtx] at hs
    subst hs
    refine ⟨_, hr, by simp, ?_, ?_⟩
    · intro x b hx
      by_cases h2 : x = 2
      · subst h2; simp at hx; omega
      · by_cases h1 : x = 1
        · subst h1; simp at hx
        · simp [h2, h1] at hx
    · intro x a b hx hh
      by_cases h2 : x = 2
      · subst h2; simp [Thread.holds, pcHolds] at hh
      · by_cases h1 : x = 1
        · subst h1; simp at hx
        · simp [h2, h1] at hx

/-- **Without an order the clause cannot hold: two threads, two names.** Thread 1 holds name 0 and
    waits for name 1, thread 2 holds name 1 and waits for name 0 — a reachable state of the real
    protocol (`step`) in which neither `lock` is enabled; by `waiting_thread_only_lock` these
    two threads have no other event, so they wait forever. "A later entrant always gets in" is
    therefore a property of the protocol only relative to the program's nesting order
    (`ordered_names_no_deadlock`); this state violates the order hypothesis (thread 2 holds 1 and
    waits for 0). -/
theorem two_names_opposite_order_deadlock :
    (run init [.look 1 0, .decide 1, .lock 1, .setOwner 1, .look 2 1, .decide 2, .lock 2, .setOwner 2,
      .look 1 1, .decide 1, .look 2 0, .decide 2]).map
      (fun s => ((s.thr 1).pc, (s.thr 1).holds 0, (s.thr 2).pc, (s.thr 2).holds 1,
        (step s (.lock 1)).isSome, (step s (.lock 2)).isSome))
      = some (.wantLock 1, true, .wantLock 0, true, false, false) := by decide

/-- **No lost update.** A variable that is read and written only inside blocks of one name
    (`read`/`write` events are enabled only there; the increment is *not* atomic: any number of
    events of other threads may come between the read and the write) always holds the number of
    completed increments. -/
theorem no_lost_update {s : State} (h : Reach s) (a : Nat) : (s.mtx a).ctr = (s.mtx a).incs :=
  (inv_reach h).ctr a

/-- …because the value a thread has read is still the current value when it writes it back. -/
theorem read_value_is_current {s : State} (h : Reach s) (t a v : Nat)
    (hr : (s.thr t).rmw = some (a, v)) : v = (s.mtx a).ctr := (inv_reach h).rmwv t a v hr

/-! ### The model is not vacuous -/

/-- two threads, two increments each side of a hand-over, interleaved with a blocked attempt -/
example : ((run init [.look 1 0, .look 2 0, .decide 1, .decide 2, .lock 1, .setOwner 1, .read 1 0,
    .look 1 0, .decide 1, .write 1, .bodyEnd 1 .brk, .bodyEnd 1 .error, .resetOwner 1, .unlock 1,
    .lock 2, .setOwner 2, .read 2 0, .write 2, .bodyEnd 2 .ret, .resetOwner 2, .unlock 2]).map
    fun s => ((s.mtx 0).ctr, (s.mtx 0).locked, (s.mtx 0).owner)) = some (2, false, 0) := by decide

/-- blocking is real: while thread 1 is inside, thread 2's `lock` is not enabled -/
example : ((run init [.look 1 0, .look 2 0, .decide 1, .decide 2, .lock 1, .lock 2]).isSome) = false := by
  decide

/-- a counter may not be touched outside its blocks -/
example : (step init (.read 1 0)).isSome = false := by decide

/-! ### Facts about the source, re-extracted from `/repo` on every run

The ordered synchronisation skeleton of `mutexRuntime.Eval` (`Ecal.Gen.C12.skeleton`) is
regenerated and recorded in the evidence; a change of it is *not* a failure (restructuring the
function changes it) but makes the same run search harder. What the model relies on are the facts
below. Each is a list of classified observations with a three-valued verdict: `some false` =
refuted (an obligation fails), `none` = the extractor cannot tell for at least one observation
(the check searches harder and says so), `some true` = established. -/

/-- verdict of a classified list: refuted by one `bad` entry, unknown if any entry is neither -/
def verdict (good bad : String) (xs : List (String × String)) : Option Bool :=
  if xs.any (fun x => x.2 = bad) then some false
  else if xs.isEmpty || xs.any (fun x => x.2 != good) then none
  else some true

/-- **Table sections are atomic.** Every use of `erp.Mutexes` / `erp.MutexeOwners` anywhere in
    the tree — index, delete, len, range; in a callee the table is passed to; through a struct
    field it was stored in (alias: the debugger's `mutexeOwners`) — happens with `MutexesMutex`
    (or the alias of that lock handed over together with the table) held, and neither a table nor
    an alias is used as a plain value anywhere (that would be `unknown`). -/
theorem table_uses_under_table_lock :
    verdict "guarded" "unguarded" Ecal.Gen.C12.tableUses = some true := by decide

/-- **The release is deferred.** In `mutexRuntime.Eval` every `m.Lock()` on a local mutex is
    followed in the same statement list by an unconditional deferred `m.Unlock()`, with nothing
    in between that can leave the function (return, branch, loop: refuted; a call other than
    logging / table-lock operations: unknown), and no `m.Unlock()` that is not deferred. This is
    the `deferred = true` of `stepD`: the release runs on every outcome, panic included. -/
theorem unlock_deferred_on_acquiring_path :
    verdict "ok" "bad" Ecal.Gen.C12.releases ≠ some false := by decide

/-- **Order of the protocol steps and section boundaries** (read off the skeleton): `M.Lock`
    before `O[N]=tid`; `O[N]=0` before `M.Unlock` in the execution order of the deferred calls;
    `M[N]` written only when absent; `M.Lock`, `M.Unlock` and the body outside `MutexesMutex`
    sections (a blocking operation inside a section would make every name block every name);
    the key of every table access is the block's name token (two blocks exclude each other exactly
    when they carry the same name — the model's names ARE the table keys); the named mutex is
    acquired by one blocking `Lock()` (counted over the whole function, whatever its shape; any
    TryLock = refuted: polling or a bounded wait; no Lock at all = unknown). -/
theorem protocol_order_facts :
    verdict "true" "false" Ecal.Gen.C12.orderFacts ≠ some false := by decide

example : verdict "true" "false" [("a", "true"), ("b", "false")] = some false := by decide
example : verdict "true" "false" [("a", "true"), ("b", "unknown")] = none := by decide
example : verdict "true" "false" [("a", "true")] = some true := by decide

/-! #### Why these facts: the properties fail for the variant protocols -/

/-- Negative witness (`O[N]=0` *after* `M.Unlock`): thread 1 unlocks, thread 2 takes the lock and
    registers, then thread 1's late reset wipes thread 2's ownership; thread 2's next nested
    entry takes the locking branch and waits for the mutex it holds itself — a self-deadlock that
    is impossible in the real protocol (`locked_has_live_holder`). -/
theorem unlock_before_reset_self_deadlock :
    (runWith (stepV .unlockBeforeReset) init [.look 1 0, .decide 1, .lock 1, .setOwner 1, .bodyEnd 1 .normal,
      .unlock 1, .look 2 0, .decide 2, .lock 2, .setOwner 2, .resetOwner 1, .look 2 0, .decide 2]).map
      (fun s => ((s.thr 2).pc, inBlock (s.thr 2).stack 0, (s.mtx 0).holder, (s.mtx 0).owner,
        (step s (.lock 2)).isSome)) = some (.wantLock 0, true, some 2, 0, false) := by decide

/-- Negative witness (`O[N]=tid` *before* `M.Lock`): a waiting thread overwrites the owner; the
    thread inside no longer recognises itself and blocks on its own lock at the next nested entry. -/
theorem owner_before_lock_self_deadlock :
    (runWith (stepV .ownerBeforeLock) init [.look 1 0, .decide 1, .lock 1, .setOwner 1, .look 2 0, .decide 2,
      .setOwner 2, .look 1 0, .decide 1]).map
      (fun s => ((s.thr 1).pc, inBlock (s.thr 1).stack 0, (s.mtx 0).holder, (step s (.lock 1)).isSome))
      = some (.wantLock 0, true, some 1, false) := by decide

/-- Negative witness (`M.Lock` *inside* the table section): thread 2 waits for the named mutex
    while it holds `MutexesMutex`; thread 1, which has the named mutex, needs `MutexesMutex` for its
    release — both are stuck, with ONE name and no nesting: the holder of the only contended name
    neither runs its body nor has an enabled step (excluded for the real protocol by
    `single_name_no_deadlock`). The same variant makes every name block every name. -/
theorem lock_in_section_deadlock :
    (runWith (stepV .lockInSection) init [.look 1 0, .decide 1, .lock 1, .setOwner 1, .look 2 0, .decide 2,
      .bodyEnd 1 .normal]).map
      (fun s => ((s.thr 1).pc, (s.thr 2).pc, (stepV .lockInSection s (.lock 2)).isSome,
        (stepV .lockInSection s (.resetOwner 1)).isSome, (stepV .lockInSection s (.look 3 1)).isSome))
      = some (.releasing 0, .wantLock 0, false, false, false) := by decide

/-- Negative witness (release *not* deferred): a body that ends by an error leaves the mutex
    locked with nobody holding it; the next entrant waits forever. With the deferred release
    (`stepD true = step`) this cannot happen for any outcome: `released_on_every_exit`,
    `later_entrant_gets_in`. -/
theorem without_defer_error_leaks_lock :
    (runWith (stepD false) init [.look 1 0, .decide 1, .lock 1, .setOwner 1, .bodyEnd 1 .error,
      .look 2 0, .decide 2]).map
      (fun s => ((s.mtx 0).locked, (s.thr 1).holds 0, (s.thr 1).stack.length, (s.thr 2).pc,
        (stepD false s (.lock 2)).isSome)) = some (true, false, 0, .wantLock 0, false) := by decide

/-- … and the outcome matters only there: with the deferred release all six outcomes (normal end,
    error, return, break, continue, panic) do the same, without it only the normal end releases. -/
theorem outcome_matters_only_without_defer (s : State) (t : Nat) (k k' : Outcome) :
    stepD true s (.bodyEnd t k) = stepD true s (.bodyEnd t k') ∧
    stepD false s (.bodyEnd t .normal) = step s (.bodyEnd t .normal) := by
  constructor <;> simp [stepD, step]

/-! ### Thread ids are > 0 and pairwise distinct

`Ecal.Mutex` identifies a thread with its id. The ids come from `ThreadPool.NewThreadID`
(also behind `erp.NewThreadID`), modelled in `Ecal.ThreadId`. -/

/-- **Ids are distinct.** With the read and the increment of the counter inside one critical
    section, for any number of concurrent callers and every interleaving of their steps, the ids
    handed out are pairwise distinct and > 0. -/
theorem ids_distinct {s : ThreadId.State} (h : ThreadId.Reach true s) :
    s.issued.Nodup ∧ ∀ i, i ∈ s.issued → 0 < i := by
  have hi := ThreadId.inv_reach h
  exact ⟨hi.nodup, fun i hm => (hi.below i hm).1⟩

/-- Negative witness: the same two accesses *without* the common critical section ("load, then
    add", each atomic by itself) hand the same id to two callers. -/
theorem load_then_add_duplicates :
    (ThreadId.run false ThreadId.init [.acquire 1, .acquire 2, .load 1, .load 2, .add 1, .add 2,
      .release 1, .release 2]).map (·.issued) = some [1, 1] := by decide

/-- …and with the lock that interleaving is impossible (the second caller cannot enter). -/
example : (ThreadId.run true ThreadId.init [.acquire 1, .acquire 2]).isSome = false := by decide

/-- Negative witness: the protocol *with* a reset of the counter (after all callers have left,
    under the lock or not) hands out an id a second time — the first holder may still be using it. -/
theorem reset_reuses_ids :
    (ThreadId.runR true ThreadId.init [.acquire 1, .load 1, .add 1, .release 1, .reset,
      .acquire 2, .load 2, .add 2, .release 2]).map (·.issued) = some [1, 1] := by decide

/-- `ids_distinct` is about the protocol without reset: `step` never enables it. -/
theorem reset_not_in_protocol (locked : Bool) (s : ThreadId.State) :
    ThreadId.step locked s .reset = none := rfl

/-- Nothing in package `engine/pool` (regenerated on every run: `Ecal.Gen.C12.idCounterWrites`,
    every write to the id counter field in the whole package) assigns the id counter other than
    its initialisation in the constructor: it is only ever incremented, over every life-cycle of
    the pool (JoinAll, SetWorkerCount, restart). -/
theorem id_counter_monotone :
    ThreadId.counterMonotone Ecal.Gen.C12.idCounterWrites = some true := by decide

example : ThreadId.counterMonotone [("NewThreadID", "inc"), ("JoinAll", "assign")] = some false := by decide
example : ThreadId.counterMonotone [("NewThreadID", "inc"), ("f", "unknown")] = none := by decide

/-- The first thread id handed out is ≥ 1 (regenerated: `Ecal.Gen.C12.idFirst` = the constructor's
    initial value of the counter, plus one if `NewThreadID` increments before it reads; `none` =
    cannot tell): thread id 0 is never handed out. With `tid = 0` the Go code would enter a released
    name without locking (`owner == tid`); the model forbids thread 0 (`step s (.look 0 a) = none`). -/
theorem first_thread_id_positive : Ecal.Gen.C12.idFirst ≠ some 0 := by decide

example (s : State) (a : Nat) : step s (.look 0 a) = none := by simp [step]

/-- **A thread is its id.** No call in the tree evaluates ECAL code with an integer literal as
    thread id (regenerated: `Ecal.Gen.C12.literalTids`, all packages, `Runtime.Eval` and
    `ECALFunction.Run`). (The one hit there was — the debugger's `inject` evaluated as "thread 999",
    so concurrent injections re-entered each other's blocks — is repaired in /repo f411ead: a fresh
    id per injection; harness mode J runs concurrent injections as ordinary cases.) -/
theorem no_literal_tid : Ecal.Gen.C12.literalTids = [] := by decide

/-- The shape of `NewThreadID` extracted from `/repo` on every run (`Ecal.Gen.C12.idSkeleton`):
    the read and the increment of the id counter happen inside ONE critical section (or are one
    atomic read-modify-write whose result is the id) — the protocol `ids_distinct` is about. -/
theorem newThreadID_is_one_critical_section :
    ThreadId.isAtomicAlloc Ecal.Gen.C12.idSkeleton = true := by decide

example : ThreadId.isAtomicAlloc ["aload", "aadd-unused"] = false := by decide
example : ThreadId.isAtomicAlloc ["lock", "read", "unlock", "lock", "inc", "unlock"] = false := by decide
example : ThreadId.isAtomicAlloc ["read", "lock", "inc", "unlock"] = false := by decide
example : ThreadId.isAtomicAlloc ["aadd-used"] = true := by decide
example : ThreadId.isAtomicAlloc ["lock", "read", "inc", "unlock"] = true := by decide

end Ecal.Props.C12
