import Ecal.Gen.C17
/-!
# C17 — source facts regenerated from the tree under test on every run

`harness C17 -tool extract` (go/ast, follows local definitions, writes to struct fields and calls of
functions of the same package) writes `Ecal/Gen/C17.lean`; the theorems below are re-checked on every
run. The facts are three-valued: only a positively REFUTED one breaks a theorem; what the extractor
cannot establish is listed in `notEstablished` / `openNotEstablished`, noted in the evidence, and
amplifies the tool / import cases of the same run. They are the assumptions under which the model
of `Props/C17.lean` speaks about the code; they are not counted as property theorems.
-/
namespace Ecal.Props.C17Facts

/-- **locator_roots_configured.** No `util.FileImportLocator` composite literal in cli, cli/tool,
    interpreter, util (outside tests) takes its `Root` from a value that went through a transformation
    whose discarded error would move the root to ANOTHER directory (`root, _ := filepath.EvalSymlinks(dir)`,
    `filepath.Abs`, … yield `""` = the process working directory on failure). Writes to the configuration
    field are followed: the default of `-dir` is `wd, _ := os.Getwd()`; if that fails the root is `""`,
    which denotes the same working directory the default stands for (relative instead of absolute), so
    for confinement it is the configured directory — it is reported as a remark, not refuted. -/
theorem locator_roots_configured : Ecal.Gen.C17.refuted = [] := by decide

/-- **resolve_opens_only_tested_path.** No other file access: among the calls reachable from
    `FileImportLocator.Resolve` (helpers of the package followed with their call site), none that touches the file
    system comes before the containment test or in the branch where it rejects, none is handed anything but the LOCAL
    variable that was tested (not a package-level variable / field, not a string put together apart from it, not
    the tested string rewritten by `os.ExpandEnv`, `strings.*`, `url.*Unescape`, …); `importRuntime.Eval` and the
    functions it calls by name touch the file system not at all. This is what lets `resolve`'s `.opened q` stand
    for the only file access. -/
theorem resolve_opens_only_tested_path : Ecal.Gen.C17.openRefuted = [] := by decide

/-- **import_facts_not_refuted.** The receiver of `Resolve` in `importRuntime.Eval` is not found to be anything but the
    provider's configured locator, its argument not anything but `fmt.Sprint` of the path value, and the Root of the
    locator built by `CreateRuntimeProvider` not anything but the configured directory value. (`none` — not
    established — passes here and is reported in the evidence; the conditional theorem
    `import_statement_confined` needs `some true`.) -/
theorem import_facts_not_refuted :
    Ecal.Gen.C17.receiverFact ≠ some false ∧ Ecal.Gen.C17.argumentFact ≠ some false ∧
      Ecal.Gen.C17.toolRootFact ≠ some false := by decide

end Ecal.Props.C17Facts
