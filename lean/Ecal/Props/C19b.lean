import Ecal.Props.C19
/-!
# C19, second part — conversion for all numeric kinds uniformly, the deferred handler, descriptive errors

Round 5 (proofs only). Nothing here changes a definition the driver runs; the refined definitions of
this file (`runD`, errors with data) are tied to the driver's model by erasure theorems (`runD_erase`).
-/
namespace Ecal.Props.C19
open Ecal.Bridge

/-! ## Numeric arguments: all 13 numeric kinds, both directions, one theorem -/

/-- the 13 numeric kinds of Go parameters: the eleven integer kinds, float32, float64 -/
inductive NumKind where
  | int (k : IntKind)
  | f32
  | f64
  deriving DecidableEq, Repr

def NumKind.ty : NumKind → Ty
  | .int k => .int k
  | .f32 => .f32
  | .f64 => .f64

def NumKind.all : List NumKind := IntKind.all.map NumKind.int ++ [.f32, .f64]

/-- `all` has the 13 kinds and misses none. -/
theorem NumKind.all_complete : NumKind.all.length = 13 ∧ ∀ k : NumKind, k ∈ NumKind.all := by
  refine ⟨by decide, ?_⟩
  intro k
  cases k with
  | int k => cases k <;> decide
  | f32 => decide
  | f64 => decide

/-- The Go value an ECAL number `x` is for a parameter of numeric kind `k` — if there is one: for an
    integer kind the truncation towards zero, provided it lies in the kind's range (NaN, ±Inf and
    everything outside have none); for float32 the IEEE rounding; for float64 the number itself. -/
def NumKind.convert (k : NumKind) (x : Num) : Option Val :=
  match k with
  | .int ik =>
    match x.trunc with
    | some n => if ik.inRange n then some (.int ik n) else none
    | none => none
  | .f32 => some (.f32 x.toF32)
  | .f64 => some (.f64 x)

/-- **Conversion of a numeric argument, every kind, both directions** (the loop body of `Run` for one
    argument): for each of the 13 numeric parameter kinds and EVERY float64 `x` — whatever the
    platform's out-of-range oracle — the argument is accepted as exactly `k.convert x` when that exists
    (in range ⇒ exact), and is answered with an error when it does not (out of range ⇒ error). -/
theorem numeric_argument_conversion (oob : IntKind → Num → Int) (k : NumKind) (x : Num) :
    checkArg oob k.ty (.f64 x) =
      match k.convert x with
      | some v => .accept v
      | none => .error := by
  cases k with
  | int ik =>
    cases ht : x.trunc with
    | none => simp [NumKind.ty, NumKind.convert, ht, checkArg, outOfRange, numberFits]
    | some n =>
      by_cases hr : ik.inRange n = true
      · simp [NumKind.ty, NumKind.convert, ht, hr, checkArg, outOfRange, numberFits, checkArgCore,
          convertNumber, Val.ty]
      · simp [NumKind.ty, NumKind.convert, ht, hr, checkArg, outOfRange, numberFits]
  | f32 => simp [NumKind.ty, NumKind.convert, checkArg, outOfRange, numberFits, checkArgCore, convertNumber, Val.ty]
  | f64 => simp [NumKind.ty, NumKind.convert, checkArg, outOfRange, numberFits, checkArgCore, convertNumber, Val.ty]

/-- … and through `Run`, for a function `func(p K) …` of any results and any body: in range the
    function is reached with exactly the converted value (and `Run` returns what the body makes of it);
    out of range the call is a bridge error and the function is not run. -/
theorem numeric_conversion_all_kinds (oob : IntKind → Num → Int) (k : NumKind) (x : Num) (rs : List Ty)
    (body : List Val → BodyOut) :
    match k.convert x with
    | some v => reaches oob ⟨[k.ty], false, rs⟩ [.f64 x] = some [v] ∧
        run shape oob (.fn ⟨[k.ty], false, rs⟩ body) [.f64 x] = finish shape ⟨[k.ty], false, rs⟩ (body [v])
    | none => reaches oob ⟨[k.ty], false, rs⟩ [.f64 x] = none ∧
        IsBridgeError (run shape oob (.fn ⟨[k.ty], false, rs⟩ body) [.f64 x]) := by
  have hc := numeric_argument_conversion oob k x
  cases hv : k.convert x with
  | some v =>
    simp only [hv] at hc ⊢
    have hty : v.ty = some k.ty := by
      cases k with
      | int ik =>
        simp only [NumKind.convert] at hv
        split at hv
        · split at hv <;> simp at hv; subst hv; rfl
        · simp at hv
      | f32 => simp [NumKind.convert] at hv; subst hv; rfl
      | f64 => simp [NumKind.convert] at hv; subst hv; rfl
    have hr : reaches oob ⟨[k.ty], false, rs⟩ [.f64 x] = some [v] := by
      simp [reaches, buildArgs, hc, callCheck, allAssignable, valAssignable, hty, assignable]
    exact ⟨hr, reaching_runs_body hr body⟩
  | none =>
    simp only [hv] at hc ⊢
    have hr : reaches oob ⟨[k.ty], false, rs⟩ [.f64 x] = none := by
      simp [reaches, buildArgs, hc]
    refine ⟨hr, ?_⟩
    obtain ⟨e, he, hrun⟩ := not_reaching_is_error hr
    exact ⟨e, hrun body, he⟩

/-- Non-vacuity, both directions, three kinds: 127 and -128.5 fit an int8 (as 127 and -128), -1289 and 128 do
    not, nor does NaN; 0.1 becomes the nearest float32; 2^63 fits a uint64 but not an int64. -/
example : (NumKind.int .int8).convert (.fin 127 0) = some (.int .int8 127) ∧
    (NumKind.int .int8).convert (.fin (-2578) (-1)) = none ∧
    (NumKind.int .int8).convert (.fin (-257) (-1)) = some (.int .int8 (-128)) ∧
    (NumKind.int .int8).convert (.fin 128 0) = none ∧
    (NumKind.int .int8).convert .nan = none ∧
    NumKind.f32.convert (.fin 3602879701896397 (-55)) = some (.f32 (.fin 13421773 (-27))) ∧
    (NumKind.int .uint64).convert (.fin 1 63) = some (.int .uint64 (2 ^ 63)) ∧
    (NumKind.int .int64).convert (.fin 1 63) = none := by decide

/-! ## The deferred function of `Run` cannot panic itself -/

/-- what a Go function can panic with, as far as the deferred function of `Run` can tell apart -/
inductive PanicValue where
  | nilValue        -- `panic(nil)` with the go < 1.21 semantics: `recover()` returns nil
  | plain           -- a value that is no error (a string, a number, a struct …)
  | error           -- an error whose `Error()` returns (runtime errors, `fmt.Errorf` values, *PanicNilError …)
  | errorPanics     -- an error whose `Error()` panics (a broken implementation)
  | typedNilError   -- a nil pointer of a type whose `Error()` dereferences its receiver (`var e *myErr; panic(e)`)
  deriving DecidableEq, Repr

def PanicValue.all : List PanicValue := [.nilValue, .plain, .error, .errorPanics, .typedNilError]

/-- how the deferred function turns the recovered value into the text of the error -/
inductive Formatting where
  | fmtV          -- `fmt.Errorf("Error: %v", r)`: the code. fmt calls `Error()` under a recover of its own
                  -- (`catchPanic`: "<nil>" for a nil receiver, "%!v(PANIC=Error method: …)" otherwise)
  | errorMethod   -- `r.(error).Error()` called by the deferred function itself (seeded change C19d-1)
  deriving DecidableEq, Repr

inductive HandlerOut where
  | errAssigned     -- the named result `err` was assigned: `Run` returns `(nil, error)`
  | nothing         -- `recover()` returned nil and nothing else is tested: `Run` returns `(nil, nil)`
  | panics          -- the deferred function panicked itself: the panic leaves `Run`
  deriving DecidableEq, Repr

/-- `if r := recover(); r != nil || !finished { err = <text of r> }` for a `Run` that did not finish;
    `flag` = the completion flag is tested (`Shape.nilPanicReported`) -/
def handler (f : Formatting) (flag : Bool) : PanicValue → HandlerOut
  | .nilValue => if flag then .errAssigned else .nothing          -- r == nil: only the flag notices
  | .plain => .errAssigned
  | .error => .errAssigned
  | .errorPanics => match f with | .fmtV => .errAssigned | .errorMethod => .panics
  | .typedNilError => match f with | .fmtV => .errAssigned | .errorMethod => .panics

/-- the `BodyOut` a panic value amounts to in the model the driver runs -/
def PanicValue.bodyOut : PanicValue → BodyOut
  | .nilValue => .panicNil
  | _ => .panic

/-- what `Run` returns when its body panicked with `pv`, read off the handler -/
def afterHandler (sh : Shape) (f : Formatting) (pv : PanicValue) : Outcome :=
  if sh.recovers then
    match handler f sh.nilPanicReported pv with
    | .errAssigned => .done (.one .nil) (some .recovered)
    | .nothing => .done (.one .nil) none
    | .panics => .escaped
  else .escaped

/-- **The deferred function cannot panic itself** — for every kind of panic value, also a typed nil
    error and an error whose `Error()` panics, because the text is produced by fmt's `%v` (which guards
    the `Error()` call); with the completion flag it always assigns the error. About the MODEL of the
    handler: that the source formats with `%v` and calls nothing else on the recovered value is not a
    regenerated fact — it is tied by the differential run (panic values typed-nil / bad `Error()` in
    synthetic and plugin functions; seeded change C19d-1 is caught there). fmt's guard is trusted (it
    re-panics only if printing the PANIC VALUE of `Error()` panics again). -/
theorem deferred_handler_cannot_panic (flag : Bool) (pv : PanicValue) :
    handler .fmtV flag pv ≠ .panics ∧ handler .fmtV true pv = .errAssigned := by
  cases pv <;> cases flag <;> simp [handler]

/-- The handler model is the one behind the model the driver runs: what `finish` (the tail of `run`,
    `reaching_runs_body`) returns for a panicking body is exactly what the handler with `%v` yields, for
    every panic value, every shape and every signature. -/
theorem finish_is_handler (sh : Shape) (sig : Sig) (pv : PanicValue) :
    finish sh sig pv.bodyOut = afterHandler sh .fmtV pv := by
  cases pv <;> cases hr : sh.recovers <;> cases hn : sh.nilPanicReported <;>
    simp [finish, afterHandler, handler, PanicValue.bodyOut, hr, hn]

/-- Hence: with the regenerated facts, a body panicking with ANY of the modelled panic values ends in
    `(nil, error)` — never in an escaped panic, never in a silent NULL. -/
theorem any_panic_value_is_error (sig : Sig) (pv : PanicValue) :
    finish shape sig pv.bodyOut = .done (.one .nil) (some .recovered) := by
  rw [finish_is_handler]
  have h := (deferred_handler_cannot_panic true pv).2
  simp [afterHandler, shape_recovers, shape_nil_panic_reported, h]

/-- With `r.(error).Error()` called by the deferred function itself, a typed nil error escapes. -/
example : afterHandler shape .errorMethod .typedNilError = .escaped := by decide

/-! ## "A descriptive error": the bridge's own errors carry position and counts

`Run`'s three explicit errors are `fmt.Errorf` texts built from DATA: "Too many parameters - got %v
expected %v" (`len(args)`, `NumIn()`), "Parameter %v should be of type %v but is of type %v" (`i+1`, the
parameter type, the type of the converted argument), "Parameter %v should be of type %v but the number
%v is out of its range". The model the driver runs keeps only the class (`BridgeErr`). `buildArgsD`
below is the same loop with the data kept; `buildArgsD_erase` ties it to `buildArgs`, and the theorems
say that the data is RIGHT: the reported position is the first offending argument, the reported types
and numbers are that argument's, the reported counts are the call's. (The texts themselves are never
compared by the check — this gives the clause "a descriptive error" a formal reading in the model.) -/

/-- the data of the three explicit errors of `Run` -/
inductive DErr where
  | tooMany (got expected : Nat)
  | wrongType (pos : Nat) (expected : Ty) (given : Option Ty)      -- `pos` counts from 1, as the text does
  | outOfRange (pos : Nat) (expected : Ty) (x : Num)
  deriving DecidableEq, Repr

inductive BuildD where
  | ok (fargs : List Val)
  | error (e : DErr)
  | panic (pos : Nat)            -- `givenType.Kind()` on NULL for an interface parameter, at this position
  deriving DecidableEq, Repr

def DErr.erase : DErr → BridgeErr
  | .tooMany _ _ => .tooMany
  | .wrongType _ _ _ => .wrongType
  | .outOfRange _ _ _ => .wrongType

def BuildD.erase : BuildD → Build
  | .ok f => .ok f
  | .error e => .error e.erase
  | .panic _ => .panic

/-- the argument after `convertNumber` (what `reflect.TypeOf(arg)` in the error text is taken of) -/
def convertedArg (oob : IntKind → Num → Int) (p : Ty) : Val → Val
  | .f64 x => convertNumber oob x p
  | a => a

/-- the argument loop of `Run` with the data of its errors: `got = len(args)`, `numIn = NumIn()`,
    `i` = the index of the first argument of this call of the function -/
def buildArgsD (oob : IntKind → Num → Int) (got numIn : Nat) : Nat → List Ty → List Val → BuildD
  | _, _, [] => .ok []
  | _, [], _ :: _ => .error (.tooMany got numIn)
  | i, p :: ps, a :: as =>
    if outOfRange p a then
      .error (match a with | .f64 x => .outOfRange (i + 1) p x | _ => .wrongType (i + 1) p a.ty)
    else
      match checkArgCore oob p a with
      | .accept v =>
        match buildArgsD oob got numIn (i + 1) ps as with
        | .ok vs => .ok (v :: vs)
        | r => r
      | .error => .error (.wrongType (i + 1) p (convertedArg oob p a).ty)
      | .panic => .panic (i + 1)

/-- **Tie to the model the driver runs**: forgetting the data gives exactly `buildArgs`. -/
theorem buildArgsD_erase (oob : IntKind → Num → Int) (got numIn : Nat) :
    ∀ (ps : List Ty) (i : Nat) (as : List Val),
      (buildArgsD oob got numIn i ps as).erase = buildArgs true oob ps as := by
  intro ps
  induction ps with
  | nil =>
    intro i as
    cases as <;> simp [buildArgsD, buildArgs, BuildD.erase, DErr.erase]
  | cons p ps ih =>
    intro i as
    cases as with
    | nil => simp [buildArgsD, buildArgs, BuildD.erase]
    | cons a as =>
      simp only [buildArgsD, buildArgs, checkArg]
      by_cases ho : outOfRange p a = true
      · simp only [ho, if_true]
        cases a <;> simp [BuildD.erase, DErr.erase]
      · simp only [ho]
        cases hc : checkArgCore oob p a with
        | accept v =>
          have hi := ih (i + 1) as
          cases hd : buildArgsD oob got numIn (i + 1) ps as with
          | ok f => rw [hd] at hi; simp only [BuildD.erase] at hi; simp [← hi, BuildD.erase]
          | error e => rw [hd] at hi; simp only [BuildD.erase] at hi; simp [← hi, BuildD.erase]
          | panic q => rw [hd] at hi; simp only [BuildD.erase] at hi; simp [← hi, BuildD.erase]
        | error => simp [BuildD.erase, DErr.erase]
        | panic => simp [BuildD.erase]

/-- what the data of an error must be to be RIGHT for the call `params`, `args` (positions from `i`) -/
def DErr.RightFor (oob : IntKind → Num → Int) (got numIn i : Nat) (ps : List Ty) (as : List Val) : DErr → Prop
  | .tooMany g n =>
    -- the counts are the call's, there are more arguments than parameters, and every parameter got
    -- an acceptable argument (the surplus is the only thing wrong)
    g = got ∧ n = numIn ∧ ps.length < as.length ∧ ∃ f, buildArgs true oob ps (as.take ps.length) = .ok f
  | .wrongType pos exp giv =>
    -- `pos` is the FIRST offending argument: it has the reported parameter type, its (converted) type is
    -- the reported one, it is rejected, and everything before it was accepted
    ∃ j a, pos = i + j + 1 ∧ ps[j]? = some exp ∧ as[j]? = some a ∧ giv = (convertedArg oob exp a).ty ∧
      Ecal.Bridge.outOfRange exp a = false ∧ checkArgCore oob exp a = .error ∧
      ∃ f, buildArgs true oob (ps.take j) (as.take j) = .ok f
  | .outOfRange pos exp x =>
    ∃ j, pos = i + j + 1 ∧ ps[j]? = some exp ∧ as[j]? = some (.f64 x) ∧ numberFits x exp = false ∧
      ∃ f, buildArgs true oob (ps.take j) (as.take j) = .ok f

theorem buildArgs_cons_ok {oob : IntKind → Num → Int} {p : Ty} {ps : List Ty} {a v : Val} {as f : List Val}
    (ho : outOfRange p a = false) (hc : checkArgCore oob p a = .accept v)
    (hf : buildArgs true oob ps as = .ok f) : buildArgs true oob (p :: ps) (a :: as) = .ok (v :: f) := by
  simp [buildArgs, checkArg, ho, hc, hf]

/-- **The data of every explicit error of the argument loop is right** — for every parameter list,
    argument vector and starting index: the counts of "too many" are the call's and the surplus is the
    only thing wrong; the position of a type / range error is the FIRST offending argument, the reported
    parameter type, argument type and number are that position's, and everything before it was accepted. -/
theorem buildArgsD_error_right (oob : IntKind → Num → Int) (got numIn : Nat) :
    ∀ (ps : List Ty) (i : Nat) (as : List Val) (e : DErr),
      buildArgsD oob got numIn i ps as = .error e → e.RightFor oob got numIn i ps as := by
  intro ps
  induction ps with
  | nil =>
    intro i as e h
    cases as with
    | nil => simp [buildArgsD] at h
    | cons a as =>
      simp [buildArgsD] at h; subst h
      exact ⟨rfl, rfl, by simp, ⟨[], by simp [buildArgs]⟩⟩
  | cons p ps ih =>
    intro i as e h
    cases as with
    | nil => simp [buildArgsD] at h
    | cons a as =>
      simp only [buildArgsD] at h
      by_cases ho : outOfRange p a = true
      · simp only [ho, if_true] at h
        cases a with
        | f64 x =>
          simp at h; subst h
          refine ⟨0, by omega, by simp, by simp, ?_, ⟨[], by simp [buildArgs]⟩⟩
          simpa [outOfRange] using ho
        | _ => simp [outOfRange] at ho
      · have ho' : outOfRange p a = false := by simpa using ho
        simp only [ho] at h
        cases hc : checkArgCore oob p a with
        | panic => simp [hc] at h
        | error =>
          simp [hc] at h; subst h
          exact ⟨0, a, by omega, by simp, by simp, rfl, ho', hc, ⟨[], by simp [buildArgs]⟩⟩
        | accept v =>
          simp only [hc] at h
          cases hd : buildArgsD oob got numIn (i + 1) ps as with
          | ok f => simp [hd] at h
          | panic q => simp [hd] at h
          | error e' =>
            simp [hd] at h; subst h
            have hr := ih (i + 1) as e' hd
            cases e' with
            | tooMany g n =>
              obtain ⟨h1, h2, h3, f, hf⟩ := hr
              refine ⟨h1, h2, by simp; omega, ⟨v :: f, ?_⟩⟩
              simpa using buildArgs_cons_ok ho' hc hf
            | wrongType pos exp giv =>
              obtain ⟨j, b, h1, h2, h3, h4, h5, h6, f, hf⟩ := hr
              refine ⟨j + 1, b, by omega, by simpa using h2, by simpa using h3, h4, h5, h6, ⟨v :: f, ?_⟩⟩
              simpa using buildArgs_cons_ok ho' hc hf
            | outOfRange pos exp x =>
              obtain ⟨j, h1, h2, h3, h4, f, hf⟩ := hr
              refine ⟨j + 1, by omega, by simpa using h2, by simpa using h3, h4, ⟨v :: f, ?_⟩⟩
              simpa using buildArgs_cons_ok ho' hc hf

/-- the argument loop of a call with the data of its errors -/
def describe (oob : IntKind → Num → Int) (sig : Sig) (args : List Val) : BuildD :=
  buildArgsD oob args.length sig.params.length 0 sig.params args

theorem convertResults_err_not_bridge : ∀ (vals : List Val) (outs : List Ty) (b : BridgeErr),
    (convertResults vals outs).2 ≠ some (.bridge b) := by
  intro vals
  induction vals with
  | nil => intro outs b; simp [convertResults]
  | cons v vs ih =>
    intro outs b
    cases vs with
    | nil =>
      simp only [convertResults]
      split
      · split <;> simp
      · simp
    | cons v' vs' =>
      simp only [convertResults]
      exact ih outs.tail b

/-- **Every error `Run` makes itself is descriptive, with the right data** — in both directions, for
    every signature, body and argument vector. (→) If the argument loop ends in an explicit error `e`,
    `Run` returns `(nil, e)` (as class `e.erase` in the model the driver runs), the function is not run,
    and `e`'s data is right for the call (`DErr.RightFor`: the call's counts; the FIRST offending position,
    its parameter type, its argument's type / number). (←) Every error of class "bridge" that `Run` returns
    is such an `e`. The other errors of `Run` are the function's own error value and "Error: <panic
    value>" (recovered panics, `any_panic_value_is_error`). -/
theorem run_error_is_descriptive (oob : IntKind → Num → Int) (sig : Sig) (args : List Val)
    (body : List Val → BodyOut) :
    (∀ e, describe oob sig args = .error e →
      run shape oob (.fn sig body) args = .done (.one .nil) (some (.bridge e.erase)) ∧
      e.RightFor oob args.length sig.params.length 0 sig.params args) ∧
    (∀ r b, run shape oob (.fn sig body) args = .done r (some (.bridge b)) →
      ∃ e, describe oob sig args = .error e ∧ e.erase = b ∧
        e.RightFor oob args.length sig.params.length 0 sig.params args) := by
  have her := buildArgsD_erase oob args.length sig.params.length sig.params 0 args
  constructor
  · intro e he
    have hb : buildArgs true oob sig.params args = .error e.erase := by
      rw [← her]; unfold describe at he; rw [he]; rfl
    exact ⟨by simp [run, runRaw, shape_arity_checked, hb],
      buildArgsD_error_right oob _ _ sig.params 0 args e he⟩
  · intro r b hrun
    cases hd : describe oob sig args with
    | error e =>
      have hb : buildArgs true oob sig.params args = .error e.erase := by
        rw [← her]; unfold describe at hd; rw [hd]; rfl
      have : run shape oob (.fn sig body) args = .done (.one .nil) (some (.bridge e.erase)) := by
        simp [run, runRaw, shape_arity_checked, hb]
      rw [this] at hrun
      simp at hrun
      exact ⟨e, rfl, hrun.2, buildArgsD_error_right oob _ _ sig.params 0 args e hd⟩
    | ok f =>
      exfalso
      have hb : buildArgs true oob sig.params args = .ok f := by
        rw [← her]; unfold describe at hd; rw [hd]; rfl
      simp only [run, runRaw, shape_arity_checked, hb] at hrun
      split at hrun
      · rename_i r' e' heq
        split at heq
        · split at heq
          · simp at heq
          · simp at heq
          · simp at heq
            cases hrun
            exact convertResults_err_not_bridge _ _ b (by rw [← heq.2])
        · simp at heq
      · split at hrun <;> simp at hrun
      · split at hrun
        · split at hrun <;> simp at hrun
        · simp at hrun
    | panic q =>
      exfalso
      have hb : buildArgs true oob sig.params args = .panic := by
        rw [← her]; unfold describe at hd; rw [hd]; rfl
      simp [run, runRaw, shape_arity_checked, hb, shape_recovers] at hrun

/-- `f(a float64)` called with (1, "x"): "Too many parameters - got 2 expected 1". -/
example : describe (fun _ _ => 0) ⟨[.f64], false, []⟩ [.f64 (.fin 1 0), .str "s:78"] = .error (.tooMany 2 1) := by
  decide

/-- `f(a float64, b string, c bool)` called with (1, 2, NULL): "Parameter 2 should be of type string but is
    of type float64" — the FIRST offending argument, although the third is wrong too. -/
example : describe (fun _ _ => 0) ⟨[.f64, .str, .bool], false, []⟩ [.f64 (.fin 1 0), .f64 (.fin 2 0), .nil]
    = .error (.wrongType 2 .str (some .f64)) := by decide

/-- `f(a int8, b uint8)` called with (5, 256): "Parameter 2 should be of type uint8 but the number 256 is out
    of its range". -/
example : describe (fun _ _ => 0) ⟨[.int .int8, .int .uint8], false, []⟩ [.f64 (.fin 5 0), .f64 (.fin 256 0)]
    = .error (.outOfRange 2 (.int .uint8) (.fin 256 0)) := by decide

end Ecal.Props.C19
