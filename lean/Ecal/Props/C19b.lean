import Ecal.Props.C19
/-!
# C19, second part — conversion for all numeric kinds uniformly, the deferred handler, descriptive errors

Round 5 (proofs only). Nothing here changes a definition the driver runs; the refined definitions of
this file (`runD`, errors with data) are tied to the driver's model by erasure theorems (`runD_erase`).
-/
namespace Ecal.Props.C19
open Ecal.Bridge

/-! ## Numeric arguments: all 13 numeric kinds, both directions, one theorem -/

/-- the 13 numeric kinds of Go parameters: the eleven integer kinds, float32, float64 -/
inductive NumKind where
  | int (k : IntKind)
  | f32
  | f64
  deriving DecidableEq, Repr

def NumKind.ty : NumKind → Ty
  | .int k => .int k
  | .f32 => .f32
  | .f64 => .f64

def NumKind.all : List NumKind := IntKind.all.map NumKind.int ++ [.f32, .f64]

/-- `all` has the 13 kinds and misses none. -/
theorem NumKind.all_complete : NumKind.all.length = 13 ∧ ∀ k : NumKind, k ∈ NumKind.all := by
  refine ⟨by decide, ?_⟩
  intro k
  cases k with
  | int k => cases k <;> decide
  | f32 => decide
  | f64 => decide

/-- The Go value an ECAL number `x` is for a parameter of numeric kind `k` — if there is one: for an
    integer kind the truncation towards zero, provided it lies in the kind's range (NaN, ±Inf and
    everything outside have none); for float32 the IEEE rounding; for float64 the number itself. -/
def NumKind.convert (k : NumKind) (x : Num) : Option Val :=
  match k with
  | .int ik =>
    match x.trunc with
    | some n => if ik.inRange n then some (.int ik n) else none
    | none => none
  | .f32 => some (.f32 x.toF32)
  | .f64 => some (.f64 x)

/-- **Conversion of a numeric argument, every kind, both directions** (the loop body of `Run` for one
    argument): for each of the 13 numeric parameter kinds and EVERY float64 `x` — whatever the
    platform's out-of-range oracle — the argument is accepted as exactly `k.convert x` when that exists
    (in range ⇒ exact), and is answered with an error when it does not (out of range ⇒ error). -/
theorem numeric_argument_conversion (oob : IntKind → Num → Int) (k : NumKind) (x : Num) :
    checkArg oob k.ty (.f64 x) =
      match k.convert x with
      | some v => .accept v
      | none => .error := by
  cases k with
  | int ik =>
    cases ht : x.trunc with
    | none => simp [NumKind.ty, NumKind.convert, ht, checkArg, outOfRange, numberFits]
    | some n =>
      by_cases hr : ik.inRange n = true
      · simp [NumKind.ty, NumKind.convert, ht, hr, checkArg, outOfRange, numberFits, checkArgCore,
          convertNumber, Val.ty]
      · simp [NumKind.ty, NumKind.convert, ht, hr, checkArg, outOfRange, numberFits]
  | f32 => simp [NumKind.ty, NumKind.convert, checkArg, outOfRange, numberFits, checkArgCore, convertNumber, Val.ty]
  | f64 => simp [NumKind.ty, NumKind.convert, checkArg, outOfRange, numberFits, checkArgCore, convertNumber, Val.ty]

/-- … and through `Run`, for a function `func(p K) …` of any results and any body: in range the
    function is reached with exactly the converted value (and `Run` returns what the body makes of it);
    out of range the call is a bridge error and the function is not run. -/
theorem numeric_conversion_all_kinds (oob : IntKind → Num → Int) (k : NumKind) (x : Num) (rs : List Ty)
    (body : List Val → BodyOut) :
    match k.convert x with
    | some v => reaches oob ⟨[k.ty], false, rs⟩ [.f64 x] = some [v] ∧
        run shape oob (.fn ⟨[k.ty], false, rs⟩ body) [.f64 x] = finish shape ⟨[k.ty], false, rs⟩ (body [v])
    | none => reaches oob ⟨[k.ty], false, rs⟩ [.f64 x] = none ∧
        IsBridgeError (run shape oob (.fn ⟨[k.ty], false, rs⟩ body) [.f64 x]) := by
  have hc := numeric_argument_conversion oob k x
  cases hv : k.convert x with
  | some v =>
    simp only [hv] at hc ⊢
    have hty : v.ty = some k.ty := by
      cases k with
      | int ik =>
        simp only [NumKind.convert] at hv
        split at hv
        · split at hv <;> simp at hv; subst hv; rfl
        · simp at hv
      | f32 => simp [NumKind.convert] at hv; subst hv; rfl
      | f64 => simp [NumKind.convert] at hv; subst hv; rfl
    have hr : reaches oob ⟨[k.ty], false, rs⟩ [.f64 x] = some [v] := by
      simp [reaches, buildArgs, hc, callCheck, allAssignable, valAssignable, hty, assignable]
    exact ⟨hr, reaching_runs_body hr body⟩
  | none =>
    simp only [hv] at hc ⊢
    have hr : reaches oob ⟨[k.ty], false, rs⟩ [.f64 x] = none := by
      simp [reaches, buildArgs, hc]
    refine ⟨hr, ?_⟩
    obtain ⟨e, he, hrun⟩ := not_reaching_is_error hr
    exact ⟨e, hrun body, he⟩

/-- Non-vacuity, both directions, three kinds: 127 and -128.5 fit an int8 (as 127 and -128), -1289 and 128 do
    not, nor does NaN; 0.1 becomes the nearest float32; 2^63 fits a uint64 but not an int64. -/
example : (NumKind.int .int8).convert (.fin 127 0) = some (.int .int8 127) ∧
    (NumKind.int .int8).convert (.fin (-2578) (-1)) = none ∧
    (NumKind.int .int8).convert (.fin (-257) (-1)) = some (.int .int8 (-128)) ∧
    (NumKind.int .int8).convert (.fin 128 0) = none ∧
    (NumKind.int .int8).convert .nan = none ∧
    NumKind.f32.convert (.fin 3602879701896397 (-55)) = some (.f32 (.fin 13421773 (-27))) ∧
    (NumKind.int .uint64).convert (.fin 1 63) = some (.int .uint64 (2 ^ 63)) ∧
    (NumKind.int .int64).convert (.fin 1 63) = none := by decide

/-! ## The deferred function of `Run` cannot panic itself -/

/-- what a Go function can panic with, as far as the deferred function of `Run` can tell apart -/
inductive PanicValue where
  | nilValue        -- `panic(nil)` with the go < 1.21 semantics: `recover()` returns nil
  | plain           -- a value that is no error (a string, a number, a struct …)
  | error           -- an error whose `Error()` returns (runtime errors, `fmt.Errorf` values, *PanicNilError …)
  | errorPanics     -- an error whose `Error()` panics (a broken implementation)
  | typedNilError   -- a nil pointer of a type whose `Error()` dereferences its receiver (`var e *myErr; panic(e)`)
  deriving DecidableEq, Repr

def PanicValue.all : List PanicValue := [.nilValue, .plain, .error, .errorPanics, .typedNilError]

/-- how the deferred function turns the recovered value into the text of the error -/
inductive Formatting where
  | fmtV          -- `fmt.Errorf("Error: %v", r)`: the code. fmt calls `Error()` under a recover of its own
                  -- (`catchPanic`: "<nil>" for a nil receiver, "%!v(PANIC=Error method: …)" otherwise)
  | errorMethod   -- `r.(error).Error()` called by the deferred function itself (seeded change C19d-1)
  deriving DecidableEq, Repr

inductive HandlerOut where
  | errAssigned     -- the named result `err` was assigned: `Run` returns `(nil, error)`
  | nothing         -- `recover()` returned nil and nothing else is tested: `Run` returns `(nil, nil)`
  | panics          -- the deferred function panicked itself: the panic leaves `Run`
  deriving DecidableEq, Repr

/-- `if r := recover(); r != nil || !finished { err = <text of r> }` for a `Run` that did not finish;
    `flag` = the completion flag is tested (`Shape.nilPanicReported`) -/
def handler (f : Formatting) (flag : Bool) : PanicValue → HandlerOut
  | .nilValue => if flag then .errAssigned else .nothing          -- r == nil: only the flag notices
  | .plain => .errAssigned
  | .error => .errAssigned
  | .errorPanics => match f with | .fmtV => .errAssigned | .errorMethod => .panics
  | .typedNilError => match f with | .fmtV => .errAssigned | .errorMethod => .panics

/-- the `BodyOut` a panic value amounts to in the model the driver runs -/
def PanicValue.bodyOut : PanicValue → BodyOut
  | .nilValue => .panicNil
  | _ => .panic

/-- what `Run` returns when its body panicked with `pv`, read off the handler -/
def afterHandler (sh : Shape) (f : Formatting) (pv : PanicValue) : Outcome :=
  if sh.recovers then
    match handler f sh.nilPanicReported pv with
    | .errAssigned => .done (.one .nil) (some .recovered)
    | .nothing => .done (.one .nil) none
    | .panics => .escaped
  else .escaped

/-- **The deferred function cannot panic itself** — for every kind of panic value, also a typed nil
    error and an error whose `Error()` panics, because the text is produced by fmt's `%v` (which guards
    the `Error()` call); with the completion flag it always assigns the error. About the MODEL of the
    handler: that the source formats with `%v` and calls nothing else on the recovered value is not a
    regenerated fact — it is tied by the differential run (panic values typed-nil / bad `Error()` in
    synthetic and plugin functions; seeded change C19d-1 is caught there). fmt's guard is trusted (it
    re-panics only if printing the PANIC VALUE of `Error()` panics again). -/
theorem deferred_handler_cannot_panic (flag : Bool) (pv : PanicValue) :
    handler .fmtV flag pv ≠ .panics ∧ handler .fmtV true pv = .errAssigned := by
  cases pv <;> cases flag <;> simp [handler]

/-- The handler model is the one behind the model the driver runs: what `finish` (the tail of `run`,
    `reaching_runs_body`) returns for a panicking body is exactly what the handler with `%v` yields, for
    every panic value, every shape and every signature. -/
theorem finish_is_handler (sh : Shape) (sig : Sig) (pv : PanicValue) :
    finish sh sig pv.bodyOut = afterHandler sh .fmtV pv := by
  cases pv <;> cases hr : sh.recovers <;> cases hn : sh.nilPanicReported <;>
    simp [finish, afterHandler, handler, PanicValue.bodyOut, hr, hn]

/-- Hence: with the regenerated facts, a body panicking with ANY of the modelled panic values ends in
    `(nil, error)` — never in an escaped panic, never in a silent NULL. -/
theorem any_panic_value_is_error (sig : Sig) (pv : PanicValue) :
    finish shape sig pv.bodyOut = .done (.one .nil) (some .recovered) := by
  rw [finish_is_handler]
  have h := (deferred_handler_cannot_panic true pv).2
  simp [afterHandler, shape_recovers, shape_nil_panic_reported, h]

/-- With `r.(error).Error()` called by the deferred function itself, a typed nil error escapes. -/
example : afterHandler shape .errorMethod .typedNilError = .escaped := by decide

end Ecal.Props.C19
