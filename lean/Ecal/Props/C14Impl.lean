import Ecal.Model.Interp
import Ecal.Model.InterpImpl
import Ecal.Lemmas.Interp
import Ecal.Lemmas.InterpImpl
/-!
# C14 — the loop that is in /repo, index by index, with a stateful evaluator

`Ecal.Props.C14` states the property about `interp` (a fold over the segmentation of the literal, pure
evaluator). This file closes the two gaps that leaves (review notes/reviews/C14.md):

* **the Go-shaped loop** (`Ecal.InterpImpl.loop`: `strings.Index`, four slice expressions that can panic,
  a `for` that might not end) is proved to compute exactly that fold — so "never a crash, never an endless
  loop, each expression once, left to right" are theorems about the loop with its index arithmetic, not
  about a definition that cannot panic by construction;
* **the evaluator is stateful** (`ev : σ → Str → Str × σ`: embedded expressions share a scope, have side
  effects, may assign): order and "once" are statements about how the state is threaded;
* **the segmentation is pinned**: the three unfolding laws below hold, and `interp` is the ONLY function
  that satisfies them (`interp_unique`) — the trivial segmentation "everything is text" does not.
-/
namespace Ecal.Props.C14
open Ecal.Interp Ecal.InterpImpl

/-- **Refinement.** For every stateful evaluator, every start state and every literal the loop of
    `stringValueRuntime.Eval` ends normally — no slice expression panics, the fuel `|literal|/4 + 1` is
    never exhausted — and returns the text and the state of the left-to-right fold over the literal's
    own segmentation. -/
theorem impl_refines_spec {σ : Type} (ev : σ → Str → Str × σ) (st : σ) (s : Str) :
    impl ev st s = Out.ok (interpS ev st s).1 (interpS ev st s).2 := by
  unfold impl interpS
  rw [loop_spec ev _ st [] s (by omega)]; simp

/-- **Never a crash, never an endless loop**, whatever the evaluator returns (markers, the literal itself,
    the empty string) and however the state evolves. -/
theorem impl_never_panics_always_ends {σ : Type} (ev : σ → Str → Str × σ) (st : σ) (s : Str) :
    (∃ out st', impl ev st s = Out.ok out st') := ⟨_, _, impl_refines_spec ev st s⟩

/-- **Once, left to right, only the literal's own expressions.** Instrument ANY stateful evaluator with a
    log of the expressions it is asked to evaluate: the loop's log is `evaluated s` — a function of the
    literal alone, computed without looking at any result — and the instrumentation changes neither the
    text nor the state. -/
theorem impl_calls_own_expressions_once_in_order {σ : Type} (ev : σ → Str → Str × σ) (st : σ) (s : Str) :
    ∃ out st', impl (logged ev) (st, []) s = Out.ok out (st', evaluated s) ∧ impl ev st s = Out.ok out st' := by
  refine ⟨(interpS ev st s).1, (interpS ev st s).2, ?_, impl_refines_spec ev st s⟩
  rw [impl_refines_spec]
  have h1 := foldl_logged ev (segments s) [] st []
  have h2 := foldl_logged_erase ev (segments s) [] st []
  unfold interpS
  simp only [List.nil_append] at h1
  have h3 := congrArg Prod.fst h2
  have h4 := congrArg Prod.snd h2
  simp only at h3 h4
  rw [← h3, ← h4, evaluated, ← h1]

/-- the state is threaded left to right: the k-th expression sees the state left by the (k-1)-th
    (unfolding law of the stateful fold; see `interpS_pair`) — for a state-less evaluator the loop
    computes `interp` -/
theorem impl_pure {σ : Type} (ev : Str → Str) (st : σ) (s : Str) :
    impl (fun x c => (ev c, x)) st s = Out.ok (interp ev s) st := by
  rw [impl_refines_spec]; unfold interpS; rw [foldl_pure]; simp [interp]

/-! ### The segmentation is what the property says: unfolding laws and uniqueness -/

/-- no opening marker: verbatim -/
theorem interp_no_open (ev : Str → Str) (s : Str) (h : hasOpen s = false) : interp ev s = s := by
  simp [interp, segments_none ((splitOpen_none_iff s).2 h), Seg.out]

/-- an opening marker without a closing marker after it: verbatim -/
theorem interp_unclosed (ev : Str → Str) (pre rest : Str) (h1 : hasOpen (pre ++ [123]) = false)
    (h2 : hasClose rest = false) : interp ev (pre ++ 123 :: 123 :: rest) = pre ++ 123 :: 123 :: rest := by
  simp [interp, segments_open_only (splitOpen_of_first pre rest h1) ((splitClose_none_iff rest).2 h2), Seg.out]

/-- **Each `{{expr}}` written in the literal is replaced**: the first pair of markers (`pre` has no opening
    marker, not even a trailing `{`; `c` has no closing marker, not even a trailing `}`) is replaced by the
    result of evaluating `c`, the text before it is copied, and the rest of the literal — NOT the
    replacement — is processed the same way. -/
theorem interp_pair (ev : Str → Str) (pre c post : Str) (h1 : hasOpen (pre ++ [123]) = false)
    (h2 : hasClose (c ++ [125]) = false) :
    interp ev (pre ++ 123 :: 123 :: (c ++ 125 :: 125 :: post)) = pre ++ ev c ++ interp ev post := by
  simp [interp, segments_both (splitOpen_of_first pre _ h1) (splitClose_of_first c post h2), Seg.out]

/-- the same law for a stateful evaluator: `c` is evaluated in the state the literal was entered with, the
    rest of the literal in the state `c` left behind -/
theorem interpS_pair {σ : Type} (ev : σ → Str → Str × σ) (st : σ) (pre c post : Str)
    (h1 : hasOpen (pre ++ [123]) = false) (h2 : hasClose (c ++ [125]) = false) :
    interpS ev st (pre ++ 123 :: 123 :: (c ++ 125 :: 125 :: post)) =
      (pre ++ (ev st c).1 ++ (interpS ev (ev st c).2 post).1, (interpS ev (ev st c).2 post).2) := by
  unfold interpS
  rw [segments_both (splitOpen_of_first pre _ h1) (splitClose_of_first c post h2)]
  simp only [List.foldl, stepS]
  rw [foldl_stepS_acc]; simp

/-- every literal falls under exactly one of the three laws -/
theorem literal_cases (s : Str) :
    hasOpen s = false ∨
    (∃ pre rest, s = pre ++ 123 :: 123 :: rest ∧ hasOpen (pre ++ [123]) = false ∧ hasClose rest = false) ∨
    (∃ pre c post, s = pre ++ 123 :: 123 :: (c ++ 125 :: 125 :: post) ∧ hasOpen (pre ++ [123]) = false ∧
      hasClose (c ++ [125]) = false) := by
  cases h1 : splitOpen s with
  | none => exact Or.inl ((splitOpen_none_iff s).1 h1)
  | some p =>
    obtain ⟨a, b⟩ := p
    obtain ⟨e1, _⟩ := splitOpen_spec h1
    cases h2 : splitClose b with
    | none => exact Or.inr (Or.inl ⟨a, b, e1, splitOpen_first h1, (splitClose_none_iff b).1 h2⟩)
    | some q =>
      obtain ⟨c, d⟩ := q
      obtain ⟨e2, _⟩ := splitClose_spec h2
      exact Or.inr (Or.inr ⟨a, c, d, by rw [e1, e2], splitOpen_first h1, splitClose_first h2⟩)

/-- **Uniqueness**: the three laws determine the result for every literal — `interp ev` is the only
    function that copies marker-free text, copies an unclosed remainder, and replaces the first pair while
    treating the rest of the LITERAL the same way. (In particular "everything is text" is excluded, and so
    is any function that looks into a replacement.) -/
theorem interp_unique (ev : Str → Str) (f : Str → Str)
    (hno : ∀ s, hasOpen s = false → f s = s)
    (hun : ∀ pre rest, hasOpen (pre ++ [123]) = false → hasClose rest = false →
      f (pre ++ 123 :: 123 :: rest) = pre ++ 123 :: 123 :: rest)
    (hpair : ∀ pre c post, hasOpen (pre ++ [123]) = false → hasClose (c ++ [125]) = false →
      f (pre ++ 123 :: 123 :: (c ++ 125 :: 125 :: post)) = pre ++ ev c ++ f post) :
    ∀ s, f s = interp ev s := by
  intro s
  induction s using segments.induct with
  | case1 s h1 =>
    have h := (splitOpen_none_iff s).1 h1
    rw [hno s h, interp_no_open ev s h]
  | case2 s before afterOpen h1 h2 =>
    obtain ⟨e1, _⟩ := splitOpen_spec h1
    have hc := (splitClose_none_iff afterOpen).1 h2
    rw [e1, hun _ _ (splitOpen_first h1) hc, interp_unclosed ev _ _ (splitOpen_first h1) hc]
  | case3 s before afterOpen h1 code afterClose h2 ih =>
    obtain ⟨e1, _⟩ := splitOpen_spec h1
    obtain ⟨e2, _⟩ := splitClose_spec h2
    rw [e1, e2, hpair _ _ _ (splitOpen_first h1) (splitClose_first h2),
      interp_pair ev _ _ _ (splitOpen_first h1) (splitClose_first h2), ih]

/-! Non-vacuity and teeth -/

-- "{{v}}{{v}}" with an evaluator that counts: the second expression sees the state left by the first
example : impl (fun (n : Nat) (_ : Str) => ([48 + n], n + 1)) 0 [123,123,118,125,125,123,123,118,125,125]
    = Out.ok [48, 49] 2 := by decide
-- "x{{a}}y": the law instance (pre = "x", c = "a", post = "y")
example : interp (fun _ => [65, 66]) [120,123,123,97,125,125,121] = [120,65,66,121] := by
  have := interp_pair (fun _ => [65, 66]) [120] [97] [121] (by decide) (by decide)
  simpa [interp_no_open _ [121] (by decide)] using this
-- a literal of the third kind exists for `literal_cases` with all side conditions true
example : hasOpen ([120] ++ [123]) = false ∧ hasClose ([97] ++ [125]) = false := by decide
-- a slice that is off by one DOES panic in this model: `rest[start+len(code)+5:]` on "{{a}}"
example : sliceFrom [123,123,97,125,125] (0 + 2 + 1 + 3) = none := by decide

end Ecal.Props.C14
