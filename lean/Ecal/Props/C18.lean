import Ecal.Model.Lexer
import Ecal.Model.LexerSpec
import Ecal.Lemmas.LexerPos
import Ecal.Lemmas.LexerInv
/-!
# C18 — tokens, errors and breakpoints carry the true source position

Theorems about the **real functions of the lexer model** `Ecal.Model.Lexer` (the model the
correspondence runs against `parser.LexToList` on every check): its position bookkeeping
`trackPair` / `L.track` (whitespace skipper, string lexer, block comment), `L.hashEnd` (the `#`
comment branch), `L.stamp` / `L.emit` (what is written into a token), and `L.next`.

Specification (`Ecal.Lex.Spec`, from the bytes alone): `nlBefore inp off` newlines among the
first `off` bytes, `lineStart inp off` offset after the last of them, `lineOf = nlBefore + 1`,
`colOf = off - lineStart + 1`.

What is proved: the step-level facts below **and their lift to the whole input** (second half of
this file, lemmas in `Ecal.Lemmas.LexerInv`): `L.next` satisfies the step hypotheses; the loops
that consume runes through the tracked step (skipWhiteSpace, string lexer, block comment) keep
the bookkeeping true over any number of iterations; the scanners that consume without tracking
(lexNumberBlock, lexTextBlock, the `#` comment body) never cross a newline; hence the invariant
between tokens (`lexer_pos_invariant`) and, for every token of every input,
`token_positions_true_partial`: the line is always true, the column is true unless the
classifier `afterHashComment` of the known finding holds at the token.

Not proved (tested by the correspondence on every run): that the model equals parser/lexer.go;
the EOF clause (the EOF token's line is that of the end of input, its Pos / column are those of
the previous token's start — known finding `eof-stale-position`); `errors_carry_token_pos`
(parser.Error / util.RuntimeError copy the token's fields: planted-error cases);
`separation_ignores_comments` (`sep` cases).

Full-strength statement, false as it stands (`hash_comment_column_witness`):
  `∀ input, ∀ t ∈ lex input, t.id ≠ tEOF → t.line = lineOf input t.pos ∧ t.col = colOf input t.pos`.
-/
namespace Ecal.Props.C18
open Ecal.Lex Ecal.Lex.Spec

/-- The bookkeeping is *true at offset `p`*: `line` newlines before `p`, `lastnl` just after the
    last of them. -/
def Good (inp : Bytes) (p line lastnl : Nat) : Prop :=
  line = nlBefore inp p ∧ lastnl = lineStart inp p

/-- the lexer state's bookkeeping is true at its read position -/
def StateGood (l : L) : Prop := Good l.inp l.pos l.line l.lastnl

instance (inp : Bytes) (p line lastnl : Nat) : Decidable (Good inp p line lastnl) := by
  unfold Good; infer_instance

/-- `nlBefore` is the textbook count: the number of `'\n'` among the first `off` bytes. -/
theorem nlBefore_eq_count (inp : Bytes) : ∀ off, off ≤ inp.size →
    nlBefore inp off = (inp.toList.take off).count 10
  | 0, _ => by simp [nlBefore]
  | n+1, h => by
    have hs : n < inp.size := by omega
    have hn : n < inp.toList.length := by simpa using hs
    rw [nlBefore, nlBefore_eq_count inp n (by omega), List.take_succ_eq_append_getElem hn,
      List.count_append]
    have : inp.getD n 0 = inp.toList[n] := by
      simp [Array.getD, hs]
    rw [this]
    by_cases h10 : inp.toList[n] = 10 <;> simp [h10, List.count_singleton]

/-- `lineStart` is the offset after the last newline: it is 0 or follows a newline byte, and no
    newline lies between it and the offset. -/
theorem lineStart_spec (inp : Bytes) : ∀ off,
    (lineStart inp off = 0 ∨ inp.getD (lineStart inp off - 1) 0 = 10) ∧
    lineStart inp off ≤ off ∧ NoNl inp (lineStart inp off) off
  | 0 => by simp [lineStart, NoNl]
  | n+1 => by
    obtain ⟨h1, h2, h3⟩ := lineStart_spec inp n
    simp only [lineStart]
    split
    · rename_i h; refine ⟨Or.inr (by simpa using h), by omega, noNl_empty _ _⟩
    · rename_i h
      refine ⟨h1, by omega, ?_⟩
      intro j ha hb
      by_cases hj : j < n
      · exact h3 j ha hj
      · have : j = n := by omega
        subst this; exact h

/-- **lexer_pos_invariant (step).** The bookkeeping step of skipWhiteSpace / lexValue / the block
    comment keeps the bookkeeping true: if it is true at `p`, the rune just read covers `[p, q)`,
    a newline rune is the single byte `'\n'` and any other rune covers no newline byte, then
    after `trackPair r q` it is true at `q`. -/
theorem lexer_pos_invariant_step (inp : Bytes) (p q line lastnl : Nat) (r : Option Nat)
    (hg : Good inp p line lastnl) (hpq : p ≤ q)
    (hnl : r = some 10 → q = p + 1 ∧ inp.getD p 0 = 10)
    (hother : r ≠ some 10 → NoNl inp p q) :
    Good inp q (trackPair r q (line, lastnl)).1 (trackPair r q (line, lastnl)).2 := by
  obtain ⟨h1, h2⟩ := hg
  unfold trackPair
  by_cases hr : r = some 10
  · obtain ⟨rfl, h10⟩ := hnl hr
    simp [hr, Good, nlBefore, lineStart, h10, h1]
  · obtain ⟨e1, e2⟩ := nlBefore_noNl' hpq (hother hr)
    simp [hr, Good, e1, e2, h1, h2]

example : Good #[97, 10, 98] 1 0 0 ∧
    Good #[97, 10, 98] 2 (trackPair (some 10) 2 (0, 0)).1 (trackPair (some 10) 2 (0, 0)).2 := by
  decide

/-- The same step on the lexer state: `L.track` after a rune that ended at `l.pos`. -/
theorem track_good (l : L) (p : Nat) (r : Option Nat)
    (hg : Good l.inp p l.line l.lastnl) (hpq : p ≤ l.pos)
    (hnl : r = some 10 → l.pos = p + 1 ∧ l.inp.getD p 0 = 10)
    (hother : r ≠ some 10 → NoNl l.inp p l.pos) :
    StateGood (l.track r) := by
  have := lexer_pos_invariant_step l.inp p l.pos l.line l.lastnl r hg hpq hnl hother
  simpa [StateGood, L.track] using this

/-- **token_positions_true (stamp).** A token stamped while the bookkeeping is true at the
    token's start carries the true line and column of its first byte. -/
theorem stamp_true (l : L) (hg : Good l.inp l.start l.line l.lastnl) :
    l.stamp = (lineOf l.inp l.start, colOf l.inp l.start) := by
  obtain ⟨h1, h2⟩ := hg
  simp [L.stamp, lineOf, colOf, h1, h2]

/-- … and that is what `emit` (emitToken / emitTokenAndValue / emitError) writes: the token
    appended last has `pos = start` and the stamped line / column; nothing else about the
    state's position changes. -/
theorem emit_token (l : L) (id : Nat) (val : List Nat) (ident ae : Bool) :
    (l.emit id val ident ae).toks = l.toks.push
      { id := id, pos := l.start, val := val, identifier := ident, allowEscapes := ae,
        prefixNl := l.skippedNl, line := l.stamp.1, col := l.stamp.2 } ∧
    (l.emit id val ident ae).pos = l.pos ∧ (l.emit id val ident ae).line = l.line ∧
    (l.emit id val ident ae).lastnl = l.lastnl := by
  simp [L.emit]

/-- **token_positions_true_partial (the `#` branch).** What the `#` comment branch does at its
    terminating newline (`line++`, nothing else): the line stays true, but `lastnl` is left
    strictly *before* the true line start — every token stamped before the next tracked newline
    gets a column that is too large. -/
theorem hash_branch_line_true_column_stale (l : L) (p : Nat)
    (hg : Good l.inp p l.line l.lastnl) (h10 : l.inp.getD p 0 = 10) :
    l.hashEnd.line = nlBefore l.inp (p + 1) ∧
    l.hashEnd.lastnl < lineStart l.inp (p + 1) := by
  obtain ⟨h1, h2⟩ := hg
  have := lineStart_le l.inp p
  simp [L.hashEnd, nlBefore, lineStart, h10, h1, h2]
  omega

/-- … while stamping with a stale `lastnl` still gives the true *line*. -/
theorem stamp_line_true (l : L) (h1 : l.line = nlBefore l.inp l.start) :
    l.stamp.1 = lineOf l.inp l.start := by
  simp [L.stamp, lineOf, h1]

/-- the bytes of `a # c\nb` -/
def witnessSrc : List Nat := [97, 32, 35, 32, 99, 10, 98]

/-- **hash_comment_column_witness.** Negative witness of the known finding
    `hash-comment-column` on the *full* lexer model: in `a # c\nb` the token `b` (offset 6, first
    byte of line 2) is reported at line 2 — right — and column 7 — wrong. -/
theorem hash_comment_column_witness :
    ((lex witnessSrc).toList.map fun t => (t.pos, t.line, t.col)) = [(0, 1, 1), (3, 1, 4), (6, 2, 7), (6, 2, 7)] := by
  decide +kernel

/-- … the true position of offset 6 in that text is line 2, column 1 … -/
theorem hash_comment_column_witness_true :
    lineOf witnessSrc.toArray 6 = 2 ∧ colOf witnessSrc.toArray 6 = 1 := by
  decide

/-- … and the classifier of the known finding recognises it (and not the first line). -/
theorem hash_comment_column_witness_classified :
    afterHashComment witnessSrc.toArray (lex witnessSrc).toList 6 = true ∧
    afterHashComment witnessSrc.toArray (lex witnessSrc).toList 3 = false := by
  decide +kernel

/-! ## The lift to the whole input -/

/-- **next_satisfies_step.** `L.next` decodes with `decodeBytes`; the rune it returns covers
    `[p, l'.pos)` of the input where `p` is the old position, a newline rune is the single byte
    `'\n'`, any other rune covers no newline byte — the hypotheses of `lexer_pos_invariant_step`.
    Nothing but `pos` / `width` changes. -/
theorem next_satisfies_step (l : L) (hle : l.pos ≤ l.inp.size) :
    l.pos ≤ (l.next).1.pos ∧ (l.next).1.pos ≤ l.inp.size ∧
    ((l.next).2 = some 10 → (l.next).1.pos = l.pos + 1 ∧ l.inp.getD l.pos 0 = 10) ∧
    ((l.next).2 ≠ some 10 → NoNl l.inp l.pos (l.next).1.pos) ∧
    (l.next).1.core = l.core := by
  obtain ⟨hp, hc⟩ := next_spec l hle
  obtain ⟨f1, f2, f3, f4⟩ := hp.facts
  have hi := (core_fields hc).1
  rw [hi] at f2 f3 f4
  exact ⟨f1, f2, f3, f4, hc⟩

example : ((L.next { inp := #[10, 97] }).2 = some 10) ∧ (L.next { inp := #[10, 97] }).1.pos = 1 := by decide

/-- **Tracked loop: skipWhiteSpace** keeps the invariant between tokens, whatever it skips
    (induction over its loop). `Inv`: position inside the input, `line` true, `lastnl` true or
    stale in the classified way, all tokens so far right. -/
theorem skipWhiteSpace_keeps_invariant (l : L) (h : Inv l) (hok : (skipWhiteSpace l).2 = true) :
    Inv (skipWhiteSpace l).1 := sws_inv l h hok

/-- **Tracked loops: string lexer and block comment.** Over any number of iterations the
    bookkeeping pair stays true at the start of the pending rune (`Tr`: line true, column base
    true up to the classified staleness); on exit the pending rune is the end token / the `*`. -/
theorem tracked_loops_keep_bookkeeping (ae : Bool) (endTok : Option Nat) (T : List Tok) (fuel : Nat)
    (l : L) (r : Option Nat) (esc : Bool) (a b p : Nat) (l' : L) (a' b' : Nat)
    (hp : Pend l r p) (htr : Tr l.inp T p a b) :
    (lexValueLoop ae endTok fuel l r esc a b = some (l', a', b') →
      l'.core = l.core ∧ ∃ p', Pend l' endTok p' ∧ Tr l.inp T p' a' b') ∧
    (blockLoop fuel l r a b = some (l', a', b') →
      l'.core = l.core ∧ l'.peek 1 = some 47 ∧ ∃ p', Pend l' (some 42) p' ∧ Tr l.inp T p' a' b') :=
  ⟨value_loop ae endTok T fuel l r esc a b p l' a' b' hp htr,
   block_loop T fuel l r a b p l' a' b' hp htr⟩

/-- **Untracked scanners never cross a newline**: lexNumberBlock and lexTextBlock only move
    `pos` / `width`, forward, inside the input, over a newline-free stretch (from their loop
    conditions: they stop at white space / control characters and back up). The `#` comment body
    is `hash_loop` in `Ecal.Lemmas.LexerInv` (it stops at the newline). -/
theorem scanners_cross_no_newline (l : L) (hle : l.pos ≤ l.inp.size) :
    Blk l (lexNumberBlock l) ∧ Blk l (lexTextBlock l) :=
  ⟨lexNumberBlock_blk l hle, lexTextBlock_blk l hle⟩

/-- **lexer_pos_invariant.** The invariant holds at the start, and every round of run()
    (`lexToken`, then `skipWhiteSpace`) that continues re-establishes it: at every point between
    tokens `line` is the number of newlines before `pos` and `lastnl` is the offset after the
    last one — except after a `#` comment, where `lastnl` is stale until the next tracked newline
    and `afterHashComment` holds instead. -/
theorem lexer_pos_invariant (input : List Nat) :
    Inv ({ inp := input.toArray } : L) ∧
    ∀ l : L, Inv l → (lexToken l).2 = Next.token → (skipWhiteSpace (lexToken l).1).2 = true →
      Inv (skipWhiteSpace (lexToken l).1).1 :=
  ⟨⟨Nat.zero_le _, ⟨rfl, Or.inl rfl⟩, fun t ht => by simp at ht⟩,
   fun l h ht hs => sws_inv _ ((lexToken_inv l h).2.1 ht) hs⟩

/-- **token_positions_true_partial.** For every input and every token the lexer model emits
    (comments and the error token included, EOF excluded — it has no first character): the
    reported line is the true line of the token's `Pos`; the reported column is the true column
    unless the last newline before the token ended a `#` comment (the classifier of the known
    finding `hash-comment-column`, evaluated on the emitted token list). -/
theorem token_positions_true_partial (input : List Nat) :
    ∀ t ∈ (lex input).toList, t.id ≠ tEOF →
      t.line = lineOf input.toArray t.pos ∧
      (t.col = colOf input.toArray t.pos ∨
        afterHashComment input.toArray (lex input).toList t.pos = true) :=
  fun t ht hne => lex_ok input t ht hne

/-- non-vacuity: `a # c\nb` has four tokens, three of them not EOF -/
example : ((lex witnessSrc).toList.filter (·.id ≠ tEOF)).length = 3 := by decide +kernel

end Ecal.Props.C18
