import Ecal.Model.Lexer
import Ecal.Model.LexerSpec
/-!
# C18 — tokens, errors and breakpoints carry the true source position
-/
namespace Ecal.Props.C18
open Ecal.Lex Ecal.Lex.Spec

/-- the bytes of `a # c\nb` -/
def witnessSrc : List Nat := [97, 32, 35, 32, 99, 10, 98]

/-- Negative witness of the known finding `hash-comment-column`: in `a # c\nb` the token `b`
    (offset 6, first byte of line 2) is reported at line 2 — right — and column 7 — wrong. -/
theorem hash_comment_column_witness :
    ((lex witnessSrc).toList.map fun t => (t.pos, t.line, t.col)) = [(0, 1, 1), (3, 1, 4), (6, 2, 7), (6, 2, 7)] := by
  decide +kernel

/-- … the true position of offset 6 in that text is line 2, column 1 … -/
theorem hash_comment_column_witness_true :
    lineOf witnessSrc.toArray 6 = 2 ∧ colOf witnessSrc.toArray 6 = 1 := by
  decide

end Ecal.Props.C18
