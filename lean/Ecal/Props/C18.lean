import Ecal.Model.Lexer
import Ecal.Model.LexerSpec
import Ecal.Lemmas.LexerPos
import Ecal.Lemmas.LexerSteps
import Ecal.Lemmas.LexerInv
import Ecal.Lemmas.LexTerminates
import Ecal.Lemmas.LexerList
import Ecal.Lemmas.LexerGap
import Ecal.Gen.C18
/-!
# C18 — tokens, errors and breakpoints carry the true source position

Theorems about the **real lexer model** `Ecal.Lex.lex` of `Ecal/Model/Lexer.lean` — the function
the correspondence runs against `parser.LexToList` on every check (`Ecal.Drv.C18`).

Specification (`Ecal.Lex.Spec`, from the bytes alone): `nlBefore inp off` newlines among the
first `off` bytes, `lineStart inp off` offset after the last of them, `lineOf = nlBefore + 1`,
`colOf = off - lineStart + 1`.

Proved, for every input and every token the lexer emits:
* `token_positions_true_partial` — the reported line is the true line of `Pos`; the reported
  column is the true column of `Pos` unless the classifier of the known finding
  `hash-comment-column` holds at the token;
* `token_starts_at_first_character` / `token_text_at_pos` / `gap_is_blank` /
  `token_pos_is_first_character` — `Pos` IS the token's first character: at `Pos` stands a
  non-blank rune and (words, numbers, comments) the token's text, and only a run of blank runes
  lies between the end of the previous token's lexing and `Pos` (comment tokens and the error token
  of an unterminated block comment: `Pos` is the first byte of the comment text, the opener directly
  before it, the blank run ends at the opener). The end of a token's lexing is pinned to
  `Pos + |Val|` for keywords, symbols, identifiers, numbers and comments; for strings and error
  tokens only `Pos < end` is stated (string literal extents: `Ecal.Props.C14Lex`);
* the invariant between tokens (`lexer_pos_invariant_partial`, partial for the same `#` staleness)
  and the loop / scanner lemmas it rests on.

* `lexer_always_closes` — totality: the fuel never runs out, the list ends with EOF or an error token;
* `errors_carry_token_pos` — a source fact regenerated (go/ast) on every run: errors, messages,
  stack traces, the except object and break point keys copy Lline / Lpos of one token.

* `stale_column_exact` — the stale column after a `#` comment exactly: measured from the same line
  start as that comment's own column;
* `token_list_shape`, `lines_monotone`, `eof_line_true` — EOF only at the end, `Pos` strictly
  increasing, lines never decreasing, EOF carries the line of the end of the input.

Not proved (tested by the correspondence on every run): that the model equals parser/lexer.go;
errors / break points at run time (kinds E, B) beyond the syntactic source fact;
`separation_ignores_comments` (case kind S, metamorphic). A theorem for the separation clause
would need the PARSER model: (1) that `Ecal.Parse.parse` reads token lines only through the
comparisons `<` / `==` between two tokens' lines (a parametricity lemma over the parser model's
`run`, `ndReturn`, `ndIdentifier`, `hasMoreStatements`); (2) that inserting a comment between two
tokens leaves the non-comment token sequence and, by `lines_monotone` and
`token_positions_true_partial`, every such comparison unchanged — the lexer half, which follows
from the theorems here once "lexing `pre ++ comment ++ rest` = lexing `pre ++ blanks-with-the-same-
newlines ++ rest` up to the comment token" is proved (a compositionality lemma for `lex` that is
not there yet); (3) the parser model's agreement with parser.go (C07's tie).

Full-strength statement, false as it stands (`hash_comment_column_witness`):
  `∀ input, ∀ t ∈ lex input, t.id ≠ tEOF → t.line = lineOf input t.pos ∧ t.col = colOf input t.pos`.
The step-level lemmas (one bookkeeping step, stamp, `#` branch) are in `Ecal.Lemmas.LexerSteps`.
-/
namespace Ecal.Props.C18
open Ecal.Lex Ecal.Lex.Spec

/-! ## The specification is the textbook one -/

/-- `nlBefore` is the textbook count: the number of `'\n'` among the first `off` bytes. -/
theorem nlBefore_eq_count (inp : Bytes) : ∀ off, off ≤ inp.size →
    nlBefore inp off = (inp.toList.take off).count 10
  | 0, _ => by simp [nlBefore]
  | n+1, h => by
    have hs : n < inp.size := by omega
    have hn : n < inp.toList.length := by simpa using hs
    rw [nlBefore, nlBefore_eq_count inp n (by omega), List.take_succ_eq_append_getElem hn,
      List.count_append]
    have : inp.getD n 0 = inp.toList[n] := by
      simp [Array.getD, hs]
    rw [this]
    by_cases h10 : inp.toList[n] = 10 <;> simp [h10, List.count_singleton]

/-- `lineStart` is the offset after the last newline: it is 0 or follows a newline byte, and no
    newline lies between it and the offset. -/
theorem lineStart_spec (inp : Bytes) : ∀ off,
    (lineStart inp off = 0 ∨ inp.getD (lineStart inp off - 1) 0 = 10) ∧
    lineStart inp off ≤ off ∧ NoNl inp (lineStart inp off) off
  | 0 => by simp [lineStart, NoNl]
  | n+1 => by
    obtain ⟨h1, h2, h3⟩ := lineStart_spec inp n
    simp only [lineStart]
    split
    · rename_i h; refine ⟨Or.inr (by simpa using h), by omega, noNl_empty _ _⟩
    · rename_i h
      refine ⟨h1, by omega, ?_⟩
      intro j ha hb
      by_cases hj : j < n
      · exact h3 j ha hj
      · have : j = n := by omega
        subst this; exact h

/-! ## The known finding: negative witness -/

/-- the bytes of `a # c\nb` -/
def witnessSrc : List Nat := [97, 32, 35, 32, 99, 10, 98]

/-- **hash_comment_column_witness.** Negative witness of the known finding
    `hash-comment-column` on the full lexer model: in `a # c\nb` the token `b` (offset 6, first byte
    of line 2) is reported at line 2 — right — and column 7 — wrong: the true position of offset 6
    is line 2, column 1; the classifier recognises the token (and not the first line). -/
theorem hash_comment_column_witness :
    ((lex witnessSrc).toList.map fun t => (t.pos, t.line, t.col)) = [(0, 1, 1), (3, 1, 4), (6, 2, 7), (6, 2, 7)] ∧
    (lineOf witnessSrc.toArray 6 = 2 ∧ colOf witnessSrc.toArray 6 = 1) ∧
    (afterHashComment witnessSrc.toArray (lex witnessSrc).toList 6 = true ∧
     afterHashComment witnessSrc.toArray (lex witnessSrc).toList 3 = false) :=
  ⟨by decide +kernel, by decide, by decide +kernel⟩

/-! ## The lift to the whole input -/

/-- **next_satisfies_step.** `L.next` decodes with `decodeBytes`; the rune it returns covers
    `[p, l'.pos)` of the input where `p` is the old position, a newline rune is the single byte
    `'\n'`, any other rune covers no newline byte — the hypotheses of the bookkeeping step
    (`Steps.lexer_pos_invariant_step`). Nothing but `pos` / `width` changes. -/
theorem next_satisfies_step (l : L) (hle : l.pos ≤ l.inp.size) :
    l.pos ≤ (l.next).1.pos ∧ (l.next).1.pos ≤ l.inp.size ∧
    ((l.next).2 = some 10 → (l.next).1.pos = l.pos + 1 ∧ l.inp.getD l.pos 0 = 10) ∧
    ((l.next).2 ≠ some 10 → NoNl l.inp l.pos (l.next).1.pos) ∧
    (l.next).1.core = l.core := by
  obtain ⟨hp, hc⟩ := next_spec l hle
  obtain ⟨f1, f2, f3, f4⟩ := hp.facts
  have hi := (core_fields hc).1
  rw [hi] at f2 f3 f4
  exact ⟨f1, f2, f3, f4, hc⟩

example : ((L.next { inp := #[10, 97] }).2 = some 10) ∧ (L.next { inp := #[10, 97] }).1.pos = 1 := by decide

/-- the invariant holds for the start state of every input (used as non-vacuity witness below) -/
theorem inv_start (inp : Bytes) : Inv ({ inp := inp } : L) :=
  ⟨Nat.zero_le _, ⟨rfl, Or.inl rfl⟩, fun t ht => by simp at ht⟩

/-- **Tracked loop: skipWhiteSpace** keeps the invariant between tokens, whatever it skips
    (induction over its loop), and stops in front of a non-blank rune (`Ready`). `Inv`: position
    inside the input, `line` true, `lastnl` true or stale in the classified way, all tokens so far
    right. -/
theorem skipWhiteSpace_keeps_invariant (l : L) (h : Inv l) (hok : (skipWhiteSpace l).2 = true) :
    Inv (skipWhiteSpace l).1 ∧ Ready (skipWhiteSpace l).1 :=
  ⟨(sws_inv_ready l h hok).1, (sws_inv_ready l h hok).2.1⟩

example : Inv (skipWhiteSpace { inp := #[32, 10, 97] }).1 ∧ Ready (skipWhiteSpace { inp := #[32, 10, 97] }).1 :=
  skipWhiteSpace_keeps_invariant _ (inv_start _) (by decide)

/-- **Tracked loops: string lexer and block comment.** Over any number of iterations the
    bookkeeping pair stays true at the start of the pending rune (`Tr`: line true, column base
    true up to the classified staleness); on exit the pending rune is the end token / the `*`. -/
theorem tracked_loops_keep_bookkeeping (ae : Bool) (endTok : Option Nat) (T : List Tok) (fuel : Nat)
    (l : L) (r : Option Nat) (esc : Bool) (a b p : Nat) (l' : L) (a' b' : Nat)
    (hp : Pend l r p) (htr : Tr l.inp T p a b) :
    (lexValueLoop ae endTok fuel l r esc a b = some (l', a', b') →
      l'.core = l.core ∧ ∃ p', Pend l' endTok p' ∧ Tr l.inp T p' a' b') ∧
    (blockLoop fuel l r a b = some (l', a', b') →
      l'.core = l.core ∧ l'.peek 1 = some 47 ∧ ∃ p', Pend l' (some 42) p' ∧ Tr l.inp T p' a' b' ∧ p ≤ p') :=
  ⟨value_loop ae endTok T fuel l r esc a b p l' a' b' hp htr,
   block_loop T fuel l r a b p l' a' b' hp htr⟩

/-- the hypotheses are satisfiable: the state after the first `next` of any input -/
example (inp : Bytes) : Pend (L.next { inp := inp }).1 (L.next { inp := inp }).2 0 ∧
    Tr (L.next { inp := inp }).1.inp [] 0 0 0 :=
  ⟨(next_spec { inp := inp } (Nat.zero_le _)).1, rfl, Or.inl rfl⟩

/-- **Untracked scanners never cross a newline**: lexNumberBlock and lexTextBlock only move
    `pos` / `width`, forward, inside the input, over a newline-free stretch (from their loop
    conditions: they stop at white space / control characters and back up). The `#` comment body
    is `hash_loop` in `Ecal.Lemmas.LexerInv` (it stops at the newline). -/
theorem scanners_cross_no_newline (l : L) (hle : l.pos ≤ l.inp.size) :
    Blk l (lexNumberBlock l) ∧ Blk l (lexTextBlock l) :=
  ⟨lexNumberBlock_blk l hle, lexTextBlock_blk l hle⟩

example : Blk { inp := #[49, 50, 10] } (lexNumberBlock { inp := #[49, 50, 10] }) :=
  (scanners_cross_no_newline _ (by decide)).1

/-- **lexer_pos_invariant_partial.** The invariant holds at the start, and every round of run()
    (`lexToken`, then `skipWhiteSpace`) that continues re-establishes it: at every point between
    tokens `line` is the number of newlines before `pos` and `lastnl` is the offset after the
    last one — except after a `#` comment, where `lastnl` is stale until the next tracked newline
    and `afterHashComment` holds instead (hence `_partial`; full statement: `lastnl = lineStart`
    always — false, see the witness). -/
theorem lexer_pos_invariant_partial (input : List Nat) :
    Inv ({ inp := input.toArray } : L) ∧
    ∀ l : L, Inv l → Ready l → (lexToken l).2 = Next.token → (skipWhiteSpace (lexToken l).1).2 = true →
      Inv (skipWhiteSpace (lexToken l).1).1 ∧ Ready (skipWhiteSpace (lexToken l).1).1 :=
  ⟨inv_start _, fun l h hr ht hs =>
    ⟨(sws_inv_ready _ ((lexToken_inv l h hr).2.1 ht) hs).1, (sws_inv_ready _ ((lexToken_inv l h hr).2.1 ht) hs).2.1⟩⟩

/-- **token_positions_true_partial.** For every input and every token the lexer model emits
    (comments and the error token included, EOF excluded — it has no first character): the
    reported line is the true line of the token's `Pos`; the reported column is the true column
    unless the last newline before the token ended a `#` comment (the classifier of the known
    finding `hash-comment-column`, evaluated on the emitted token list). -/
theorem token_positions_true_partial (input : List Nat) :
    ∀ t ∈ (lex input).toList, t.id ≠ tEOF →
      t.line = lineOf input.toArray t.pos ∧
      (t.col = colOf input.toArray t.pos ∨
        afterHashComment input.toArray (lex input).toList t.pos = true) :=
  fun t ht hne => ⟨(lex_ok input t ht hne).1.1, (lex_ok input t ht hne).1.2.imp id HashRel.classified⟩

/-- non-vacuity: `a # c\nb` has four tokens, three of them not EOF -/
example : ((lex witnessSrc).toList.filter (·.id ≠ tEOF)).length = 3 := by decide +kernel

/-- **stale_column_exact.** The column of a token on the line after a `#` comment is not merely
    "classified": it is measured from the same line start as that comment's own column. For every
    token `t` (not EOF): the column is true, or there is a `#` comment token `c` in the list whose
    final byte is the last newline before `t` (`c.pos + |c.val|` = the true line start of `t`,
    `c.val` ends in `'\n'`) and `t.col − t.pos = c.col − c.pos`. Applied to `c` in turn (its column is
    true or relative to the comment before it) this fixes the reported column exactly: it counts
    from the start of the first line of the run of `#`-terminated lines (`a # c⏎b`: `#`-text at
    offset 3, column 4; `b` at offset 6 ⇒ column 7). -/
theorem stale_column_exact (input : List Nat) :
    ∀ t ∈ (lex input).toList, t.id ≠ tEOF →
      t.col = colOf input.toArray t.pos ∨
      ∃ c ∈ (lex input).toList, c.id = tPOSTCOMMENT ∧
        c.pos + c.val.length = lineStart input.toArray t.pos ∧ 0 < lineStart input.toArray t.pos ∧
        c.val.getLast? = some 10 ∧ t.col - (t.pos : Int) = c.col - (c.pos : Int) :=
  fun t ht hne => (lex_ok input t ht hne).1.2

/-! ## What stands at Pos -/

/-- **token_starts_at_first_character.** Every token other than EOF and comments starts inside
    the input at a rune that is not blank (`blank` = unicode.IsSpace ∨ unicode.IsControl: what
    skipWhiteSpace skips) — the first character of the token. A `#` comment token's `Pos` is the
    byte after the `#`, a block comment token's `Pos` the byte after the `/*` (the first byte of
    the comment TEXT, which is what its value holds); the error token of an unterminated block
    comment is positioned like that comment. -/
theorem token_starts_at_first_character (input : List Nat) :
    ∀ t ∈ (lex input).toList, t.id ≠ tEOF →
      (t.id = tPOSTCOMMENT → 1 ≤ t.pos ∧ input.toArray.getD (t.pos - 1) 0 = 35) ∧
      (t.id = tPRECOMMENT → 2 ≤ t.pos ∧ input.toArray.getD (t.pos - 2) 0 = 47 ∧
        input.toArray.getD (t.pos - 1) 0 = 42) ∧
      (t.id ≠ tPOSTCOMMENT → t.id ≠ tPRECOMMENT →
        (t.pos < input.toArray.size ∧ blank (some (decodeRune input.toArray t.pos).1) = false) ∨
        (t.id = tERROR ∧ 2 ≤ t.pos ∧ input.toArray.getD (t.pos - 2) 0 = 47 ∧
          input.toArray.getD (t.pos - 1) 0 = 42)) := by
  intro t ht hne
  have h := (lex_ok input t ht hne).2.1
  unfold StartOK at h
  refine ⟨fun h1 => by simpa [h1] using h, fun h2 => ?_, fun n1 n2 => by simpa [n1, n2] using h⟩
  have n1 : ¬ t.id = tPOSTCOMMENT := by rw [h2]; decide
  rw [if_neg n1, if_pos h2] at h
  exact h

/-- **token_text_at_pos.** The text at `Pos` is the token: for keywords, symbols, identifiers and
    comments the bytes `[Pos, Pos + |Val|)` of the input are the token value (not empty except for
    comments); a number's value is the lower-cased text of a non-empty stretch `[Pos, e)`. (String
    and error tokens carry a processed value; their extent is the subject of `Ecal.Props.C14Lex`.) -/
theorem token_text_at_pos (input : List Nat) :
    ∀ t ∈ (lex input).toList, t.id ≠ tEOF →
      (t.id ≠ tSTRING → t.id ≠ tERROR → t.id ≠ tNUMBER →
        t.pos + t.val.length ≤ input.toArray.size ∧
        (input.toArray.extract t.pos (t.pos + t.val.length)).toList = t.val ∧
        (t.id ≠ tPRECOMMENT → t.id ≠ tPOSTCOMMENT → t.val ≠ [])) ∧
      (t.id = tNUMBER → ∃ e, t.pos < e ∧ e ≤ input.toArray.size ∧
        t.val = lowerGo (input.toArray.extract t.pos e).toList) := by
  intro t ht hne
  have h := (lex_ok input t ht hne).2.2
  unfold TextOK at h
  refine ⟨fun n1 n2 n3 => by simpa [n1, n2, n3] using h, fun h3 => ?_⟩
  have n1 : ¬ (t.id = tSTRING ∨ t.id = tERROR) := by rw [h3]; decide
  rw [if_neg n1, if_pos h3] at h
  exact h

/-- non-vacuity on `if a /* c */ 12` : keyword, identifier, comment (Pos 8 behind `/*` at 5), number -/
example : ((lex [105, 102, 32, 97, 32, 47, 42, 32, 99, 32, 42, 47, 32, 49, 50]).toList.map
    fun t => (t.id, t.pos, t.val)) =
    [(63, 0, [105, 102]), (tIDENTIFIER, 3, [97]), (tPRECOMMENT, 7, [32, 99, 32]), (tNUMBER, 13, [49, 50]), (tEOF, 13, [])] := by
  decide +kernel

/-! ## Totality -/

/-- **lexer_always_closes.** For every input the token list is not empty and ends with the EOF token
    or with an error token. In particular no loop of the model ever runs out of its fuel (`lex`:
    input length + 2 rounds, every inner loop `size + 2` steps — a run that hit the fuel would end
    without EOF / error): the theorems above are about the complete token list, not about a
    truncated one. Proof: every token phase pushes exactly one token and moves forward
    (`Pushed`), skipWhiteSpace returns false only after pushing EOF (`sws_total`), so the number of
    rounds is bounded by the number of bytes (`Ecal.Lemmas.LexTerminates`). -/
theorem lexer_always_closes (input : List Nat) :
    ∃ t, (lex input).back? = some t ∧ (t.id = tEOF ∨ t.id = tERROR) :=
  Ecal.Lex.lexer_always_closes input

example : ((lex witnessSrc).back?.map (·.id)) = some tEOF ∧ ((lex [34, 97]).back?.map (·.id)) = some tEOF ∧
    ((lex [97, 63, 32, 98]).back?.map (·.id)) = some tERROR := by decide +kernel

/-! ## The token list as a whole -/

/-- **token_list_shape.** Every token list is `body ++ fin`: `body` has no EOF token and strictly
    increasing `Pos`; `fin` is empty or the single EOF token. (With `lexer_always_closes`: if `fin` is
    empty the body ends with an error token.) -/
theorem token_list_shape (input : List Nat) :
    ∃ body fin, (lex input).toList = body ++ fin ∧ (∀ t ∈ body, t.id ≠ tEOF) ∧
      body.Pairwise (fun a b => a.pos < b.pos) ∧ (fin = [] ∨ ∃ eof, fin = [eof] ∧ eof.id = tEOF) := by
  obtain ⟨body, fin, h1, ⟨b1, b2, _⟩, h3⟩ := lex_final input
  refine ⟨body, fin, h1, b1, b2, ?_⟩
  rcases h3 with ⟨h, _⟩ | ⟨eof, h, hid, _⟩
  · exact Or.inl h
  · exact Or.inr ⟨eof, h, hid⟩

/-- **pos_strictly_increasing / lines_monotone.** Along the token list (EOF aside) `Pos` is strictly
    increasing and the reported lines never decrease — what the parser's line comparisons (and the
    rule of the `sep` cases) rely on. -/
theorem lines_monotone (input : List Nat) :
    ((lex input).toList.filter (·.id ≠ tEOF)).Pairwise (fun a b => a.pos < b.pos ∧ a.line ≤ b.line) := by
  obtain ⟨body, fin, h1, b1, b2, h3⟩ := token_list_shape input
  have hf : (lex input).toList.filter (·.id ≠ tEOF) = body := by
    rw [h1, List.filter_append]
    have e1 : body.filter (·.id ≠ tEOF) = body := List.filter_eq_self.mpr (fun t ht => by simpa using b1 t ht)
    have e2 : fin.filter (·.id ≠ tEOF) = [] := by
      rcases h3 with rfl | ⟨eof, rfl, hid⟩
      · rfl
      · simp [hid]
    rw [e1, e2, List.append_nil]
  rw [hf]
  have hmem : ∀ t ∈ body, t ∈ (lex input).toList := fun t ht => by rw [h1]; exact List.mem_append_left _ ht
  refine List.Pairwise.imp_of_mem ?_ b2
  intro a b ha hb hab
  refine ⟨hab, ?_⟩
  rw [(token_positions_true_partial input a (hmem a ha) (b1 a ha)).1,
    (token_positions_true_partial input b (hmem b hb) (b1 b hb)).1]
  exact lineOf_mono _ (Nat.le_of_lt hab)

/-- **eof_line_true.** If the lexer did not stop at an error token, the token list ends with the EOF
    token and that token's line is the line of the end of the input (its `Pos` / column are those of
    the previous token's start: known finding `eof-stale-position`). -/
theorem eof_line_true (input : List Nat) (hne : ∀ t ∈ (lex input).toList, t.id ≠ tERROR) :
    ∃ eof, (lex input).toList.getLast? = some eof ∧ eof.id = tEOF ∧
      eof.line = lineOf input.toArray input.toArray.size := by
  obtain ⟨body, fin, h1, _, h3⟩ := lex_final input
  have hb : ∀ e, body.getLast? = some e → e.id ≠ tERROR := fun e he =>
    hne e (by rw [h1]; exact List.mem_append_left _ (List.mem_of_getLast? he))
  rcases h3 with ⟨_, e, he, hid⟩ | ⟨eof, hf, hid, hl⟩
  · exact absurd hid (hb e he)
  · refine ⟨eof, by rw [h1, hf]; simp, hid, ?_⟩
    rcases hl with hl | ⟨e, he, hide⟩
    · exact hl
    · exact absurd hide (hb e he)

example : (∀ t ∈ (lex witnessSrc).toList, t.id ≠ tERROR) ∧
    ((lex [97, 10, 10]).toList.map fun t => (t.id, t.line)) = [(tIDENTIFIER, 1), (tEOF, 3)] := by decide +kernel

/-! ## The gap clause: Pos is the token's first character -/

/-- **gap_is_blank.** For every token `t` of `lex input` other than EOF, with `pre` the tokens before
    it in the list: there are a boundary offset `spos` and an offset `e` such that
    * `t.pos` is `spos` itself — or `spos + 1` for a `#` comment token, `spos + 2` for a block comment
      token and for the error token of an unterminated block comment (`OffOK`: `Pos` stands behind
      the opener that starts at `spos`);
    * at `spos` stands a rune that is NOT blank (inside the input);
    * `[e, spos)` is a run of blank runes (`BlankRun`: unicode.IsSpace ∨ IsControl, rune after rune);
    * `e = 0` if `t` is the first token; otherwise `e` lies behind the `Pos` of the previous token `a`
      and is where the lexing of `a` ended — for keywords, symbols, identifiers, numbers and `#`
      comments exactly `a.pos + |a.val|`, for block comments `a.pos + |a.val| + 2` (`PrevEnd` / `EndOK`:
      directly behind `a`'s text; a number's value is its lower-cased text, which has the same length:
      a text `validFloat` accepts has only digits, `.`, `e`, `+`; for string and error tokens only
      `a.pos < e` is stated here — `Ecal.Props.C14Lex` gives the extent of string literals).
    So nothing but blanks lies between the end of one token's text and the first character of the
    next token (comments are tokens of the list themselves): together with
    `token_starts_at_first_character` and `token_text_at_pos`, `Pos` IS the first character of the
    token — a lexer that started words at their second byte would violate this theorem. -/
theorem gap_is_blank (input : List Nat) (pre : List Tok) (t : Tok) (post : List Tok)
    (h : (lex input).toList = pre ++ t :: post) (hne : t.id ≠ tEOF) :
    ∃ spos e, OffOK t.id t.pos spos ∧ spos < input.toArray.size ∧
      blank (some (decodeRune input.toArray spos).1) = false ∧ BlankRun input.toArray e spos ∧
      ((pre = [] ∧ e = 0) ∨
       ∃ pre' a, pre = pre' ++ [a] ∧ a.pos < e ∧
         (a.id = tPOSTCOMMENT → e = a.pos + a.val.length) ∧
         (a.id = tPRECOMMENT → e = a.pos + a.val.length + 2) ∧
         (7 ≤ a.id → e = a.pos + a.val.length) ∧
         (a.id = tNUMBER → e = a.pos + a.val.length)) := by
  obtain ⟨body, fin, h1, ⟨_, _, _, b4⟩, h3⟩ := lex_final input
  rw [h1] at h
  have hb : ∃ post', body = pre ++ t :: post' := by
    rcases h3 with ⟨rfl, _⟩ | ⟨eof, rfl, hid, _⟩
    · exact ⟨post, by simpa using h⟩
    · rcases snoc_decomp h with ⟨_, _, rfl⟩ | ⟨post', _, hb⟩
      · exact absurd hid hne
      · exact ⟨post', hb⟩
  obtain ⟨post', hb⟩ := hb
  exact b4 pre t post' hb

/-- **token_pos_is_first_character.** The plain form for tokens that are neither comments nor error
    tokens (keywords, symbols, identifiers, numbers, strings): the rune at `Pos` is not blank and
    everything between the end of the previous token's lexing (`e`; offset 0 for the first token;
    `a.pos + |a.val|` behind a keyword / symbol / identifier / number) and `Pos` is a run of blank
    runes. -/
theorem token_pos_is_first_character (input : List Nat) (pre : List Tok) (t : Tok) (post : List Tok)
    (h : (lex input).toList = pre ++ t :: post) (h1 : t.id ≠ tEOF) (h2 : t.id ≠ tPOSTCOMMENT)
    (h3 : t.id ≠ tPRECOMMENT) (h4 : t.id ≠ tERROR) :
    blank (some (decodeRune input.toArray t.pos).1) = false ∧
    ∃ e, BlankRun input.toArray e t.pos ∧
      ((pre = [] ∧ e = 0) ∨ ∃ pre' a, pre = pre' ++ [a] ∧ a.pos < e ∧
        (7 ≤ a.id ∨ a.id = tNUMBER → e = a.pos + a.val.length)) := by
  obtain ⟨spos, e, hoff, _, hb, hrun, hprev⟩ := gap_is_blank input pre t post h h1
  have hs : t.pos = spos := by
    rcases hoff with ⟨hp, _⟩ | ⟨hp, _⟩ | hp
    · exact absurd hp h2
    · rcases hp with hp | hp
      · exact absurd hp h3
      · exact absurd hp h4
    · exact hp
  rw [hs]
  refine ⟨hb, e, hrun, ?_⟩
  rcases hprev with hp | ⟨pre', a, q1, q2, _, _, q5, q6⟩
  · exact Or.inl hp
  · exact Or.inr ⟨pre', a, q1, q2, fun h => h.elim q5 q6⟩

/-- non-vacuity: in `a⎵⎵b` (bytes 97 32 32 98) the two blanks between the tokens are a blank run
    from the end of `a` (offset 1 = 0 + |a|) to the `Pos` of `b` (offset 3); the list has the shape
    the hypotheses ask for -/
example : BlankRun #[97, 32, 32, 98] 1 3 ∧
    ((lex [97, 32, 32, 98]).toList.map fun t => (t.id, t.pos, t.val)) =
      [(tIDENTIFIER, 0, [97]), (tIDENTIFIER, 3, [98]), (tEOF, 3, [])] :=
  ⟨.step (by decide) (by decide) (.step (by decide) (by decide) (.refl _)), by decide +kernel⟩

/-- non-vacuity for the number clause: in `12⎵b` the number token (Pos 0, value `12`) ends at
    offset 2 = 0 + |12|, and `[2, 3)` is the blank run in front of `b` -/
example : BlankRun #[49, 50, 32, 98] 2 3 ∧
    ((lex [49, 50, 32, 98]).toList.map fun t => (t.id, t.pos, t.val)) =
      [(tNUMBER, 0, [49, 50]), (tIDENTIFIER, 3, [98]), (tEOF, 3, [])] :=
  ⟨.step (by decide) (by decide) (.refl _), by decide +kernel⟩

/-! ## Errors, stack traces and break points copy the token's position (regenerated source fact) -/

/-- which site kinds the extractor found in the expected shape (reported in the evidence as
    `fact_kinds_established`; not an obligation: a behaviour-preserving rewrite may move a site
    into a shape the extractor does not know) -/
def establishedKinds : List Nat :=
  [1, 2, 3, 4, 6, 7, 8, 9, 10].filter fun k => Ecal.Gen.C18.sites.any fun s => s.1 == k && s.2.1 == 0

/-- **errors_carry_token_pos (source fact, regenerated from the tree under test on every run by
    `harness C18 -tool extract`, go/ast; three-valued; the judgement itself is Go string matching on
    the operands and is part of the trusted base).** (1) Every kind of site that copies a token
    position into something the user sees is PRESENT in the tree (constructions of `parser.Error` /
    `util.RuntimeError`, both `Error()` methods, `GetTraceString`, the break point key that indexes
    `ed.breakPoints` in `VisitState`, `SetBreakPoint`, the except object's `line` / `pos`) — an empty
    or foreign tree does not satisfy this; (2) no site is REFUTED: none uses a token's byte offset or
    PrefixNewlines, arithmetic on a position field, or Line / Pos of one value swapped. A site of
    UNKNOWN shape (locals, helpers) breaks nothing and is listed in the evidence; which kinds are
    ESTABLISHED in the expected shape is evidence too (`establishedKinds`; all nine on /repo HEAD).
    The planted-error and break point cases (kinds E, B) observe the same clause at run time. -/
theorem errors_carry_token_pos :
    ([1, 2, 3, 4, 6, 7, 8, 9, 10].all fun k => Ecal.Gen.C18.sites.any fun s => s.1 == k) = true ∧
    (Ecal.Gen.C18.sites.all fun s => s.2.1 != 1) = true := by
  decide

end Ecal.Props.C18
