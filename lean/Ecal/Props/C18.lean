import Ecal.Model.Lexer
import Ecal.Model.LexerSpec
import Ecal.Lemmas.LexerPos
/-!
# C18 — tokens, errors and breakpoints carry the true source position

Theorems about the **real functions of the lexer model** `Ecal.Model.Lexer` (the model the
correspondence runs against `parser.LexToList` on every check): its position bookkeeping
`trackPair` / `L.track` (whitespace skipper, string lexer, block comment), `L.hashEnd` (the `#`
comment branch), `L.stamp` / `L.emit` (what is written into a token), and `L.next`.

Specification (`Ecal.Lex.Spec`, from the bytes alone): `nlBefore inp off` newlines among the
first `off` bytes, `lineStart inp off` offset after the last of them, `lineOf = nlBefore + 1`,
`colOf = off - lineStart + 1`.

What is proved and what is not: the theorems cover every place where the lexer *changes* `line`
/ `lastnl` and the place where it *reads* them. That the token scanners which do not touch the
bookkeeping (`lexNumberBlock`, `lexTextBlock`, the `#` comment body) never run over a newline,
and the composition over a whole input (full statement below), is **not** proved; it is
evaluated on every generated case by the driver (`Ecal.Drv.C18`: every token of the full model
against `lineOf` / `colOf`, deviations classified) — tested, not proved.

Full-strength statement (kept visible, not proved):
  `∀ input, ∀ t ∈ lex input, t.id ≠ tEOF → t.line = lineOf input t.pos ∧ t.col = colOf input t.pos`
It is false as it stands (`hash_comment_column_witness`); the intended partial form is
  `… → t.line = lineOf input t.pos ∧ (t.col = colOf input t.pos ∨ afterHashComment input (lex input) t.pos)`.
-/
namespace Ecal.Props.C18
open Ecal.Lex Ecal.Lex.Spec

/-- The bookkeeping is *true at offset `p`*: `line` newlines before `p`, `lastnl` just after the
    last of them. -/
def Good (inp : Bytes) (p line lastnl : Nat) : Prop :=
  line = nlBefore inp p ∧ lastnl = lineStart inp p

/-- the lexer state's bookkeeping is true at its read position -/
def StateGood (l : L) : Prop := Good l.inp l.pos l.line l.lastnl

instance (inp : Bytes) (p line lastnl : Nat) : Decidable (Good inp p line lastnl) := by
  unfold Good; infer_instance

/-- `nlBefore` is the textbook count: the number of `'\n'` among the first `off` bytes. -/
theorem nlBefore_eq_count (inp : Bytes) : ∀ off, off ≤ inp.size →
    nlBefore inp off = (inp.toList.take off).count 10
  | 0, _ => by simp [nlBefore]
  | n+1, h => by
    have hs : n < inp.size := by omega
    have hn : n < inp.toList.length := by simpa using hs
    rw [nlBefore, nlBefore_eq_count inp n (by omega), List.take_succ_eq_append_getElem hn,
      List.count_append]
    have : inp.getD n 0 = inp.toList[n] := by
      simp [Array.getD, hs]
    rw [this]
    by_cases h10 : inp.toList[n] = 10 <;> simp [h10, List.count_singleton]

/-- `lineStart` is the offset after the last newline: it is 0 or follows a newline byte, and no
    newline lies between it and the offset. -/
theorem lineStart_spec (inp : Bytes) : ∀ off,
    (lineStart inp off = 0 ∨ inp.getD (lineStart inp off - 1) 0 = 10) ∧
    lineStart inp off ≤ off ∧ NoNl inp (lineStart inp off) off
  | 0 => by simp [lineStart, NoNl]
  | n+1 => by
    obtain ⟨h1, h2, h3⟩ := lineStart_spec inp n
    simp only [lineStart]
    split
    · rename_i h; refine ⟨Or.inr (by simpa using h), by omega, noNl_empty _ _⟩
    · rename_i h
      refine ⟨h1, by omega, ?_⟩
      intro j ha hb
      by_cases hj : j < n
      · exact h3 j ha hj
      · have : j = n := by omega
        subst this; exact h

/-- **lexer_pos_invariant (step).** The bookkeeping step of skipWhiteSpace / lexValue / the block
    comment keeps the bookkeeping true: if it is true at `p`, the rune just read covers `[p, q)`,
    a newline rune is the single byte `'\n'` and any other rune covers no newline byte, then
    after `trackPair r q` it is true at `q`. -/
theorem lexer_pos_invariant_step (inp : Bytes) (p q line lastnl : Nat) (r : Option Nat)
    (hg : Good inp p line lastnl) (hpq : p ≤ q)
    (hnl : r = some 10 → q = p + 1 ∧ inp.getD p 0 = 10)
    (hother : r ≠ some 10 → NoNl inp p q) :
    Good inp q (trackPair r q (line, lastnl)).1 (trackPair r q (line, lastnl)).2 := by
  obtain ⟨h1, h2⟩ := hg
  unfold trackPair
  by_cases hr : r = some 10
  · obtain ⟨rfl, h10⟩ := hnl hr
    simp [hr, Good, nlBefore, lineStart, h10, h1]
  · obtain ⟨e1, e2⟩ := nlBefore_noNl' hpq (hother hr)
    simp [hr, Good, e1, e2, h1, h2]

example : Good #[97, 10, 98] 1 0 0 ∧
    Good #[97, 10, 98] 2 (trackPair (some 10) 2 (0, 0)).1 (trackPair (some 10) 2 (0, 0)).2 := by
  decide

/-- The same step on the lexer state: `L.track` after a rune that ended at `l.pos`. -/
theorem track_good (l : L) (p : Nat) (r : Option Nat)
    (hg : Good l.inp p l.line l.lastnl) (hpq : p ≤ l.pos)
    (hnl : r = some 10 → l.pos = p + 1 ∧ l.inp.getD p 0 = 10)
    (hother : r ≠ some 10 → NoNl l.inp p l.pos) :
    StateGood (l.track r) := by
  have := lexer_pos_invariant_step l.inp p l.pos l.line l.lastnl r hg hpq hnl hother
  simpa [StateGood, L.track] using this

/-- **token_positions_true (stamp).** A token stamped while the bookkeeping is true at the
    token's start carries the true line and column of its first byte. -/
theorem stamp_true (l : L) (hg : Good l.inp l.start l.line l.lastnl) :
    l.stamp = (lineOf l.inp l.start, colOf l.inp l.start) := by
  obtain ⟨h1, h2⟩ := hg
  simp [L.stamp, lineOf, colOf, h1, h2]

/-- … and that is what `emit` (emitToken / emitTokenAndValue / emitError) writes: the token
    appended last has `pos = start` and the stamped line / column; nothing else about the
    state's position changes. -/
theorem emit_token (l : L) (id : Nat) (val : List Nat) (ident ae : Bool) :
    (l.emit id val ident ae).toks = l.toks.push
      { id := id, pos := l.start, val := val, identifier := ident, allowEscapes := ae,
        prefixNl := l.skippedNl, line := l.stamp.1, col := l.stamp.2 } ∧
    (l.emit id val ident ae).pos = l.pos ∧ (l.emit id val ident ae).line = l.line ∧
    (l.emit id val ident ae).lastnl = l.lastnl := by
  simp [L.emit]

/-- **token_positions_true_partial (the `#` branch).** What the `#` comment branch does at its
    terminating newline (`line++`, nothing else): the line stays true, but `lastnl` is left
    strictly *before* the true line start — every token stamped before the next tracked newline
    gets a column that is too large. -/
theorem hash_branch_line_true_column_stale (l : L) (p : Nat)
    (hg : Good l.inp p l.line l.lastnl) (h10 : l.inp.getD p 0 = 10) :
    l.hashEnd.line = nlBefore l.inp (p + 1) ∧
    l.hashEnd.lastnl < lineStart l.inp (p + 1) := by
  obtain ⟨h1, h2⟩ := hg
  have := lineStart_le l.inp p
  simp [L.hashEnd, nlBefore, lineStart, h10, h1, h2]
  omega

/-- … while stamping with a stale `lastnl` still gives the true *line*. -/
theorem stamp_line_true (l : L) (h1 : l.line = nlBefore l.inp l.start) :
    l.stamp.1 = lineOf l.inp l.start := by
  simp [L.stamp, lineOf, h1]

/-- the bytes of `a # c\nb` -/
def witnessSrc : List Nat := [97, 32, 35, 32, 99, 10, 98]

/-- **hash_comment_column_witness.** Negative witness of the known finding
    `hash-comment-column` on the *full* lexer model: in `a # c\nb` the token `b` (offset 6, first
    byte of line 2) is reported at line 2 — right — and column 7 — wrong. -/
theorem hash_comment_column_witness :
    ((lex witnessSrc).toList.map fun t => (t.pos, t.line, t.col)) = [(0, 1, 1), (3, 1, 4), (6, 2, 7), (6, 2, 7)] := by
  decide +kernel

/-- … the true position of offset 6 in that text is line 2, column 1 … -/
theorem hash_comment_column_witness_true :
    lineOf witnessSrc.toArray 6 = 2 ∧ colOf witnessSrc.toArray 6 = 1 := by
  decide

/-- … and the classifier of the known finding recognises it (and not the first line). -/
theorem hash_comment_column_witness_classified :
    afterHashComment witnessSrc.toArray (lex witnessSrc).toList 6 = true ∧
    afterHashComment witnessSrc.toArray (lex witnessSrc).toList 3 = false := by
  decide +kernel

end Ecal.Props.C18
