import Ecal.Props.C04Loops
/-!
# C04 — composing the per-node equations: a program-level theorem

`eval_statements` (Lemmas/C04Wiring.lean) makes sequences compose; `seq_first_signal` says where a
sequence stops. `program_try_finally_signal` composes sequence + try + finally for a whole statement
`try { pre…; c; post… } finally { fb… }` with arbitrary sub-trees: when `c` is the first statement of the
block to end in a signal `e` (error, return, break or continue — raised at any depth below `c`), then
`post` is never evaluated, no except clause exists to consult, the finally block is evaluated exactly
once after it, and the statement ends in `e` — for every fuel.

This is one composed instance, not the promised refinement to an independent `Spec.exec`: the
reference semantics of C04 remains the set of per-construct equations (Props/C04.lean,
Props/C04Eval.lean, Props/C04Loops.lean); see `spec_refinement_partial` below for what is missing.
-/
namespace Ecal.Props.C04
open Ecal.Ev
open Ecal.Parse (Node)
open Ecal.Lex (Tok)

/-- the statements `cs` evaluate in order from `s` to `s'` without any signal -/
inductive SeqOk (f sc : Nat) : List Node → St → St → Prop
  | nil (s : St) : SeqOk f sc [] s s
  | cons {c : Node} {cs : List Node} {s s1 s2 : St} {v : Val} : run (eval f sc c) s = (.ok v, s1) →
      SeqOk f sc cs s1 s2 → SeqOk f sc (c :: cs) s s2

/-- **seq_first_signal**: a sequence ends at its first statement that raises a signal, with that signal,
    in the state that statement left; the statements after it are not evaluated -/
theorem seq_first_signal (f sc : Nat) (pre post : List Node) (c : Node) (s s1 s2 : St) (e : Sig) (r0 : Val)
    (hpre : SeqOk f sc pre s s1) (hc : run (eval f sc c) s1 = (.error e, s2)) :
    run (seqEval f sc (pre ++ c :: post) r0) s = (.error e, s2) := by
  induction hpre generalizing r0 with
  | nil s => simp [seqEval, run_bind, hc]
  | cons h _ ih =>
    simp only [List.cons_append, seqEval, run_bind, h]
    exact ih _ hc

/-- a sequence without signals yields the value of its last statement (or the initial value) -/
theorem seq_all_ok (f sc : Nat) (cs : List Node) (s s1 : St) (r0 : Val) (h : SeqOk f sc cs s s1) :
    ∃ v, run (seqEval f sc cs r0) s = (.ok v, s1) := by
  induction h generalizing r0 with
  | nil s => exact ⟨r0, rfl⟩
  | @cons c cs s s1 s2 v h _ ih =>
    obtain ⟨w, hw⟩ := ih v
    exact ⟨w, by simp only [seqEval, run_bind, h, hw]⟩

/-- **program_try_finally_signal** (composed, program level): see the header -/
theorem program_try_finally_signal (f sc tvs fs : Nat) (n body last fb c : Node) (pre post : List Node)
    (t tl : Tok) (s s0 s1 s2 s3 : St) (e : Sig)
    (hn : n.name = "try") (hc : n.children = some body :: [last].map some) (ht : n.tok = some t)
    (hbn : body.name = "statements") (hbc : body.children = (pre ++ c :: post).map some)
    (hfn : last.name = "finally") (hfc : last.children = [some fb]) (hlt : last.tok = some tl)
    (hsf : run (newChild sc (blockName last tl)) s = (.ok fs, s0))
    (hst : run (newChild sc (blockName n t)) s0 = (.ok tvs, s1))
    (hpre : SeqOk f tvs pre s1 s2)
    (hsig : run (eval f tvs c) s2 = (.error e, s3))
    (he : ∀ w, e ≠ .unsupported w) (he' : e ≠ .fuel) :
    run (eval (f+3) sc n) s = afterFinally (.error e) (run (eval (f+1) fs fb) s3) := by
  have hbody : run (eval (f+1) tvs body) s1 = (.error e, s3) := by
    rw [eval_statements f tvs body _ hbn hbc]
    exact seq_first_signal f tvs pre post c s1 s2 s3 e _ hpre hsig
  have hmain : run (tryMain (f+1) sc n body [last]) s0 = (.error e, s3) := by
    rw [run_tryMain (f+1) sc tvs n body [last] t s0 s1 ht hst, tryCore_eq, hbody]
    have hh : tryHandlers (f+1) sc [last] = [] := by simp [tryHandlers, hfn]
    simp only [hh, dispatchExcept]
    split <;> rfl
  exact eval_finally_exactly_once (f+1) sc fs n body last fb [last] tl s s0 s3 _ hn hc (by simp) hfn hfc hlt hsf hmain
    (by intro w h; cases h; exact he w rfl) (by intro h; cases h; exact he' rfl)

/-
The independent reference semantics and the refinement are in Props/C04Spec.lean (`Spec.exec`, `refines`)
and Props/C04SpecEval.lean (`eval_is_impl`, `eval_refines_spec`: statements, if, condition loops, try with
otherwise / finally, calls). Still outside the refinement (`spec_refinement_partial`): `for … in` loops
(a leaf of `stmtOf`; their laws are loop_iter_step / loop_list / loop_range_runs_rangeVals and the eval-level
break/continue theorem), and except clauses enter as whole handlers (`Clauses.opaque`; the decision of a
typed clause is `exceptHandler_typed_decides`).
-/

/-! ### non-vacuity on a tree of the real parser

`try {⏎} finally {⏎}` — payload of `harness C04 -tool payload 747279207b0a7d2066696e616c6c79207b0a7d`:
`try|69|747279|0|0|1|1|2;statements|-|-|0|0|0|0|0;finally|72|66696e616c6c79|0|0|2|3|1;statements|-|-|0|0|0|0|0` -/

def exTok (id : Nat) (val : String) (line : Nat) (col : Int) : Tok :=
  { id := id, pos := 0, val := Ecal.Lex.str val, identifier := false, allowEscapes := false, prefixNl := 0,
    line := line, col := col }
def exNode (name : String) (tok : Option Tok) (children : List (Option Node)) : Node :=
  Node.mk name tok 0 default default children []
def exStm : Node := exNode "statements" none []
def exFin : Node := exNode "finally" (some (exTok 72 "finally" 2 3)) [some exStm]
def exTry : Node := exNode "try" (some (exTok 69 "try" 1 1)) [some exStm, some exFin]

theorem run_getScope (i : Nat) (s : St) : run (getScope i) s = (.ok (s.scopes.getD i default), s) := rfl
theorem run_newScope (nm : String) (par : Option Nat) (s : St) :
    run (newScope nm par) s = (.ok s.scopes.size,
      { s with scopes := s.scopes.push { name := nm, parent := par, children := [], vars := [] } }) := rfl
theorem run_setScope (i : Nat) (x : Scope) (s : St) :
    run (setScope i x) s = (.ok (), { s with scopes := s.scopes.setIfInBounds i x }) := rfl

/-- making (or finding) a child scope never fails -/
theorem newChild_ok (p : Nat) (nm : String) (s : St) : ∃ c s', run (newChild p nm) s = (.ok c, s') := by
  unfold newChild
  simp only [run_bind, run_getScope, run_get]
  split
  · exact ⟨_, _, rfl⟩
  · simp only [run_bind, run_newScope, run_setScope, run_pure]
    exact ⟨_, _, rfl⟩

/-- the hypotheses of `eval_finally_exactly_once` are jointly satisfiable on a real tree (every fuel, scope, state) -/
example (f sc : Nat) (s : St) : ∃ (fs : Nat) (s0 s1 : St) (r : Except Sig Val),
    run (newChild sc (blockName exFin (exTok 72 "finally" 2 3))) s = (.ok fs, s0) ∧
    run (tryMain (f+1) sc exTry exStm [exFin]) s0 = (r, s1) ∧
    run (eval (f+3) sc exTry) s = afterFinally r (run (eval (f+1) fs exStm) s1) := by
  obtain ⟨fs, s0, hsf⟩ := newChild_ok sc (blockName exFin (exTok 72 "finally" 2 3)) s
  obtain ⟨tvs, s1, hst⟩ := newChild_ok sc (blockName exTry (exTok 69 "try" 1 1)) s0
  have hbody : ∀ sc' s', run (eval (f+1) sc' exStm) s' = (.ok Val.null, s') := by
    intro sc' s'
    rw [eval_statements f sc' exStm [] rfl rfl]; rfl
  have hmain : run (tryMain (f+1) sc exTry exStm [exFin]) s0 = (.ok Val.null, s1) := by
    rw [run_tryMain (f+1) sc tvs exTry exStm [exFin] _ s0 s1 rfl hst, tryCore_eq, hbody]
    rfl
  refine ⟨fs, s0, s1, .ok Val.null, hsf, hmain, ?_⟩
  exact eval_finally_exactly_once (f+1) sc fs exTry exStm exFin exStm [exFin] _ s s0 s1 _ rfl rfl rfl rfl rfl rfl
    hsf hmain (by simp) (by simp)

/-- … and `WellFormed` holds for that tree (the `_wf` theorems apply to it) -/
example : Ecal.Parse.WellFormed exTry = true := by decide

end Ecal.Props.C04
