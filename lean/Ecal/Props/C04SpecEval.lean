import Ecal.Props.C04Spec
/-!
# C04 — `eval` on the trees of the control-flow fragment IS `Impl.exec`, hence refines `Spec.exec`

`stmtOf fuel sc n` reads a tree as a statement of the fragment: `statements`, `if`, condition loops and
`try` (blocks of otherwise / finally and of the try itself recursively; except clauses as whole handlers)
become syntax, every other node — and every node whose children do not have the shape of its kind — is
a leaf `eval fuel sc n`. `eval_is_impl` holds for EVERY tree, fuel and scope (no shape hypothesis), so

  `eval_refines_spec : toOutS (run (eval f sc n) s) = Spec.exec (stmtOf f sc n) s`.
-/
namespace Ecal.Props.C04
open Ecal.Ev
open Ecal.Parse (Node)

theorem M_ext {α : Type} (m m' : M α) (h : ∀ s, run m s = run m' s) : m = m' := funext h

/-- all children present -/
def allSome : List (Option Node) → Option (List Node)
  | [] => some []
  | none :: _ => none
  | some c :: r => (allSome r).map (c :: ·)

theorem allSome_eq : ∀ (cs : List (Option Node)) (l : List Node), allSome cs = some l → cs = l.map some
  | [], l, h => by cases h; rfl
  | none :: _, _, h => by cases h
  | some c :: r, l, h => by
    simp only [allSome, Option.map_eq_some_iff] at h
    obtain ⟨l', hl', rfl⟩ := h
    simp [allSome_eq r l' hl']

/-- guard / block pairs of an `if` node -/
def unflat : List (Option Node) → Option (List (Node × Node))
  | [] => some []
  | some g :: some b :: r => (unflat r).map ((g, b) :: ·)
  | _ => none

theorem unflat_eq : ∀ (cs : List (Option Node)) (ps : List (Node × Node)), unflat cs = some ps → cs = flatPairs ps
  | [], ps, h => by cases h; rfl
  | some g :: some b :: r, ps, h => by
    simp only [unflat, Option.map_eq_some_iff] at h
    obtain ⟨ps', hp, rfl⟩ := h
    simp [flatPairs, unflat_eq r ps' hp]
  | [some _], _, h => by cases h
  | none :: _, _, h => by cases h
  | some _ :: none :: _, _, h => by cases h

/-- a sequence of statements; the value is the last one's -/
def seqOf (g : Node → Stmt) : List Node → Stmt
  | [] => .leaf (pure Val.null)
  | [c] => g c
  | c :: c' :: r => .seq (g c) (seqOf g (c' :: r))

theorem seqEval_ignores (f sc : Nat) (c : Node) (cs : List Node) (v w : Val) :
    seqEval f sc (c :: cs) v = seqEval f sc (c :: cs) w := rfl

theorem seqOf_exec (f sc : Nat) (g : Node → Stmt) : ∀ (cs : List Node),
    (∀ c ∈ cs, Impl.exec (g c) = eval f sc c) → Impl.exec (seqOf g cs) = seqEval f sc cs Val.null
  | [], _ => rfl
  | [c], h => by simp [seqOf, seqEval, h c (by simp)]
  | c :: c' :: r, h => by
    have ih := seqOf_exec f sc g (c' :: r) (fun x hx => h x (by simp [hx]))
    simp only [seqOf, Impl.exec, h c (by simp), ih, seqEval]

/-- handlers as clauses given as a whole -/
def clausesOf : List Handler → Clauses
  | [] => .nil
  | h :: hs => .opaque h (clausesOf hs)

theorem handlers_clausesOf : ∀ hs : List Handler, Impl.handlers (clausesOf hs) = hs
  | [] => rfl
  | h :: hs => by simp [clausesOf, Impl.handlers, handlers_clausesOf hs]

theorem tryCore_nil (b : M Val) : tryCore b [] none = b := by
  apply M_ext; intro s
  rw [tryCore_eq]
  rcases hr : run b s with ⟨r, s1⟩
  cases r with
  | ok v => rfl
  | error e => simp only [dispatchExcept, run_throw]; split <;> rfl

theorem tryFinally_none (b : M Val) : tryFinally b none = b := M_ext _ _ (no_finally b)

/-! ### except clauses as syntax: the type test (`accepts`) and the block (`body`) -/

/-- the shapes of an except clause whose type test is made explicit in the refinement -/
inductive ClauseShape where
  | bare (st : Node)                                   -- `except { st }`
  | typed (s0 : Node) (ss : List Node) (st : Node)     -- `except "T0", "T1", … { st }`
  | other                                              -- anything else: kept as a whole handler

/-- reads the shape off the children (decidable; `other` whenever in doubt) -/
def clauseShape (c : Node) : ClauseShape :=
  match allSome c.children with
  | some [st] => .bare st
  | some kids =>
    match kids.takeWhile (·.name == "string"), kids.dropWhile (·.name == "string") with
    | s0 :: ss, [st] => if st.name = "statements" then .typed s0 ss st else .other
    | _, _ => .other
  | none => .other

theorem mem_takeWhile_p {α : Type} (p : α → Bool) : ∀ (l : List α) (x : α), x ∈ l.takeWhile p → p x = true
  | [], _, h => by simp at h
  | a :: l, x, h => by
    simp only [List.takeWhile_cons] at h
    split at h
    · rename_i hp
      rcases List.mem_cons.1 h with rfl | h
      · exact hp
      · exact mem_takeWhile_p p l x h
    · simp at h

theorem clauseShape_bare {c st : Node} (h : clauseShape c = .bare st) : c.children = [some st] := by
  unfold clauseShape at h
  split at h
  · rename_i st' hk; cases h; simpa using allSome_eq _ _ hk
  · split at h
    · split at h <;> cases h
    · cases h
  · cases h

theorem clauseShape_typed {c s0 st : Node} {ss : List Node} (h : clauseShape c = .typed s0 ss st) :
    c.children = ((s0 :: ss) ++ [st]).map some ∧ (∀ x ∈ s0 :: ss, x.name = "string") ∧ st.name = "statements" := by
  unfold clauseShape at h
  split at h
  · cases h
  · rename_i _ kids _ hk
    split at h
    · rename_i s0' ss' st' htw hdw
      split at h
      · rename_i hst
        cases h
        have hkids : kids = (s0 :: ss) ++ [st] := by
          rw [← List.takeWhile_append_dropWhile (p := (·.name == "string")) (l := kids), htw, hdw]
        refine ⟨by rw [allSome_eq _ _ hk, hkids], ?_, hst⟩
        intro x hx
        have : x ∈ kids.takeWhile (·.name == "string") := by rw [htw]; exact hx
        simpa using mem_takeWhile_p _ _ _ this
      · cases h
    · cases h
  · cases h

/-! ### clauses that BIND the error: `except e`, `except as e`, `except "T", … as e` -/

/-- the variable a binder child names: `as v` → v, an identifier → itself (read off the tree) -/
def varOf (c0 : Node) : Option (List Nat) :=
  if c0.name = "as" then
    match c0.children with
    | [some av] => av.tok.map (·.val)
    | _ => none
  else c0.tok.map (·.val)

/-- the evaluator's computation of that variable -/
def varM (c0 : Node) : M (List Nat) :=
  if c0.name == "as" then do pure (← tokOf (← child c0 0)).val else do pure (← tokOf c0).val

theorem varM_of_varOf {c0 : Node} {v : List Nat} (h : varOf c0 = some v) : varM c0 = pure v := by
  unfold varOf at h
  unfold varM
  by_cases ha : c0.name = "as"
  · simp only [ha, if_true] at h
    split at h
    · rename_i av hav
      cases ht : av.tok with
      | none => simp [ht] at h
      | some t =>
        simp only [ht, Option.map_some, Option.some.injEq] at h
        subst h
        simp [ha, child, hav, tokOf, ht]
    · cases h
  · have ha' : (c0.name == "as") = false := by simpa using ha
    simp only [ha, if_false] at h
    cases ht : c0.tok with
    | none => simp [ht] at h
    | some t =>
      simp only [ht, Option.map_some, Option.some.injEq] at h
      subst h
      simp [ha', tokOf, ht]

/-- the error-binding shapes -/
inductive BindShape where
  | bind (c0 st : Node) (var : List Nat)                                          -- `except e { st }` / `except as e { st }`
  | typedAs (s0 : Node) (ss : List Node) (a av : Node) (t : Ecal.Lex.Tok) (st : Node)   -- `except "T0", … as e { st }`
  | typedIdent (s0 : Node) (ss : List Node) (a st : Node)                         -- `except "T0", … e { st }`: nothing bound
  | none

def bindingShape (c : Node) : BindShape :=
  match allSome c.children with
  | some [c0, st] =>
    if c0.name = "string" then .none
    else match varOf c0 with
      | some v => .bind c0 st v
      | none => .none
  | some kids =>
    match kids.takeWhile (·.name == "string"), kids.dropWhile (·.name == "string") with
    | s0 :: ss, [a, st] =>
      if a.name = "as" ∧ st.name = "statements" then
        match a.children with
        | [some av] =>
          (match av.tok with
           | some t => .typedAs s0 ss a av t st
           | none => .none)
        | _ => .none
      else if a.name = "identifier" ∧ st.name = "statements" then .typedIdent s0 ss a st
      else .none
    | _, _ => .none
  | none => .none

theorem bindingShape_bind {c c0 st : Node} {v : List Nat} (h : bindingShape c = .bind c0 st v) :
    c.children = [some c0, some st] ∧ c0.name ≠ "string" ∧ varM c0 = pure v := by
  unfold bindingShape at h
  split at h
  · rename_i c0' st' hk
    split at h
    · cases h
    · rename_i hns
      split at h
      · rename_i v' hv
        cases h
        exact ⟨by simpa using allSome_eq _ _ hk, hns, varM_of_varOf hv⟩
      · cases h
  · repeat' split at h
    all_goals cases h
  · cases h

theorem bindingShape_typedAs {c s0 a av st : Node} {ss : List Node} {t : Ecal.Lex.Tok}
    (h : bindingShape c = .typedAs s0 ss a av t st) :
    c.children = ((s0 :: ss) ++ [a, st]).map some ∧ (∀ x ∈ s0 :: ss, x.name = "string") ∧ a.name = "as" ∧
      a.children = [some av] ∧ av.tok = some t ∧ st.name = "statements" := by
  unfold bindingShape at h
  split at h
  · repeat' split at h
    all_goals cases h
  · rename_i _ kids _ hk
    split at h
    · rename_i s0' ss' a' st' htw hdw
      split at h
      · rename_i hcond
        split at h
        · rename_i av' hav
          split at h
          · rename_i t' ht
            cases h
            have hkids : kids = (s0 :: ss) ++ [a, st] := by
              rw [← List.takeWhile_append_dropWhile (p := (·.name == "string")) (l := kids), htw, hdw]
            refine ⟨by rw [allSome_eq _ _ hk, hkids], ?_, hcond.1, hav, ht, hcond.2⟩
            intro x hx
            have : x ∈ kids.takeWhile (·.name == "string") := by rw [htw]; exact hx
            simpa using mem_takeWhile_p _ _ _ this
          · cases h
        · cases h
      · split at h <;> cases h
    · cases h
  · cases h

theorem bindingShape_typedIdent {c s0 a st : Node} {ss : List Node} (h : bindingShape c = .typedIdent s0 ss a st) :
    c.children = ((s0 :: ss) ++ [a, st]).map some ∧ (∀ x ∈ s0 :: ss, x.name = "string") ∧ a.name = "identifier" ∧
      st.name = "statements" := by
  unfold bindingShape at h
  split at h
  · repeat' split at h
    all_goals cases h
  · rename_i _ kids _ hk
    split at h
    · rename_i s0' ss' a' st' htw hdw
      split at h
      · repeat' split at h
        all_goals cases h
      · split at h
        · rename_i hcond
          cases h
          have hkids : kids = (s0 :: ss) ++ [a, st] := by
            rw [← List.takeWhile_append_dropWhile (p := (·.name == "string")) (l := kids), htw, hdw]
          refine ⟨by rw [allSome_eq _ _ hk, hkids], ?_, hcond.1, hcond.2⟩
          intro x hx
          have : x ∈ kids.takeWhile (·.name == "string") := by rw [htw]; exact hx
          simpa using mem_takeWhile_p _ _ _ this
        · cases h
    · cases h
  · cases h

/-- the block of a binding clause: in the clause's child scope the error object is bound to the variable
    (a failure of that assignment is dropped), then the block runs -/
def bindBody (g : Nat → Node → Stmt) (sc : Nat) (c st : Node) (var : List Nat) (e : Sig) : Stmt :=
  .scoped (do newChild sc (← scopeName c)) (fun evs =>
    .seq (.leaf (do bindErr evs var e; pure Val.null)) (g evs st))

/-- the block of a handled clause: in the clause's child scope -/
def clauseBody (g : Nat → Node → Stmt) (sc : Nat) (c st : Node) : Stmt :=
  .scoped (do newChild sc (← scopeName c)) (fun evs => g evs st)

/-- one except clause `c` in front of `rest` -/
def clauseOfNode (g : Nat → Node → Stmt) (f'' sc : Nat) (c : Node) (rest : Clauses) : Clauses :=
  match clauseShape c with
  | .bare st => .clause (fun _ => pure (.bool true)) (fun _ => clauseBody g sc c st) rest
  | .typed s0 ss st =>
    .clause (fun e => do
        let b ← typedMatch (errType e) bytesToString ((s0 :: ss).map fun ch => eval f'' sc ch)
        pure (.bool b))
      (fun _ => clauseBody g sc c st) rest
  | .other =>
    match bindingShape c with
    | .bind _ st var => .clause (fun _ => pure (.bool true)) (fun e => bindBody g sc c st var e) rest
    | .typedAs s0 ss _ _ t st =>
      .clause (fun e => do
          let b ← typedMatch (errType e) bytesToString ((s0 :: ss).map fun ch => eval f'' sc ch)
          pure (.bool b))
        (fun e => bindBody g sc c st t.val e) rest
    | .typedIdent s0 ss _ st =>
      .clause (fun e => do
          let b ← typedMatch (errType e) bytesToString ((s0 :: ss).map fun ch => eval f'' sc ch)
          pure (.bool b))
        (fun _ => clauseBody g sc c st) rest
    | .none => .opaque (exceptHandler (f''+1) sc c) rest    -- anything unexpected: a whole handler

/-- the except clauses of a try node, in source order -/
def clauseStmts (g : Nat → Node → Stmt) (f'' sc : Nat) : List Node → Clauses
  | [] => .nil
  | c :: cs => if c.name == "except" then clauseOfNode g f'' sc c (clauseStmts g f'' sc cs) else clauseStmts g f'' sc cs

theorem handlers_clauseOfNode (g : Nat → Node → Stmt) (f'' sc : Nat) (c : Node) (rest : Clauses)
    (hg : ∀ sc n, Impl.exec (g sc n) = eval f'' sc n) :
    Impl.handlers (clauseOfNode g f'' sc c rest) = exceptHandler (f''+1) sc c :: Impl.handlers rest := by
  unfold clauseOfNode
  cases hs : clauseShape c with
  | bare st =>
    simp only [Impl.handlers, clauseBody, Impl.exec, hg]
    congr 1; funext e
    rw [exceptHandler_bare f'' sc c st e (clauseShape_bare hs)]
    simp
  | typed s0 ss st =>
    obtain ⟨hc, hstr, hst⟩ := clauseShape_typed hs
    simp only [Impl.handlers, clauseBody, Impl.exec, hg]
    congr 1; funext e
    rw [exceptHandler_typed f'' sc c s0 st ss e hc hstr hst]
    simp only [bind_assoc, pure_bind]
    congr 1; funext b
    cases b <;> simp
  | other =>
    simp only []
    cases hb : bindingShape c with
    | bind c0 st var =>
      obtain ⟨hc, hns, hvar⟩ := bindingShape_bind hb
      simp only [Impl.handlers, bindBody, Impl.exec, hg]
      congr 1; funext e
      rw [exceptHandler_bind f'' sc c c0 st e hc hns]
      have hvar' : (if c0.name == "as" then do pure (← tokOf (← child c0 0)).val else do pure (← tokOf c0).val) = pure var := hvar
      simp only [hvar', pure_bind, bindErrThen_eq, bind_assoc]
    | typedAs s0 ss a av t st =>
      obtain ⟨hc, hstr, ha, hac, hat, hst⟩ := bindingShape_typedAs hb
      simp only [Impl.handlers, bindBody, Impl.exec, hg]
      congr 1; funext e
      rw [exceptHandler_typed_as f'' sc c s0 a av st t ss e hc hstr ha hac hat hst]
      simp only [bind_assoc, pure_bind, bindErrThen_eq]
      congr 1; funext b
      cases b <;> simp
    | typedIdent s0 ss a st =>
      obtain ⟨hc, hstr, ha, hst⟩ := bindingShape_typedIdent hb
      simp only [Impl.handlers, clauseBody, Impl.exec, hg]
      congr 1; funext e
      rw [exceptHandler_typed_ident f'' sc c s0 a st ss e hc hstr ha hst]
      simp only [bind_assoc, pure_bind]
      congr 1; funext b
      cases b <;> simp
    | none => simp [Impl.handlers]

theorem handlers_clauseStmts (g : Nat → Node → Stmt) (f'' sc : Nat)
    (hg : ∀ sc n, Impl.exec (g sc n) = eval f'' sc n) : ∀ clauses : List Node,
    Impl.handlers (clauseStmts g f'' sc clauses) = tryHandlers (f''+1) sc clauses
  | [] => rfl
  | c :: cs => by
    have ih := handlers_clauseStmts g f'' sc hg cs
    unfold clauseStmts
    by_cases hc : (c.name == "except") = true
    · rw [if_pos hc, handlers_clauseOfNode g f'' sc c _ hg, ih]
      simp [tryHandlers, List.filter_cons, hc]
    · rw [if_neg hc, ih]
      simp [tryHandlers, List.filter_cons, hc]

/-- the block of an otherwise / finally clause `c`, read in scope `x` -/
def blockOf (g : Nat → Node → Stmt) (f' x : Nat) (c : Node) : Stmt :=
  match c.children with
  | [some b] => g x b
  | _ => .leaf (do eval f' x (← child c 0))

theorem blockOf_exec (g : Nat → Node → Stmt) (f' x : Nat) (c : Node)
    (hg : ∀ sc n, Impl.exec (g sc n) = eval f' sc n) :
    Impl.exec (blockOf g f' x c) = (do eval f' x (← child c 0)) := by
  unfold blockOf
  split
  · rename_i b hb; simp [hg, child, hb]
  · simp [Impl.exec]

/-- the (first) otherwise clause -/
def othOf (g : Nat → Node → Stmt) (f' sc : Nat) (clauses : List Node) : Stmt :=
  match clauses.find? (·.name == "otherwise") with
  | some o => .scoped (do newChild sc (← scopeName o)) (fun ovs => blockOf g f' ovs o)
  | none => .leaf (pure Val.null)

theorem othOf_exec (g : Nat → Node → Stmt) (f' sc : Nat) (clauses : List Node)
    (hg : ∀ sc n, Impl.exec (g sc n) = eval f' sc n) :
    (if (clauses.find? (·.name == "otherwise")).isSome then some (Impl.exec (othOf g f' sc clauses)) else none) =
      tryOtherwise f' sc clauses := by
  unfold tryOtherwise othOf
  cases hfo : clauses.find? (·.name == "otherwise") with
  | none => rfl
  | some o => simp [Impl.exec, blockOf_exec g f' _ o hg]

/-- the try block in its scope with the except clauses (whole handlers, source order) and otherwise -/
def tryInner (g : Nat → Node → Stmt) (f' sc : Nat) (n body : Node) (clauses : List Node) (cl : Clauses) : Stmt :=
  .scoped (do newChild sc (← scopeName n)) (fun tvs =>
    .try_ (g tvs body) cl (clauses.find? (·.name == "otherwise")).isSome
      (othOf g f' sc clauses) false (.leaf (pure Val.null)))

theorem tryInner_exec (g : Nat → Node → Stmt) (f' sc : Nat) (n body : Node) (clauses : List Node) (cl : Clauses)
    (hg : ∀ sc n, Impl.exec (g sc n) = eval f' sc n) (hcl : Impl.handlers cl = tryHandlers f' sc clauses) :
    Impl.exec (tryInner g f' sc n body clauses cl) = (do
      let tvs ← newChild sc (← scopeName n)
      tryCore (eval f' tvs body) (tryHandlers f' sc clauses) (tryOtherwise f' sc clauses)) := by
  unfold tryInner
  simp only [Impl.exec, hcl, hg, othOf_exec g f' sc clauses hg, Bool.false_eq_true, if_false,
    tryFinally_none, bind_assoc]

/-- a whole try node: when its last clause is `finally`, the scope of that block is made first and the block
    is deferred around everything else -/
def tryOf (g : Nat → Node → Stmt) (f' sc : Nat) (n body last : Node) (clauses : List Node) (cl : Clauses) : Stmt :=
  if last.name = "finally" then
    .scoped (do newChild sc (← scopeName last)) (fun fs =>
      .try_ (tryInner g f' sc n body clauses cl) .nil false (.leaf (pure Val.null)) true (blockOf g f' fs last))
  else tryInner g f' sc n body clauses cl

theorem tryOf_exec (g : Nat → Node → Stmt) (f' sc : Nat) (n body last : Node) (clauses : List Node) (cl : Clauses)
    (hg : ∀ sc n, Impl.exec (g sc n) = eval f' sc n) (hcl : Impl.handlers cl = tryHandlers f' sc clauses) :
    Impl.exec (tryOf g f' sc n body last clauses cl) = (do
      let fin ← tryFin f' sc last
      tryFinally (do
        let tvs ← newChild sc (← scopeName n)
        tryCore (eval f' tvs body) (tryHandlers f' sc clauses) (tryOtherwise f' sc clauses)) fin) := by
  unfold tryOf
  by_cases hfn : last.name = "finally"
  · rw [if_pos hfn]
    simp [Impl.exec, tryInner_exec g f' sc n body clauses cl hg hcl, Impl.handlers, tryCore_nil, tryFin, hfn,
      blockOf_exec g f' _ last hg]
  · rw [if_neg hfn]
    have hfin : tryFin f' sc last = pure none := by simp [tryFin, hfn]
    simp only [tryInner_exec g f' sc n body clauses cl hg hcl, hfin, pure_bind, tryFinally_none]

mutual
/-- a tree as a statement of the fragment (leaf = anything else, evaluated by `eval`) -/
def stmtOf : Nat → Nat → Node → Stmt
  | 0, sc, n => .leaf (eval 0 sc n)
  | f+1, sc, n =>
    if n.name = "statements" then
      match allSome n.children with
      | some cs => seqOf (fun c => stmtOf f sc c) cs
      | none => .leaf (eval (f+1) sc n)
    else if n.name = "if" then
      match unflat n.children with
      | some ps =>
        if ps.length < f then .scoped (do newChild sc (← scopeName n)) (fun bs => ifStmt f bs ps)
        else .leaf (eval (f+1) sc n)
      | none => .leaf (eval (f+1) sc n)
    else if n.name = "loop" then
      match f, n.children with
      | f'+1, [some g, some b] =>
        if g.name = "guard" then
          .scoped (do newChild sc (← scopeName n)) (fun ls => .fresh (.while_ (eval f' ls g) (stmtOf f' ls b) f'))
        else .leaf (eval (f'+2) sc n)
      | _, _ => .leaf (eval (f+1) sc n)
    else if n.name = "try" then
      match f, allSome n.children with
      | f'+1, some (body :: clauses) =>
        match (body :: clauses).getLast? with
        | some last =>
          tryOf (fun sc' c => stmtOf f' sc' c) f' sc n body last clauses
            (match f' with
             | 0 => clausesOf (tryHandlers 0 sc clauses)
             | f''+1 => clauseStmts (fun sc' c => stmtOf f'' sc' c) f'' sc clauses)
        | none => .leaf (eval (f'+2) sc n)
      | _, _ => .leaf (eval (f+1) sc n)
    else .leaf (eval (f+1) sc n)
/-- the chain of an `if` node: pair number k is read with fuel `f - k`, as `ifBranches` evaluates it -/
def ifStmt : Nat → Nat → List (Node × Node) → Stmt
  | _, _, [] => .leaf (pure Val.null)
  | 0, _, _ :: _ => .leaf (pure Val.null)
  | f+1, bs, (g, b) :: r => .ite (eval f bs g) (stmtOf f bs b) (ifStmt f bs r)
end

/-- **eval_is_impl**: for every tree, fuel and scope `eval` is `Impl.exec` of the statement the tree reads as -/
theorem eval_is_impl : ∀ (f : Nat), (∀ sc n, Impl.exec (stmtOf f sc n) = eval f sc n) ∧
    (∀ bs ps, Impl.exec (ifStmt f bs ps) = ifChain (ifPairs bs f ps)) := by
  intro f
  induction f using Nat.strongRecOn with
  | _ f ih =>
    cases f with
    | zero =>
      refine ⟨fun sc n => by simp [stmtOf, Impl.exec], fun bs ps => ?_⟩
      cases ps <;> simp [ifStmt, ifPairs, Impl.exec, ifChain]
    | succ f =>
      have ihf := ih f (Nat.lt_succ_self f)
      refine ⟨fun sc n => ?_, fun bs ps => ?_⟩
      · unfold stmtOf
        by_cases h1 : n.name = "statements"
        · simp only [h1, if_true]
          cases hc : allSome n.children with
          | none => simp [Impl.exec]
          | some cs =>
            simp only []
            rw [seqOf_exec f sc _ cs (fun c _ => ihf.1 sc c), eval_statements f sc n cs h1 (allSome_eq _ _ hc)]
        · by_cases h2 : n.name = "if"
          · simp only [h1, h2, if_false, if_true]
            cases hc : unflat n.children with
            | none => simp [Impl.exec]
            | some ps =>
              simp only []
              by_cases hl : ps.length < f
              · rw [if_pos hl, eval_if_is_ifChain f sc n ps h2 (unflat_eq _ _ hc) hl]
                simp [Impl.exec, ihf.2]
              · simp [hl, Impl.exec]
          · by_cases h3 : n.name = "loop"
            · rw [if_neg h1, if_neg h2, if_pos h3]
              split
              · rename_i f' g b hch
                by_cases hg : g.name = "guard"
                · rw [if_pos hg, eval_guardloop_is_guardLoop f' sc n g b h3 hch hg]
                  simp [Impl.exec, (ih f' (by omega)).1]
                · simp [hg, Impl.exec]
              · simp [Impl.exec]
            · by_cases h4 : n.name = "try"
              · rw [if_neg h1, if_neg h2, if_neg h3, if_pos h4]
                split
                · rename_i f' body clauses hch
                  have ihf' := (ih f' (by omega)).1
                  have hc : n.children = some body :: clauses.map some := by
                    have := allSome_eq _ _ hch; simpa using this
                  cases hl : (body :: clauses).getLast? with
                  | none => simp [Impl.exec]
                  | some last =>
                    simp only []
                    rw [tryOf_exec _ f' sc n body last clauses _ ihf' (by
                        cases f' with
                        | zero => exact handlers_clausesOf _
                        | succ f'' => exact handlers_clauseStmts _ f'' sc (ih f'' (by omega)).1 clauses),
                      eval_try_is_tryFinally_tryCore_dispatchExcept f' sc n body last clauses h4 hc hl]
                · simp [Impl.exec]
              · simp [h1, h2, h3, h4, Impl.exec]
      · cases ps with
        | nil => simp [ifStmt, ifPairs, Impl.exec, ifChain]
        | cons p r =>
          obtain ⟨g, b⟩ := p
          simp only [ifStmt, Impl.exec, ifPairs, ifChain, ihf.1, ihf.2]
          rfl

/-- **eval_refines_spec**: for every tree, fuel, scope and state — the classified outcome of `eval` and its
    final state are those of the reference semantics on the statement the tree reads as -/
theorem eval_refines_spec (f sc : Nat) (n : Node) (s : St) :
    toOutS (run (eval f sc n) s) = Spec.exec (stmtOf f sc n) s := by
  rw [← (eval_is_impl f).1 sc n]; exact refines _ s

/-- calls: running a declared function (after its frame exists) is the `call` statement over its body — in
    the reference semantics a `ret` outcome of the body becomes the normal value of the call and no `ret`
    ever leaves a call -/
theorem call_refines_spec (f fvs : Nat) (body : Node) (s : St) :
    toOutS (run (callCore (withFreshIs (eval f fvs body))) s) = Spec.exec (.call (.fresh (stmtOf f fvs body))) s := by
  rw [← (eval_is_impl f).1 fvs body]; exact refines (.call (.fresh (stmtOf f fvs body))) s

theorem spec_call_never_ret (st : Stmt) (s s' : St) (e : RtErr) (v : Val) :
    Spec.exec (.call st) s ≠ (.ret e v, s') := by
  simp only [Spec.exec]
  rcases hr : Spec.exec st s with ⟨o, s1⟩
  cases o <;> simp

/-- **eval_call_refines_spec** (program level: the CALL NODE; the side conditions `hmath`/`hlog` on the text of the
    name hold for every name but log / error / debug / math.…; they are not kernel-decidable on literals because
    `String.toUTF8` / `fromUTF8?` do not reduce, so there is no closed real-tree example — the driver runs check them): evaluating the node `name(args)` whose variable holds
    the declared function `id`, with the arguments evaluated (`hargs`) and the frame built (`hprep`: scope `fvs`, body
    `body`): the outcome is that of `callCore (withFreshIs (eval f fvs body))` with an error passed through
    `wrapCallErr`, and that inner computation IS the reference semantics of `Stmt.call (Stmt.fresh (stmtOf f fvs body))`
    — a `ret` outcome of the body becomes the normal value of the call (return leaves the innermost function with
    its value), every other outcome is the body's -/
theorem eval_call_refines_spec (f sc id fvs : Nat) (n fc body : Node) (t : Ecal.Lex.Tok) (b : Bool) (args : List Val)
    (s s1 s2 s3 : St)
    (hn : n.name = "identifier") (ht : n.tok = some t) (hc : n.children = [some fc]) (hfc : fc.name = "funccall")
    (hmath : ((splitDots t.val).head? == some (Ecal.Lex.str "math")) = false)
    (hlog : (bytesToString t.val == "log" || bytesToString t.val == "error" || bytesToString t.val == "debug") = false)
    (hgv : run (getValue sc t.val) s = (.ok (.func id, b), s1))
    (hargs : run (argsEval (f+1) sc fc) s1 = (.ok args, s2))
    (hprep : run (framePrefix f sc id args) s2 = (.ok (fvs, body), s3)) :
    run (eval (f+4) sc n) s =
      (match run (callCore (withFreshIs (eval f fvs body))) s3 with
       | (.ok v, s4) => (.ok v, s4)
       | (.error e, s4) => (.error (wrapCallErr n e), s4)) ∧
    toOutS (run (callCore (withFreshIs (eval f fvs body))) s3) = Spec.exec (.call (.fresh (stmtOf f fvs body))) s3 := by
  refine ⟨?_, call_refines_spec f fvs body s3⟩
  rw [eval_user_call (f+1) sc n fc t hn ht hc hfc hmath hlog]
  simp only [run_bind, hgv, hargs, run_attempt, runFunction_frame_then_callCore, hprep]
  rcases hr : run (callCore (withFreshIs (eval f fvs body))) s3 with ⟨r, s4⟩
  cases r <;> rfl

theorem wrapCallErr_ret (n : Node) (e : Sig) (re : RtErr) (v : Val) (h : wrapCallErr n e = .ret re v) : e = .ret re v := by
  cases e with
  | plainErr m =>
    simp only [wrapCallErr] at h
    split at h <;> (unfold rtErr at h; split at h <;> cases h)
  | _ => simpa [wrapCallErr] using h

/-- … and no return signal leaves the call node: `return` never crosses the call it belongs to -/
theorem eval_call_never_ret (f sc id fvs : Nat) (n fc body : Node) (t : Ecal.Lex.Tok) (b : Bool) (args : List Val)
    (s s1 s2 s3 s' : St) (re : RtErr) (v : Val)
    (hn : n.name = "identifier") (ht : n.tok = some t) (hc : n.children = [some fc]) (hfc : fc.name = "funccall")
    (hmath : ((splitDots t.val).head? == some (Ecal.Lex.str "math")) = false)
    (hlog : (bytesToString t.val == "log" || bytesToString t.val == "error" || bytesToString t.val == "debug") = false)
    (hgv : run (getValue sc t.val) s = (.ok (.func id, b), s1))
    (hargs : run (argsEval (f+1) sc fc) s1 = (.ok args, s2))
    (hprep : run (framePrefix f sc id args) s2 = (.ok (fvs, body), s3)) :
    run (eval (f+4) sc n) s ≠ (.error (.ret re v), s') := by
  rw [(eval_call_refines_spec f sc id fvs n fc body t b args s s1 s2 s3 hn ht hc hfc hmath hlog hgv hargs hprep).1]
  rcases hr : run (callCore (withFreshIs (eval f fvs body))) s3 with ⟨r, s4⟩
  cases r with
  | ok w => simp
  | error e =>
    simp only []
    intro h
    have h1 : wrapCallErr n e = .ret re v := by injection h with h1 _; injection h1
    have := wrapCallErr_ret n e re v h1
    subst this
    exact return_stops_at_call (withFreshIs (eval f fvs body)) s3 s4 re v hr

/-- **spec_first_listed_clause** (program level, reference-semantics side): in the statement a try node reads as,
    a typed except clause whose type strings are plain literals handles an error `e` EXACTLY when the type of `e`
    is one of the listed texts — it then runs its block in the clause's scope and the statement continues
    normally (value null) unless the block itself ends otherwise; when the type is not listed the error goes,
    unchanged and without any effect, to the clauses after it. (`f` is the fuel of the clause's sub-trees.) -/
theorem spec_first_listed_clause (g : Nat → Node → Stmt) (f sc : Nat) (c s0 st : Node) (ss : List Node) (rest : Clauses)
    (e : Sig) (s : St) (hs : clauseShape c = .typed s0 ss st) (hv : ∀ x ∈ s0 :: ss, PlainStr x (textOf x)) :
    Spec.handle (clauseOfNode g (f+2) sc c rest) e s =
      if ((s0 :: ss).map textOf).any (fun b => bytesToString b == errType e) then
        (match Spec.exec (clauseBody g sc c st) s with
         | (.normal _, s2) => (.normal Val.null, s2)
         | (o, s2) => (o, s2))
      else Spec.handle rest e s := by
  unfold clauseOfNode
  rw [hs]
  simp only [Spec.handle, liftM, map_eval_plain f sc _ hv, typedMatch_values, pure_bind, run_pure, toOutS, toOut_ok]
  by_cases hl : ((s0 :: ss).map textOf).any (fun b => bytesToString b == errType e) = true
  · simp only [hl, if_true]
    rcases Spec.exec (clauseBody g sc c st) s with ⟨o, s2⟩
    cases o <;> rfl
  · simp only [hl, Bool.false_eq_true, if_false]

/-- a bare clause handles every error -/
theorem spec_bare_clause (g : Nat → Node → Stmt) (f'' sc : Nat) (c st : Node) (rest : Clauses) (e : Sig) (s : St)
    (hs : clauseShape c = .bare st) :
    Spec.handle (clauseOfNode g f'' sc c rest) e s =
      (match Spec.exec (clauseBody g sc c st) s with
       | (.normal _, s2) => (.normal Val.null, s2)
       | (o, s2) => (o, s2)) := by
  unfold clauseOfNode
  rw [hs]
  simp only [Spec.handle, liftM, run_pure, toOutS, toOut_ok]
  rcases Spec.exec (clauseBody g sc c st) s with ⟨o, s2⟩
  cases o <;> rfl

/-- **spec_binding_clause** (reference-semantics side): `except e { … }` / `except as e { … }` handles every error: in
    the clause's scope the error object is bound to the variable (a failing assignment is dropped), then the block
    runs; the statement continues normally (value null) unless binding or block end otherwise -/
theorem spec_binding_clause (g : Nat → Node → Stmt) (f'' sc : Nat) (c c0 st : Node) (var : List Nat) (rest : Clauses)
    (e : Sig) (s : St) (ho : clauseShape c = .other) (hb : bindingShape c = .bind c0 st var) :
    Spec.handle (clauseOfNode g f'' sc c rest) e s =
      (match Spec.exec (bindBody g sc c st var e) s with
       | (.normal _, s2) => (.normal Val.null, s2)
       | (o, s2) => (o, s2)) := by
  unfold clauseOfNode
  rw [ho]; simp only []; rw [hb]
  simp only [Spec.handle, liftM, run_pure, toOutS, toOut_ok]
  rcases Spec.exec (bindBody g sc c st var e) s with ⟨o, s2⟩
  cases o <;> rfl

/-- **spec_first_listed_clause_as**: `except "T0", … as v { … }` with plain literals handles `e` exactly when the
    type of `e` is listed; it then binds the error object to `v` and runs the block; otherwise the error goes on,
    unchanged and without effect, to the clauses after it -/
theorem spec_first_listed_clause_as (g : Nat → Node → Stmt) (f sc : Nat) (c s0 a av st : Node) (ss : List Node)
    (t : Ecal.Lex.Tok) (rest : Clauses) (e : Sig) (s : St)
    (ho : clauseShape c = .other) (hb : bindingShape c = .typedAs s0 ss a av t st)
    (hv : ∀ x ∈ s0 :: ss, PlainStr x (textOf x)) :
    Spec.handle (clauseOfNode g (f+2) sc c rest) e s =
      if ((s0 :: ss).map textOf).any (fun b => bytesToString b == errType e) then
        (match Spec.exec (bindBody g sc c st t.val e) s with
         | (.normal _, s2) => (.normal Val.null, s2)
         | (o, s2) => (o, s2))
      else Spec.handle rest e s := by
  unfold clauseOfNode
  rw [ho]; simp only []; rw [hb]
  simp only [Spec.handle, liftM, map_eval_plain f sc _ hv, typedMatch_values, pure_bind, run_pure, toOutS, toOut_ok]
  by_cases hl : ((s0 :: ss).map textOf).any (fun b => bytesToString b == errType e) = true
  · simp only [hl, if_true]
    rcases Spec.exec (bindBody g sc c st t.val e) s with ⟨o, s2⟩
    cases o <;> rfl
  · simp only [hl, Bool.false_eq_true, if_false]

/-- **spec_first_listed_clause_ident**: `except "T0", … v { … }` (strings, an identifier, the block) with plain
    literals handles `e` exactly when the type of `e` is listed; nothing is bound (the identifier is skipped), the
    block runs in the clause's scope; otherwise the error goes on, unchanged and without effect, to the clauses
    after it -/
theorem spec_first_listed_clause_ident (g : Nat → Node → Stmt) (f sc : Nat) (c s0 a st : Node) (ss : List Node)
    (rest : Clauses) (e : Sig) (s : St)
    (ho : clauseShape c = .other) (hb : bindingShape c = .typedIdent s0 ss a st)
    (hv : ∀ x ∈ s0 :: ss, PlainStr x (textOf x)) :
    Spec.handle (clauseOfNode g (f+2) sc c rest) e s =
      if ((s0 :: ss).map textOf).any (fun b => bytesToString b == errType e) then
        (match Spec.exec (clauseBody g sc c st) s with
         | (.normal _, s2) => (.normal Val.null, s2)
         | (o, s2) => (o, s2))
      else Spec.handle rest e s := by
  unfold clauseOfNode
  rw [ho]; simp only []; rw [hb]
  simp only [Spec.handle, liftM, map_eval_plain f sc _ hv, typedMatch_values, pure_bind, run_pure, toOutS, toOut_ok]
  by_cases hl : ((s0 :: ss).map textOf).any (fun b => bytesToString b == errType e) = true
  · simp only [hl, if_true]
    rcases Spec.exec (clauseBody g sc c st) s with ⟨o, s2⟩
    cases o <;> rfl
  · simp only [hl, Bool.false_eq_true, if_false]

/-- **spec_refinement_partial** — the PROVED part of "eval refines the reference semantics": `eval_refines_spec`
    under the name that says it is partial. FULL statement not proved: the same with (1) calls inside a program
    read as `Stmt.call` BY `stmtOf` (a call node is still a leaf of `stmtOf`, because the function it calls is a value
    of the state, not of the tree; the connection is made at the node instead: `eval_user_call`,
    `eval_call_refines_spec`, `eval_call_never_ret` — hypotheses: the variable holds a declared function, arguments
    and frame were built), (2) `for … in` loops (leaves). ALL except-clause shapes the parser produces are
    `Clauses.clause` now (bare, typed, `e`, `as e`, `"T" as e`, `"T" e`: `spec_bare_clause`, `spec_first_listed_clause`,
    `spec_binding_clause`, `spec_first_listed_clause_as`, `spec_first_listed_clause_ident`); only a clause of none of these shapes stays a whole handler. With
    `stmtOf := leaf ∘ eval` the statement would be `rfl`: its content is exactly the node kinds statements, if,
    condition loop and try (block, otherwise, finally, clause order, type test of bare / typed clauses). -/
theorem spec_refinement_partial (f sc : Nat) (n : Node) (s : St) :
    toOutS (run (eval f sc n) s) = Spec.exec (stmtOf f sc n) s := eval_refines_spec f sc n s

/-! ### readings the reference semantics takes from the code (none follows from the property text)

`Spec.afterFin` drops the outcome of the finally block, `Spec.while` ends the loop on a break raised while the
GUARD is evaluated and lets a continue raised there travel to the enclosing loop, and `toOut` classifies by the
evaluator's own tests. The three examples below pin what the code does (they are by construction). -/

/-- READING (not constrained by the property text): an error / break / continue / return OF the finally block is
    dropped by the deferred evaluation — the statement keeps the outcome it had before -/
theorem finally_outcome_dropped_example (v : Val) (e : Sig) (he : e.isFatal = false) (s : St) :
    run (tryFinally (pure v) (some (throw e))) s = (.ok v, s) := by
  rw [tryFinally_some_eq]
  simp [skipFin, afterFinally, run_throw, he]

/-- READING: a break raised while the guard of a condition loop is evaluated ends that loop normally -/
theorem guard_break_ends_loop_example (e : Sig) (he : e.isBreak = true) (b : M Val) (f : Nat) (s : St) :
    run (guardLoop (throw e) b (f+1)) s = (.ok Val.null, s) := by
  rw [loop_guard]; simp [run_throw, he]

/-- READING: the number 0 is truthy (`if 0 { }` and `for 0 { }` run their block) -/
theorem zero_is_truthy_example : truthy (.num 0) = true := rfl

end Ecal.Props.C04
