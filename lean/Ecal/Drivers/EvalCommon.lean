import Ecal.Drivers.Util
import Ecal.Model.Eval
/-!
Shared model side of the properties that compare the interpreter with `Ecal.Ev` (Model/Eval.lean).
Go side: `go/cmd/harness/evalcommon.go` (format description there).

  `decodePayload p`     the program of a payload built by `evPayload` (tree from the REAL parser +
                        table of the embedded expressions of interpolating literals)
  `runProgram prog`     Validate + Eval in a fresh global scope → `Result`
  `outcomeText r`       the canonical outcome line, equal to Go's `evRun` text when model and code agree
  `runPayload p`        all of it: what a driver prints for a case

Results outside the model: `UNSUP <why>` (the model does not cover a construct the program used or
the result shows a value the model does not know); fuel exhausted prints as `HANG`.
-/
namespace Ecal.Drv.EvalCommon
open Ecal.Drv Ecal.Lex Ecal.Parse Ecal.Ev

structure Program where
  src : List Nat
  ast : Option Node                        -- none: the source does not parse
  interp : List (List Nat × InterpEntry)

def mkNode (name : String) (tok : Option Tok) (children : List (Option Node)) : Node :=
  Node.mk name tok 0 default default children []

/-- decode one node (preorder) from the list of node texts -/
partial def decodeNode : List String → Option (Option Node × List String)
  | [] => none
  | "~" :: rest => some (none, rest)
  | s :: rest =>
    match s.splitOn "|" with
    | [name, id, val, ae, idf, line, col, nc] => do
      let nc ← nc.toNat?
      let tok : Option Tok ←
        (if id == "-" then some none
         else do
          let id ← id.toNat?
          let val ← hexDecode val
          let line ← line.toNat?
          let col ← col.toInt?
          some (some { id := id, pos := 0, val := val, identifier := idf == "1", allowEscapes := ae == "1",
                       prefixNl := 0, line := line, col := col }))
      let rec kids (k : Nat) (rest : List String) (acc : List (Option Node)) : Option (List (Option Node) × List String) :=
        match k with
        | 0 => some (acc.reverse, rest)
        | k+1 => do
          let (c, rest) ← decodeNode rest
          kids k rest (c :: acc)
      let (cs, rest) ← kids nc rest []
      some (some (mkNode name tok cs), rest)
    | _ => none

def decodeAst (s : String) : Option Node :=
  match decodeNode (s.splitOn ";") with
  | some (some n, []) => some n
  | _ => none

/-- `<code-hex>=<ast>` or `<code-hex>=#<replacement-hex>`: split at the FIRST '=' only — the tree text contains
    '=' whenever the embedded code has a node named `:=`, `==`, `>=`, `<=` or `!=` -/
def decodeInterp (s : String) : Option (List Nat × InterpEntry) :=
  match s.splitOn "=" with
  | code :: r1 :: more => do
    let rest := "=".intercalate (r1 :: more)
    let code ← hexDecode code
    if rest.startsWith "#" then
      let r ← hexDecode (rest.drop 1).toString
      some (code, .text r)
    else
      let n ← decodeAst rest
      some (code, .ast n)
  | _ => none

def decodePayload (p : String) : Option Program :=
  match p.splitOn " " with
  | src :: ast :: entries => do
    let src ← hexDecode src
    let tab ← entries.mapM decodeInterp
    if ast == "!" then some { src := src, ast := none, interp := tab }
    else
      let n ← decodeAst ast
      some { src := src, ast := some n, interp := tab }
  | _ => none

inductive Result where
  | noparse
  | invalid (e : Sig)                -- Validate failed
  | done (r : Except Sig Val) (st : St)

def defaultFuel : Nat := 1500

def runProgram (prog : Program) (fuel : Nat := defaultFuel) : Result :=
  match prog.ast with
  | none => .noparse
  | some n =>
    match validate n with
    | .error e => .invalid e
    | .ok _ =>
      let m : Ecal.Ev.M Val := do
        let g ← newScope "GlobalScope"
        eval fuel g n
      let (r, st) := m.run.run { interp := prog.interp }
      .done r st

def sigText : Sig → String
  | .err e _ => s!"ERR {hexEnc (strBytes e.type)} {e.line} {e.pos}"
  | .ret e _ => s!"ERR {hexEnc (strBytes e.type)} {e.line} {e.pos}"
  | .iter e _ => s!"ERR {hexEnc (strBytes e.type)} {e.line} {e.pos}"
  | .plainErr _ => "ERRPLAIN"
  | .panic => "PANIC" | .fuel => "HANG" | .unsupported w => "UNSUP " ++ w

/-- `sigText` plus the class of the error and what it carries (see evErrFull in evalcommon.go) -/
def sigTextFull (st : St) : Sig → String
  | .err e none => s!"ERR {hexEnc (strBytes e.type)} {e.line} {e.pos} R"
  | .err e (some (d, v)) => s!"ERR {hexEnc (strBytes e.type)} {e.line} {e.pos} D {hexEnc d} {canonVal st canonDepth v}"
  | .ret e _ => s!"ERR {hexEnc (strBytes e.type)} {e.line} {e.pos} V"
  | .iter e _ => s!"ERR {hexEnc (strBytes e.type)} {e.line} {e.pos} R"
  | s => sigText s

def logText (st : St) : String := "|".intercalate st.log.toList

/-- canonical outcome (see evalcommon.go) -/
def outcomeText : Result → String
  | .noparse => "NOPARSE"
  | .invalid e => "V " ++ sigText e
  | .done r st =>
    match r with
    | .error (.unsupported w) => "UNSUP " ++ w
    | .error .fuel => "HANG"
    | .error .panic => "PANIC"
    | .error e => sigText e ++ " LOG " ++ logText st
    | .ok v =>
      let t := "OK " ++ canonVal st canonDepth v ++ " LOG " ++ logText st
      if t.contains '?' then "UNSUP result shows a value the model does not know" else t

/-- `outcomeText` with `sigTextFull` for the final error -/
def outcomeTextFull : Result → String
  | .done (.error (.err e wd)) st => sigTextFull st (.err e wd) ++ " LOG " ++ logText st
  | .done (.error (.ret e v)) st => sigTextFull st (.ret e v) ++ " LOG " ++ logText st
  | .done (.error (.iter e c)) st => sigTextFull st (.iter e c) ++ " LOG " ++ logText st
  | .invalid e => "V " ++ sigTextFull {} e
  | r => outcomeText r

def runPayload (p : String) : String :=
  match decodePayload p with
  | none => "bad-payload"
  | some prog =>
    let t := outcomeText (runProgram prog)
    if t.contains '?' then "UNSUP log shows a value the model does not know" else t

end Ecal.Drv.EvalCommon
