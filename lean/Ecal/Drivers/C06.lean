import Ecal.Drivers.Util
import Ecal.Drivers.EvalCommon
import Ecal.Model.Prims
import Ecal.Model.FragB
import Ecal.Model.ValidateS
/-!
Model side of C06 (payload formats: see go/cmd/harness/c06.go).

The outcome CLASS of a program (`OK | ERR <type> | ERRPLAIN | NOPARSE | V ERR <type>` + marker log)
comes from the shared evaluator model (`Ecal.Ev`, through `EvalCommon.runProgram`); where that model
does not cover a builtin call (`UNSUP`), the argument-check model of `Ecal/Model/Prims.lean` decides
value-vs-error. The outcome inside `try { … } except { x.mark(1) }` and inside a sink is DERIVED from
the class of the plain program — that derivation is the property: an error is catchable
(`error_in_try_catchable`), inside a sink it fails only that invocation. The model never predicts
PANIC / CRASH / HANG except on the known finding (a cyclic container reaches fmt.Sprint).
-/
namespace Ecal.Drv.C06
open Ecal.Drv Ecal.Ev Ecal.Drv.EvalCommon

inductive Cls where
  | ok | err (tyHex : String) | errplain | noparse | verr (tyHex : String) | vother
  | unsup (why : String) | hang | panic

def tyHex (e : RtErr) : String := hexEnc (strBytes e.type)

def sigCls : Sig → Cls
  | .err e _ => .err (tyHex e) | .ret e _ => .err (tyHex e) | .iter e _ => .err (tyHex e)
  | .plainErr _ => .errplain | .panic => .panic | .fuel => .hang | .unsupported w => .unsup w

def classify : Result → Cls × String
  | .noparse => (.noparse, "")
  | .invalid e => (match sigCls e with | .err t => .verr t | .unsup w => .unsup w | _ => .vother, "")
  | .done r st =>
    -- only the x.mark entries are an observable of C06 (logger output is not)
    let log := "|".intercalate (st.log.toList.filter (·.startsWith "m"))
    if log.contains '?' then (.unsup "log shows a value the model does not know", "") else
    match r with
    | .ok _ => (.ok, log)
    | .error e => (sigCls e, log)

/-! univ of the property (same order as `c06Universe` in c06.go) -/
open Ecal.Prims in
def univ : List PVal :=
  let minInt : Int := -9223372036854775808
  [.null, .bool true, .num 0 1, .num (-1) 0, .num 1 2, .num minInt minInt, .str "" none, .str "a" none,
   .str "1" (some (1, 2)), .list [], .list [.num 1 2], .map [], .map [(.str "a" none, .num 1 2)], .func 0,
   -- -0.5 (int(-0.5) = int(0.5) = 0), -1e+300, NaN, +Inf (amd64: the conversion yields the smallest int64)
   .num 0 0, .num minInt minInt, .num minInt minInt, .num minInt minInt]

/-- printed form (fmt.Sprint) of a univ value where it is known: the error type of `raise(v)` -/
def univText : List (Option String) :=
  [some "<nil>", some "true", some "0", some "-1", some "1.5", some "1e+300", some "", some "a", some "1",
   some "[]", some "[1]", some "map[]", some "map[a:1]", none, some "-0.5", some "-1e+300", some "NaN", some "+Inf"]

def runtimeErrHex : String := hexEnc (strBytes "Runtime error")

/-- class of a builtin call by the Prims model (builtin errors are plain Go errors: the call site
    wraps them into a "Runtime error"; `range` signals "Function is an iterator") -/
def primsClass (name : String) (ix : List Nat) : Option Cls :=
  let args := ix.map fun i => univ.getD i .null
  -- class-only models of builtins that are in neither model: they ignore their arguments or only check the first
  if name == "now" || name == "rand" || name == "dumpenv" then some .ok
  else if name == "sleep" then
    match args with
    | [] => some (.err "")
    | a :: _ => match Ecal.Prims.assertNumParam a with | .ok _ => some .ok | .error _ => some (.err "")
  else
  match Ecal.Prims.builtin name args with
  | none => none
  | some r =>
    match r with
      | .ok _ => some .ok
      | .error (.err _) => some (.err "")
      | .error .iter => some (.err "")
      | .error (.panic _) => some .panic

/-- class of `(U_i) like (U_j)`: the right operand is printed and compiled as a regular expression; the left one is
    only printed. Printed forms that are no regular expression: `[]`, `map[]`, `+Inf` -/
def likeClass (j : Nat) : Option Cls :=
  if j == 13 then none            -- a function value: its printed form contains addresses
  else if j == 9 || j == 11 || j == 17 then some (.err "")
  else some .ok

/-- break / continue / return signals: try hands them through (they are not errors) -/
def isControlCls : Cls → Bool
  | .err t => t == hexEnc (strBytes tBreak) || t == hexEnc (strBytes tContinue) || t == hexEnc (strBytes tReturn)
  | _ => false

/-- what C06 compares of an outcome: value / error value / control signal / validation error / no parse — never
    the error type, text or position (C03 / C04 compare those) -/
def clsText : Cls → String
  | .ok => "OK" | .err t => if isControlCls (.err t) then "CTL" else "ERR" | .errplain => "ERR" | .noparse => "NOPARSE"
  | .verr _ => "V" | .vother => "V" | .unsup w => "UNSUP " ++ w | .hang => "HANG" | .panic => "PANIC"

def mark (n : Nat) : String := "m" ++ canonVal {} canonDepth (.num (Float.ofNat n))

def joinLog (a b : String) : String := if a.isEmpty then b else if b.isEmpty then a else a ++ "|" ++ b

def isErr : Cls → Bool
  | .err _ => true | .errplain => true | _ => false

/-- what the three modes must show, from the class of the plain program -/
def modeResult (mode : String) (c : Cls) (log : String) : String :=
  match c with
  | .unsup w => "UNSUP " ++ w
  | .hang => "HANG" | .panic => "PANIC"
  | .noparse => if mode == "p" || mode == "t" then "NOPARSE" else "SINKFAIL NOPARSE"
  | .verr _ => if mode == "p" || mode == "t" then "V" else "SINKFAIL V"
  | .vother => if mode == "p" || mode == "t" then "V" else "SINKFAIL V"
  | c =>
    if mode == "p" then clsText c ++ " LOG " ++ log
    else if mode == "t" then
      -- an error is caught by the bare except clause (its marker shows), the program ends normally
      if isControlCls c then clsText c ++ " LOG " ++ log
      else "OK LOG " ++ (if isErr c then joinLog log (mark 1) else log)
    else if mode == "s" then
      -- inside a sink: one failed invocation reported for the first event, the second event is processed normally
      s!"SINK {if isErr c then 1 else 0} 0 LOG {joinLog log (mark 2)}"
    else if mode == "d" then
      -- two sinks on ONE event: the other sink (higher priority) runs, this one fails alone
      s!"SINKD {if isErr c then 1 else 0} LOG {joinLog (mark 3) log}"
    else if mode == "f" then
      -- the failing sink FIRST (fail-on-first-error is the default, C10): the later sink of the SAME event does not
      -- run, the error is reported for this sink only, the next event is processed normally
      s!"SINKF {if isErr c then 1 else 0} 0 LOG {joinLog (joinLog log (if isErr c then "" else mark 3)) (mark 2)}"
    else if mode == "m" then
      -- the failing sink in the MIDDLE of three
      s!"SINKM {if isErr c then 1 else 0} 0 LOG {joinLog (joinLog (joinLog (mark 4) log) (if isErr c then "" else mark 3)) (mark 2)}"
    else
      -- the same sink triggered twice: the second invocation behaves like the first
      s!"SINKW {if isErr c then 1 else 0} {if isErr c then 1 else 0} LOG {joinLog log log}"

def sinkAttrClass (attr : String) (i : Nat) : String :=
  open Ecal.Prims in
  let v := univ.getD i .null
  let want : Kind := if attr == "statematch" then .map else if attr == "priority" then .num else .list
  let invalidConstruct := "ERR"
  let invalidState := "ERR"
  match sinkAttrSite want v with
  | .error (.panic _) => "PANIC"
  | .error _ => invalidConstruct
  | .ok v =>
    -- d975ad6: a priority that does not fit into an int (±1e+300, NaN, ±Inf) is rejected
    if attr == "priority" && (i == 5 || i == 15 || i == 16 || i == 17) then invalidConstruct else
    -- engine.AddRule refuses a rule without kind match / scope match (an empty ECAL list gives a nil Go slice)
    match attr, v with
    | "kindmatch", .list [] => invalidState
    | "scopematch", .list [] => invalidState
    | _, _ => "OK"

def eventClass (i j : Nat) : String :=
  -- statematch {"a": U_i} against state {"a": U_j}: null matches any value, otherwise equal values
  -- (NaN is never equal to itself: index 16)
  let fired := i == 0 || (i == j && i != 16)
  "OK LOG " ++ (if fired then mark 1 else "")

/-- does `v` reach a container that is already on the path to it? (list identity = backing array) -/
partial def cyclicFrom (st : St) (path : List (Bool × Nat)) (v : Val) : Bool :=
  match v with
  | .list r _ =>
    if path.contains (true, r) then true else (st.lists.getD r []).any (cyclicFrom st ((true, r) :: path))
  | .map r =>
    if path.contains (false, r) then true else (st.maps.getD r []).any fun p => cyclicFrom st ((false, r) :: path) p.2
  | _ => false

/-- the heap the program left holds a container that contains itself -/
def heapCyclic : Result → Bool
  | .done _ st =>
    (List.range st.lists.size).any (fun r => cyclicFrom st [] (.list r 0)) ||
    (List.range st.maps.size).any (fun r => cyclicFrom st [] (.map r))
  | _ => false

/-- the program is inside the fragment of `eval_never_panics_partial`: the tree the real parser produced and
    the trees of its embedded expressions pass `fragB` (then `Frag` holds and `Inv` holds for the initial state) -/
def fragOK (prog : Program) : Bool :=
  match prog.ast with
  | some n =>
    Ecal.FragB.fragB 400 n &&
    prog.interp.all fun e => match e.2 with | .ast a => Ecal.FragB.fragB 400 a | .text _ => true
  | none => false

/-- the run the C06 theorems are about: validation by the structural twin `validateS`, then `Ecal.Ev.eval` -/
def runProgramS (prog : Program) (fuel : Nat := defaultFuel) : Result :=
  match prog.ast with
  | none => .noparse
  | some n =>
    match Ecal.ValidateS.validateS 4000 n with
    | .error e => .invalid e
    | .ok _ =>
      let m : Ecal.Ev.M Val := do
        let g ← newScope "GlobalScope"
        eval fuel g n
      let (r, st) := m.run.run { interp := prog.interp }
      .done r st

/-- the twin agrees with the shared model's `validate` (same outcome, same error) -/
def twinOK (prog : Program) : Bool :=
  match prog.ast with
  | none => true
  | some n =>
    match Ecal.ValidateS.validateS 4000 n, validate n with
    | .ok _, .ok _ => true
    | .error a, .error b => sigText a == sigText b
    | _, _ => false

def hasCycleKf (label : String) : Bool := label == "cyclic"

def runCase (payload : String) : String :=
  match payload.splitOn " " with
  | "X" :: mode :: label :: metaS :: rest =>
    match decodePayload (" ".intercalate rest) with
    | none => "bad-payload"
    | some prog =>
      let res := runProgramS prog
      let (c, log) := classify res
      let outside := match c with | .unsup _ => true | .hang => true | _ => false
      if !(twinOK prog) then "TWIN-MISMATCH validateS differs from Ev.validate" else
      if label == "random" && heapCyclic res && outside then
        -- outside the model AND a cyclic heap: props/C06.py accepts Go's `CRASH so-stringify` here as the known finding
        "UNSUP a container that contains itself, outcome outside the model\tcyc=1"
      else if label == "random" && heapCyclic res then
        -- the program built a container that contains itself: if it also stringifies it the real code
        -- dies (known finding), otherwise it behaves as the model says
        "CRASH so-stringify\tkf=cyclic-container-stringify\tspec=" ++ modeResult mode c log ++ "\tnt=1"
      else if label == "cyclic" then
        -- known finding: the real code overflows the stack inside fmt; the property demands an error value
        "CRASH so-stringify\tkf=cyclic-container-stringify\tspec=ERR\tnt=1"
      else
        let c : Cls := match c with
          | .unsup w =>
            match metaS.splitOn ":" with
            | ["imp", unit] =>
              -- an imported unit (import is not in the evaluator model): fine units give a value, a unit that is
              -- missing or fails to parse / validate / evaluate (also later, in its function) gives an error value
              if unit == "ok" || unit == "okunused" then .ok else .err ""
            | ["op", "like", ixs] =>
              match (ixs.splitOn ",").map String.toNat! with
              | [_, j] => (likeClass j).getD (.unsup w)
              | _ => .unsup w
            | [name, ixs] =>
              let ix := if ixs == "-" then [] else (ixs.splitOn ",").map String.toNat!
              match primsClass name ix with
              | some c' => c'
              | none => .unsup w
            | _ => .unsup w
          | c => c
        let nt := match c with | .err _ => "\tnt=1" | .errplain => "\tnt=1" | _ => ""
        modeResult mode c log ++ nt ++ (if fragOK prog then "\tfrag=1" else "\tfrag=0")
  | ["T", _] => "OK\tnt=1"     -- triggers firing after Processor.Finish(): the callbacks notice the stopped processor
  | ["D", variant, depth] =>
    -- an acyclic container nested `depth` deep: shallow nesting works; very deep nesting overflows the Go stack in
    -- reflect.DeepEqual (== / in / statematch) or in the printers (known finding, same id as the cyclic one)
    if depth.toNat! ≤ 10000 then "OK\tnt=1"
    else
      let cls := if variant == "eq" || variant == "in" || variant == "statematch" then "CRASH so-deepequal" else "CRASH so-stringify"
      cls ++ "\tkf=cyclic-container-stringify\tspec=OK\tnt=1"
  | ["K", _variant, _workers, prot, _n] =>
    -- a container shared by the main thread and a sink triggered without waiting: under `mutex` both finish;
    -- without it two ECAL threads use one Go map / slice unsynchronised (known finding; Go may or may not die)
    let okBoth := "OK LOG " ++ mark 1 ++ "|" ++ mark 2
    if prot == "1" then okBoth ++ "\tnt=1"
    else "CRASH concurrent-map\tkf=unsynchronised-shared-container\tspec=" ++ okBoth ++ "\tnt=1"
  | ["A", attr, i] => sinkAttrClass attr i.toNat! ++ "\tnt=1"
  | ["E", i, j] => eventClass i.toNat! j.toNat! ++ "\tnt=1"
  | _ => "bad-payload"

def run (_args : List String) : IO Unit := lineLoop runCase
end Ecal.Drv.C06
