import Ecal.Drivers.Util
namespace Ecal.Drv.C06
/-- model driver of property C06 (stub: not implemented yet) -/
def run (_args : List String) : IO Unit := Ecal.Drv.lineLoop fun _ => "unimplemented"
end Ecal.Drv.C06
