import Ecal.Drivers.EvalCommon
import Ecal.Model.ParserWF
/-!
Driver of C04. Payload: `evPayload` of a marker program (see go/cmd/harness/evalcommon.go, c04.go).
Result: the canonical outcome of `Ecal.Ev.eval` on the tree of the payload with line and column of an
error removed — ordered marker trace, final value, error TYPE. `nt=1`: the model's trace has at least
two entries.
-/
namespace Ecal.Drv.C04
open Ecal.Drv Ecal.Drv.EvalCommon

/-- drop line and column from `ERR <type> <line> <col>` -/
def stripPos (out : String) : String :=
  let f := out.splitOn " "
  let i := if f.head? == some "V" then 1 else 0
  if f.length ≥ i + 4 && f[i]? == some "ERR" then " ".intercalate (f.take (i + 2) ++ f.drop (i + 4))
  else out

def runCase (payload : String) : String :=
  -- a case the harness did not run any more (its family was found endless on this tree)
  if payload == "skip" then "SKIP\tskip=1" else
  match decodePayload payload with
  | none => "bad-payload"
  | some prog =>
    -- the `_wf` theorems speak about well-formed trees: every tree this driver evaluates (the program and
    -- the embedded expressions of its literals, all built by the real parser) is checked
    let trees := (match prog.ast with | some n => [n] | none => []) ++
      prog.interp.filterMap fun p => match p.2 with | .ast n => some n | _ => none
    if !(trees.all Ecal.Parse.WellFormed) then "NOT-WELLFORMED tree from the real parser" else
    let r := runProgram prog
    let t := outcomeTextFull r
    let t := if t.contains '?' then "UNSUP log shows a value the model does not know" else t
    let nt : Bool := match r with
      | .done _ st => decide (st.log.size ≥ 2)
      | _ => false
    stripPos t ++ (if nt then "\tnt=1" else "")

def run (_args : List String) : IO Unit := lineLoop runCase
end Ecal.Drv.C04
