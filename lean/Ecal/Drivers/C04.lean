import Ecal.Drivers.EvalCommon
import Ecal.Model.ParserWF
/-!
Driver of C04. Payload: `evPayload` of a marker program (see go/cmd/harness/evalcommon.go, c04.go).
Result: the canonical outcome of `Ecal.Ev.eval` on the tree of the payload with line and column of an
error removed — ordered marker trace, final value, error TYPE. `nt=1`: the model's trace has at least
two entries.
-/
namespace Ecal.Drv.C04
open Ecal.Drv Ecal.Drv.EvalCommon

/-- same tree: names, tokens (kind, text, line, column) and children -/
partial def sameTree (a b : Ecal.Parse.Node) : Bool :=
  a.name == b.name &&
  (match a.tok, b.tok with
   | some x, some y => x.id == y.id && x.val == y.val && x.line == y.line && x.col == y.col &&
       x.allowEscapes == y.allowEscapes && x.identifier == y.identifier
   | none, none => true
   | _, _ => false) &&
  a.children.length == b.children.length &&
  (a.children.zip b.children).all fun p => match p with
    | (some x, some y) => sameTree x y
    | (none, none) => true
    | _ => false

/-- anchor "try/except parsing": the tree the real parser built (payload) against the tree C07's parser
    model builds from the same source text -/
def parserAgrees (prog : Program) : Bool :=
  match prog.ast, Ecal.Parse.parse prog.src with
  | some n, (some m, none) => sameTree n m
  | none, (_, some _) => true
  | _, _ => false

/-- result of one program payload -/
def runOne (payload : String) : String × Bool :=
  match payload.splitOn " " with
  | [_, "!expected"] => ("NOPARSE", false)                       -- a declared may-not-parse family
  | [_, "!"] => ("UNEXPECTED-NOPARSE a generated program the real parser rejects", false)
  | _ =>
    match decodePayload payload with
    | none => ("bad-payload", false)
    | some prog =>
      -- the `_wf` theorems speak about well-formed trees: every tree this driver evaluates (the program and
      -- the embedded expressions of its literals, all built by the real parser) is checked
      let trees := (match prog.ast with | some n => [n] | none => []) ++
        prog.interp.filterMap fun p => match p.2 with | .ast n => some n | _ => none
      if !(trees.all Ecal.Parse.WellFormed) then ("NOT-WELLFORMED tree from the real parser", false) else
      if !(parserAgrees prog) then ("TREE-MISMATCH real parser vs parser model", false) else
      let r := runProgram prog
      let t := outcomeTextFull r
      let t := if t.contains '?' then "UNSUP log shows a value the model does not know" else t
      let nt : Bool := match r with
        | .done _ st => decide (st.log.size ≥ 2)
        | _ => false
      (t, nt)

/-- `listed id`: known_findings.txt (read by `run`) has a `known:` line for this id -/
def runCase (listed : String → Bool) (payload : String) : String :=
  -- a case the harness did not run any more (its family was found endless on this tree)
  if payload == "skip" then "SKIP\tskip=1" else
  match payload.splitOn " @kf:" with
  | [p1, rest] =>
    -- the code as it is deviates from the property here in a known way: result of the program as it is,
    -- spec= result of the program that says what the property demands
    (match rest.splitOn "@ " with
     | id :: p2s =>
       let (t1, nt) := runOne p1
       let (t2, _) := runOne ("@ ".intercalate p2s)
       t1 ++ (if nt then "\tnt=1" else "") ++ "\tspec=" ++ t2 ++ (if listed id && t1 != t2 then "\tkf=" ++ id else "")
     | [] => "bad-payload")
  | _ =>
  match payload.splitOn " @@ " with
  | [p1, p2] =>
    -- two readings of the property for this program: Go may agree with either
    let (t1, nt) := runOne p1
    let (t2, _) := runOne p2
    t1 ++ (if nt then "\tnt=1" else "") ++ (if t2 != t1 then "\tspec=" ++ t2 else "")
  | _ =>
    let (t, nt) := runOne payload
    t ++ (if nt then "\tnt=1" else "")

/-- the ids of the known findings of C04 listed in known_findings.txt of the directory the check runs in
    (a finding class is only reported as KNOWN-FINDING once it is listed there) -/
def knownIds : IO (List String) := do
  let path : System.FilePath := "known_findings.txt"
  if !(← path.pathExists) then return []
  let txt ← IO.FS.readFile path
  pure ((txt.splitOn "\n").filterMap fun l =>
    if l.startsWith "known:" && (l.splitOn "property=C04 ").length > 1 then
      match (l.splitOn "id=") with
      | _ :: r :: _ => (r.splitOn " ").head?
      | _ => none
    else none)

def run (_args : List String) : IO Unit := do
  let ids ← knownIds
  lineLoop (runCase fun id => ids.contains id)
end Ecal.Drv.C04
