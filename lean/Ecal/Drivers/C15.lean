import Ecal.Drivers.Util
import Ecal.Model.Debug
/-!
Driver of C15.

Case payloads (space separated fields):

* `D <n> <bos><boe> <bpops> <script> <timing> <seed> <trace> <prog-hex>` — `n` threads run the
  same program (visit trace `<trace>`), break points after the edits `<bpops>`, every thread's
  suspensions are answered from `<script>`. Result `same=1 vis=1 susp=<lines of thread 1>|<thread 2>…`
  (`vis`: every evaluated literal node is announced to the debugger — what the model's visit trace assumes).
  `timing`, `seed` and the program text do not enter the model: by `no_lost_resume` /
  `continue_releases` the timing of a Continue is irrelevant, by `observer_only` so is the program.
* `K <n> <bpops> <trace> <prog-hex>` — `n` threads, each suspension is answered by `StopThreads`.
  Result `released=<n> end=kill|fin`.
* `I <bos><boe> <bpops> <script> <trace> <entry-hex> <console-line-hex>,…` — a session of the command line
  interpreter (`cli/tool/interpret.go`): entry file, then console lines, one thread. Same model function as `D`.
* `Y <prog-hex>` — known finding `debugger-snapshot-cyclic-value`: the debugged run (in a child process) dies;
  `spec=` is the plain outcome.
* `Z <n> <bpops> <prog-hex>` — `n` threads run while `StopThreads` is called over and over: every thread ends
  (`stop_releases_all` for the suspended ones, the others finish). Result `ended=<n>`.
* `L <mode> <bos><boe> <bpops> <script> <trace> <lib-hex> <main-hex>` — library and main program loaded in
  steps with the debugger attached at the point `<mode>` says; `<trace>` = the visits of the phases in
  which the debugger is attached. Same result format and the SAME model function as `D`.
* `S <workers> <events> <bpops> <script> <body-trace> <prog-hex>` — a sink program on pool workers, `<events>`
  events; result `same=1 susp=<total number of suspensions | any>`; the recorded per-thread traces (with
  the `f` = RecordThreadFinished events) are validated in mode `vt`.

Syntax: `bpops` = `s<line>`/`d<line>`/`r<line>`/`b0`/`b1` joined by `,`; `script` = acts joined by `,`,
an act = ops joined by `+`, then `R|I|O|U|K` (resume, stepin, stepover, stepout, StopThreads);
`trace` = `v<line>` / `e<line>` / `x<line>` / `X<line>` (exit with error) / `f` joined by `,`;
`-` = empty list.

Other modes (first argument):
* `hs`: each line is a recorded handshake trace of one thread (hook events); it is replayed on
  the transition system `Hs.step`. Result `ok <final pc>` or `rejected@<k>:<event>`.
* `vt`: each line `<bos><boe> <bpops> <script> <trace-with-suspension-marks>`: a recorded visit
  trace of one thread in which `!<line>` marks a reported suspension; result `ok` if the model
  suspends at exactly those places.
-/
namespace Ecal.Drv.C15
open Ecal.Drv Ecal.Debug

def list (s : String) (sep : String) : List String :=
  if s = "-" || s = "" then [] else s.splitOn sep

def natOf (s : String) : Option Nat := s.toNat?

/-- positions are numbers `<source index> * 1000 + line` (sources: 0 = `t`, 1 = `lib`, 2 = `main`) -/
def loc (n : Nat) : Loc := ⟨n / 1000, n % 1000⟩

def parseOp (s : String) : Option BpOp :=
  let rest := (s.drop 1).toString
  match s.front with
  | 's' => (natOf rest).map fun n => BpOp.set (loc n)
  | 'd' => (natOf rest).map fun n => BpOp.disable (loc n)
  | 'r' => (natOf rest).map fun n => BpOp.remove (loc n)
  | 'b' => (natOf rest).map fun n => BpOp.breakOnStart (n != 0)
  | _ => none

def parseAct (s : String) : Option Act := do
  let parts := s.splitOn "+"
  let cmdS ← parts.getLast?
  let ops ← parts.dropLast.mapM parseOp
  let cmd ← match cmdS with
    | "R" => some (some Cont.resume)
    | "I" => some (some Cont.stepIn)
    | "O" => some (some Cont.stepOver)
    | "U" => some (some Cont.stepOut)
    | "K" => some none
    | _ => none
  pure ⟨ops, cmd⟩

def parseEv (s : String) : Option Ev :=
  let rest := (s.drop 1).toString
  match s.front with
  | 'v' => (natOf rest).map fun n => Ev.visit (loc n)
  | 'e' => (natOf rest).map fun n => Ev.enter (loc n)
  | 'x' => (natOf rest).map fun n => Ev.exit (loc n) false
  | 'X' => (natOf rest).map fun n => Ev.exit (loc n) true
  | 'f' => some Ev.finished
  | _ => none

def flagsOf (s : String) : Bool × Bool :=
  match s.toList with
  | [a, b] => (a = '1', b = '1')
  | _ => (false, true)

def showLines (ls : List Loc) : String :=
  if ls.isEmpty then "-" else ".".intercalate (ls.map fun l => toString (l.src * 1000 + l.line))

def setup (flags bpops : String) : Option Dbg := do
  let (bos, boe) := flagsOf flags
  let ops ← (list bpops ",").mapM parseOp
  pure (ops.foldl applyOp (Dbg.init bos boe))

def caseD (f : List String) : String :=
  match f with
  | [n, flags, bpops, script, _timing, _seed, trace, _prog] =>
    match natOf n, setup flags bpops, (list script ",").mapM parseAct, (list trace ",").mapM parseEv with
    | some n, some d, some sc, some t =>
      let r := runTrace (Run.init d sc) t
      if r.crashed then "MODEL-CRASH"
      else
        let one := showLines r.susp
        let all := "|".intercalate (List.replicate n one)
        "same=1 vis=1 susp=" ++ all ++ (if r.killed then " killed" else "")
          ++ (if r.susp.isEmpty then "" else "\tnt=1")
    | _, _, _, _ => "bad-payload"
  | _ => "bad-payload"

def caseK (f : List String) : String :=
  match f with
  | [n, bpops, trace, _prog] =>
    -- `<n>e`: breakOnError is on (a killed thread may suspend again at an error return; the controller
    -- answers later suspensions with resume)
    let boe := n.endsWith "e"
    let n := if boe then (n.dropEnd 1).toString else n
    match natOf n, setup (if boe then "01" else "00") bpops, (list trace ",").mapM parseEv with
    | some n, some d, some t =>
      let kill : Act := ⟨[], none⟩
      let r := runTrace (Run.init d [kill]) t
      if r.susp.isEmpty then "released=0 end=fin"
      else s!"released={n} end=" ++ (if r.killed then "kill" else "fin") ++ "\tnt=1"
    | _, _, _ => "bad-payload"
  | _ => "bad-payload"

def runCase (payload : String) : String :=
  match payload.splitOn " " with
  | "D" :: rest => caseD rest
  | "K" :: rest => caseK rest
  | ["I", flags, bpops, script, trace, _entry, _lines] =>
    -- command line interpreter session: the same model function on the recorded visit trace (with the
    -- `f` = RecordThreadFinished events after the entry file and after every console line)
    caseD ["1", flags, bpops, script, "poll", "0", trace, "-"]
  | ["Y", _prog] =>
    -- known finding: attaching the debugger kills the process on a program holding a self-containing
    -- value and calling a function (the scope snapshot of every call recurses for ever); the property
    -- demands the plain outcome
    "DIES-with-debugger-attached\tkf=debugger-snapshot-cyclic-value\tspec=same=1 vis=1 susp=-\tnt=1"
  | ["Z", n, _bpops, _prog] => s!"ended={n}\tnt=1"
  | "L" :: _mode :: flags :: bpops :: script :: trace :: _lib :: [_main] =>
    -- life-cycle cases: the model is the same function of (visit trace while attached, break
    -- points, script): nothing about parse time or the attach point enters it
    caseD ["1", flags, bpops, script, "poll", "0", trace, "-"]
  | ["S", _workers, events, bpops, script, body, _prog] =>
    -- sink program: `events` executions of the sink body (visit trace of ONE execution: `body`) on pool
    -- workers. With the all-resume script (`-`) every execution starts without interrogation state
    -- (`threadFinished` removes a resumed state), so the total number of suspensions is
    -- events × (suspensions of one execution), whatever worker runs which event. With stepping
    -- scripts the per-thread traces are validated in mode `vt` only.
    match natOf events, setup "00" bpops, (list body ",").mapM parseEv with
    | some n, some d, some t =>
      match (list script ",").mapM parseAct with
      | none => "bad-payload"
      | some sc =>
        if script = "-" then
          let k := (runTrace (Run.init d []) t).susp.length
          s!"same=1 susp={n * k}" ++ (if k > 0 then "\tnt=1" else "")
        else if _workers = "1" then
          -- one worker: one thread runs all executions in order, the script is consumed across them
          let all := (List.replicate n (t ++ [Ev.finished])).flatten
          s!"same=1 susp={(runTrace (Run.init d sc) all).susp.length}\tnt=1"
        else "same=1 susp=any\tnt=1"
    | _, _, _ => "bad-payload"
  | _ => "bad-payload"

/-! ### mode `hs`: replay of recorded handshake traces -/

open Hs in
/-- hook event ↦ model events. `m` suspend.pre, `w` wait, `k` woke, `r` resumed,
`cR|cI|cO|cU` continue, `t` stop (StopThreads), `s` setrunning, `p` phantom -/
def hsEvents (s : State) (tok : String) : Option (List Event) :=
  match tok with
  | "m" => some [.mark]
  | "p" => some [.phantom]
  | "w" => some (if s.pc = .marked then [.tlock, .test] else [.test])
  | "k" => some [.wake]
  | "r" => some (if s.pc = .marked then [.tlock, .test] else [.test])
  | "cR" => some [.cCheck .resume, .cSetCmd]
  | "cI" => some [.cCheck .stepIn, .cSetCmd]
  | "cO" => some [.cCheck .stepOver, .cSetCmd]
  | "cU" => some [.cCheck .stepOut, .cSetCmd]
  | "t" => some [.cCheck .kill, .cSetCmd]
  | "s" => some [.cFire]
  | _ => none

open Hs in
/-- the observable a hook event asserts about the state reached -/
def hsExpect (s : State) (tok : String) : Bool :=
  match tok with
  | "w" => s.pc = .waiting
  | "r" => s.pc = .run
  | _ => true

open Hs in
def hsReplay (toks : List String) : String :=
  let rec go (s : State) (k : Nat) : List String → String
    | [] => s!"ok {repr s.pc}"
    | tok :: rest =>
      match hsEvents s tok with
      | none => s!"bad-token@{k}:{tok}"
      | some es =>
        match runEvents s es with
        | none => s!"rejected@{k}:{tok}"
        | some s' => if hsExpect s' tok then go s' (k + 1) rest else s!"rejected@{k}:{tok}"
  go Hs.init 0 toks

/-! ### mode `vt`: recorded visit traces with suspension marks -/

def vtCase (payload : String) : String :=
  match payload.splitOn " " with
  | [flags, bpops, script, trace] =>
    let toks := list trace ","
    let evToks := toks.filter fun t => !t.startsWith "!"
    let marks := toks.filterMap fun t => if t.startsWith "!" then natOf (t.drop 1).toString else none
    match setup flags bpops, (list script ",").mapM parseAct, evToks.mapM parseEv with
    | some d, some sc, some t =>
      let r := runTrace (Run.init d sc) t
      if r.susp.map (fun l => l.src * 1000 + l.line) = marks then "ok" else "differs model=" ++ showLines r.susp
    | _, _, _ => "bad-payload"
  | _ => "bad-payload"

def run (args : List String) : IO Unit :=
  match args with
  | "hs" :: _ => lineLoop fun p => hsReplay (list p ",")
  | "vt" :: _ => lineLoop vtCase
  | _ => lineLoop runCase
end Ecal.Drv.C15
