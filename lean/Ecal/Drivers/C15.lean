import Ecal.Drivers.Util
namespace Ecal.Drv.C15
/-- model driver of property C15 (stub: not implemented yet) -/
def run (_args : List String) : IO Unit := Ecal.Drv.lineLoop fun _ => "unimplemented"
end Ecal.Drv.C15
