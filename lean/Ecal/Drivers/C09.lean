import Ecal.Drivers.Util
import Ecal.Model.Pool
/-!
Driver of C09: **trace validator**. A case line is `<payload> | <trace>` where the trace was
recorded from the real pool by the hook handler of `go/cmd/harness/c09sched.go` (format: see
`go/cmd/harness/c09.go`). The trace is replayed on the per-worker LTS `Ecal.Pool.step repaired`:
every record is mapped to the model event(s) it witnesses, every event must be enabled, and every
value a hook observed under a lock (queue size, kill counter, worker / idle counts of the
snapshots) must equal the model's. The result line gives the property-level monitors the model
expects for the state at the end of the trace (same syntax as the harness' monitors).

Partial observation, resolved here (not in the model):
* a hook record is written *before* the following operation on the condition variable: after
  `bw` (before `Wait`) / `rt` (before the deferred `Unlock`) the release of `L` is performed lazily,
  at the latest when another thread's record needs `L` or the worker's own next record comes;
* an unlocked `Broadcast` (`bc`, `.B`) that is recorded while a worker sits between `bw` and the
  enqueue inside `Wait` may or may not have reached that worker: both resolutions are tried;
* `Signal` wakes some waiter: first-in-first-out is tried first, then the others.
The trace is valid iff *some* resolution replays to the end.
-/
namespace Ecal.Drv.C09
open Ecal.Drv Ecal.Pool

structure Rec where
  thread : String
  code : String
  args : List String
  bc : Bool       -- suffix `.B`: followed by an unlocked broadcast of the same thread
  rep : Nat
  deriving Repr

def parseNum (s : String) : Option Int :=
  if s.startsWith "m" then (s.drop 1).toString.toNat?.map (fun n => - (n : Int))
  else s.toNat?.map (fun n => (n : Int))

def parseRec (t : String) : Option Rec :=
  let (body, rep) := match t.splitOn "*" with
    | [b, r] => (b, r.toNat?.getD 1)
    | _ => (t, 1)
  match body.splitOn "." with
  | th :: code :: args =>
    let bc := args.getLast? == some "B"
    let args := if bc then args.dropLast else args
    some ⟨th, code, args, bc, rep⟩
  | _ => none

structure R where
  s : State
  lazy : Option Nat := none            -- worker whose release of L is pending (after bw / rt)
  fifo : List Nat := []                -- waiters in arrival order
  swcRead : List (String × Int × Int) := []
  wsOk : List (String × Bool) := []    -- per thread: exit guard ∧ soundness at its last snapshot
  waSeen : Bool := false
  waOk : Bool := true
  jaSeen : Bool := false
  jaOk : Bool := true
  lastSet : Option Int := none
  joined : Bool := false
  wakes : Nat := 0
  pops : Nat := 0
  swcExpect : List (String × String × Int) := []   -- per caller thread: branch record (su/sd, value) the model predicted at `sr`
  peekRecheck : Bool := false          -- set by `replay` for an `aw` record: the worker's next record is a re-read (ip/ik)
  fifoQ : Bool := true                 -- DefaultTaskQueue: Pop returns the oldest task (checked); engine.TaskQueue: any
  earlyBc : Nat := 0                   -- unlocked broadcasts already performed whose record is still to come

/-- errors + a budget of alternatives that survives failed branches -/
abbrev M := ExceptT String (StateM Nat)

def ev (e : Event) (r : R) : M R :=
  match step repaired r.s e with
  | some s' => pure { r with s := s' }
  | none => throw s!"event {reprStr e} is not enabled in the model"

def expect (c : Bool) (msg : String) : M Unit := if c then pure () else throw msg

def pcOf (r : R) (i : Nat) : PC := r.s.pcs.getD i .gone

/-- perform the pending release of L -/
def flush (r : R) : M R :=
  match r.lazy with
  | none => pure r
  | some i =>
    match pcOf r i with
    | .willWait => do let r ← ev (.wWait i) r; pure { r with lazy := none, fifo := r.fifo ++ [i] }
    | .unlocking => do let r ← ev (.wUnlock i) r; pure { r with lazy := none }
    | _ => pure { r with lazy := none }

def flushOwn (r : R) (i : Nat) : M R := if r.lazy == some i then flush r else pure r

def argNat (args : List String) (k : Nat) : M Int :=
  match (args[k]?).bind parseNum with
  | some n => pure n
  | none => throw s!"bad numeric argument {k} in {args}"

def argTask (args : List String) (k : Nat) : M (Option Nat) :=
  match args[k]? with
  | some a => if a.startsWith "t" then
      match (a.drop 1).toString.toNat? with
      | some n => pure (some n)
      | none => throw "bad task"
    else pure none
  | none => throw "missing task argument"

def workerIdx (th : String) : Option Nat :=
  if th.startsWith "w" then (th.drop 1).toString.toNat?.bind (fun n => if n = 0 then none else some (n - 1)) else none

def setAssoc {α} (l : List (String × α)) (k : String) (v : α) : List (String × α) :=
  (k, v) :: l.filter (·.1 != k)

def bcastAll (r : R) : M R := do
  let r ← ev .bcast r
  pure { r with fifo := [] }

def callerCodes : List String :=
  ["ap", "au", "as", "ad", "SC", "SR", "sr", "su", "sd", "sb", "sp", "WC", "ws", "WR", "JC", "jk", "js", "JR", "bc"]

/-- one record without choice points -/
def stepRec (c : Rec) (r0 : R) : M R := do
  -- a task may call the pool from inside Run (AddTask through a rule action): caller records of a worker thread
  let wi := if callerCodes.contains c.code then none else workerIdx c.thread
  -- code without the re-check of workerKill on the exit-when-drained path (no `dr` record): the worker
  -- leaves unconditionally; the model decides by workerKill — if it stays, the next record is refused
  let r ← match wi with
    | some i => if pcOf r0 i == .drained && c.code != "dr" && c.code != "em" then ev (.drainExit i) r0 else pure r0
    | none => pure r0
  -- a SetWorkerCount whose deciding section the model predicted must show its branch record next
  match r.swcExpect.find? (·.1 == c.thread) with
  | some (_, cd, v) =>
    expect (c.code == "su" || c.code == "sd")
      s!"SetWorkerCount: the model decides {cd} {v} in this critical section, the code recorded nothing"
  | none => pure ()
  match wi with
  | some i =>
    -- `st`/`hd` of a fresh worker may be recorded before the `su` of the SetWorkerCount creating it
    if i ≥ r.s.pcs.length && (c.code == "st" || c.code == "hd") then return r
    expect (i < r.s.pcs.length) s!"unknown worker {c.thread}"
    match c.code with
    | "st" => expect (pcOf r i == .head) "st: worker not at loop head"; pure r
    | "hd" => expect (pcOf r i == .head) "hd: worker not at loop head"; pure r
    | "nk" =>
      let k ← argNat c.args 0
      expect (k == r.s.kill) s!"nk: workerKill observed {k}, model {r.s.kill}"
      ev (.killPass i) r
    | "kx" =>
      let k ← argNat c.args 0
      let r ← ev (.killExit i) r
      expect (k == r.s.kill) s!"kx: workerKill observed {k}, model {r.s.kill}"
      pure r
    | "ke" => expect (pcOf r i == .exiting) "ke: worker not exiting"; pure r
    | "pp" =>
      let t ← argTask c.args 0
      let q ← argNat c.args 1
      let r ← match t with
        | some t => do
          expect (!r.fifoQ || r.s.queue.head? == some t)
            s!"pp: task {t} popped, the oldest queued task is {r.s.queue.head?}"
          ev (.pop i t) { r with pops := r.pops + 1 }
        | none => ev (.popNone i) r
      expect (q == (r.s.queue.length : Int)) s!"pp: queue size observed {q}, model {r.s.queue.length}"
      pure r
    | "em" => pure r
    | "dr" =>
      let k ← argNat c.args 0
      expect (k == r.s.kill) s!"dr: workerKill observed {k}, model {r.s.kill}"
      ev (.drainExit i) r
    | "ir" => ev (.regIdle i) r
    | "tb" =>
      match ← argTask c.args 0 with
      | some t => expect (pcOf r i == .run t) s!"tb: worker does not hold task {t}"; pure r
      | none => pure r
    | "te" =>
      match ← argTask c.args 0 with
      | some t => expect (pcOf r i == .run t) s!"te: worker does not hold task {t}"; ev (.finish i) r
      | none => flushOwn r i
    | "il" => do let r ← flush r; ev (.wLock i) r
    | "ip" =>
      let p ← argNat c.args 0
      expect (p == (r.s.queue.length : Int)) s!"ip: pending observed {p}, model {r.s.queue.length}"
      -- at `hasL`: the queue size is re-read first; at `readK z`: second, the model decides with the value of
      -- workerKill it read at the `ik` record (whatever workerKill is now)
      ev (.readQ i) r
    | "ik" =>
      let k ← argNat c.args 0
      expect (k == r.s.kill) s!"ik: workerKill observed {k}, model {r.s.kill}"
      -- at `readQ p`: second read, decides; at `hasL`: first read (kill-first order), the value is kept in the pc
      ev (.readKill i) r
    | "bw" => expect (pcOf r i == .willWait) "bw: model does not wait here"; pure { r with lazy := some i }
    | "aw" =>
      let r ← flush r
      expect (pcOf r i == .woken) "aw: worker returned from Wait but nothing woke it in the model"
      -- return from idleTask.Run, or (wait-loop idiom) re-check the predicate under L
      let r ← if r.peekRecheck then ev (.wRecheck i) r else ev (.wRelock i) r
      pure { r with wakes := r.wakes + 1 }
    | "rt" => expect (pcOf r i == .unlocking) "rt: model is not at the end of idleTask.Run"; pure { r with lazy := some i }
    | "iu" => do let r ← flushOwn r i; ev (.unregIdle i) r
    | "ex" => ev (.exit i) r
    | x => throw s!"unknown worker record {x}"
  | none =>
    match c.code with
    | "ap" =>
      let t ← argTask c.args 0
      let q ← argNat c.args 1
      let r ← ev (.aPush (t.getD 0)) r
      expect (q == (r.s.queue.length : Int)) s!"ap: queue size observed {q}, model {r.s.queue.length}"
      pure r
    | "au" => pure r
    | "ad" => pure r
    | "SC" => pure r
    | "SR" => pure r
    | "sr" =>
      let w ← argNat c.args 0
      let k ← argNat c.args 1
      -- repaired SetWorkerCount: len(workerMap) - workerExiting, read in the deciding critical section
      expect (w == (r.s.live : Int)) s!"sr: workers not told to exit observed {w}, model {r.s.live} (len(workerMap) = {r.s.workerCount})"
      -- the deciding critical section: the MODEL decides here (swcSet) and predicts which branch record
      -- must follow; this call's count is the target from now on
      let k := if k < 0 then 0 else k
      let live := r.s.live
      let kill := r.s.kill
      let r ← ev (.swcSet k.toNat) r
      let exp : Option (String × Int) :=
        if (live : Int) < k then some ("su", k)
        else if (live : Int) > k then some ("sd", (live : Int) - k)
        else if kill > 0 then some ("su", (live : Int))
        else none
      let pend := r.swcExpect.filter (·.1 != c.thread)
      pure { r with swcRead := setAssoc r.swcRead c.thread (w, k), lastSet := some k, joined := false,
                    swcExpect := match exp with | some (cd, v) => (c.thread, cd, v) :: pend | none => pend }
    | "su" | "sd" =>
      let n ← argNat c.args 0
      match r.swcExpect.find? (·.1 == c.thread) with
      | some (_, cd, v) =>
        expect (cd == c.code) s!"{c.code}: the model takes the other branch of SetWorkerCount here ({cd} {v})"
        expect (v == n) s!"{c.code}: observed {n}, the model decides {v}"
        pure { r with swcExpect := r.swcExpect.filter (·.1 != c.thread) }
      | none => throw s!"{c.code}: the model changes nothing in this SetWorkerCount (requested count there, no kill request pending)"
    | "sb" => do
      let r ← flush r
      let r ← ev .swcLock r
      let r ← ev .swcBcast r
      pure { r with fifo := [] }
    | "sp" =>
      let w ← argNat c.args 0
      expect (w == (r.s.workerCount : Int)) s!"sp: worker count observed {w}, model {r.s.workerCount}"
      pure r
    | "WC" => pure r
    | "ws" =>
      let w ← argNat c.args 0
      let i ← argNat c.args 1
      let t ← argNat c.args 2
      expect (w == (r.s.workerCount : Int) && i == (r.s.idleCount : Int) && t == (r.s.queue.length : Int))
        s!"ws: snapshot observed {w}/{i}/{t}, model {r.s.workerCount}/{r.s.idleCount}/{r.s.queue.length}"
      let sound := !waitAllGuard r.s || r.s.workerCount == 0 || (r.s.queue.isEmpty && r.s.running.isEmpty)
      pure { r with wsOk := setAssoc r.wsOk c.thread (waitAllGuard r.s && sound) }
    | "WR" =>
      pure { r with waSeen := true, waOk := r.waOk && (r.wsOk.lookup c.thread == some true) }
    | "JC" => pure { r with joined := true }
    | "jk" => do
      -- JoinAll's request, also re-asserted by its loop after a SetWorkerCount overwrote it: JoinAll wins
      let r ← ev .joinKill r
      pure { r with joined := true }
    | "js" =>
      let w ← argNat c.args 0
      let t ← argNat c.args 1
      expect (w == (r.s.workerCount : Int) && t == (r.s.queue.length : Int))
        s!"js: snapshot observed {w}/{t}, model {r.s.workerCount}/{r.s.queue.length}"
      let sound := !joinAllGuard r.s || (r.s.running.isEmpty && r.s.done.length == r.s.added.length)
      pure { r with wsOk := setAssoc r.wsOk c.thread (joinAllGuard r.s && sound) }
    | "JR" =>
      pure { r with jaSeen := true, joined := true, jaOk := r.jaOk && (r.wsOk.lookup c.thread == some true) }
    | "bc" => pure r
    | x => throw s!"unknown caller record {x}"

def errPos (m : String) : Nat :=
  if m.startsWith "@" then (((m.drop 1).toString.splitOn " ").head!).toNat?.getD 0 else 0

/-- first alternative that replays to the end; otherwise the failure that got furthest -/
def firstOk {α} : List (Unit → M α) → M α
  | [] => throw "no alternative"
  | [f] => f ()
  | f :: fs => tryCatch (f ()) fun e => do
    let b ← get
    if b = 0 then throw e
    set (b - 1)
    tryCatch (firstOk fs) fun e2 => throw (if errPos e2 > errPos e then e2 else e)

/-- the unlocked broadcast after a record: if a worker sits between `bw` and the enqueue, try
    "missed" first, then "reached" -/
def bcastAlts (r : R) : List (Unit → M R) :=
  match r.lazy with
  | some i =>
    if pcOf r i == .willWait then
      [fun _ => bcastAll r, fun _ => do let r ← flush r; bcastAll r]
    else [fun _ => bcastAll r]
  | none => [fun _ => bcastAll r]

/-- Signal of AddTask: L is taken (pending releases happen first), then one waiter is woken -/
def signalAlts (r : R) : M (List (Unit → M R)) := do
  let r ← flush r
  let r ← ev .aLock r
  if r.fifo.isEmpty then pure [fun _ => ev (.aSignal none) r]
  else pure (r.fifo.map fun j => fun _ => do
    let r ← ev (.aSignal (some j)) r
    pure { r with fifo := r.fifo.erase j })

def replay : List Rec → Nat → R → M R
  | [], _, r => flush r
  | c :: rest, k, r0 =>
    let r : R := if c.code == "aw" then
        { r0 with peekRecheck := match rest.find? (·.thread == c.thread) with
                                 | some d => d.code == "ip" || d.code == "ik"
                                 | none => false }
      else r0
    let wrap (e : M R) : M R :=
      tryCatch e fun m => throw (if m.startsWith "@" then m else s!"@{k} {c.thread}.{c.code}: {m}")
    if c.code == "as" then
      wrap (do
        let alts ← signalAlts r
        firstOk (alts.map fun f => fun u => do let r' ← f u; replay rest (k + 1) r'))
    else if c.code == "bc" || c.bc then
      wrap (do
        let r1 ← stepRec c r
        -- the broadcast itself may have been performed already (its effect was seen before its record)
        let consumed : List (Unit → M R) :=
          if r1.earlyBc > 0 then [fun _ => pure { r1 with earlyBc := r1.earlyBc - 1 }] else []
        -- repetitions of a polling record: the first one decides, the others are idempotent
        firstOk ((consumed ++ bcastAlts r1).map fun f => fun u => do
          let r2 ← f u
          let r3 ← if c.rep > 1 then do let r3 ← stepRec c r2; bcastAll r3 else pure r2
          replay rest (k + 1) r3))
    else if c.code == "aw" && (match workerIdx c.thread with
        | some i => pcOf r i != .woken && rest.any (fun d => d.code == "bc" || d.bc)
        | none => false) then
      -- a worker returns from Wait although nothing woke it yet: an unlocked Broadcast whose record
      -- (written after the call) is still to come
      wrap (firstOk ((bcastAlts r).reverse.map fun f => fun u => do
          let r1 ← f u
          let r2 ← stepRec c { r1 with earlyBc := r1.earlyBc + 1 }
          replay rest (k + 1) r2))
    else do
      let r' ← wrap (stepRec c r)
      replay rest (k + 1) r'

def stuckIn (s : State) : Bool :=
  !s.queue.isEmpty && 0 < s.live && (internalEvents s).all fun e => (step repaired s e).isNone

def monitors (r : R) : String :=
  let s := r.s
  let exec := if s.done.eraseDups.length == s.done.length then "ok" else "bad:model"
  let wa := if !r.waSeen then "na" else if r.waOk then "ok" else "bad"
  let ja := if !r.jaSeen then "na" else if r.jaOk then "ok" else "bad"
  let rs := match r.lastSet with
    | some k => if r.joined then "na" else if (s.workerCount : Int) == k then "ok" else "bad"
    | none => "na"
  s!"added={s.added.length} done={s.done.length} q={s.queue.length} w={s.workerCount} i={s.idleCount} " ++
  s!"stuck={if stuckIn s then 1 else 0} exec={exec} wa={wa} ja={ja} rs={rs}"

def runCase (line : String) : String :=
  match line.splitOn " | " with
  | [_payload, trace] =>
    match (trace.splitOn ",").mapM parseRec with
    | none => "bad-trace"
    | some recs =>
      match ((replay recs 0 { s := init, fifoQ := !_payload.startsWith "P " }).run.run 3000).1 with
      | .ok r =>
        monitors r ++ s!"\tvalid=1\tevents={recs.length}" ++ (if r.wakes > 0 && r.pops > 0 then "\tnt=1" else "")
      | .error m => "INVALID " ++ m
  | _ => "bad-case-line"

def run (_args : List String) : IO Unit := lineLoop runCase
end Ecal.Drv.C09
