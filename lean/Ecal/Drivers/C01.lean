import Ecal.Drivers.Util
import Ecal.Model.Engine
/-!
Driver of C01. Payload: space separated `key=value` fields

  `w=<workers> m=<w|a> o=<i|p> r=<rule>|<rule>… s=<scope> e=<event>|<event>… x=<regex table>`

* `l=e` (optional): ECAL-level case — the rules are declared as sinks, the events added with
  addEvent / addEventAndWait and the scope map; result `E` then per event `X<sorted executed names>`.
* `m`, `o`, `w` only steer the harness (wait / async adding; index or processor first; worker count).
* rule  `name;kinds;scopes;state;prio;suppress` — names/kinds/paths/keys hex encoded (`-` = empty
  string, `_` = empty list), lists joined by `,`; state `N` (nil map) or entries `key:pat` with
  pat `A` (nil) | `H<class>i<n>` (hashable value) | `D<class>i<n>` (list/map) | `X<regex id>`.
* scope `N` (nil monitor: default scope) or entries `path:0|1`.
* event `name;kind;state` — kind = segments joined by `,`; state entries `key:val`, val `Z` (nil) |
  `H…` | `D…`.
* x     entries `regexid:valtoken:0|1` (valtoken without the `i<n>` part): Go's `regexp` answer.

Result: `a=<one 0/1 per rule: AddRule returned an error>` then per event
`T<IsTriggering>/M<sorted Match names>/K<AddEvent returned a monitor>/X<sorted executed names>`.
-/
namespace Ecal.Drv.C01
open Ecal.Drv Ecal.Engine

/-- bytes as a string, one character per byte (injective; "." and "*" keep their codes) -/
def hexStr (s : String) : Option String := (hexDecode s).map fun bs => String.ofList (bs.map Char.ofNat)

def listOf (s : String) : List String := if s = "_" then [] else s.splitOn ","

def splitDots (s : String) : List String := s.splitOn "."

/-- `H12i3` → class 12 -/
def classOf (s : String) : Option Nat :=
  match (String.ofList (s.toList.drop 1)).splitOn "i" with
  | c :: _ => c.toNat?
  | [] => none

def parseVal (s : String) : Option Val :=
  match s.toList with
  | ['Z'] => some .null
  | 'H' :: _ => (classOf s).map .atom
  | 'D' :: _ => (classOf s).map .deep
  | _ => none

def parsePat (s : String) : Option Pat :=
  match s.toList with
  | ['A'] => some .any
  | 'H' :: _ => (classOf s).map .atom
  | 'D' :: _ => (classOf s).map .deep
  | 'X' :: rest => (String.ofList rest).toNat?.map .rx
  | _ => none

def parseEntry (f : String → Option β) (s : String) : Option (String × β) :=
  match s.splitOn ":" with
  | [k, v] => do pure ((← hexStr k), (← f v))
  | _ => none

def parseRule (s : String) : Option Rule :=
  match s.splitOn ";" with
  | [name, kinds, scopes, state, prio, supp] => do
    let name ← hexStr name
    let kinds ← (listOf kinds).mapM hexStr
    let scopes ← (listOf scopes).mapM hexStr
    let state ← if state = "N" then pure none else (some <$> (listOf state).mapM (parseEntry parsePat))
    let prio ← prio.toInt?
    let supp ← (listOf supp).mapM hexStr
    pure { name, kinds := kinds.map splitDots, scope := scopes.map splitDots, state, prio, suppress := supp }
  | _ => none

def parseEvent (s : String) : Option Event :=
  match s.splitOn ";" with
  | [name, kind, state] => do
    pure { name := (← hexStr name), kind := (← (listOf kind).mapM hexStr),
           state := (← (listOf state).mapM (parseEntry parseVal)) }
  | _ => none

def parseScope (s : String) : Option (List (List Seg × Bool)) :=
  if s = "N" then some [([], true)]
  else (listOf s).mapM fun e =>
    match e.splitOn ":" with
    | [p, b] => do
      let p ← hexStr p
      pure (if p = "" then [] else splitDots p, b = "1")
    | _ => none

def valToken : Val → String
  | .null => "Z"
  | .atom c => "H" ++ toString c
  | .deep c => "D" ++ toString c

def parseTable (s : String) : Option (List ((Nat × String) × Bool)) :=
  (listOf s).mapM fun e =>
    match e.splitOn ":" with
    | [i, v, b] => do pure ((← i.toNat?, v), b = "1")
    | _ => none

def field (fs : List String) (k : String) : Option String :=
  fs.findSome? fun f => if f.startsWith (k ++ "=") then some (String.ofList (f.toList.drop (k.length + 1))) else none

def hexName (s : String) : String := hexEnc (s.toList.map Char.toNat)

def names (l : List String) : String :=
  if l.isEmpty then "_" else ".".intercalate ((l.map hexName).mergeSort (fun a b => a ≤ b))

def bit (b : Bool) : String := if b then "1" else "0"

def outNames (o : Out (List Rule)) : String :=
  match o with
  | .ok l => names (l.map (·.name))
  | .panic => "PANIC"
  | .hang => "HANG"

def runCase (payload : String) : String :=
  let fs := payload.splitOn " "
  match field fs "r", field fs "s", field fs "e", field fs "x" with
  | some r, some s, some e, some x =>
    match (if r = "_" then some [] else (r.splitOn "|").mapM parseRule), parseScope s,
          (if e = "_" then some [] else (e.splitOn "|").mapM parseEvent), parseTable x with
    | some rules, some defs, some evs, some tab =>
      -- a missing table entry must not go unnoticed
      let missing := evs.any fun ev => rules.any fun r => (r.state.getD []).any fun kp =>
        match kp.2, alookup kp.1 ev.state with
        | .rx id, some v => (alookup (id, valToken v) tab).isNone
        | _, _ => false
      if missing then "MISSING-REGEX-ENTRY" else
      let rx : Nat → Val → Bool := fun id v => (alookup (id, valToken v) tab).getD false
      -- AddRule one by one
      let (root, errs) := rules.foldl (fun (acc : Root × List Bool) r =>
        let (rt, err) := acc.1.addRule r; (rt, acc.2 ++ [err])) (({} : Root), [])
      let sc := Scope.build defs
      let step := fun (acc : Proc × List String × Bool × Bool) (ev : Event) =>
        let (p, outs, nt, bad) := acc
        let t := root.isTriggering ev
        let m := root.matchEv rx ev
        let (res, p') := p.addEvent rx sc ev
        let x := match res with | some o => outNames o | none => "_"
        -- cross-check of the model against the executable specification
        let specX := names (Spec.firesList rx root.indexed sc.isAllowed ev)
        let specOK := match res with
          | some (.ok _) => x == specX
          | none => specX == "_"
          | _ => false
        let kindHit := root.indexed.any (Spec.kindOK · ev)
        (p', outs ++ ["T" ++ bit t ++ "/M" ++ outNames m ++ "/K" ++ bit res.isSome ++ "/X" ++ x],
          nt || kindHit, bad || !specOK)
      let (_, outs, nt, bad) := evs.foldl step (({ root := root } : Proc), [], false, false)
      let ecal := field fs "l" == some "e"
      let res := if ecal then
          "E" ++ String.join (outs.map fun o => " " ++ (match o.splitOn "/X" with | [_, x] => "X" ++ x | _ => o))
        else "a=" ++ (if errs.isEmpty then "_" else String.join (errs.map bit)) ++
        String.join (outs.map (" " ++ ·))
      (if bad then "MODEL-DEVIATES-FROM-SPEC " else "") ++ res ++ (if nt then "\tnt=1" else "")
    | _, _, _, _ => "bad-payload"
  | _, _, _, _ => "bad-payload"

def run (_args : List String) : IO Unit := lineLoop runCase
end Ecal.Drv.C01
