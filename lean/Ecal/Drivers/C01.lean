import Ecal.Drivers.Util
import Ecal.Model.Engine
/-!
Driver of C01. Payload: space separated `key=value` fields

  `w=<workers> m=<w|a> o=<i|p> r=<rule>|<rule>… s=<scope> e=<event>|<event>… x=<regex table>`

* `l=e` (optional): ECAL-level case — the rules are declared as sinks, the events added with
  addEvent / addEventAndWait and the scope map; result `E` then per event `X<sorted executed names>`.
* `m`, `o`, `w` only steer the harness (wait / async adding; index or processor first; worker count).
* rule  `name;kinds;scopes;state;prio;suppress` — names/kinds/paths/keys hex encoded (`-` = empty
  string, `_` = empty list), lists joined by `,`; state `N` (nil map) or entries `key:pat` with
  pat `A` (nil) | `H<class>i<n>` (hashable value) | `D<class>i<n>` (list/map) | `X<regex id>`.
* scope `N` (nil monitor: default scope) or entries `path:0|1`.
* event `name;kind;state` — kind = segments joined by `,`; state entries `key:val`, val `Z` (nil) |
  `H…` | `D…`.
* x     entries `regexid:valtoken:0|1` (valtoken without the `i<n>` part): Go's `regexp` answer.

Result: `a=<one 0/1 per rule: AddRule returned an error>` then per event
`T<IsTriggering>/M<sorted Match names>/K<AddEvent returned a monitor>/X<sorted executed names>`.
-/
namespace Ecal.Drv.C01
open Ecal.Drv Ecal.Engine

/-- bytes as a string, one character per byte (injective; "." and "*" keep their codes) -/
def hexStr (s : String) : Option String := (hexDecode s).map fun bs => String.ofList (bs.map Char.ofNat)

/-- `_` = empty list, `N` = nil slice / nil map (the same to the model) -/
def listOf (s : String) : List String := if s = "_" || s = "N" then [] else s.splitOn ","

def splitDots (s : String) : List String := s.splitOn "."

def digitsOf (cs : List Char) : List Char × List Char := cs.span Char.isDigit

/-- a value token `D16i31a31m36`: class 16 under the equality the property means, instance 31 of the
    harness' table, `a31` = its class under the code's deep comparison where that differs (nil and empty
    lists/maps are different there), `m36` = the class the pattern has after the program changed the
    variable it came from (the code keeps the object, not a copy).
    `useA`: read the value as the code compares it; `useM`: read a pattern as the changed value. -/
def classOf (useA useM : Bool) (s : String) : Option Nat :=
  let (c, rest) := digitsOf (s.toList.drop 1)
  let rest := rest.drop 1                       -- 'i'
  let (_, rest) := digitsOf rest
  let (a, rest) := match rest with
    | 'a' :: r => let (d, r') := digitsOf r; (some d, r')
    | r => (none, r)
  let m := match rest with
    | 'm' :: r => some (digitsOf r).1
    | _ => none
  match useM, m, useA, a with
  | true, some d, _, _ => (String.ofList d).toNat?
  | _, _, true, some d => (String.ofList d).toNat?
  | _, _, _, _ => (String.ofList c).toNat?

def parseVal (useA : Bool) (s : String) : Option Val :=
  match s.toList with
  | ['Z'] => some .null
  | 'H' :: _ => (classOf useA false s).map .atom
  | 'D' :: _ => (classOf useA false s).map .deep
  | _ => none

def parsePat (useA useM : Bool) (s : String) : Option Pat :=
  match s.toList with
  | ['A'] => some .any
  | 'H' :: _ => (classOf useA useM s).map .atom
  | 'D' :: _ => (classOf useA useM s).map .deep
  | 'X' :: rest => (String.ofList rest).toNat?.map .rx
  | _ => none

/-- a key written `!<hex>` is a non-string ECAL key (number, …); it is kept apart by a marker character -/
def keyOf (k : String) : Option String :=
  if k.startsWith "!" then (hexStr (String.ofList (k.toList.drop 1))).map ("\x01" ++ ·) else hexStr k

def isMarked (k : String) : Bool := k.startsWith "\x01"
def unmark (k : String) : String := if isMarked k then String.ofList (k.toList.drop 1) else k

def parseEntry (f : String → Option β) (s : String) : Option (String × β) :=
  match s.splitOn ":" with
  | [k, v] => do pure ((← keyOf k), (← f v))
  | _ => none

def parseRule (useA useM : Bool) (s : String) : Option Rule :=
  match s.splitOn ";" with
  | [name, kinds, scopes, state, prio, supp] => do
    let name ← hexStr name
    let kinds ← (listOf kinds).mapM hexStr
    let scopeNil := scopes = "N"
    let scopes ← (if scopeNil then pure [] else (listOf scopes).mapM hexStr)
    let state ← if state = "N" then pure none else (some <$> (listOf state).mapM (parseEntry (parsePat useA useM)))
    let prio ← prio.toInt?
    let supp ← (listOf supp).mapM hexStr
    pure { name, kinds := kinds.map splitDots, scope := scopes.map splitDots, scopeNil, state, prio, suppress := supp }
  | _ => none

def parseEvent (useA : Bool) (s : String) : Option Event :=
  match s.splitOn ";" with
  | name :: kind :: state :: _ => do
    pure { name := (← hexStr name), kind := (← (listOf kind).mapM hexStr),
           state := (← (listOf state).mapM (parseEntry (parseVal useA))) }
  | _ => none

def parseScope (s : String) : Option (List (List Seg × Bool)) :=
  if s = "N" then some [([], true)]
  else (listOf s).mapM fun e =>
    match e.splitOn ":" with
    | [p, b] => do
      let p ← hexStr p
      pure (if p = "" then [] else splitDots p, b = "1")
    | _ => none

/-- an event with its own cascade scope (none: inherited) and the (event, rule) that adds it (none: root event) -/
structure EvX where
  ev : Event
  scope : Option (List (List Seg × Bool))
  parent : Option (Nat × Nat)
  detached : Bool := false     -- added through a fresh instance state: no parent monitor

def parseEvX (useA : Bool) (s : String) : Option EvX := do
  let ev ← parseEvent useA s
  match s.splitOn ";" with
  | [_, _, _] => pure { ev, scope := none, parent := none }
  | [_, _, _, sc, par] =>
    let scope ← (if sc = "-" then pure none else (parseScope sc).map some)
    let parent ← (if par = "-" then pure none else
      match par.splitOn "." with
      | a :: b :: _ => do pure (some ((← a.toNat?), (← b.toNat?)))
      | _ => none)
    pure { ev, scope, parent, detached := (par.splitOn ".").length == 3 }
  | _ => none

inductive SOp where
  | rule (i : Nat) | ev (i : Nat) | reset

def parseSched (s : String) : Option (List SOp) :=
  (listOf s).mapM fun t =>
    match t.toList with
    | ['R'] => some .reset
    | 'r' :: rest => (String.ofList rest).toNat?.map .rule
    | 'e' :: rest => (String.ofList rest).toNat?.map .ev
    | _ => none

def valToken : Val → String
  | .null => "Z"
  | .atom c => "H" ++ toString c
  | .deep c => "D" ++ toString c

def parseTable (s : String) : Option (List ((Nat × String) × Bool)) :=
  (listOf s).mapM fun e =>
    match e.splitOn ":" with
    | [i, v, b] => do pure ((← i.toNat?, v), b = "1")
    | _ => none

def field (fs : List String) (k : String) : Option String :=
  fs.findSome? fun f => if f.startsWith (k ++ "=") then some (String.ofList (f.toList.drop (k.length + 1))) else none

def hexName (s : String) : String := hexEnc (s.toList.map Char.toNat)

def names (l : List String) : String :=
  if l.isEmpty then "_" else ".".intercalate ((l.map hexName).mergeSort (fun a b => a ≤ b))

def bit (b : Bool) : String := if b then "1" else "0"

def outNames (o : Out (List Rule)) : String :=
  match o with
  | .ok l => names (l.map (·.name))
  | .panic => "PANIC"
  | .hang => "HANG"

/-- keep the first entry of every key -/
def dedupKeys (l : List (String × β)) : List (String × β) :=
  (l.foldl (fun (acc : List (String × β)) kv => if acc.any (·.1 == kv.1) then acc else kv :: acc) []).reverse

/-- what the code does with non-string keys: `createRule` turns a statematch key into its text,
    the event keeps the raw key, which a string lookup never finds -/
def asIsRule (r : Rule) : Rule :=
  { r with state := r.state.map fun st => dedupKeys (st.map fun kp => (unmark kp.1, kp.2)) }
def asIsEvent (ev : Event) : Event := { ev with state := ev.state.filter fun kv => !isMarked kv.1 }
/-- a possible repair: keys compared by their text, a string key first -/
def byTextEvent (ev : Event) : Event :=
  { ev with state := ev.state.filter (fun kv => !isMarked kv.1) ++
                     (ev.state.filter fun kv => isMarked kv.1).map fun kv => (unmark kv.1, kv.2) }

def setNames (l : List String) : String :=
  if l.isEmpty then "_" else ".".intercalate (((l.map hexName).mergeSort (fun a b => a ≤ b)).eraseDups)

structure Sim where
  p : Proc := { root := {} }
  errs : List (Nat × Bool) := []
  outs : List (Nat × String) := []
  ran : List (Nat × List String) := []
  scopes : List (Nat × Scope) := []
  seenKinds : List (List Seg) := []
  strata : List String := []
  bad : Bool := false
  evSeen : Bool := false

def Sim.addStratum (s : Sim) (c : Bool) (n : String) : Sim :=
  if c && !s.strata.contains n then { s with strata := n :: s.strata } else s

/-- `keyMode` 0: non-string keys as the code treats them; 1: kept apart from string keys (the literal
    reading); 2: compared by text. `detachedGlobal`: an event added by a sink through a fresh instance
    state starts a new cascade with the global scope, as the code does (else: it stays in its cascade) -/
def simulate (rx : Nat → Val → Bool) (keyMode : Nat) (detachedGlobal : Bool) (ff : Bool) (failing : List Nat)
    (rules : List Rule) (caseScope : Scope) (evs : List EvX) (ops : List SOp) : Sim :=
  let rules := if keyMode == 1 then rules else rules.map asIsRule
  ops.foldl (fun (s : Sim) op =>
    -- the failing action belongs to the rule object handed to AddRule: it only exists if that rule was accepted
    let failNames := failing.filterMap fun i =>
      if alookup i s.errs == some false then rules[i]?.map (·.name) else none
    let fails : Rule → Bool := fun r => failNames.contains r.name
    match op with
    | .reset => { s with p := s.p.reset, seenKinds := [] }
    | .rule i =>
      match rules[i]? with
      | none => { s with bad := true }
      | some r =>
        let (p', err) := s.p.addRule r
        ({ s with p := p', errs := s.errs ++ [(i, err)], seenKinds := [] }).addStratum s.evSeen "ruleafter"
    | .ev i =>
      match evs[i]? with
      | none => { s with bad := true }
      | some e =>
        let ev := if keyMode == 0 then asIsEvent e.ev else if keyMode == 2 then byTextEvent e.ev else e.ev
        let added := match e.parent with
          | none => true
          | some (j, ri) => match rules[ri]?, alookup j s.ran with
            | some r, some names => names.contains r.name
            | _, _ => false
        let sc := match e.scope with
          | some defs => Scope.build defs
          | none => match e.parent with
            | some (j, _) =>
              if e.detached && detachedGlobal then Scope.build [([], true)] else (alookup j s.scopes).getD caseScope
            | none => caseScope
        if !added then { s with outs := s.outs ++ [(i, "T*/M_/K*/X_")], ran := (i, []) :: s.ran, scopes := (i, sc) :: s.scopes }
        else
          let root := s.p.root
          let t := root.isTriggering ev
          let m : Out (List Rule) := root.matchEv rx ev
          let ar := s.p.addEvent rx sc ev
          let res : Option (Out (List Rule)) := ar.1
          let p' : Proc := ar.2
          let full : List Rule := match res with | some (.ok l) => l | _ => []
          let exec : List Rule := runRules ff fails full
          let x := match res with
            | some (.ok _) => names (exec.map Rule.name)
            | some .panic => "PANIC"
            | some .hang => "HANG"
            | none => "_"
          let specL := Spec.firesList rx root.indexed sc.isAllowed ev
          let specOK := match res with
            | some (.ok l) => names (l.map Rule.name) == names specL
            | none => specL.isEmpty
            | _ => false
          let ms := match m with | .ok l => setNames (l.map Rule.name) | .panic => "PANIC" | .hang => "HANG"
          let tok := if x == "_" then "T*/M" ++ ms ++ "/K*/X_"
            else "T" ++ bit t ++ "/M" ++ ms ++ "/K" ++ bit res.isSome ++ "/X" ++ x
          -- which clause decided something in this case
          let kindOKs : List Rule := root.indexed.filter (Spec.kindOK · ev)
          let stOKs := kindOKs.filter (Spec.stateOK rx · ev)
          let scOKs := stOKs.filter (Spec.scopeOK sc.isAllowed ·)
          let s := { s with p := p', outs := s.outs ++ [(i, tok)], ran := (i, exec.map Rule.name) :: s.ran,
                            scopes := (i, sc) :: s.scopes, bad := s.bad || !specOK, evSeen := true }
          let s := s.addStratum (!kindOKs.isEmpty) "kind"
          let s := s.addStratum (stOKs.length < kindOKs.length) "state"
          let s := s.addStratum (scOKs.length < stOKs.length) "scope"
          let s := s.addStratum (specL.length < scOKs.length) "suppression"
          let s := s.addStratum (kindOKs.any fun (r : Rule) => r.kinds.countP (Spec.patMatch · ev.kind) > 1) "dedupe"
          let s := s.addStratum ((kindOKs.filter (fun (r : Rule) => r.state.isSome)).length > 63) "spill"
          let s := s.addStratum (s.seenKinds.contains ev.kind) "cachehit"
          let s := s.addStratum (exec.length < full.length) "failstop"
          let s := s.addStratum (!exec.isEmpty) "fires"
          let s := s.addStratum e.parent.isSome "child"
          { s with seenKinds := ev.kind :: s.seenKinds }) {}

def render (ecal : Bool) (nRules nEvs : Nat) (s : Sim) : String :=
  let errs := (List.range nRules).map fun i => (alookup i s.errs).getD false
  let outs := (List.range nEvs).map fun i => (alookup i s.outs).getD "NOT-RUN"
  let res :=
    if ecal then
      if errs.any id then "ERR-SINK"
      else "E" ++ String.join (outs.map fun o => " " ++ (match o.splitOn "/X" with | [_, x] => "X" ++ x | _ => o))
    else "a=" ++ (if errs.isEmpty then "_" else String.join (errs.map bit)) ++ String.join (outs.map (" " ++ ·))
  (if s.bad then "MODEL-DEVIATES-FROM-SPEC " else "") ++ res

def runCase (payload : String) : String :=
  let fs := payload.splitOn " "
  match field fs "r", field fs "s", field fs "e", field fs "x" with
  | some r, some s, some e, some x =>
    let parseRules := fun (useA useM : Bool) => if r = "_" then some [] else (r.splitOn "|").mapM (parseRule useA useM)
    let parseEvs := fun (useA : Bool) => if e = "_" then some [] else (e.splitOn "|").mapM (parseEvX useA)
    match parseRules true true, parseScope s, parseEvs true, parseTable x with
    | some rules, some defs, some evs, some tab =>
      -- a missing table entry must not go unnoticed
      let missing := evs.any fun e => rules.any fun r => (r.state.getD []).any fun kp =>
        match kp.2, alookup (unmark kp.1) (e.ev.state.map fun kv => (unmark kv.1, kv.2)) with
        | .rx id, some v => (alookup (id, valToken v) tab).isNone
        | _, _ => false
      if missing then "MISSING-REGEX-ENTRY" else
      let rx : Nat → Val → Bool := fun id v => (alookup (id, valToken v) tab).getD false
      let ecal := field fs "l" == some "e"
      let ff := match field fs "f" with | some v => v == "1" | none => ecal
      let failing := match field fs "g" with | some g => (listOf g).filterMap String.toNat? | none => []
      let defaultOps := (List.range rules.length).map SOp.rule ++ (List.range evs.length).map SOp.ev
      let ops := match field fs "z" with | some z => (parseSched z).getD defaultOps | none => defaultOps
      let sc := Scope.build defs
      let base := simulate rx 0 true ff failing rules sc evs ops
      let res := render ecal rules.length evs.length base
      -- a sink whose statematch has a non-string key cannot mean what it says (`createRule` turns the key
      -- into its text, `Rule.StateMatch` has string keys). Outcomes that keep the property: the declaration
      -- is refused; the keys are kept apart; the keys are compared by text.
      let markedRule := rules.any fun r => (r.state.getD []).any fun kp => isMarked kp.1
      let rend := fun (sim : Sim) => render ecal rules.length evs.length sim
      let keyAlts := if markedRule then
          ["ERR-SINK", rend (simulate rx 1 true ff failing rules sc evs ops), rend (simulate rx 2 true ff failing rules sc evs ops)]
        else []
      -- `scopematch []` reaches AddRule as a nil slice and is refused; accepting it as "no scope required" is as good
      let nilScope := ecal && rules.any (·.scopeNil)
      let scopeAlts := if nilScope then
          [rend (simulate rx 0 true ff failing (rules.map fun r => { r with scopeNil := false }) sc evs ops)] else []
      -- an event added by a sink through a fresh instance state (loop, function, addEventAndWait) loses its cascade
      let detached := evs.any (·.detached)
      let detAlts := if detached then [rend (simulate rx 0 false ff failing rules sc evs ops)] else []
      -- the code's deep comparison separates nil from empty lists/maps and keeps the object of a list/map
      -- pattern instead of its value at the declaration: the property's answers are alternatives
      let variant := fun (useA useM : Bool) =>
        match parseRules useA useM, parseEvs useA with
        | some rs, some es => rend (simulate rx 0 true ff failing rs sc es ops)
        | _, _ => res
      let aliasAlt := variant true false      -- patterns are the declared values
      let emptyAlt := variant false true      -- nil and empty alike
      let bothAlt := variant false false
      let valueAlts := [aliasAlt, emptyAlt, bothAlt]
      let alts := (keyAlts ++ scopeAlts ++ detAlts ++ valueAlts).filter (· != res) |>.eraseDups
      let kf := if (keyAlts.filter (· != res)).length > 0 then "\tkf=statematch-nonstring-key"
        else if (detAlts.filter (· != res)).length > 0 then "\tkf=scope-lost-in-nested-instance-state"
        else if aliasAlt != res then "\tkf=statematch-values-aliased"
        else if emptyAlt != res || bothAlt != res then "\tkf=empty-list-not-equal" else ""
      let specs := (List.range alts.length).zip alts |>.map fun (i, a) =>
        "\tspec" ++ (if i == 0 then "" else toString (i + 1)) ++ "=" ++ a
      let attrs := kf ++ String.join specs
      let st := if base.strata.isEmpty then "" else "\tst=" ++ ",".intercalate base.strata
      res ++ (if base.strata.contains "kind" then "\tnt=1" else "") ++ st ++ attrs
    | _, _, _, _ => "bad-payload"
  | _, _, _, _ => "bad-payload"

def run (_args : List String) : IO Unit := lineLoop runCase
end Ecal.Drv.C01
