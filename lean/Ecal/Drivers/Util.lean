/-!
Shared helpers of the model driver: the line protocol (one case per line in, one
canonical result per line out), hex encoding of byte strings, and small printers.

Case line   : `<idx>\t<payload>`
Result line : `<idx>\t<result>[\t<key>=<value>…]`   (`nt=1` marks a non-trivial case)
-/
namespace Ecal.Drv

def hexDigit (n : Nat) : Char :=
  if n < 10 then Char.ofNat (48 + n) else Char.ofNat (87 + n)

def hexEncode (bs : List Nat) : String :=
  String.ofList (bs.flatMap fun b => [hexDigit ((b / 16) % 16), hexDigit (b % 16)])

def hexVal (c : Char) : Option Nat :=
  if '0' ≤ c ∧ c ≤ '9' then some (c.toNat - 48)
  else if 'a' ≤ c ∧ c ≤ 'f' then some (c.toNat - 87)
  else if 'A' ≤ c ∧ c ≤ 'F' then some (c.toNat - 55)
  else none

def hexDecodeAux : List Char → List Nat → Option (List Nat)
  | [], acc => some acc.reverse
  | [_], _ => none
  | a :: b :: rest, acc => do
    let x ← hexVal a
    let y ← hexVal b
    hexDecodeAux rest ((x * 16 + y) :: acc)

/-- "-" encodes the empty byte string (protocol fields are never empty) -/
def hexDecode (s : String) : Option (List Nat) :=
  if s = "-" then some [] else hexDecodeAux s.toList []

def hexEnc (bs : List Nat) : String :=
  if bs.isEmpty then "-" else hexEncode bs

def strBytes (s : String) : List Nat := s.toUTF8.toList.map (·.toNat)

/-- split a line into idx and payload at the first tab -/
def splitIdx (line : String) : String × String :=
  match line.splitOn "\t" with
  | [] => ("", "")
  | [a] => (a, "")
  | a :: rest => (a, "\t".intercalate rest)

def stripNl (s : String) : String :=
  let s := if s.endsWith "\n" then (s.dropEnd 1).toString else s
  if s.endsWith "\r" then (s.dropEnd 1).toString else s

/-- read stdin line by line; `f payload` gives the result text (without idx) -/
partial def lineLoop (f : String → String) : IO Unit := do
  let stdin ← IO.getStdin
  let stdout ← IO.getStdout
  let rec loop : IO Unit := do
    let line ← stdin.getLine
    if line.isEmpty then return ()
    let line := stripNl line
    if line.isEmpty || line.startsWith "#" then loop
    else
      let (idx, payload) := splitIdx line
      stdout.putStrLn (idx ++ "\t" ++ f payload)
      loop
  loop
  stdout.flush

end Ecal.Drv
