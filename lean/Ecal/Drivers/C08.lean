import Ecal.Drivers.Util
import Ecal.Model.PrattTable
import Ecal.Lemmas.C08RealParse
/-!
Driver of C08. Payload (space separated; see go/cmd/harness/c08.go):
  `<src-hex> <flags: 1 = evaluated, 2 = FormatFiles run> <node>` with
  `node = Z | N <name-hex> <binding> <ld> <tok> <nmeta> {<P|Q|O> <val-hex>}* <nchildren> <node>*`,
  `tok = - | T <id> <val-hex> <raw> <identifier> <prefixNewlines> <line> <col>` —
the AST the REAL parser produced for the source. Result:
  `txt=<hex of the model printer's text> rt=ok|diff|noparse|* idem=ok|diff|na|* [eqm=ok|diff] [ff=ok] [beh=ok]`
`rt`/`idem` are what the theorems predict (`ok`), except for the classes listed below, where the code as
it is deviates (`diff`, with `kf=` and `spec=`) or where no prediction is made (`*`; Go prints `*` for the
same structurally defined classes and only counts its observations).
Every pure operator expression is also printed by the expression-level model the theorems are about;
a difference to the full printer model is reported as MODEL-DRIFT.
-/
namespace Ecal.Drv.C08
open Ecal.Drv Ecal.Lex Ecal.Parse Ecal.Print

def bytesToString (b : List Nat) : String := String.ofList (b.map Char.ofNat)

def parseMetas : Nat → List String → List Meta → Option (List Meta × List String)
  | 0, rest, acc => some (acc.reverse, rest)
  | n+1, k :: v :: rest, acc => do
    let v ← hexDecode v
    -- "O" (neither pre nor post comment) is ignored by the printer
    if k = "O" then parseMetas n rest acc else parseMetas n rest ({ pre := k = "P", val := v } :: acc)
  | _, _, _ => none

partial def parseNode : List String → Option (Option Node × List String)
  | "Z" :: rest => some (none, rest)
  | "N" :: name :: binding :: ld :: rest => do
    let name ← hexDecode name
    let binding ← binding.toNat?
    let (tok, rest) ← (match rest with
      | "-" :: rest => some (none, rest)
      | "T" :: id :: val :: raw :: ident :: pnl :: line :: col :: rest => do
        let id ← id.toNat?
        let val ← hexDecode val
        let pnl ← pnl.toNat?
        let line ← line.toNat?
        let col ← col.toInt?
        some (some { id := id, pos := 0, val := val, identifier := ident = "1", allowEscapes := raw = "0",
                     prefixNl := pnl, line := line, col := col : Tok }, rest)
      | _ => none)
    match rest with
    | nm :: rest =>
      let nm ← nm.toNat?
      let (metas, rest) ← parseMetas nm rest []
      match rest with
      | nc :: rest =>
        let nc ← nc.toNat?
        let rec kids (k : Nat) (rest : List String) (acc : List (Option Node)) : Option (List (Option Node) × List String) :=
          match k with
          | 0 => some (acc.reverse, rest)
          | k+1 => match parseNode rest with
            | some (c, rest) => kids k rest (c :: acc)
            | none => none
        let (cs, rest) ← kids nc rest []
        some (some (Node.mk (bytesToString name) tok binding .none (if ld = "1" then .infix else .none) cs metas), rest)
      | _ => none
    | _ => none
  | _ => none

partial def anyNode (p : Node → Bool) (n : Node) : Bool :=
  p n || n.children.any fun c => match c with | some c => anyNode p c | none => false

partial def countNodes (n : Node) : Nat :=
  1 + (n.children.map fun c => match c with | some c => countNodes c | none => 0).sum

/-- known finding `raw-string-kind`: the source has a raw string literal -/
def hasRawString (n : Node) : Bool :=
  anyNode (fun x => match x.tok with | some t => t.id = tSTRING && !t.allowEscapes | none => false) n

/-- known finding `mul-right-brackets`: a times node whose right child is times or div with a pure product
    chain on its left spine (fix C08-product-chain-brackets: otherwise the brackets are printed) -/
def hasMulRight (n : Node) : Bool :=
  anyNode (fun x => x.name = "times" && (match x.children with
    | [_, some r] => (r.name = "times" || r.name = "div") && r.children.length = 2 && isProductChain r x.binding
    | _ => false)) n

def hasPreComment (n : Node) : Bool := anyNode (fun x => x.metas.any (·.pre)) n

/-- (atEnd, mid): `pat` occurs at the end of a line directly behind `before` / occurs followed by more text -/
def occurrences (pat before : Txt) : Txt → Txt → Bool × Bool → Bool × Bool
  | [], _, acc => acc
  | c :: cs, seenRev, acc =>
    let here := c :: cs
    let acc :=
      if pat.isPrefixOf here then
        match here.drop pat.length with
        | [] => (acc.1 || before.reverse.isPrefixOf seenRev, acc.2)
        | 10 :: _ => (acc.1 || before.reverse.isPrefixOf seenRev, acc.2)
        | _ => (acc.1, true)
      else acc
    occurrences pat before cs (c :: seenRev) acc

/-- a raw string literal whose text contains `{{` (behaviour may change: consequence of raw-string-kind) -/
def hasRawInterp (n : Node) : Bool :=
  anyNode (fun x => match x.tok with
    | some t => t.id = tSTRING && !t.allowEscapes && (occurrences [123, 123] [] t.val [] (false, false) != (false, false))
    | none => false) n

/-- a # comment that is NOT (attached to an identifier / number leaf and printed directly behind that
    token at the end of a line); only such a comment is read back onto the same token -/
def hasUnstablePost (n : Node) (txt : Txt) : Bool :=
  anyNode (fun x => x.metas.any fun m =>
    if m.pre then false
    else
      let v := trimSpace (m.val.filter (· != 10))
      match x.tok with
      | some t =>
        let leaf := x.children.isEmpty && (x.name = "identifier" || x.name = "number")
        if !leaf || v.isEmpty then true
        else
          let (atEnd, mid) := occurrences (s " # " ++ v) t.val txt [] (false, false)
          !atEnd || mid
      | none => true) n

/-- (inside, ownBlank): `inside` = a blank line or a block comment in front of a token that does not
    start its statement (the printer then writes a newline inside the statement); `le` = the node's text
    starts the statement (statement position, or first-operand chain of infix nodes over atoms).
    `ownBlank` = a blank line in front of an infix operator token at the start position. -/
partial def insideFlags (n : Node) (le : Bool) (sp : Bool := true) (re : Bool := false) : Bool × Bool :=
  let isInfix := n.led != .none && n.children.length = 2
  let blank := match n.tok with | some t => decide (t.prefixNl > 1) | none => false
  let pre := n.metas.any (·.pre)
  -- a bare `return` used as an operand (`return` NEWLINE `- x` is read as `return - x`)
  let bareRet := n.name = "return" && n.children.isEmpty && !sp
  -- `re` = the node's text directly follows the keyword of a return statement: the only place where the
  -- newline written for a blank line changes what the parser reads (elsewhere it only moves on the next run)
  let here := ((pre && !le) || (blank && !le && re) || bareRet, blank && ((le && isInfix) || (!le && !re)))
  n.children.zipIdx.foldl (fun acc (c, i) =>
    match c with
    | some c =>
      let cle := n.name = "statements" || (i = 0 && le && isInfix && c.binding = 0)
      let cre := (n.name = "return" && i = 0) || (re && i = 0 && isInfix)
      let r := insideFlags c cle (n.name = "statements") cre
      (acc.1 || r.1, acc.2 || r.2)
    | none => acc) here

/-- leftmost operand chain of a statement ends in a unary plus / minus -/
partial def startsWithSign (n : Node) : Bool :=
  if n.children.length = 1 && (n.name = "plus" || n.name = "minus") then true
  else if n.led != .none && n.children.length = 2 then
    match n.children with
    | some l :: _ => startsWithSign l
    | _ => false
  else false

/-- the printed statement starts with "(": its first-operand chain of infix nodes reaches an operand
    that `ppNeedsBrackets` parenthesises -/
partial def startsWithParen (n : Node) : Bool :=
  if n.led != .none && n.children.length = 2 then
    match n.children with
    | some l :: _ => bracketRule n l 0 || startsWithParen l
    | _ => false
  else false

/-- the printed statement ends inside `ndIdentifier` (an identifier, call or composition access is its last
    operand, unparenthesised): a following "(" is read as the start of a call, on whatever line it is -/
partial def endsInIdentifier (n : Node) : Bool :=
  if n.name = "identifier" then true
  else
    let chain := (n.led != .none && n.children.length = 2) ||
      (n.children.length = 1 && ["plus", "minus", "not", "return", "let"].contains n.name)
    if chain then
      match n.children.getLast? with
      | some (some c) => !bracketRule n c (n.children.length - 1) && endsInIdentifier c
      | _ => false
    else false

def pairsAny (p : Node → Node → Bool) : List (Option Node) → Bool
  | some a :: some b :: rest => p a b || pairsAny p (some b :: rest)
  | _ :: rest => pairsAny p rest
  | [] => false

/-- finding `stmt-starts-with-sign`: a statement other than the first of its block starts with a unary
    + or - (read as an infix operator continuing the previous statement), or starts with "(" directly
    after a statement that ends in an identifier / call / composition access (read as a call) -/
def hasSignStart (n : Node) : Bool :=
  anyNode (fun x => x.name = "statements" &&
    (((x.children.drop 1).any fun c => match c with | some c => startsWithSign c | none => false) ||
     pairsAny (fun a b => endsInIdentifier a && startsWithParen b) x.children)) n

/-- first token of a statement: follow the first operand through infix nodes -/
partial def leftLeaf (n : Node) : Node :=
  if n.led != .none && n.children.length = 2 then
    match n.children with
    | some l :: _ => leftLeaf l
    | _ => n
  else n

/-- a statement whose text ends in a mutex / sink block (the statement itself or its last operand, transitively),
    followed by a statement that is not already preceded by a blank line
    (their templates end in a newline: a blank line appears, and one more on the next run) -/
partial def endsInBlockNl (n : Node) : Bool :=
  if n.name = "mutex" || n.name = "sink" then true
  else if n.children.isEmpty || ["statements", "list", "map", "funccall", "if", "loop", "try", "function", "identifier",
      "compaccess", "params"].contains n.name then false
  else match n.children.getLast? with
    | some (some c) => endsInBlockNl c
    | _ => false

/-- a bare return that is not a statement (operand, list element, call argument): the printer joins it with what
    follows on its line — `[return` NEWLINE `]` is printed `[return]`, which does not parse -/
partial def bareReturnOperand (n : Node) (sp : Bool) : Bool :=
  (n.name = "return" && n.children.isEmpty && !sp) ||
  n.children.any fun c => match c with | some c => bareReturnOperand c (n.name = "statements") | none => false

def blockThenStatement (n : Node) : Bool :=
  anyNode (fun x => x.name = "statements" &&
    pairsAny (fun a b => endsInBlockNl a &&
      (match (leftLeaf b).tok with | some t => t.prefixNl ≤ 1 | none => true)) x.children) n

/-- the printed text of the subtree contains a newline (structural: blank line, block comment,
    multi-line list / map, any block) -/
def hasNewline (n : Node) : Bool :=
  anyNode (fun x =>
    (match x.tok with | some t => decide (t.prefixNl > 1) | none => false) || x.metas.any (·.pre) ||
    (x.name = "list" && x.children.length > 4) || (x.name = "map" && x.children.length > 2) ||
    ["statements", "function", "if", "loop", "try", "mutex", "sink"].contains x.name) n

/-- walk an identifier chain: (hit, seen) — a composition access after a call / access spanning lines -/
partial def chainBreak (x : Node) (seen : Bool) : Bool × Bool :=
  x.children.foldl (fun (acc : Bool × Bool) c =>
    match c with
    | some c =>
      if acc.1 then acc
      else if c.name = "compaccess" then
        if acc.2 then (true, true) else (false, hasNewline c)
      else if c.name = "funccall" then (false, acc.2 || hasNewline c)
      else if c.name = "identifier" then chainBreak c acc.2
      else acc
    | none => acc) (false, seen)

/-- class `newline-inside-statement` (no comment needed): in an identifier chain a composition access
    `[…]` follows a call / access whose text spans lines; the `[` is no longer on the identifier's line -/
def hasPostfixAfterNewline (n : Node) : Bool :=
  anyNode (fun x => x.name = "identifier" && (chainBreak x false).1) n

/-- class `bare-return-at-end`: the printed text ends with a bare `return` (the last statement of the program);
    without a trailing newline the parser reads the end of the input as the value of the return -/
def endsWithBareReturn (n : Node) : Bool :=
  let bare (x : Node) := x.name = "return" && x.children.isEmpty
  bare n || (n.name = "statements" && (match n.children.getLast? with | some (some c) => bare c | _ => false))

def runCase (payload : String) : String :=
  -- the format tool on a directory tree (FormatFiles / Format): what the property demands is fixed
  if payload.startsWith "FMT " then "fmt=ok\tnt=1" else
  -- not a case: reports the value of the hypothesis `RP.tablesAgree` of the theorems on the real parser model
  if payload = "TABLES" then "UNSUP\tskip=1\ttables_agree=" ++ toString Ecal.C08.RP.tablesAgree else
  match payload.splitOn " " with
  | _src :: flags :: rest =>
    let ev := flags
    let ff := flags = "2" || flags = "3"
    match parseNode rest with
    | some (some ast, []) =>
      match prettyPrint (some ast), prettyPrintCanon (some ast) with
      | .error .panic, _ => "PANIC-PREDICTED"
      | .error .nilNode, _ => "PPERR-PREDICTED"
      | _, .error _ => "PANIC-PREDICTED"
      | .ok txt, .ok txtC =>
        let raw := hasRawString ast
        let mul := hasMulRight ast
        let (inside, ownBlank) := insideFlags ast true
        let sign := hasSignStart ast
        let ev := if ev = "1" || ev = "3" then "1" else "0"
        -- inside the class the printed text must at least PARSE (`*p`) unless a # comment swallows the rest of its
        -- line or a composition access is pushed off the identifier's line
        let mayNotParse := hasUnstablePost ast txt || hasPostfixAfterNewline ast || endsWithBareReturn ast ||
          bareReturnOperand ast true
        let post := hasUnstablePost ast txt || hasPostfixAfterNewline ast || inside
        let wild := post || ownBlank || hasPreComment ast || blockThenStatement ast
        -- cross-check of the expression-level model (the one the theorems are about)
        let (drift, xc) : Option String × Bool :=
          match Ecal.C08.toExpr ast #[] with
          | some (e, atoms) =>
            let pe := Ecal.C08.annotW Ecal.C08.realPowers Ecal.C08.realExc Ecal.C08.realBr e
            let toks := pe.flat
            -- PrettyPrint trims the whole text (an indented keyword at the very start loses its indent)
            let t := trimSpace (Ecal.C08.renderP atoms none pe)
            let exc := Ecal.C08.hasExc Ecal.C08.realPowers Ecal.C08.realExc e
            if t != txt then (some ("MODEL-DRIFT expr=" ++ hexEnc t ++ " full=" ++ hexEnc txt), true)
            else if exc != mul then (some "CLASSIFIER-DRIFT", true)
            else if !exc && Ecal.C08.run Ecal.C08.realPowers (4 * toks.length + 4) 0 toks != some (e, []) then
              (some "THEOREM-DRIFT", true)
            else (none, true)
          | none => (none, false)
        match drift with
        | some d => d
        | none =>
          let eret := endsWithBareReturn ast
          let rt := if post then (if mayNotParse then "*" else "*p") else if eret then "noparse" else if raw || mul || sign then "diff" else "ok"
          let idem := if wild then "*" else if eret then "na" else if sign then "diff" else "ok"
          -- inside the classes with rt=diff the trees must agree modulo the known LOCAL difference (raw flag,
          -- product association); a merged statement (sign / parenthesis start) is a genuine difference
          let eqm := if sign then "diff" else "ok"
          -- the format tool: the file is left unchanged or parses to a tree equal to the original (modulo the known
          -- local differences); free inside the newline class (never "broken"); a merged statement is a real difference
          let ffv := if post then "*" else if sign then "diff" else "ok"
          -- string literals in canonical spelling, unless a # comment swallows the rest of its line
          let txtC := if hasUnstablePost ast txt then txt else txtC
          let line (rt : String) := "txt=" ++ hexEnc txtC ++ " rt=" ++ rt ++ " idem=" ++ idem ++
            (if rt = "diff" then " eqm=" ++ eqm else "") ++
            (if ff then " ff=" ++ ffv else "") ++
            (if ev = "1" && (rt = "ok" || (rt = "diff" && eqm = "ok")) && !hasRawInterp ast then " beh=ok" else "")
          let kf : Option String :=
            if post then some "newline-inside-statement"
            else if eret then some "bare-return-at-end"
            else if sign then some "stmt-starts-with-sign"
            else if raw then some "raw-string-kind"
            else if mul then some "mul-right-brackets"
            else if wild then some "layout-not-idempotent"
            else none
          let specRt := if post then "ok" else "ok"
          let specLine := "txt=" ++ hexEnc txtC ++ " rt=" ++ specRt ++ " idem=ok" ++ (if ff then " ff=ok" else "") ++ (if ev = "1" && !hasRawInterp ast then " beh=ok" else "")
          line rt
            ++ (if countNodes ast ≥ 3 then "\tnt=1" else "")
            ++ (if xc then "\txc=1" else "")
            ++ (match kf with | some k => "\tkf=" ++ k ++ "\tspec=" ++ specLine | none => "")
    | _ => "bad-payload"
  | _ => "bad-payload"

def run (_args : List String) : IO Unit := lineLoop runCase
end Ecal.Drv.C08
