import Ecal.Drivers.Util
import Ecal.Model.PrattTable
/-!
Driver of C08. Payload (space separated; see go/cmd/harness/c08.go):
  `<src-hex> <ev:0|1> <node>` with
  `node = Z | N <name-hex> <binding> <ld> <tok> <nmeta> {<P|Q|O> <val-hex>}* <nchildren> <node>*`,
  `tok = - | T <id> <val-hex> <raw> <identifier> <prefixNewlines> <line> <col>` —
the AST the REAL parser produced for the source. Result:
  `txt=<hex of the model printer's text> rt=ok|diff|* idem=ok|* [beh=ok]`
`rt`/`idem` are what the theorems predict (`ok`), except for the classes listed below, where the code as
it is deviates (`diff`, with `kf=` and `spec=`) or where no prediction is made (`*`; Go prints `*` for the
same structurally defined classes and only counts its observations).
Every pure operator expression is also printed by the expression-level model the theorems are about;
a difference to the full printer model is reported as MODEL-DRIFT.
-/
namespace Ecal.Drv.C08
open Ecal.Drv Ecal.Lex Ecal.Parse Ecal.Print

def bytesToString (b : List Nat) : String := String.ofList (b.map Char.ofNat)

def parseMetas : Nat → List String → List Meta → Option (List Meta × List String)
  | 0, rest, acc => some (acc.reverse, rest)
  | n+1, k :: v :: rest, acc => do
    let v ← hexDecode v
    -- "O" (neither pre nor post comment) is ignored by the printer
    if k = "O" then parseMetas n rest acc else parseMetas n rest ({ pre := k = "P", val := v } :: acc)
  | _, _, _ => none

partial def parseNode : List String → Option (Option Node × List String)
  | "Z" :: rest => some (none, rest)
  | "N" :: name :: binding :: ld :: rest => do
    let name ← hexDecode name
    let binding ← binding.toNat?
    let (tok, rest) ← (match rest with
      | "-" :: rest => some (none, rest)
      | "T" :: id :: val :: raw :: ident :: pnl :: line :: col :: rest => do
        let id ← id.toNat?
        let val ← hexDecode val
        let pnl ← pnl.toNat?
        let line ← line.toNat?
        let col ← col.toInt?
        some (some { id := id, pos := 0, val := val, identifier := ident = "1", allowEscapes := raw = "0",
                     prefixNl := pnl, line := line, col := col : Tok }, rest)
      | _ => none)
    match rest with
    | nm :: rest =>
      let nm ← nm.toNat?
      let (metas, rest) ← parseMetas nm rest []
      match rest with
      | nc :: rest =>
        let nc ← nc.toNat?
        let rec kids (k : Nat) (rest : List String) (acc : List (Option Node)) : Option (List (Option Node) × List String) :=
          match k with
          | 0 => some (acc.reverse, rest)
          | k+1 => match parseNode rest with
            | some (c, rest) => kids k rest (c :: acc)
            | none => none
        let (cs, rest) ← kids nc rest []
        some (some (Node.mk (bytesToString name) tok binding .none (if ld = "1" then .infix else .none) cs metas), rest)
      | _ => none
    | _ => none
  | _ => none

partial def anyNode (p : Node → Bool) (n : Node) : Bool :=
  p n || n.children.any fun c => match c with | some c => anyNode p c | none => false

partial def countNodes (n : Node) : Nat :=
  1 + (n.children.map fun c => match c with | some c => countNodes c | none => 0).sum

/-- known finding `raw-string-kind`: the source has a raw string literal -/
def hasRawString (n : Node) : Bool :=
  anyNode (fun x => match x.tok with | some t => t.id = tSTRING && !t.allowEscapes | none => false) n

/-- known finding `mul-right-brackets`: a times node whose right child is times or div -/
def hasMulRight (n : Node) : Bool :=
  anyNode (fun x => x.name = "times" && (match x.children with
    | [_, some r] => (r.name = "times" || r.name = "div") && r.children.length = 2
    | _ => false)) n

def hasPostComment (n : Node) : Bool := anyNode (fun x => x.metas.any (!·.pre)) n
def hasComment (n : Node) : Bool := anyNode (fun x => !x.metas.isEmpty) n

/-- (inside, ownBlank): `inside` = a blank line or a block comment in front of a token that does not
    start its statement (the printer then writes a newline inside the statement); `le` = the node's text
    starts the statement (statement position, or first-operand chain of infix nodes over atoms).
    `ownBlank` = a blank line in front of an infix operator token at the start position. -/
partial def insideFlags (n : Node) (le : Bool) (sp : Bool := true) : Bool × Bool :=
  let isInfix := n.led != .none && n.children.length = 2
  let blank := match n.tok with | some t => decide (t.prefixNl > 1) | none => false
  let pre := n.metas.any (·.pre)
  -- a bare `return` used as an operand (`return` NEWLINE `- x` is read as `return - x`)
  let bareRet := n.name = "return" && n.children.isEmpty && !sp
  let here := (((blank || pre) && !le) || bareRet, blank && le && isInfix)
  n.children.zipIdx.foldl (fun acc (c, i) =>
    match c with
    | some c =>
      let cle := n.name = "statements" || (i = 0 && le && isInfix && c.binding = 0)
      let r := insideFlags c cle (n.name = "statements")
      (acc.1 || r.1, acc.2 || r.2)
    | none => acc) here

/-- finding `if-true-else-duplicated`: `if true { … }` without further branches -/
def hasIfTrue (n : Node) : Bool :=
  anyNode (fun x => x.name = "if" && (match x.children with
    | [some g, _] => (match g.children with | some c :: _ => c.name = "true" | _ => false)
    | _ => false)) n

/-- leftmost operand chain of a statement ends in a unary plus / minus -/
partial def startsWithSign (n : Node) : Bool :=
  if n.children.length = 1 && (n.name = "plus" || n.name = "minus") then true
  else if n.led != .none && n.children.length = 2 then
    match n.children with
    | some l :: _ => startsWithSign l
    | _ => false
  else false

/-- finding `stmt-starts-with-sign`: a statement other than the first of its block starts with a unary
    + or - -/
def hasSignStart (n : Node) : Bool :=
  anyNode (fun x => x.name = "statements" &&
    ((x.children.drop 1).any fun c => match c with | some c => startsWithSign c | none => false)) n

/-- a mutex or sink statement followed by another statement (their templates end in a newline) -/
def blockThenStatement (n : Node) : Bool :=
  anyNode (fun x => x.name = "statements" &&
    (x.children.dropLast.any fun c => match c with | some c => c.name = "mutex" || c.name = "sink" | none => false)) n

def runCase (payload : String) : String :=
  match payload.splitOn " " with
  | _src :: ev :: rest =>
    match parseNode rest with
    | some (some ast, []) =>
      match prettyPrint (some ast) with
      | .error .panic => "PANIC-PREDICTED"
      | .error .nilNode => "PPERR-PREDICTED"
      | .ok txt =>
        let raw := hasRawString ast
        let mul := hasMulRight ast
        let (inside, ownBlank) := insideFlags ast true
        let sign := hasSignStart ast
        let ift := hasIfTrue ast
        let post := hasPostComment ast || inside
        let wild := post || ownBlank || hasComment ast || blockThenStatement ast
        -- cross-check of the expression-level model (the one the theorems are about)
        let (drift, xc) : Option String × Bool :=
          match Ecal.C08.toExpr ast #[] with
          | some (e, atoms) =>
            let toks := Ecal.C08.printToks Ecal.C08.realPowers Ecal.C08.realExc e
            let t := Ecal.C08.render atoms toks
            let exc := Ecal.C08.hasExc Ecal.C08.realExc e
            if t != txt then (some ("MODEL-DRIFT expr=" ++ hexEnc t ++ " full=" ++ hexEnc txt), true)
            else if exc != mul then (some "CLASSIFIER-DRIFT", true)
            else if !exc && Ecal.C08.run Ecal.C08.realPowers (4 * toks.length + 4) 0 toks != some (e, []) then
              (some "THEOREM-DRIFT", true)
            else (none, true)
          | none => (none, false)
        match drift with
        | some d => d
        | none =>
          let rt := if post then "*" else if raw || mul || sign || ift then "diff" else "ok"
          let idem := if wild then "*" else if sign then "diff" else "ok"
          let line (rt : String) := "txt=" ++ hexEnc txt ++ " rt=" ++ rt ++ " idem=" ++ idem ++
            (if ev = "1" && rt = "ok" then " beh=ok" else "")
          let kf : Option String :=
            if post then some "newline-inside-statement"
            else if sign then some "stmt-starts-with-sign"
            else if ift then some "if-true-else-duplicated"
            else if raw then some "raw-string-kind"
            else if mul then some "mul-right-brackets"
            else if wild then some "layout-not-idempotent"
            else none
          let specRt := if post then "ok" else "ok"
          let specLine := "txt=" ++ hexEnc txt ++ " rt=" ++ specRt ++ " idem=ok" ++ (if ev = "1" then " beh=ok" else "")
          line rt
            ++ (if countNodes ast ≥ 3 then "\tnt=1" else "")
            ++ (if xc then "\txc=1" else "")
            ++ (match kf with | some k => "\tkf=" ++ k ++ "\tspec=" ++ specLine | none => "")
    | _ => "bad-payload"
  | _ => "bad-payload"

def run (_args : List String) : IO Unit := lineLoop runCase
end Ecal.Drv.C08
