import Ecal.Drivers.Util
import Ecal.Model.Lexer
import Ecal.Model.LexerSpec
/-!
Driver of C18. Two case kinds (payload, space separated):

* `L <src-hex>` — result: `pos,line,col` of every token the lexer emits (comments, EOF and
  error token included), joined by single spaces; the EOF token as `eof,line`.
* `E <P|R> <src-hex> <off>` — a program with a planted parse (`P`) or runtime (`R`) error whose
  offending token starts at byte offset `off` (`eof`: the EOF token). Result: `line,col` the
  error must carry = the fields of that token in the lexer model.

* `S <ref-hex> <var-hex> <tree>` — statement separation: `var` is the comment-free program `ref`
  with comments put into its gaps; result: the canonical tree (or parse error kind) the real
  parser must produce for `var` = the one it produced for `ref` (shipped in the payload),
  provided the rule of `sepCase` applies — decided here from the lexer model's token lines.
  The known finding hash-comment-column concerns columns only and excuses nothing here.

The specification (true line / column recomputed from the byte offset, `Ecal.Lex.Spec`) is
evaluated on every case for every token except EOF (which has no first character). Where the
model (= the code) deviates from it the line carries `spec=<result with true positions>` and
`kf=hash-comment-column` if the classifier holds for **every** deviating token and the line
number is right, `kf=unexplained-position` (not a listed finding ⇒ violation) otherwise.
`nt=1`: some compared token lies on a line > 1.
-/
namespace Ecal.Drv.C18
open Ecal.Drv Ecal.Lex Ecal.Lex.Spec

def triple (p l : Nat) (c : Int) : String := s!"{p},{l},{c}"

structure Verdict where
  model : String
  spec : String
  deviates : Bool
  explained : Bool
  nontrivial : Bool

def attrs (v : Verdict) : String :=
  v.model ++ (if v.nontrivial then "\tnt=1" else "")
    ++ (if v.deviates then
          "\tkf=" ++ (if v.explained then "hash-comment-column" else "unexplained-position") ++ "\tspec=" ++ v.spec
        else "")

/-- per token: (model text, spec text, deviates, explained) -/
def judge (inp : Bytes) (toks : List Tok) (t : Tok) (withPos : Bool) : String × String × Bool × Bool :=
  let m := if withPos then triple t.pos t.line t.col else s!"{t.line},{t.col}"
  if t.id = tEOF then
    -- EOF has no first character; its Pos and column are leftovers of the previous token and
    -- are not compared, only its line is
    let e := if withPos then s!"eof,{t.line}" else s!"{t.line},eof"
    (e, e, false, true)
  else
    let tl := lineOf inp t.pos
    let tc := colOf inp t.pos
    let s := if withPos then triple t.pos tl tc else s!"{tl},{tc}"
    let dev := t.line != tl || t.col != tc
    (m, s, dev, t.line = tl && afterHashComment inp toks t.pos)

def lexCase (src : List Nat) : String :=
  let inp := src.toArray
  let toks := (lex src).toList
  let js := toks.map fun t => judge inp toks t true
  let v : Verdict := {
    model := " ".intercalate (js.map (·.1)),
    spec := " ".intercalate (js.map (·.2.1)),
    deviates := js.any (·.2.2.1),
    explained := js.all fun j => !j.2.2.1 || j.2.2.2,
    nontrivial := toks.any fun t => t.id != tEOF && t.line > 1 }
  if toks.isEmpty then "-" else attrs v

def errCase (src : List Nat) (off : String) : String :=
  let inp := src.toArray
  let toks := (lex src).toList
  let tok? : Option Tok :=
    if off = "eof" then (match toks.getLast? with | some t => if t.id = tEOF then some t else none | none => none)
    else match off.toNat? with
      | some o => toks.find? fun t => t.pos = o && t.id != tEOF && t.id != tPRECOMMENT && t.id != tPOSTCOMMENT
      | none => none
  match tok? with
  | none => "no-token-at-offset"
  | some t =>
    let j := judge inp toks t false
    attrs { model := j.1, spec := j.2.1, deviates := j.2.2.1, explained := j.2.2.2,
            nontrivial := t.line > 1 }

/-- tokens the parser sees (comments are attached to nodes as meta data, never parsed) -/
def parserToks (src : List Nat) : List Tok :=
  (lex src).toList.filter fun t => t.id != tPRECOMMENT && t.id != tPOSTCOMMENT

/-- for every token but the first: is it on the same line as the token before it?  Token lines
    never decrease, so this list fixes the outcome of every `<` / `==` between the lines of any two
    tokens — all the parser ever does with them (run: new statement on a new line; ndReturn;
    ndIdentifier `[`; hasMoreStatements). -/
def sameLineRel : List Tok → List Bool
  | a :: b :: rest => (a.line == b.line) :: sameLineRel (b :: rest)
  | _ => []

/-- `S` cases. Rule: if reference and variant have the same parser-visible tokens (kind, value,
    flags; EOF included) and the same `sameLineRel`, the parser must produce the same canonical
    tree / error kind for both; the tree of the reference comes with the payload. -/
def sepCase (ref var : List Nat) (tree : String) : String :=
  let tr := parserToks ref
  let tv := parserToks var
  let key (t : Tok) := (t.id, t.val, t.identifier, t.allowEscapes)
  if tr.map key != tv.map key then "rule-not-applicable:tokens-differ"
  else if sameLineRel tr != sameLineRel tv then "rule-not-applicable:line-relation-differs"
  else
    let comments := (lex var).toList.any fun t => t.id = tPRECOMMENT || t.id = tPOSTCOMMENT
    tree ++ (if comments && (sameLineRel tv).any (!·) then "\tnt=1" else "")

def runCase (payload : String) : String :=
  match payload.splitOn " " with
  | ["L", h] => match hexDecode h with
    | some src => lexCase src
    | none => "bad-payload"
  | ["E", _k, h, off] => match hexDecode h with
    | some src => errCase src off
    | none => "bad-payload"
  | ["S", r, v, tree] => match hexDecode r, hexDecode v with
    | some r, some v => sepCase r v tree
    | _, _ => "bad-payload"
  | _ => "bad-payload"

def run (_args : List String) : IO Unit := lineLoop runCase
end Ecal.Drv.C18
