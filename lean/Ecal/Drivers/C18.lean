import Ecal.Drivers.Util
import Ecal.Model.Lexer
import Ecal.Model.LexerSpec
/-!
Driver of C18. Two case kinds (payload, space separated):

* `L <src-hex>` — result: `pos,line,col` of every token the lexer emits (comments, EOF and
  error token included), joined by single spaces.
* `E <P|R> <src-hex> <off>` — a program with a planted parse (`P`) or runtime (`R`) error whose
  offending token starts at byte offset `off` (`eof`: the EOF token). Result: `line,col` the
  error must carry = the fields of that token in the lexer model.

* `S <ref-hex> <var-hex> <tree>` — statement separation: `var` is the comment-free program `ref`
  with comments put into its gaps; result: the canonical tree (or parse error kind) the real
  parser must produce for `var` = the one it produced for `ref` (shipped in the payload),
  provided the rule of `sepCase` applies — decided here from the lexer model's token lines.
  The known finding hash-comment-column concerns columns only and excuses nothing here.

The specification (true line / column recomputed from the byte offset, `Ecal.Lex.Spec`) is
evaluated on every case for every token; for the EOF token (no first character) the position
asked for is the end of the input — the code's stale position there is the known finding
`eof-stale-position` (a trailing EOF after an error token is not constrained). Where the
model (= the code) deviates from it the line carries `spec=<result with true positions>` and
`kf=hash-comment-column` if the classifier holds for **every** deviating token and the line
number is right, `kf=unexplained-position` (not a listed finding ⇒ violation) otherwise.
`nt=1`: some compared token lies on a line > 1.
-/
namespace Ecal.Drv.C18
open Ecal.Drv Ecal.Lex Ecal.Lex.Spec

def triple (p l : Nat) (c : Int) : String := s!"{p},{l},{c}"

structure Verdict where
  model : String
  spec : String
  /-- a token other than EOF deviates from its true position -/
  deviates : Bool
  /-- … and every such deviation is the known finding hash-comment-column -/
  explained : Bool
  /-- the EOF token deviates from the end-of-input position -/
  eofDeviates : Bool := false
  /-- … and it is the known finding eof-stale-position (the line is right) -/
  eofExplained : Bool := true
  nontrivial : Bool

def attrs (v : Verdict) : String :=
  v.model ++ (if v.nontrivial then "\tnt=1" else "")
    ++ (if v.deviates then
          "\tkf=" ++ (if v.explained && v.eofExplained then "hash-comment-column" else "unexplained-position") ++ "\tspec=" ++ v.spec
        else if v.eofDeviates then
          "\tkf=" ++ (if v.eofExplained then "eof-stale-position" else "unexplained-position") ++ "\tspec=" ++ v.spec
        else "")

/-- per token: (model text, spec text, deviates, explained).  The EOF token has no first
    character; the position the property asks for is the end of the input. The code stamps it
    with the start of the previous token (known finding eof-stale-position; its line is right).
    After an error token the lexer has stopped and a trailing EOF is not constrained. -/
def judge (inp : Bytes) (toks : List Tok) (t : Tok) (withPos : Bool) : String × String × Bool × Bool :=
  let m := if withPos then triple t.pos t.line t.col else s!"{t.line},{t.col}"
  if t.id = tEOF && toks.any (·.id = tERROR) then (m, m, false, true)
  else
    let off := if t.id = tEOF then inp.size else t.pos
    let tl := lineOf inp off
    let tc := colOf inp off
    let s := if withPos then triple off tl tc else s!"{tl},{tc}"
    let dev := t.pos != off || t.line != tl || t.col != tc
    (m, s, dev, t.line = tl && (t.id = tEOF || afterHashComment inp toks t.pos))

def lexCase (src : List Nat) : String :=
  let inp := src.toArray
  let toks := (lex src).toList
  let js := toks.map fun t => (decide (t.id = tEOF), judge inp toks t true)
  let v : Verdict := {
    model := " ".intercalate (js.map (·.2.1)),
    spec := " ".intercalate (js.map (·.2.2.1)),
    deviates := js.any fun j => !j.1 && j.2.2.2.1,
    explained := js.all fun j => j.1 || !j.2.2.2.1 || j.2.2.2.2,
    eofDeviates := js.any fun j => j.1 && j.2.2.2.1,
    eofExplained := js.all fun j => !j.1 || !j.2.2.2.1 || j.2.2.2.2,
    nontrivial := toks.any fun t => t.id != tEOF && t.line > 1 }
  if toks.isEmpty then "-" else attrs v

def errCase (src : List Nat) (off : String) : String :=
  let inp := src.toArray
  let toks := (lex src).toList
  let tok? : Option Tok :=
    if off = "eof" then (match toks.getLast? with | some t => if t.id = tEOF then some t else none | none => none)
    else match off.toNat? with
      | some o => toks.find? fun t => t.pos = o && t.id != tEOF && t.id != tPRECOMMENT && t.id != tPOSTCOMMENT
      | none => none
  match tok? with
  | none => "no-token-at-offset"
  | some t =>
    let j := judge inp toks t false
    if t.id = tEOF then
      attrs { model := j.1, spec := j.2.1, deviates := false, explained := true,
              eofDeviates := j.2.2.1, eofExplained := j.2.2.2, nontrivial := t.line > 1 }
    else
      attrs { model := j.1, spec := j.2.1, deviates := j.2.2.1, explained := j.2.2.2,
              nontrivial := t.line > 1 }

/-- tokens the parser sees (comments are attached to nodes as meta data, never parsed) -/
def parserToks (src : List Nat) : List Tok :=
  (lex src).toList.filter fun t => t.id != tPRECOMMENT && t.id != tPOSTCOMMENT

/-- for every token but the first: is it on the same line as the token before it?  Token lines
    never decrease, so this list fixes the outcome of every `<` / `==` between the lines of any two
    tokens — all the parser ever does with them (run: new statement on a new line; ndReturn;
    ndIdentifier `[`; hasMoreStatements). -/
def sameLineRel : List Tok → List Bool
  | a :: b :: rest => (a.line == b.line) :: sameLineRel (b :: rest)
  | _ => []

/-- `S` cases. Rule: if reference and variant have the same parser-visible tokens (kind, value,
    flags; EOF included) and the same `sameLineRel`, the parser must produce the same canonical
    tree / error kind for both; the tree of the reference comes with the payload. -/
def sepCase (ref var : List Nat) (tree : String) : String :=
  let tr := parserToks ref
  let tv := parserToks var
  let key (t : Tok) := (t.id, t.val, t.identifier, t.allowEscapes)
  if tr.map key != tv.map key then "rule-not-applicable:tokens-differ"
  else if sameLineRel tr != sameLineRel tv then "rule-not-applicable:line-relation-differs"
  else
    let comments := (lex var).toList.any fun t => t.id = tPRECOMMENT || t.id = tPOSTCOMMENT
    tree ++ (if comments && (sameLineRel tv).any (!·) then "\tnt=1" else "")

def runCase (payload : String) : String :=
  match payload.splitOn " " with
  | ["L", h] => match hexDecode h with
    | some src => lexCase src
    | none => "bad-payload"
  | ["E", _k, h, off] => match hexDecode h with
    | some src => errCase src off
    | none => "bad-payload"
  | ["S", r, v, tree] => match hexDecode r, hexDecode v with
    | some r, some v => sepCase r v tree
    | _, _ => "bad-payload"
  | _ => "bad-payload"

def run (_args : List String) : IO Unit := lineLoop runCase
end Ecal.Drv.C18
