import Ecal.Drivers.Util
import Ecal.Model.Lexer
import Ecal.Model.LexerSpec
/-!
Driver of C18. Two case kinds (payload, space separated):

* `L <src-hex>` — result: `pos,line,col` of every token the lexer emits (comments, EOF and
  error token included), joined by single spaces.
* `E <P|R|X|A|Y> <src-hex> <off> [<calloff>]` — a program with a planted parse (`P`) or runtime (`R`)
  error, or a runtime error the program catches itself (`X`); `A` / `Y`: the same two for a failed
  variable / container access or import, which the code reports WITHOUT position (known finding
  access-errors-unpositioned: result `unpositioned`, `spec=` the positioned answer). The offending token starts at
  byte offset `off` (`eof`: the EOF token). Result: `line,col` of that token in the lexer model,
  once per observable (P: Line/Pos fields, numbers in the message text; R: fields, text, node
  line/linepos in MarshalJSON; X: `e.line`, `e.pos` of the except object) and, with `calloff`, the
  line of the call token the error passed through (outermost stack trace entry).

* `B <src-hex> <markoff>` — a break point set (by the harness, on the real debugger) at the true
  line of a marked statement; result: `pos,line` of the node the thread is suspended on = the
  marked token.

* `B2 <src-hex> <off1> <off2> <both|dis|rm>` — two marked statements; the second break point stays
  active, is disabled (DisableBreakPoint) or removed (RemoveBreakPoint) before the run; result: the
  node of every suspension in order (`-` for the deactivated one).

* `U <lo> <hi>` — sweep: unicode.IsSpace / IsControl / IsNumber and utf8.DecodeRune against the
  model's `isSpace` / `isControl` / `isNumber` / `decodeRune` for every code point of the range
  (quick: U+0000–U+2FFF, thorough: all of U+0000–U+111FFF incl. surrogates and out-of-range).

* `S <ref-hex> <var-hex> <tree>` — statement separation: `var` is the comment-free program `ref`
  with comments put into its gaps; result: the canonical tree (or parse error kind) the real
  parser must produce for `var` = the one it produced for `ref` (shipped in the payload),
  provided the rule of `sepCase` applies — decided here from the lexer model's token lines.
  The known finding hash-comment-column concerns columns only and excuses nothing here.

The specification (true line / column recomputed from the byte offset, `Ecal.Lex.Spec`) is
evaluated on every case for every token; for the EOF token (no first character) the position
asked for is the end of the input — the code's stale position there is the known finding
`eof-stale-position` (a trailing EOF after an error token is not constrained). Where the
model (= the code) deviates from it the line carries `spec=<result with true positions>`,
`alt=` per token every value a tree with SOME of the known findings repaired may report (the
check accepts Go token by token: equal to one of them), and `kf=`: `unexplained-position` (not a
listed finding ⇒ violation) if some deviation is not classified, else `hash-comment-column` if a
non-EOF token deviates, else `eof-stale-position`. Each token's `Pos` is recomputed from the
bytes (`expectedPositions`), not taken from the token.
`nt=1`: some compared token lies on a line > 1.
-/
namespace Ecal.Drv.C18
open Ecal.Drv Ecal.Lex Ecal.Lex.Spec

def triple (p l : Nat) (c : Int) : String := s!"{p},{l},{c}"

/-! ### spec side: where tokens must start, recomputed from the bytes

An independent scan: skip blanks; the bytes found there decide where the token's `Pos` must be
(`#` → behind it, `/*` → behind it, anything else → there); the token's end is found by a byte
scan of its own for comments and string literals and from the length of the token text for words
(`Ecal.Props.C18.word_text_at_pos` proves that text stands at `Pos`). Comment tokens are exempt
from "Pos is the first character": their `Pos` is the first byte of the comment TEXT (what `Val`
holds and the printer relies on); they never reach an error or a break point. -/

def skipBlanks (inp : Bytes) : Nat → Nat → Nat
  | 0, o => o
  | fuel+1, o =>
    if o ≥ inp.size then o
    else
      let d := decodeRune inp o
      if isSpace d.1 || isControl d.1 then skipBlanks inp fuel (o + d.2) else o

/-- index after the first byte `b` at or after `o` (size if none) -/
def afterByte (inp : Bytes) (b : Nat) : Nat → Nat → Nat
  | 0, o => o
  | fuel+1, o => if o ≥ inp.size then inp.size else if inp.getD o 0 = b then o + 1 else afterByte inp b fuel (o + 1)

/-- index after the first `*/` at or after `o` (size if none) -/
def afterClose (inp : Bytes) : Nat → Nat → Nat
  | 0, o => o
  | fuel+1, o =>
    if o ≥ inp.size then inp.size
    else if inp.getD o 0 = 42 && inp.getD (o+1) 0 = 47 && o + 1 < inp.size then o + 2 else afterClose inp fuel (o + 1)

/-- index after the first unescaped `q` at or after `o` (size if none) -/
def afterQuote (inp : Bytes) (q : Nat) : Nat → Nat → Bool → Nat
  | 0, o, _ => o
  | fuel+1, o, esc =>
    if o ≥ inp.size then inp.size
    else if inp.getD o 0 = q && !esc then o + 1
    else afterQuote inp q fuel (o + 1) (!esc && inp.getD o 0 = 92)

/-- (expected Pos, end of the token's source text) of the token that starts after `cur`;
    `len` = length of the token text (used for words only) -/
def expectedTok (inp : Bytes) (cur len : Nat) : Nat × Nat :=
  let n := inp.size + 1
  let s := skipBlanks inp n cur
  let b0 := inp.getD s 0
  let b1 := inp.getD (s+1) 0
  if b0 = 35 then (s + 1, afterByte inp 10 n (s + 1))
  else if b0 = 47 && b1 = 42 && s + 1 < inp.size then (s + 2, afterClose inp n (s + 2))
  else if b0 = 34 || b0 = 39 then (s, afterQuote inp b0 n (s + 1) false)
  else if b0 = 114 && (b1 = 34 || b1 = 39) && s + 1 < inp.size then (s, afterByte inp b1 n (s + 2))
  else (s, s + len)

/-- expected Pos of every token (EOF: the end of the input), in order; after an error token
    nothing more is expected -/
def expectedPositions (inp : Bytes) : List Tok → Nat → List Nat
  | [], _ => []
  | t :: ts, cur =>
    if t.id = tEOF then inp.size :: expectedPositions inp ts cur
    else
      let e := expectedTok inp cur t.val.length
      e.1 :: expectedPositions inp ts (if t.id = tERROR then inp.size else e.2)

/-! ### judging one token -/

structure TokJ where
  /-- what the model (= the code as it is) reports -/
  model : String
  /-- what the property demands -/
  spec : String
  /-- everything a tree with some of the known findings repaired may report (model first) -/
  alts : List String
  deviates : Bool
  /-- "" | "hash-comment-column" | "eof-stale-position" | "unexplained-position" -/
  cls : String
  isEof : Bool

def fmt (withPos : Bool) (p l : Nat) (c : Int) : String :=
  if withPos then triple p l c else s!"{l},{c}"

/-- The EOF token has no first character; the position the property asks for is the end of the
    input. The code stamps it with the start of the previous token (known finding
    eof-stale-position; its line is right) and with the lexer's `lastnl`, which may be stale after
    a `#` comment (hash-comment-column). After an error token the lexer has stopped and a
    trailing EOF is not constrained. `expPos`: the independently recomputed Pos. -/
def judge (inp : Bytes) (toks : List Tok) (t : Tok) (expPos : Nat) (withPos : Bool) : TokJ :=
  let m := fmt withPos t.pos t.line t.col
  if t.id = tEOF then
    if toks.any (·.id = tERROR) then
      let e := if withPos then "eof-after-error" else m
      { model := e, spec := e, alts := [e], deviates := false, cls := "", isEof := true }
    else
      let size := inp.size
      let tl := lineOf inp size
      let ls : Int := lineStart inp size
      let lastnlM : Int := (t.pos : Int) - t.col + 1        -- the lexer's lastnl when it emitted EOF
      let s := fmt withPos size tl ((size : Int) - ls + 1)
      let hashOnly := fmt withPos t.pos t.line ((t.pos : Int) - ls + 1)
      let eofOnly := fmt withPos size t.line ((size : Int) - lastnlM + 1)
      let dev := m != s
      let okLine := t.line = tl && (lastnlM = ls || afterHashComment inp toks size)
      { model := m, spec := s, alts := [m, hashOnly, eofOnly, s].eraseDups, deviates := dev,
        cls := if !dev then "" else if okLine then "eof-stale-position" else "unexplained-position", isEof := true }
  else
    let tl := lineOf inp expPos
    let tc := colOf inp expPos
    let s := fmt withPos expPos tl tc
    let dev := m != s
    let expl := t.pos = expPos && t.line = tl && afterHashComment inp toks t.pos
    { model := m, spec := s, alts := [m, s].eraseDups, deviates := dev,
      cls := if !dev then "" else if expl then "hash-comment-column" else "unexplained-position", isEof := false }

def render (js : List TokJ) (nontrivial : Bool) : String :=
  let model := " ".intercalate (js.map (·.model))
  let dev := js.filter (·.deviates)
  let kf :=
    if dev.any (·.cls = "unexplained-position") then "unexplained-position"
    else if dev.any (·.cls = "hash-comment-column") then "hash-comment-column"
    else "eof-stale-position"
  model ++ (if nontrivial then "\tnt=1" else "")
    ++ (if dev.isEmpty then "" else "\tkf=" ++ kf ++ "\tspec=" ++ " ".intercalate (js.map (·.spec)))
    ++ (if js.all (·.alts.length ≤ 1) then ""
        else "\talt=" ++ " ".intercalate (js.map fun j => "|".intercalate j.alts))

def lexCase (src : List Nat) : String :=
  let inp := src.toArray
  let toks := (lex src).toList
  let exps := expectedPositions inp toks 0
  let js := (toks.zip exps).map fun (t, e) => judge inp toks t e true
  if toks.isEmpty then "-" else render js (toks.any fun t => t.id != tEOF && t.line > 1)

/-- `E` cases: `n` = how many observables carry the offending token's (line, column): fields,
    message text, JSON / except object; `calloff`: offset of the call the error passes through —
    the outermost stack trace entry must name that token's line. -/
def errCase (kind : String) (src : List Nat) (off : String) (calloff : Option String) : String :=
  let inp := src.toArray
  let toks := (lex src).toList
  let real (t : Tok) : Bool := t.id != tEOF && t.id != tPRECOMMENT && t.id != tPOSTCOMMENT
  let tok? : Option Tok :=
    if off = "eof" then (match toks.getLast? with | some t => if t.id = tEOF then some t else none | none => none)
    else match off.toNat? with
      | some o => toks.find? fun t => t.pos = o && real t
      | none => none
  let n := if kind = "P" then 2 else if kind = "R" || kind = "A" then 3 else 1
  match tok? with
  | none => "no-token-at-offset"
  | some t =>
    let j := judge inp toks t t.pos false
    let call : Option (List TokJ) := match calloff with
      | none => some []
      | some c => match c.toNat? with
        | none => none
        | some o => match toks.find? fun t => t.pos = o && real t with
          | none => none
          | some ct =>
            -- the line is always true (`token_positions_true_partial`); no alternative
            let l := s!"{ct.line}"
            if ct.line = lineOf inp o then some [{ model := l, spec := l, alts := [l], deviates := false, cls := "", isEof := false }]
            else some [{ model := l, spec := s!"{lineOf inp o}", alts := [l], deviates := true, cls := "unexplained-position", isEof := false }]
    match call with
    | none => "no-call-token-at-offset"
    | some cj =>
      let js := List.replicate n j ++ cj
      if kind = "A" || kind = "Y" then
        -- known finding access-errors-unpositioned: the code as it is reports no position at all;
        -- asked for (and accepted from a repaired tree): the position of the identifier / import
        -- token, token by token as in kinds R / X
        "unpositioned\tnt=1\tkf=access-errors-unpositioned\tspec=" ++ " ".intercalate (js.map (·.model))
          ++ (if js.all (·.alts.length ≤ 1) then "" else "\talt=" ++ " ".intercalate (js.map fun x => "|".intercalate x.alts))
      else render js (t.line > 1)

/-- tokens the parser sees (comments are attached to nodes as meta data, never parsed) -/
def parserToks (src : List Nat) : List Tok :=
  (lex src).toList.filter fun t => t.id != tPRECOMMENT && t.id != tPOSTCOMMENT

/-- for every token but the first: is it on the same line as the token before it?  Token lines
    never decrease, so this list fixes the outcome of every `<` / `==` between the lines of any two
    tokens — all the parser ever does with them (run: new statement on a new line; ndReturn;
    ndIdentifier `[`; hasMoreStatements). -/
def sameLineRel : List Tok → List Bool
  | a :: b :: rest => (a.line == b.line) :: sameLineRel (b :: rest)
  | _ => []

/-- `S` cases. Rule: if reference and variant have the same parser-visible tokens (kind, value,
    flags; EOF included) and the same `sameLineRel`, the parser must produce the same canonical
    tree / error kind for both; the tree of the reference comes with the payload. -/
def sepCase (ref var : List Nat) (tree : String) : String :=
  let tr := parserToks ref
  let tv := parserToks var
  let key (t : Tok) := (t.id, t.val, t.identifier, t.allowEscapes)
  if tr.map key != tv.map key then "rule-not-applicable:tokens-differ"
  else if sameLineRel tr != sameLineRel tv then "rule-not-applicable:line-relation-differs"
  else
    let comments := (lex var).toList.any fun t => t.id = tPRECOMMENT || t.id = tPOSTCOMMENT
    tree ++ (if comments && (sameLineRel tv).any (!·) then "\tnt=1" else "")

/-- `B` cases: the thread must be suspended on the node of the marked token: `pos,line` of the
    model token that starts at the marked offset (the break point was set at the TRUE line of that
    offset by the harness; the line clause is what makes the two meet). -/
def breakCase (src : List Nat) (off : Nat) : String :=
  let inp := src.toArray
  let toks := (lex src).toList
  match toks.find? fun t => t.pos = off && t.id != tEOF && t.id != tPRECOMMENT && t.id != tPOSTCOMMENT with
  | none => "no-token-at-offset"
  | some t =>
    s!"{t.pos},{t.line}" ++ (if t.line > 1 then "\tnt=1" else "")
      ++ (if t.line = lineOf inp off then "" else s!"\tkf=unexplained-position\tspec={off},{lineOf inp off}")

/-- the bare UTF-8 bit layout of `cp` (also for surrogates and values above U+10FFFF) -/
def rawUTF8 (cp : Nat) : List Nat :=
  if cp < 0x80 then [cp]
  else if cp < 0x800 then [0xC0 + cp / 64, 0x80 + cp % 64]
  else if cp < 0x10000 then [0xE0 + cp / 4096, 0x80 + cp / 64 % 64, 0x80 + cp % 64]
  else [0xF0 + cp / 262144, 0x80 + cp / 4096 % 64, 0x80 + cp / 64 % 64, 0x80 + cp % 64]

/-- `U` cases: the model's isSpace / isControl / isNumber / decodeRune on every code point of the
    range (two hex digits each, see c18Sweep in the harness) -/
def sweepCase (lo hi : Nat) : String :=
  String.ofList ((List.range (hi - lo)).flatMap fun i =>
    let cp := lo + i
    let b := rawUTF8 cp
    let d := decodeRune b.toArray 0
    let bits := (if isSpace cp then 1 else 0) + (if isControl cp then 2 else 0) + (if isNumber cp then 4 else 0)
      + (if d.1 = cp && d.2 = b.length then 8 else 0)
    [hexDigit bits, hexDigit d.2])

/-- `B2` cases: two marked statements, the break point of the second one active (`both`), disabled
    (`dis`) or removed (`rm`) again: one suspension per active break point, in source order, each on
    the marked token; `-` for the deactivated one. -/
def break2Case (src : List Nat) (o1 o2 : Nat) (mode : String) : String :=
  let a := breakCase src o1
  let b := breakCase src o2
  let fa := (a.splitOn "\t").headD a
  let fb := (b.splitOn "\t").headD b
  if (a.splitOn "\tkf=").length > 1 || (b.splitOn "\tkf=").length > 1 then a
  else fa ++ " " ++ (if mode = "both" then fb else "-") ++ "\tnt=1"

def runCase (payload : String) : String :=
  match payload.splitOn " " with
  | ["L", h] => match hexDecode h with
    | some src => lexCase src
    | none => "bad-payload"
  | ["E", k, h, off] => match hexDecode h with
    | some src => errCase k src off none
    | none => "bad-payload"
  | ["E", k, h, off, calloff] => match hexDecode h with
    | some src => errCase k src off (some calloff)
    | none => "bad-payload"
  | ["U", lo, hi] => match lo.toNat?, hi.toNat? with
    | some lo, some hi => sweepCase lo hi
    | _, _ => "bad-payload"
  | ["B2", h, o1, o2, mode] => match hexDecode h, o1.toNat?, o2.toNat? with
    | some src, some a, some b => break2Case src a b mode
    | _, _, _ => "bad-payload"
  | ["B", h, off] => match hexDecode h, off.toNat? with
    | some src, some o => breakCase src o
    | _, _ => "bad-payload"
  | ["S", r, v, tree] => match hexDecode r, hexDecode v with
    | some r, some v => sepCase r v tree
    | _, _ => "bad-payload"
  | _ => "bad-payload"

def run (_args : List String) : IO Unit := lineLoop runCase
end Ecal.Drv.C18
