import Ecal.Drivers.Util
import Ecal.Model.DebugCmd
/-!
Driver of C16. Payload (space separated; see go/cmd/harness/c16.go):
  `<scenario> <gs:0|1> <obs0> <step>…`,  step = `<line-hex>/<evalbit>/<obs>`,
  obs = `<refs>~<tid.depth.W>+…~<global names>`.
The model starts from `init`, is brought to `obs0` by evaluator events, then for every
step runs `handle` (lines starting with `!` are harness actions: no command) and is
brought to the step's observation by evaluator events (`applyEvent` must allow them:
a suspended thread does not move, names only change when a thread ran).
Result: `R:<class>,<class>… <class of a following status>`.
-/
namespace Ecal.Drv.C16
open Ecal.Drv Ecal.DebugCmd

structure ObsThread where
  tid : Nat
  depth : Nat
  w : String            -- "f" | "r" | "s"
  hasErr : Bool := false
  errDataJson : Bool := true
  atGlobal : Bool := false
  locals : List Str := []

structure Obs where
  refsLog : Bool    -- owners + log set (SetLockingState)
  refs : Bool       -- thread pool set (SetThreadPool)
  threads : List ObsThread
  globals : List Str

def parseNames (s : String) : Option (List Str) :=
  if s = "-" then some [] else (s.splitOn ",").mapM hexDecode

def parseThread (s : String) : Option ObsThread :=
  match s.splitOn "." with
  | [t, d, "f"] => do some { tid := ← t.toNat?, depth := ← d.toNat?, w := "f" }
  | [t, d, w] =>
    match w.toList with
    | ['r', e, j] => do some { tid := ← t.toNat?, depth := ← d.toNat?, w := "r", hasErr := e = '1', errDataJson := j = '1' }
    | _ => none
  | [t, d, w, ls] =>
    match w.toList with
    | ['s', e, g, j] => do
      some { tid := ← t.toNat?, depth := ← d.toNat?, w := "s", hasErr := e = '1', atGlobal := g = '1', errDataJson := j = '1',
             locals := ← parseNames ls }
    | _ => none
  | _ => none

def parseObs (s : String) : Option Obs :=
  match s.splitOn "~" with
  | [r, ts, gs] => do
    let ths ← if ts = "-" then some [] else (ts.splitOn "+").mapM parseThread
    some { refsLog := r.toList.head? = some '1', refs := r.toList.getLast? = some '1', threads := ths, globals := ← parseNames gs }
  | _ => none

def sameSet (a b : List Str) : Bool := a.all b.contains && b.all a.contains

def apply! (s : DbgState) (e : Event) (what : String) : Except String DbgState :=
  match applyEvent s e with
  | some s' => .ok s'
  | none => .error ("BAD-EVENT " ++ what)

/-- does the model's thread already look like the observation? -/
def looksLike (s : DbgState) (t : ObsThread) : Bool :=
  match s.stacks.lookup t.tid with
  | none => false
  | some st =>
    st.length == t.depth &&
    match s.istates.lookup t.tid with
    | none => t.w == "f"
    | some is =>
      if is.running then t.w == "r" && is.hasErr == t.hasErr && (is.errDataJson == t.errDataJson || !t.hasErr)
      else t.w == "s" && is.hasErr == t.hasErr && (is.errDataJson == t.errDataJson || !t.hasErr) &&
        is.atGlobal == t.atGlobal && sameSet is.locals t.locals

def sync (s : DbgState) (o : Obs) (initial : Bool := false) : Except String DbgState := do
  let mut s := s
  let mut moved := initial
  for t in o.threads do
    if (s.stacks.lookup t.tid).isNone then
      s ← apply! s (.start t.tid) s!"start {t.tid}"
      moved := true
  if o.refsLog && !s.mutexLogSet then s ← apply! s .setLockingState "setLockingState"
  if o.refs && !s.threadPoolSet then s ← apply! s .setRefs "setRefs"
  if (!o.refs && s.threadPoolSet) || (!o.refsLog && s.mutexLogSet) then throw "BAD-EVENT references unset again"
  for t in o.threads do
    if !looksLike s t then
      let w ← (match t.w with
        | "f" => pure Watch.free
        | "r" => match s.istates.lookup t.tid with
          | some is => pure (Watch.running is.cmd t.hasErr t.errDataJson)
          | none => throw s!"BAD-EVENT thread {t.tid} interrogated and running without having been suspended"
        | _ => pure (Watch.suspended t.hasErr t.errDataJson t.atGlobal t.locals) : Except String Watch)
      s ← apply! s (.advance t.tid t.depth w) s!"advance {t.tid}"
      moved := true
  for p in s.stacks do
    if !(o.threads.any fun t => t.tid == p.1) then
      if (s.istates.lookup p.1).isSome then
        s ← apply! s (.advance p.1 0 .free) s!"advance {p.1} before finishing"
      s ← apply! s (.finish p.1) s!"finish {p.1}"
      moved := true
  -- a thread that is not waiting may have assigned global variables without any other visible change
  let someoneRuns := s.stacks.any fun p => !isSuspended s p.1
  if !sameSet s.globals o.globals then
    if moved || someoneRuns then s ← apply! s (.setGlobals o.globals) "setGlobals"
    else throw "BAD-GLOBALS"
  pure s

def className : Reply → String
  | .ok _ => "ok"
  | .error => "error"
  | .notJson => "NOJSON"
  | .panic _ => "PANIC"
  | .deadlock => "HANG"
  | .evaluating => "EVAL"

structure Step where
  line : Str
  bit : EvalOutcome
  obs : Option Obs   -- `none` ("?"): the harness could not observe the state (the command hung)

def parseStep (s : String) : Option Step :=
  match s.splitOn "/" with
  | [l, b, o] => do
    let obs ← if o = "?" then some none else (parseObs o).map some
    let out := match b with
      | "1" => EvalOutcome.ok
      | "V" => EvalOutcome.visits true
      | "B" => EvalOutcome.diverges   -- stops at a break point as thread 999
      | "D" => EvalOutcome.diverges
      | _ => EvalOutcome.error
    some { line := ← hexDecode l, bit := out, obs := obs }
  | _ => none

def shapeName : Reply → String
  | .ok .null => "ok:null" | .ok .status => "ok:status" | .ok .describe => "ok:describe"
  | .ok .lockstate => "ok:lockstate" | .ok .unencodable => "ok:unencodable"
  | .error => "error" | .notJson => "nojson" | .panic _ => "panic" | .deadlock => "deadlock"
  | .evaluating => "evaluating"

/-- which branch of the model the LAST command took: `<command>/<argument-count test rejects |
    reply and shape>/<thread addressed: none, running, suspended>` -/
def branchOf (s : DbgState) (line : Str) (r : Reply) : String :=
  match fields line with
  | [] => "empty-line"
  | c :: args =>
    match lookupCmd c with
    | none => "unknown-command"
    | some cmd =>
      if cmd.rejects args.length then cmd.name ++ "/argument-count"
      else
        let th := match args.head? >>= assertNumParam with
          | none => "-"
          | some tid => match s.istates.lookup tid, s.stacks.lookup tid with
            | some is, _ => if is.running then "running" else if is.hasErr then "suspended-on-error" else "suspended"
            | none, some _ => "not-interrogated"
            | none, none => "no-such-thread"
        cmd.name ++ "/" ++ shapeName r ++ "/" ++ th

def runModel (pathOk : Bool) (gs : Bool) (o0 : Obs) (steps : List Step) : String × String := Id.run do
  let mut s := init gs []
  match sync s o0 true with
  | .error e => return (e ++ " (initial state)", "-")
  | .ok s' => s := s'
  let mut classes : List String := []
  let mut branch := "-"
  let mut k := 0
  for st in steps do
    if st.line == str "!stopthreads" then
      s := (applyEvent s .stopThreads).getD s
    if st.line.head? != some 33 then
      let env : Env := { eval := fun _ => st.bit, setPathOk := fun _ _ => pathOk }
      let (s', r) := handle env s st.line
      branch := branchOf s st.line r
      s := s'
      -- Scope.SetValue on a container path is C05's domain: ok and error are not told apart
      let dotted := match fields st.line with
        | c :: _ :: v :: _ :: _ => c == str "inject" && v.contains 46
        | _ => false
      let cl := className r
      classes := classes ++ [if dotted && (cl == "ok" || cl == "error") then "E" else cl]
    match st.obs with
    | none => pure ()
    | some o =>
      match sync s o with
      | .error e => return (e ++ s!" (step {k})", branch)
      | .ok s' => s := s'
    k := k + 1
  let env : Env := { eval := fun _ => .error, setPathOk := fun _ _ => pathOk }
  let (_, r) := handle env s (str "status")
  return ((if classes.isEmpty then "-" else ",".intercalate classes) ++ " " ++ className r, branch)

/-- the concurrent kind: all ten commands from three goroutines while ECAL threads run. The
    model has no concurrent semantics: the prediction is only that no reply is a panic or an
    unencodable result and that `status` answers afterwards, which the sequential theorems give
    for every interleaving of whole commands; what is NOT covered by a theorem — replies that
    alias live tables of the debugger or provider and are encoded after the lock is released —
    is exactly what this kind tests (a crash of the process is the result CRASH). -/
def runConc : String := Id.run do
  let env : Env := { eval := fun _ => .error, setPathOk := fun _ _ => true }
  let s0 := init true []
  let s1 := (applyEvent s0 (.start 1)).getD s0
  let s2 := (applyEvent s1 (.advance 1 0 (.suspended false true true []))).getD s1
  let mut s := s2
  let mut ok := true
  for l in ["cont 1 stepin", "break prog:900", "rmbreak prog:900", "cont 1 stepin"] do
    let (s', r) := handle env s (str l)
    s := s'
    if className r != "ok" then ok := false
    -- the thread stops again on the next line
    s := (applyEvent s (.advance 1 0 (.suspended false true true []))).getD s
  let (_, r) := handle env s (str "status")
  return (if ok then "ok" else "not-ok") ++ " " ++ className r

def runCase (payload : String) : String :=
  match payload.splitOn " " with
  | "conc" :: _ => "R:" ++ runConc ++ "\tnt=1"
  | "cyclic" :: _ =>
    -- known finding: `describe` of a thread that sees a self-containing value never ends (fatal stack
    -- overflow in scope.ToJSONObject's %#v fallback); the property demands an answer
    "R:ok CRASH\tkf=describe-cyclic-value\tspec=R:ok ok\tnt=1"
  | "telnet" :: _ => "R:ok\tnt=1"   -- robustness kind (the CLI tool's server): no crash, no hang, every reply a JSON document
  | _ :: _ :: "?" :: _ => "RECORD-TIMEOUT"
  | scn :: gs :: o0 :: steps =>
    match parseObs o0, steps.mapM parseStep with
    | some o0, some steps =>
      let (a, branch) := runModel true (gs = "1") o0 steps
      -- non-trivial: the last command got past its argument-count test (it reached the debugger)
      let nt := branch != "-" && branch != "empty-line" && branch != "unknown-command" &&
        !branch.endsWith "/argument-count"
      let scn := if gs = "1" then scn else scn ++ "(no-global-scope)"
      "R:" ++ a ++ (if nt then "\tnt=1" else "") ++ "\tbr=" ++ scn ++ "/" ++ branch
    | _, _ => "bad-payload"
  | _ => "bad-payload"

def run (_args : List String) : IO Unit := lineLoop runCase
end Ecal.Drv.C16
