import Ecal.Drivers.Util
import Ecal.Model.Priority
/-!
Driver of C10. Payloads (space separated):

* `R <flag 0|1> [H<history>] <prio>:<fails>:<kid> …` — rules triggered by one event, in declaration order;
  the optional history (letters, see `parseHistory`) is the processor's life cycle before the event
  (`kid` = the rule adds a child event before it returns). Result
  `exec=<priorities of the started actions, in order> err=<sorted priorities in the error map> kids=<n>`.
* `S <prio>:<fails>:<kid> …` — the same rules declared as ECAL sinks; the interpreter sets the flag by default.
* `B <op> …` with `N<p>` NewChildMonitor(p), `A<k>` Activate, `S<k>` Skip, `F<k>` Finish of the
  monitor number `k` (0 = the root monitor). Result: `HighestPriority()` after every op, `P` for an
  assertion panic (the sequence ends there).
* `K <workers> <flag> <root>|<root>…`, root = `<parent>:<prio>:<rules>,…` (event id = position;
  parent `r` = added from outside before the worker runs, `e.k` = added by rule `k` of event `e`;
  prio `R` = added with the root monitor itself; rules `p/f;p/f…` = priority/fails in declaration
  order, `-` = no rule triggers). One worker: per root `e/k@hp.… err=<e/k…> end=<hp>` (action
  starts in order); several workers: per root `set=<sorted e/k> err=… end=…` (the dequeue order
  is checked on the recorded trace).
* with argument `trace`: a TaskQueue trace `+<root>:<prio>:<mon>` / `-<root>:<mon>` … → `ok` / `bad <k>`.
-/
namespace Ecal.Drv.C10
open Ecal.Drv Ecal.Priority

def joinOr (sep : String) (xs : List String) : String :=
  if xs.isEmpty then "-" else sep.intercalate xs

def sortInts (l : List Int) : List Int := l.mergeSort (fun a b => decide (a ≤ b))
def sortNats (l : List Nat) : List Nat := l.mergeSort (fun a b => decide (a ≤ b))

def parseRule (i : Nat) (s : String) : Option (Rule × Bool) :=
  let mk (p f k : String) : Option (Rule × Bool) := do
    -- `H` / `G`: a sink priority far outside the int range (the declaration is rejected)
    let p ← if p == "H" then some (10 ^ 19 : Int) else if p == "G" then some (-(10 ^ 19 : Int)) else p.toInt?
    some ({ name := i, prio := p, fails := f != "0" }, k == "1")
  match s.splitOn ":" with
  | [p, f, k] => mk p f k
  | [p, f, k, _] => mk p f k        -- 4th field: fractional digit of a sink priority (floored away)
  | _ => none

/-- history letters: s Start, f Finish, r Reset, a AddRule (all rules), T / F set the flag,
    l = the reload of `CLIInterpreter.LoadInitialFile` (Finish, Reset, declare again, Start) -/
def parseHistory (s : String) : List LOp :=
  s.toList.flatMap fun
    | 's' => [.start] | 'f' => [.finish] | 'r' => [.reset] | 'a' => [.addRules]
    | 'T' => [.setFlag true] | 'F' => [.setFlag false]
    | 'l' => [.finish, .reset, .addRules, .start]
    | _ => []

def runRules (flag : String) (rs : List String) : String :=
  let (hist, rs) := match rs with
    | h :: rest => if h.startsWith "H" && !h.contains ':' then (parseHistory h, rest) else ([], rs)
    | [] => ([], [])
  match (rs.zipIdx.map fun (s, i) => parseRule i s).mapM id with
  | none => "bad-payload"
  | some rules =>
    let (exec, errs) := processRulesAfter stableSort { flag := flag == "1" } hist (rules.map (·.1))
    let kids := (exec.filter fun r => (rules.find? (·.1.name == r.name)).any (·.2)).length
    let nt := rules.length ≥ 2 && rules.any (·.1.fails)
    s!"exec={joinOr "." (exec.map (toString ·.prio))} err={joinOr "." ((sortInts (errs.map (·.prio))).map toString)} kids={kids}"
      ++ (if nt then "\tnt=1" else "")

/-- `P <flag> <allowed scopes> <prio>:<fails>:<kid>:<scope>:<suppressed>:<double>…` — the part of
    `ProcessEvent` before the sort (which rules run is C01's subject; here it only prepares the list
    whose ORDER is checked): a rule is a candidate once (also with two matching kind patterns) if
    its scope is allowed; every candidate's suppression list counts; what is left is sorted and run. -/
structure PreRule where
  rule  : Rule
  kid   : Bool
  scope : String
  supp  : List Nat

def parsePre (i : Nat) (s : String) : Option PreRule :=
  match s.splitOn ":" with
  | [p, f, k, sc, su, _] =>
    (parseRule i s!"{p}:{f}:{k}").map fun r =>
      { rule := r.1, kid := r.2, scope := sc,
        supp := if su == "-" then [] else (su.splitOn "+").filterMap String.toNat? }
  | _ => none

def runPre (flag allowed : String) (rs : List String) : String :=
  match (rs.zipIdx.map fun (s, i) => parsePre i s).mapM id with
  | none => "bad-payload"
  | some rules =>
    let cands := rules.filter fun (r : PreRule) => r.scope == "-" || (allowed.toList.any fun c => c.toString == r.scope)
    let suppressed := cands.flatMap fun (r : PreRule) => r.supp
    let left := cands.filter fun (r : PreRule) => !suppressed.contains r.rule.name
    let (exec, errs) := processRules stableSort (flag == "1") (left.map (·.rule))
    let kids := (exec.filter fun r => (left.find? (·.rule.name == r.name)).any (·.kid)).length
    s!"exec={joinOr "." (exec.map (toString ·.prio))} err={joinOr "." ((sortInts (errs.map (·.prio))).map toString)} kids={kids}"
      ++ (if left.length ≥ 2 then "\tnt=1" else "")

def parseOp (s : String) : Option Book.Op :=
  let rest := (s.drop 1).toString
  match s.front with
  | 'N' => rest.toInt?.map .newChild
  | 'A' => rest.toNat?.map .activate
  | 'S' => rest.toNat?.map .skip
  | 'F' => rest.toNat?.map .finish
  | _ => none

def runBook (ops : List String) : String :=
  match ops.mapM parseOp with
  | none => "bad-payload"
  | some ops =>
    let rec go (s : Book.RM) (ops : List Book.Op) (acc : List String) : List String × Book.RM :=
      match ops with
      | [] => (acc.reverse, s)
      | op :: rest =>
        match Book.step Book.current s op with
        | none => (("P" :: acc).reverse, s)
        | some s' => go s' rest (toString (Book.highestPriority s') :: acc)
    let out := go {} ops []
    let nt := ops.any (fun | .finish _ => true | _ => false) &&
      (ops.filter (fun | .activate _ => true | .skip _ => true | _ => false)).length ≥ 2
    joinOr "," out.1 ++ (if nt then "\tnt=1" else "")

def parseRules (s : String) : Option (List (Int × Bool)) :=
  if s == "-" then some [] else
  (s.splitOn ";").mapM fun r =>
    match r.splitOn "/" with
    | [p, f] => p.toInt?.map fun p => (p, f == "1")
    | _ => none

def parseNode (s : String) : Option Cascade.Node :=
  match s.splitOn ":" with
  | [par, p, rs] => do
    let parent ← if par == "r" then some none else
      match par.splitOn "." with
      | [e, k] => do some (some ((← e.toNat?), (← k.toNat?)))
      | _ => none
    let prio ← if p == "R" then some none else p.toInt?.map some
    let rules ← parseRules rs
    some { parent := parent, prio := prio, rules := rules }
  | _ => none

def sortPairs (l : List (Nat × Nat)) : List (Nat × Nat) :=
  l.mergeSort (fun a b => decide (a.1 < b.1 ∨ (a.1 = b.1 ∧ a.2 ≤ b.2)))

def showPair (p : Nat × Nat) : String := s!"{p.1}/{p.2}"

/-- `shift ≠ 0`: the run in which the queue does not clamp negative priorities (all monitor
    priorities moved into the range ≥ 0, reports moved back) -/
def runRoot (one : Bool) (flag : Bool) (shift : Int) (s : String) : String :=
  match (s.splitOn ",").mapM parseNode with
  | none => "bad-payload"
  | some nodes =>
    let run := if shift == 0 then nodes else nodes.map fun n => { n with prio := some (n.prio.getD 0 + shift) }
    let st0 := Cascade.runScript Book.current stableSort flag run
    let unshift (hp : Int) : Int := if hp == -1 && shift != 0 then -1 else hp - shift
    let st := { st0 with started := st0.started.map fun (p, hp) => (p, unshift hp) }
    let endHp := unshift (Book.highestPriority st0.rm)
    if st.bad then "MODEL-ASSERT" else
    let started := st.started.reverse
    let errs := joinOr "." ((sortPairs st.errs).map showPair)
    -- event paths of the failed events (reported when the root monitor itself carries an event)
    let rootHasEvent := (nodes[0]?.map (·.prio.isNone)).getD false
    let rec chain (fuel e : Nat) : List Nat :=
      match fuel, (nodes[e]?.bind (·.parent)) with
      | fuel + 1, some (p, _) => chain fuel p ++ [e]
      | _, _ => if e == 0 then [0] else [0, e]
    let failed := (sortNats (st.errs.map (·.1))).eraseDups
    let paths := if rootHasEvent then
        joinOr ";" (failed.map fun e => s!"{e}:" ++ ">".intercalate ((chain nodes.length e).map toString))
      else "-"
    let fin := s!" path={paths} end={endHp}"
    if one then
      joinOr "." (started.map fun (p, hp) => s!"{showPair p}@{hp}") ++ " err=" ++ errs ++ fin
    else
      "set=" ++ joinOr "." ((sortPairs (started.map (·.1))).map showPair) ++ " err=" ++ errs ++ fin

/-- does the clamping of negative monitor priorities in `PriorityQueue.Push` change the order in
    which this root's events are taken? (compare with the same script shifted into the range ≥ 0) -/
def clampMatters (flag : Bool) (s : String) : Bool :=
  match (s.splitOn ",").mapM parseNode with
  | none => false
  | some nodes =>
    let shifted := nodes.map fun n => { n with prio := some (n.prio.getD 0 + 8) }
    (Cascade.runScript Book.current stableSort flag nodes).popped
      != (Cascade.runScript Book.current stableSort flag shifted).popped

def runCascade (workers flag : String) (roots : String) : String :=
  let rs := roots.splitOn "|"
  let nodes : Nat := (rs.map fun r => (r.splitOn ",").length).foldl (· + ·) 0
  let res (shift : Int) := "|".intercalate (rs.map (runRoot (workers == "1") (flag == "1") shift)) ++ " hp=ok"
  res 0 ++ (if nodes ≥ 3 then "\tnt=1" else "")
    -- known finding: the clamp changes the order; `spec` = the run the property's wording asks for
    ++ (if workers == "1" && rs.any (clampMatters (flag == "1")) then
          "\tkf=negative-priority-clamped\tspec=" ++ res 1048576 else "")

/-- `Q`: sortutil.PriorityQueue driven directly; the model is the real representation `HPQ`.
    ops: `+<prio>` Push (value = number of the push), `-` Pop, `k` Peek, `c` Clear.
    Result per op: `L` / `p<val>` / `k<val>` / `c` (`n` = nil), followed by the slice layout
    `[val:prio,…]` after every op when there are at most 48 ops, otherwise only once at the end. -/
def layout (q : HPQ) : String :=
  "[" ++ ",".intercalate (q.heap.map fun it => s!"{it.val}:{it.prio}") ++ "]"

def runQ (ops : List String) : String :=
  let every := ops.length ≤ 48
  let rec go (q : HPQ) (n : Nat) (ops : List String) (acc : List String) : List String × HPQ :=
    match ops with
    | [] => (acc.reverse, q)
    | op :: rest =>
      let (tok, q', n') :=
        if op.startsWith "+" then
          ("L", q.push n ((op.drop 1).toString.toInt?.getD 0), n + 1)
        else if op == "-" then
          match q.pop with
          | some (it, q') => (s!"p{it.val}", q', n)
          | none => ("pn", q, n)
        else if op == "k" then
          match q.peek with
          | some it => (s!"k{it.val}", q, n)
          | none => ("kn", q, n)
        else ("c", q.clear, n)
      go q' n' rest ((if every then tok ++ layout q' else tok) :: acc)
  let (out, q) := go {} 0 ops []
  " ".intercalate out ++ " end" ++ layout q ++ (if ops.length ≥ 4 then "\tnt=1" else "")

/-- `validate` mode: `<V payload> ## exec=<names> err=<names> kids=<n>` → `ok` / `bad` -/
def parseNames (s : String) : Option (List Nat) :=
  if s == "-" then some [] else (s.splitOn ".").mapM (·.toNat?)

def validateCase (line : String) : String :=
  match line.splitOn " ## " with
  | [payload, observed] =>
    match payload.splitOn " ", observed.splitOn " " with
    | "W" :: rs, [ex, er, kd] =>
      -- sinks (flag on): must be a run under the FLOORED numbers (the code as it is); `ok-floored-only`
      -- when it is not a run under the numbers as written (known finding fractional-sink-priority-floored)
      let exact (i : Nat) (s : String) : Option Rule := do
        let r ← parseRule i s
        let frac := match s.splitOn ":" with | [_, _, _, f] => f.toNat?.getD 0 | _ => 0
        some { r.1 with prio := r.1.prio * 10 + frac }
      match (rs.zipIdx.map fun (s, i) => parseRule i s).mapM id, (rs.zipIdx.map fun (s, i) => exact i s).mapM id,
            parseNames ((ex.drop 5).toString), parseNames ((er.drop 4).toString), ((kd.drop 5).toString).toNat? with
      | some rules, some exactRules, some exec, some errs, some kids =>
        let want := (exec.filter fun i => (rules[i]?.map (·.2)).getD false).length
        if validRun true (rules.map (·.1)) exec errs && kids == want then
          (if validRun true exactRules exec errs then "ok" else "ok-floored-only")
        else "bad"
      | _, _, _, _, _ => "bad-payload"
    | "V" :: flag :: rs, [ex, er, kd] =>
      match (rs.zipIdx.map fun (s, i) => parseRule i s).mapM id,
            parseNames ((ex.drop 5).toString), parseNames ((er.drop 4).toString), ((kd.drop 5).toString).toNat? with
      | some rules, some exec, some errs, some kids =>
        let want := (exec.filter fun i => (rules[i]?.map (·.2)).getD false).length
        if validRun (flag == "1") (rules.map (·.1)) exec errs && kids == want then "ok" else "bad"
      | _, _, _, _ => "bad-payload"
    | _, _ => "bad-payload"
  | _ => "bad-payload"

def runCase (payload : String) : String :=
  match payload.splitOn " " with
  | "R" :: flag :: rules => runRules flag rules
  | "S" :: rules =>
    -- interpreter/rt_sink.go createRule: a priority that does not fit into an int is rejected
    if rules.any (fun r => r.startsWith "H:" || r.startsWith "G:") then "ERR-priority-range" else runRules "1" rules
  | "W" :: _ => "validated"
  | "P" :: flag :: allowed :: rules => runPre flag allowed rules
  | "B" :: ops => runBook ops
  | "Q" :: ops => runQ ops
  | "V" :: _ => "validated"
  | ["K", workers, flag, roots] => runCascade workers flag roots
  | _ => "bad-payload"

def parseQEv (s : String) : Option QEv :=
  let rest := (s.drop 1).toString
  match s.front, rest.splitOn ":" with
  | '+', [r, p, m] => do some (.push (← r.toNat?) (← p.toInt?) (← m.toNat?))
  | '-', [r, m] => do some (.pop (← r.toNat?) (← m.toNat?))
  | _, _ => none

def traceCase (payload : String) : String :=
  match (payload.splitOn " ").mapM parseQEv with
  | none => "bad-payload"
  | some evs =>
    -- replayed on the abstract queue and on the real representation (container/heap slice)
    match checkTrace [] 0 evs, checkTraceH [] 0 evs with
    | none, none => "ok"
    | some k, _ =>
      -- a tree in which the clamp of negative priorities was repaired follows the unclamped queue
      if (checkTraceRaw [] 0 evs).isNone then "ok-unclamped" else s!"bad {k}"
    | none, some k => s!"bad-heap {k}"

def run (args : List String) : IO Unit :=
  if args == ["trace"] then lineLoop traceCase
  else if args == ["validate"] then lineLoop validateCase
  else lineLoop runCase
end Ecal.Drv.C10
