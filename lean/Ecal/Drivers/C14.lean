import Ecal.Drivers.Util
import Ecal.Model.Interp
import Ecal.Model.Lexer
/-!
Driver of C14. Payload (space separated):
  `<source-hex> <E|R> <literal-hex> <code-hex>:<replacement-hex>:<log> …`
`E` = interpolating literal, `R` = raw. The table gives, for every candidate
expression text, the replacement text and the side-effect log (`-` = none,
otherwise ids joined by `.`) obtained by evaluating that expression **alone**
in the real interpreter. Result: `<output-hex> <log>`.
-/
namespace Ecal.Drv.C14
open Ecal.Drv Ecal.Interp

structure Entry where
  code : List Nat
  repl : List Nat
  log  : List String

def parseEntry (s : String) : Option Entry :=
  match s.splitOn ":" with
  | [c, r, l] => do
    let c ← hexDecode c
    let r ← hexDecode r
    let l := if l = "-" then [] else l.splitOn "."
    some { code := c, repl := r, log := l }
  | _ => none

def lookup (tab : List Entry) (c : List Nat) : Option Entry := tab.find? (·.code = c)

def codeN : List Nat := [110]                                   -- n
def codeRec : List Nat := [120, 46, 114, 101, 99, 40, 110, 41]    -- x.rec(n)

def evTab (tab : List Entry) (c : List Nat) : List Nat :=
  match lookup tab c with | some e => e.repl | none => []

/-- REC: the literal is evaluated with n = d; its expression `x.rec(n)` evaluates the SAME
    literal again with n - 1 (or yields "." at 0). Expected text, by recursion on d. -/
def recOut (tab : List Entry) (lit : List Nat) : Nat → List Nat
  | 0 => interp (fun c => if c = codeN then strBytes "0" else if c = codeRec then strBytes "."
            else evTab tab c) lit
  | d + 1 => interp (fun c => if c = codeN then strBytes (toString (d + 1))
            else if c = codeRec then recOut tab lit d else evTab tab c) lit

def runShared (kind : String) (k : Nat) (lit : List Nat) (tab : List Entry) : String :=
  let nt := if (evaluated lit).isEmpty then "" else "\tnt=1"
  if kind = "REC" then hexEnc (recOut tab lit k) ++ nt
  else
    let outs := (List.range k).map fun i =>
      hexEnc (interp (fun c => if c = codeN then strBytes (toString i) else evTab tab c) lit)
    ",".intercalate outs ++ nt

/-- LEX: the source of ONE literal (or what was meant to be one) is run through the lexer model; result =
    the token kinds and, for string tokens, value and raw / interpolating flag — what the interpolation
    stage receives. `T <id>` for other tokens, `S <E|R> <value-hex>` for strings. -/
def lexCase (src : List Nat) : String :=
  let toks := (Ecal.Lex.lex src).toList
  let show1 (t : Ecal.Lex.Tok) : String :=
    if t.id = Ecal.Lex.tSTRING then "S" ++ (if t.allowEscapes then "E" else "R") ++ hexEnc t.val
    else if t.id = Ecal.Lex.tERROR then "X"
    else "T" ++ toString t.id
  let isStr := toks.any fun t => t.id = Ecal.Lex.tSTRING
  ",".intercalate (toks.map show1) ++ (if isStr then "\tnt=1" else "")

def runCase (payload : String) : String :=
  match payload.splitOn " " with
  | ["LEX", src] =>
    match hexDecode src with
    | some b => lexCase b
    | none => "bad-payload"
  | "REC" :: k :: _src :: _flag :: lit :: entries =>
    match hexDecode lit, entries.mapM parseEntry with
    | some lit, some tab => runShared "REC" k.toNat! lit tab
    | _, _ => "bad-payload"
  | "PAR" :: k :: _src :: _flag :: lit :: entries =>
    match hexDecode lit, entries.mapM parseEntry with
    | some lit, some tab => runShared "PAR" k.toNat! lit tab
    | _, _ => "bad-payload"
  | _src :: flag :: lit :: entries =>
    match hexDecode lit, entries.mapM parseEntry with
    | some lit, some tab =>
      if flag = "R" then
        hexEnc (evalLiteral false (fun _ => []) lit) ++ " -"
      else
        let cs := evaluated lit
        match cs.find? (fun c => (lookup tab c).isNone) with
        | some c => "MISSING:" ++ hexEnc c
        | none =>
          let ev := fun c => match lookup tab c with | some e => e.repl | none => []
          let out := evalLiteral true ev lit
          let log := cs.flatMap fun c => match lookup tab c with | some e => e.log | none => []
          hexEnc out ++ " " ++ (if log.isEmpty then "-" else ".".intercalate log)
            ++ (if cs.isEmpty then "" else "\tnt=1")
    | _, _ => "bad-payload"
  | _ => "bad-payload"

def run (_args : List String) : IO Unit := lineLoop runCase
end Ecal.Drv.C14
