import Ecal.Drivers.Util
import Ecal.Model.Interp
/-!
Driver of C14. Payload (space separated):
  `<source-hex> <E|R> <literal-hex> <code-hex>:<replacement-hex>:<log> …`
`E` = interpolating literal, `R` = raw. The table gives, for every candidate
expression text, the replacement text and the side-effect log (`-` = none,
otherwise ids joined by `.`) obtained by evaluating that expression **alone**
in the real interpreter. Result: `<output-hex> <log>`.
-/
namespace Ecal.Drv.C14
open Ecal.Drv Ecal.Interp

structure Entry where
  code : List Nat
  repl : List Nat
  log  : List String

def parseEntry (s : String) : Option Entry :=
  match s.splitOn ":" with
  | [c, r, l] => do
    let c ← hexDecode c
    let r ← hexDecode r
    let l := if l = "-" then [] else l.splitOn "."
    some { code := c, repl := r, log := l }
  | _ => none

def lookup (tab : List Entry) (c : List Nat) : Option Entry := tab.find? (·.code = c)

def runCase (payload : String) : String :=
  match payload.splitOn " " with
  | _src :: flag :: lit :: entries =>
    match hexDecode lit, entries.mapM parseEntry with
    | some lit, some tab =>
      if flag = "R" then
        hexEnc (evalLiteral false (fun _ => []) lit) ++ " -"
      else
        let cs := evaluated lit
        match cs.find? (fun c => (lookup tab c).isNone) with
        | some c => "MISSING:" ++ hexEnc c
        | none =>
          let ev := fun c => match lookup tab c with | some e => e.repl | none => []
          let out := evalLiteral true ev lit
          let log := cs.flatMap fun c => match lookup tab c with | some e => e.log | none => []
          hexEnc out ++ " " ++ (if log.isEmpty then "-" else ".".intercalate log)
            ++ (if cs.isEmpty then "" else "\tnt=1")
    | _, _ => "bad-payload"
  | _ => "bad-payload"

def run (_args : List String) : IO Unit := lineLoop runCase
end Ecal.Drv.C14
