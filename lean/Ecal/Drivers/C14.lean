import Ecal.Drivers.Util
import Ecal.Model.Interp
import Ecal.Model.InterpImpl
import Ecal.Model.Lexer
/-!
Driver of C14. Payload (space separated):
  `<source-hex> <E|R> <literal-hex> <code-hex>:<replacement-hex>:<log> …`
`E` = interpolating literal, `R` = raw. The table gives, for every candidate
expression text, the replacement text and the side-effect log (`-` = none,
otherwise ids joined by `.`) obtained by evaluating that expression **alone**
in the real interpreter. Result: `<output-hex> <log>`.
-/
namespace Ecal.Drv.C14
open Ecal.Drv Ecal.Interp Ecal.InterpImpl

structure Entry where
  code : List Nat
  repl : List Nat
  log  : List String

def parseEntry (s : String) : Option Entry :=
  match s.splitOn ":" with
  | [c, r, l] => do
    let c ← hexDecode c
    let r ← hexDecode r
    let l := if l = "-" then [] else l.splitOn "."
    some { code := c, repl := r, log := l }
  | _ => none

def lookup (tab : List Entry) (c : List Nat) : Option Entry := tab.find? (·.code = c)

def codeN : List Nat := [110]                                   -- n
def codeRec : List Nat := [120, 46, 114, 101, 99, 40, 110, 41]    -- x.rec(n)

def evTab (tab : List Entry) (c : List Nat) : List Nat :=
  match lookup tab c with | some e => e.repl | none => []

/-- REC: the literal is evaluated with n = d; its expression `x.rec(n)` evaluates the SAME
    literal again with n - 1 (or yields "." at 0). Expected text, by recursion on d. -/
def recOut (tab : List Entry) (lit : List Nat) : Nat → List Nat
  | 0 => interp (fun c => if c = codeN then strBytes "0" else if c = codeRec then strBytes "."
            else evTab tab c) lit
  | d + 1 => interp (fun c => if c = codeN then strBytes (toString (d + 1))
            else if c = codeRec then recOut tab lit d else evTab tab c) lit

def runShared (kind : String) (k : Nat) (lit : List Nat) (tab : List Entry) : String :=
  let nt := if (evaluated lit).isEmpty then "" else "\tnt=1"
  if kind = "REC" then hexEnc (recOut tab lit k) ++ nt
  else
    let outs := (List.range k).map fun i =>
      hexEnc (interp (fun c => if c = codeN then strBytes (toString i) else evTab tab c) lit)
    ",".intercalate outs ++ nt

/-- LEX: the source of ONE literal (or what was meant to be one) is run through the lexer model; result =
    the token kinds and, for string tokens, value and raw / interpolating flag — what the interpolation
    stage receives. `T <id>` for other tokens, `S <E|R> <value-hex>` for strings. -/
def lexCase (src : List Nat) : String :=
  let toks := (Ecal.Lex.lex src).toList
  let show1 (t : Ecal.Lex.Tok) : String :=
    if t.id = Ecal.Lex.tSTRING then "S" ++ (if t.allowEscapes then "E" else "R") ++ hexEnc t.val
    else if t.id = Ecal.Lex.tERROR then "X"
    else "T" ++ toString t.id
  let isStr := toks.any fun t => t.id = Ecal.Lex.tSTRING
  -- known finding quote-escape-unusable: a quoted (non-raw) literal that is closed by its own quote character and
  -- whose body holds `\'`, or `\"` in the single-quoted form, always ends as a lexer error although ecal.md
  -- promises escapes in both forms (the lexer treats the escaped quote as not closing, then hands a text to
  -- strconv.Unquote that it rejects)
  let quoteEsc : Bool :=
    match src with
    | q :: rest =>
      (q = 34 || q = 39) && rest.getLast? = some q &&
        (let rec has (l : List Nat) : Bool :=
            match l with
            | 92 :: 39 :: _ => true
            | 92 :: 34 :: t => q = 39 || has t
            | 92 :: _ :: t => has t
            | _ :: t => has t
            | [] => false
          has rest.dropLast) &&
        toks.any (fun t => t.id = Ecal.Lex.tERROR)
    | [] => false
  ",".intercalate (toks.map show1) ++ (if isStr then "\tnt=1" else "") ++
    (if quoteEsc then "\tkf=quote-escape-unusable" else "")

/-- ST: the expressions of one literal share a scope: `v` global (0 at the start), `w` defined by the literal's
    own expressions. State = (v, w, log). -/
structure StState where
  v : Nat
  w : Option Nat
  log : List String

def stEv (asg und : List Nat) (st : StState) (c : List Nat) : List Nat × StState :=
  if c = strBytes "v := v + 1" then (asg, { st with v := st.v + 1 })
  else if c = strBytes "v := v + 2" then (asg, { st with v := st.v + 2 })
  else if c = strBytes "v" then (strBytes (toString st.v), st)
  else if c = strBytes "x.cnt(v)" then (strBytes ("c" ++ toString st.v), { st with log := st.log ++ [toString st.v] })
  else if c = strBytes "w := v" then (asg, { st with w := some st.v })
  else if c = strBytes "w" then ((match st.w with | some k => strBytes (toString k) | none => und), st)
  else (strBytes "MISSING", st)

def stCase (lit asg und : List Nat) : String :=
  match impl (stEv asg und) { v := 0, w := none, log := [] } lit with
  | Out.ok out st =>
    hexEnc out ++ " " ++ (if st.log.isEmpty then "-" else ".".intercalate st.log) ++ " v=" ++ toString st.v
      ++ (if (evaluated lit).isEmpty then "" else "\tnt=1")
  | Out.panic => "PANIC slice bounds out of range"
  | Out.outOfFuel => "HANG"

/-- CTX: one literal evaluated several times in a context (function calls, loop rounds); table j holds the
    replacement texts of the literal's expressions in evaluation j. Result = out_1 | out_2 | … | and the log. -/
def ctxCase (lit : List Nat) (tabs : List (List Entry)) : String :=
  let step (acc : Option (List Nat × List String)) (tab : List Entry) : Option (List Nat × List String) :=
    match acc with
    | none => none
    | some (out, lg) =>
      if (evaluated lit).any (fun c => (lookup tab c).isNone) then none
      else
        let evS : List String → List Nat → List Nat × List String := fun l c =>
          match lookup tab c with | some e => (e.repl, l ++ e.log) | none => ([], l)
        match impl evS lg lit with
        | Out.ok o lg' => some (out ++ o ++ [124], lg')
        | _ => none
  match tabs.foldl step (some ([], [])) with
  | some (out, lg) => hexEnc out ++ " " ++ (if lg.isEmpty then "-" else ".".intercalate lg) ++ "\tnt=1"
  | none => "MISSING-OR-PANIC"

def parseEntryHexLog (s : String) : Option Entry :=
  match s.splitOn ":" with
  | [c, r, l] => do
    let c ← hexDecode c
    let r ← hexDecode r
    let l ← (if l = "-" then some [] else (hexDecode l).map fun b => [String.mk (b.map fun n => Char.ofNat n)])
    some { code := c, repl := r, log := l }
  | _ => none

def runCase (payload : String) : String :=
  match payload.splitOn " " with
  | "OUT" :: _code :: canon =>
    -- the output step of ONE expression: the expected canonical form comes from an evaluation of the code
    -- alone that does not go through rt_value.go (independent oracle on the Go side); the model states what
    -- must stand in the literal's place: that value's text / that error under the marker
    " ".intercalate canon ++ "\tnt=1"
  | ["CTX", _prog, lit, tabs] =>
    match hexDecode lit, (tabs.splitOn "|").mapM (fun t => (t.splitOn ",").mapM parseEntryHexLog) with
    | some lit, some tabs => ctxCase lit tabs
    | _, _ => "bad-payload"
  | ["ST", _src, lit, asg, und] =>
    match hexDecode lit, hexDecode asg, hexDecode und with
    | some lit, some asg, some und => stCase lit asg und
    | _, _, _ => "bad-payload"
  | ["LEX", src] =>
    match hexDecode src with
    | some b => lexCase b
    | none => "bad-payload"
  | "REC" :: k :: _src :: _flag :: lit :: entries =>
    match hexDecode lit, entries.mapM parseEntry with
    | some lit, some tab => runShared "REC" k.toNat! lit tab
    | _, _ => "bad-payload"
  | "PAR" :: k :: _src :: _flag :: lit :: entries =>
    match hexDecode lit, entries.mapM parseEntry with
    | some lit, some tab => runShared "PAR" k.toNat! lit tab
    | _, _ => "bad-payload"
  | _src :: flag :: lit :: entries =>
    match hexDecode lit, entries.mapM parseEntry with
    | some lit, some tab =>
      if flag = "R" then
        -- the string node with the flag the real lexer set: evalNode (Props/C14Node.raw_node_untouched)
        match evalNode (σ := List String) [35] (fun lg _ => (EvOut.val [], lg)) [] false lit with
        | Out.ok out _ => hexEnc out ++ " -"
        | _ => "PANIC"
      else
        let cs := evaluated lit
        match cs.find? (fun c => (lookup tab c).isNone) with
        | some c => "MISSING:" ++ hexEnc c
        | none =>
          -- the Go-shaped loop (Ecal.InterpImpl: indices, slices, fuel) with a STATEFUL evaluator: the state is
          -- the side-effect log; `impl_refines_spec` proves this equals the fold over the segmentation
          let evS : List String → List Nat → List Nat × List String := fun lg c =>
            match lookup tab c with | some e => (e.repl, lg ++ e.log) | none => ([], lg)
          -- the table holds the RENDERED outcome of each expression (value text, or marker + message)
          match evalNode [35] (fun lg c => (EvOut.val (evS lg c).1, (evS lg c).2)) [] true lit with
          | Out.ok out log =>
            hexEnc out ++ " " ++ (if log.isEmpty then "-" else ".".intercalate log)
              ++ (if cs.isEmpty then "" else "\tnt=1")
          | Out.panic => "PANIC slice bounds out of range"
          | Out.outOfFuel => "HANG"
    | _, _ => "bad-payload"
  | _ => "bad-payload"

def run (_args : List String) : IO Unit := lineLoop runCase
end Ecal.Drv.C14
