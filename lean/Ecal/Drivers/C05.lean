import Ecal.Drivers.Util
namespace Ecal.Drv.C05
/-- model driver of property C05 (stub: not implemented yet) -/
def run (_args : List String) : IO Unit := Ecal.Drv.lineLoop fun _ => "unimplemented"
end Ecal.Drv.C05
