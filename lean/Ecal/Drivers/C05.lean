import Ecal.Drivers.EvalCommon
import Ecal.Model.EvalObjects
/-!
Driver of C05. Payload: `evPayload` sections joined by ` @ ` — the program, then the probe
expressions (see go/cmd/harness/c05.go). All sections are evaluated by `Ecal.Ev.eval` one after the
other in ONE global scope and ONE state. Result:

  `<outcome of the program>;G <dump of the global scope>;LOG <trace>;F <call frames>;<outcome of probe 1> L <its trace>;…;G <dump after the probes>`

with outcome = `OK <canonical value> | ERR <type-hex> | ERRPLAIN | NOPARSE | V ERR <type-hex>`.
If the PROGRAM leaves the model or shows a value the model does not know, the whole case is `UNSUP …` (not compared);
a PROBE that shows an unknown value prints `U` for its section, a probe that leaves the model prints `U` for its own
and every later section (props/C05.py compares section by section and accepts `U`); fuel exhausted: `HANG`.
`nt=1`: the trace has at least one entry.  Error objects are printed in the canonical form of `c05Canon` (c05.go).
-/
namespace Ecal.Drv.C05
open Ecal.Drv Ecal.Drv.EvalCommon Ecal.Ev

/-- A section may carry alternatives separated by ` ~ ` (known findings: the code is known to deviate from the
    property there; see c05Chains / c05BlockShare / the parameter family in c05.go), optionally ending in `#<kf id>`:
      `<go> ~ <model>`                 the model runs the second program (same meaning, no finding)
      `<go> ~ <as is> ~ <spec>`        the code as it is / what the property demands (id call-result-not-callable)
      `<go> ~ <spec> ~ #<id>`          as is = the go program itself
      `<go> ~ <as is> ~ <spec> ~ #<id>`
    `parseAlt` gives (as-is program, spec program if any, id). -/
def parseAlt (sec : String) : String × Option String × String :=
  let parts := sec.splitOn " ~ "
  let (parts, id) := match parts.getLast? with
    | some l => if l.startsWith "#" then (parts.dropLast, (l.drop 1).toString) else (parts, "call-result-not-callable")
    | none => (parts, "call-result-not-callable")
  let explicitId := match (sec.splitOn " ~ ").getLast? with | some l => l.startsWith "#" | none => false
  match parts with
  | [g, s] => if explicitId then (g, some s, id) else (s, none, id)
  | [_, a, s] => (a, some s, id)
  | _ => (sec, none, id)

def splitSections (asIs : Bool) (p : String) : List String :=
  (p.splitOn " @ ").map fun sec =>
    let (a, s, _) := parseAlt sec
    if asIs then a else s.getD a

/-- the known-finding class of the case, if one of its sections has a spec alternative -/
def knownDeviation (p : String) : Option String :=
  ((p.splitOn " @ ").filterMap fun sec => let (_, s, id) := parseAlt sec; s.map fun _ => id).head?

def errText : Sig → String
  | .err e _ => s!"ERR {hexEnc (strBytes e.type)}"
  | .ret e _ => s!"ERR {hexEnc (strBytes e.type)}"
  | .iter e _ => s!"ERR {hexEnc (strBytes e.type)}"
  | .plainErr _ => "ERRPLAIN"
  | .panic => "PANIC" | .fuel => "HANG" | .unsupported w => "UNSUP " ++ w

/-- outcome text of one section, or the fatal signal that ends the case -/
def runSection (g : Nat) (prog : Program) : M String := do
  match prog.ast with
  | none => pure "NOPARSE"
  | some n =>
    match validate n with
    | .error e => if e.isFatal then throw e else pure ("V " ++ errText e)
    | .ok _ =>
      match ← attemptE (Ecal.Obj.evalTop defaultFuel g n) with
      | .ok v => do pure ("OK " ++ canonVal (← get) canonDepth v)
      | .error e => if e.isFatal then throw e else pure (errText e)

/-- the helper functions d1 … d9 of spec programs (lexical defaults, see the parameter family in c05.go) are not part of
    the program under test -/
def isSpecHelper (k : String) : Bool := k.length == 2 && k.startsWith "d" && (k.drop 1).all Char.isDigit

def globalDump (st : St) (g : Nat) : String :=
  let items := (((st.scopes.getD g default).vars.filter fun kv => !(isSpecHelper kv.1)).map fun (k, v) =>
    canonVal st (canonDepth - 1) (.str (strBytes k)) ++ ":" ++ canonVal st (canonDepth - 1) v)
  " ".intercalate (items.toArray.qsort (· < ·)).toList

/-- error objects (see c05Canon in c05.go): the entries whose values the model does not know print as placeholders
    under their keys (`error` ~E, `detail` ~D, `source` ~S, `trace` ~T), Go ints (pos / line) as ~I -/
def canonErrObjects (t : String) : String :=
  ((((t.replace "s6572726f72:?error text" "s6572726f72:~E").replace "s64657461696c:?detail text" "s64657461696c:~D").replace
    "s736f75726365:?source name" "s736f75726365:~S").replace "s7472616365:?trace" "s7472616365:~T").replace "?int" "~I"

/-- is scope `i` a linked call frame (created by `buildFrame`: a scope that is no child of its parent) -/
def isFrame (st : St) (i : Nat) : Bool :=
  let s := st.scopes.getD i default
  match s.parent with
  | some p => !((st.scopes.getD p default).children.contains i)
  | none => false

/-- the kinds of the scopes from `i` up to the first call frame or root: b = block scope, f = call frame,
    g = the global scope, r = another root (the same description c05ScopeChain gives on the Go side) -/
def scopeChain (st : St) (g : Nat) : Nat → Nat → List String
  | 0, _ => ["?"]
  | fuel+1, i =>
    if isFrame st i then ["f"]
    else match (st.scopes.getD i default).parent with
      | none => [if i == g then "g" else "r"]
      | some p => "b" :: scopeChain st g fuel p

/-- the call frames of the state, structurally: what the frame is linked to (`scopeChain`) and the names it holds IN
    INSERTION ORDER — `this`, `super`, the parameters come first (`frame_contents`), locals of the body after them;
    props/C05.py matches every frame the real code reports (names held when the body starts, sorted) with a distinct
    frame of this list that has the same link and those names as its first ones -/
def framesText (st : St) (g : Nat) : String :=
  let idx := (List.range st.scopes.size).filter (isFrame st)
  "|".intercalate (idx.map fun i =>
    let s := st.scopes.getD i default
    let chain := match s.parent with | some p => scopeChain st g 50 p | none => ["?"]
    ".".intercalate chain ++ "[" ++ ",".intercalate (s.vars.map fun kv => hexEnc (strBytes kv.1)) ++ "]")

def logFrom (st : St) (i : Nat) : String := "|".intercalate (st.log.toList.drop i)

/-- one probe: its section text, or `none` when it leaves the model (`Sig.unsupported`); other fatal signals end
    the case -/
def runProbe (g : Nat) (prog : Program) : M (Option String) := do
  let n0 := (← get).log.size
  match ← attemptE (runSection g prog) with
  | .ok t => do pure (some (t ++ " L " ++ logFrom (← get) n0))
  | .error (.unsupported _) => pure none
  | .error e => throw e

/-- all probes, one after the other in the same state; after a probe that left the model the state is unknown:
    that probe and every later section print `U` -/
def runProbes (g : Nat) : List Program → M (List String × Bool)
  | [] => pure ([], true)
  | p :: ps => do
    match ← runProbe g p with
    | some t => do
      let (rest, ok) ← runProbes g ps
      pure (t :: rest, ok)
    | none => pure ("U" :: ps.map (fun _ => "U"), false)

/-- a section that shows a value the model does not know prints as `U` (the state is still known) -/
def maskUnknown (t : String) : String :=
  let t := canonErrObjects t
  if t.contains '?' then "U" else t

def runSections (secs : List String) : String :=
  match secs.mapM decodePayload with
  | none => "bad-payload"
  | some [] => "bad-payload"
  | some (prog :: probes) =>
    let m : M (List String × Bool) := do
      let g ← newScope "GlobalScope"
      let p0 ← runSection g prog
      let st0 ← get
      let head := [p0, "G " ++ globalDump st0 g, "LOG " ++ logText st0, "F " ++ framesText st0 g]
      let (ps, ok) ← runProbes g probes
      let st1 ← get
      pure (head ++ ps ++ [if ok then "G " ++ globalDump st1 g else "U"], st0.log.size ≥ 1)
    let tab := (prog :: probes).flatMap (·.interp)
    let (r, _) := m.run.run { interp := tab }
    match r with
    | .error e => errText e
    | .ok (secs, nt) =>
      let secs := secs.map maskUnknown
      -- the program itself (outcome, dump, trace) must be known, otherwise nothing is compared
      if (secs.take 4).contains "U" then "UNSUP result shows a value the model does not know"
      else ";".intercalate secs ++ (if nt then "\tnt=1" else "")

def runCase (payload : String) : String :=
  let main := runSections (splitSections true payload)
  match knownDeviation payload with
  | some id =>
    let spec := ((runSections (splitSections false payload)).splitOn "\t").headD ""
    -- only where the code as it is really differs from what the property demands (the call frames of the spec
    -- program — it has helper functions — are not part of that question)
    let sem (t : String) : List String := (t.splitOn ";").filter fun sec => !(sec.startsWith "F ")
    if sem ((main.splitOn "\t").headD "") == sem spec then main
    else main ++ "\tkf=" ++ id ++ "\tspec=" ++ spec
  | none => main

def run (_args : List String) : IO Unit := lineLoop runCase
end Ecal.Drv.C05
