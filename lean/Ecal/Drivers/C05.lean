import Ecal.Drivers.EvalCommon
import Ecal.Model.EvalObjects
/-!
Driver of C05. Payload: `evPayload` sections joined by ` @ ` — the program, then the probe
expressions (see go/cmd/harness/c05.go). All sections are evaluated by `Ecal.Ev.eval` one after the
other in ONE global scope and ONE state. Result:

  `<outcome of the program>;<outcome of probe 1>;…;G <canonical dump of the global scope>;LOG <trace>`

with outcome = `OK <canonical value> | ERR <type-hex> | ERRPLAIN | NOPARSE | V ERR <type-hex>`.
A section that leaves the model makes the whole case `UNSUP …` (not compared), fuel exhausted `HANG`.
`nt=1`: the trace has at least one entry.  Error objects are printed in the canonical form of `c05Canon` (c05.go).
-/
namespace Ecal.Drv.C05
open Ecal.Drv Ecal.Drv.EvalCommon Ecal.Ev

/-- a section `<go program> ~ <model program>` (calls of a call result, see c05Chains in c05.go): the model runs
    the second program -/
def splitSections (p : String) : List String :=
  (p.splitOn " @ ").map fun sec => match sec.splitOn " ~ " with
    | [_, m] => m
    | _ => sec

def errText : Sig → String
  | .err e _ => s!"ERR {hexEnc (strBytes e.type)}"
  | .ret e _ => s!"ERR {hexEnc (strBytes e.type)}"
  | .iter e _ => s!"ERR {hexEnc (strBytes e.type)}"
  | .plainErr _ => "ERRPLAIN"
  | .panic => "PANIC" | .fuel => "HANG" | .unsupported w => "UNSUP " ++ w

/-- outcome text of one section, or the fatal signal that ends the case -/
def runSection (g : Nat) (prog : Program) : M String := do
  match prog.ast with
  | none => pure "NOPARSE"
  | some n =>
    match validate n with
    | .error e => if e.isFatal then throw e else pure ("V " ++ errText e)
    | .ok _ =>
      match ← attemptE (Ecal.Obj.evalTop defaultFuel g n) with
      | .ok v => do pure ("OK " ++ canonVal (← get) canonDepth v)
      | .error e => if e.isFatal then throw e else pure (errText e)

def globalDump (st : St) (g : Nat) : String :=
  let items := ((st.scopes.getD g default).vars.map fun (k, v) =>
    canonVal st (canonDepth - 1) (.str (strBytes k)) ++ ":" ++ canonVal st (canonDepth - 1) v)
  " ".intercalate (items.toArray.qsort (· < ·)).toList

/-- error objects (see c05Canon in c05.go): the entries whose values the model does not know print as placeholders
    under their keys (`error` ~E, `detail` ~D, `source` ~S, `trace` ~T), Go ints (pos / line) as ~I -/
def canonErrObjects (t : String) : String :=
  ((((t.replace "s6572726f72:?error text" "s6572726f72:~E").replace "s64657461696c:?detail text" "s64657461696c:~D").replace
    "s736f75726365:?source name" "s736f75726365:~S").replace "s7472616365:?trace" "s7472616365:~T").replace "?int" "~I"

def runCase (payload : String) : String :=
  match (splitSections payload).mapM decodePayload with
  | none => "bad-payload"
  | some progs =>
    let m : M (Nat × List String) := do
      let g ← newScope "GlobalScope"
      let outs ← progs.mapM (runSection g)
      pure (g, outs)
    let tab := progs.flatMap (·.interp)
    let (r, st) := m.run.run { interp := tab }
    match r with
    | .error e => errText e
    | .ok (g, outs) =>
      let t := canonErrObjects (";".intercalate outs ++ ";G " ++ globalDump st g ++ ";LOG " ++ logText st)
      if t.contains '?' then "UNSUP result shows a value the model does not know"
      else t ++ (if st.log.size ≥ 1 then "\tnt=1" else "")

def run (_args : List String) : IO Unit := lineLoop runCase
end Ecal.Drv.C05
