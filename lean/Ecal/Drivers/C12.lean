import Ecal.Drivers.Util
import Ecal.Model.Mutex
/-!
Driver of C12. Input line: `<idx>\t<payload>\t<trace>` where

* payload = `<mode> <threads> <iters> <seed> <role>|<role>…` (see go/cmd/harness/c12.go),
* trace   = what the real run recorded: `e<tid><name>` (thread is inside a block of that name)
  and `x<tid><kind><levels>` (thread is about to leave that many blocks by that kind of exit),
  joined by `.`; `-` = empty.

Output: the result the property demands for this program and thread configuration —
`occ=… cnt=… done=n/n meet=…` (at most one thread inside per used name, every counter equal to
the number of block entries, everybody finished, every rendezvous met) — computed from the
payload alone, plus the verdict of replaying the recorded trace on the transition system
`Ecal.Mutex.step`: every observed event is expanded into the model events the code performs
for it and each of them must be enabled.

  e t a        ↦ look t a, decide t, then (if the model thread now waits for the lock) lock t,
                 setOwner t; then read t a, write t (the counter update that follows in the body)
  x t k n      ↦ n times: bodyEnd t k, then (if the frame had acquired) resetOwner t, unlock t

Attributes: `replay=ok` or `replay=<position>:<event>:<reason>`, `ev=<model events executed>`,
`nt=1` if the run had real interaction: at some entry another thread was inside some block, or the
lock of a name was handed over from one thread to another.
-/
namespace Ecal.Drv.C12
open Ecal.Drv Ecal.Mutex

abbrev Cnt := Nat × Nat × Nat

def Cnt.add (c : Cnt) (name : Char) (m : Nat) : Cnt :=
  if name = 'a' then (c.1 + m, c.2.1, c.2.2)
  else if name = 'b' then (c.1, c.2.1 + m, c.2.2)
  else (c.1, c.2.1, c.2.2 + m)

def Cnt.plus (x y : Cnt) : Cnt := (x.1 + y.1, x.2.1 + y.2.1, x.2.2 + y.2.2)
def Cnt.scale (k : Nat) (x : Cnt) : Cnt := (k * x.1, k * x.2.1, k * x.2.2)
def Cnt.str (x : Cnt) : String := s!"{x.1},{x.2.1},{x.2.2}"

/-- scan `block*`: per name the number of block entries of one run (a `continue` block that is the
    top of its exit chain runs twice), and the number of rendezvous calls -/
partial def scanBlocks (cs : List Char) (m : Nat) (acc : Cnt × Nat) : Option (List Char × (Cnt × Nat)) :=
  match cs with
  | [] => some ([], acc)
  | ')' :: _ => some (cs, acc)
  | n :: rest =>
    let (meet, rest) := match rest with
      | '!' :: r => (true, r)
      | r => (false, r)
    match rest with
    | k :: rest =>
      let (up, rest) := match rest with
        | '^' :: r => (true, r)
        | r => (false, r)
      match rest with
      | '(' :: rest =>
        let m' := if !up && k = 'c' then 2 * m else m
        -- kinds E (uncaught error) and p (panic) end the whole role execution: counted once per role
        let acc := (acc.1.add n m', (if meet then acc.2 + m' else acc.2) + (if !up && (k = 'E' || k = 'p') then 1000000 else 0))
        match scanBlocks rest m' acc with
        | some (')' :: rest, acc) => scanBlocks rest m acc
        | _ => none
      | _ => none
    | [] => none

def roleCounts (r : String) : Option (Cnt × Nat) :=
  match scanBlocks r.toList 1 ((0, 0, 0), 0) with
  | some ([], acc) => some acc
  | _ => none

/-- roles executed: list of role indices, one per execution of a role function -/
def executions (mode : String) (threads iters nroles : Nat) : List Nat × Nat :=
  let nSink := if mode = "S" then threads else if mode = "D" || mode = "G" || mode = "J" then 0 else threads / 2
  let nDirect := threads - nSink
  let sinkEx := (List.range (nSink * iters)).map (· % nroles)
  let directEx := (List.range nDirect).flatMap fun i => List.replicate iters ((nSink + i) % nroles)
  (sinkEx ++ directEx, nSink * iters + nDirect)

/-! ### trace -/

inductive Obs where
  | enter (t a : Nat)
  | exit (t : Nat) (k : Outcome) (levels : Nat)
  -- protocol events recorded at the instrumentation points of hooks/C12.patch
  | look (t a o : Nat)          -- k<tid><name><owner read>
  | decide (t : Nat) (re : Bool) -- d<tid>r | d<tid>l
  | lock (t : Nat) | setOwner (t : Nat) | bodyEnd (t : Nat) | reset (t : Nat) | unlock (t : Nat)

def Obs.isProtocol : Obs → Bool
  | .enter .. | .exit .. => false
  | _ => true

def parseOutcome (c : Char) : Option Outcome :=
  if c = 'n' then some .normal else if c = 'e' then some .error else if c = 'r' then some .ret
  else if c = 'b' then some .brk else if c = 'c' then some .cont
  else if c = 'E' then some .error else if c = 'p' then some .panic else none

def parseObs (s : String) : Option Obs :=
  match s.toList with
  | 'e' :: rest =>
    let ds := rest.takeWhile Char.isDigit
    match rest.dropWhile Char.isDigit with
    | [n] => if ds.isEmpty || n < 'a' || n > 'c' then none
             else some (.enter (String.ofList ds).toNat! (n.toNat - 'a'.toNat))
    | _ => none
  | 'x' :: rest =>
    let ds := rest.takeWhile Char.isDigit
    match rest.dropWhile Char.isDigit with
    | [k, l] =>
      match parseOutcome k with
      | some o => if ds.isEmpty || !l.isDigit then none
                  else some (.exit (String.ofList ds).toNat! o (l.toNat - '0'.toNat))
      | none => none
    | _ => none
  | 'k' :: rest =>
    let ds := rest.takeWhile Char.isDigit
    match rest.dropWhile Char.isDigit with
    | n :: os => if ds.isEmpty || n < 'a' || n > 'c' || os.isEmpty || !os.all Char.isDigit then none
                 else some (.look (String.ofList ds).toNat! (n.toNat - 'a'.toNat) (String.ofList os).toNat!)
    | _ => none
  | 'd' :: rest =>
    let ds := rest.takeWhile Char.isDigit
    match rest.dropWhile Char.isDigit with
    | [c] => if ds.isEmpty then none else
             if c = 'r' then some (.decide (String.ofList ds).toNat! true)
             else if c = 'l' then some (.decide (String.ofList ds).toNat! false) else none
    | _ => none
  | c :: rest =>
    if rest.isEmpty || !rest.all Char.isDigit then none else
    let t := (String.ofList rest).toNat!
    if c = 'l' then some (.lock t) else if c = 's' then some (.setOwner t)
    else if c = 'b' then some (.bodyEnd t) else if c = 'r' then some (.reset t)
    else if c = 'u' then some (.unlock t) else none
  | _ => none

def obsThread : Obs → Nat
  | .enter t _ => t
  | .exit t _ _ => t
  | .look t _ _ => t
  | .decide t _ => t
  | .lock t | .setOwner t | .bodyEnd t | .reset t | .unlock t => t

/-- re-tabulate the state (same values on the listed threads and names): keeps lookups cheap -/
def compact (tids names : List Nat) (s : State) : State :=
  let tv := tids.map fun t => (t, s.thr t)
  let mv := names.map fun a => (a, s.mtx a)
  { thr := fun x => (tv.lookup x).getD idle, mtx := fun a => (mv.lookup a).getD (init.mtx a) }

def evStr : Event → String
  | .look t a => s!"look({t},{a})" | .decide t => s!"decide({t})" | .lock t => s!"lock({t})"
  | .setOwner t => s!"setOwner({t})" | .bodyEnd t _ => s!"bodyEnd({t})" | .resetOwner t => s!"resetOwner({t})"
  | .unlock t => s!"unlock({t})" | .read t a => s!"read({t},{a})" | .write t => s!"write({t})"

/-- run model events; error names the first one that is not enabled -/
def runAll (s : State) (es : List Event) : Except String State :=
  es.foldlM (fun s e => match step s e with
    | some s' => .ok s'
    | none => .error (evStr e ++ "-not-enabled")) s

def exitOnce (s : State) (t : Nat) (k : Outcome) : Except String (State × Nat) := do
  let s ← runAll s [.bodyEnd t k]
  match (s.thr t).pc with
  | .releasing _ => let s ← runAll s [.resetOwner t, .unlock t]; pure (s, 3)
  | _ => pure (s, 1)

def applyObs (s : State) : Obs → Except String (State × Nat)
  | .enter t a => do
    let s ← runAll s [.look t a, .decide t]
    let (s, n) ← match (s.thr t).pc with
      | .wantLock _ => do let s ← runAll s [.lock t, .setOwner t]; pure (s, 4)
      | _ => pure (s, 2)
    let s ← runAll s [.read t a, .write t]
    pure (s, n + 2)
  | .exit t k levels => do
    let mut s := s
    let mut n := 0
    for _ in [0:levels] do
      let (s', m) ← exitOnce s t k
      s := s'
      n := n + m
    pure (s, n)
  | _ => .error "protocol-event-in-an-enter/exit-trace"

/-- exact mode: one recorded protocol event = one model event; the owner value Go read and the
    branch Go took must be the model's -/
def applyExact (s : State) : Obs → Except String (State × Nat)
  | .look t a o => do
    let s ← runAll s [.look t a]
    match (s.thr t).pc with
    | .decide _ o' => if o' = o then pure (s, 1) else .error s!"go-read-owner-{o}-model-{o'}"
    | _ => .error "model-not-at-decide"
  | .decide t re => do
    let s ← runAll s [.decide t]
    match (s.thr t).pc, re with
    | .run, true => pure (s, 1)
    | .wantLock _, false => pure (s, 1)
    | _, _ => .error (if re then "go-reentered-model-locks" else "go-locks-model-reenters")
  | .lock t => do let s ← runAll s [.lock t]; pure (s, 1)
  | .setOwner t => do let s ← runAll s [.setOwner t]; pure (s, 1)
  | .bodyEnd t => do let s ← runAll s [.bodyEnd t .normal]; pure (s, 1)
  | .reset t => do let s ← runAll s [.resetOwner t]; pure (s, 1)
  | .unlock t => do let s ← runAll s [.unlock t]; pure (s, 1)
  | .enter t a => do let s ← runAll s [.read t a, .write t]; pure (s, 2)
  | .exit _ _ _ => pure (s, 0)

structure Replay where
  ok : Bool
  why : String
  events : Nat
  overlap : Bool
  final : State

def replay (exact : Bool) (tids : List Nat) (obs : List (String × Obs)) : Replay := Id.run do
  let names := [0, 1, 2]
  let mut s := init
  let mut n := 0
  let mut overlap := false
  let mut pos := 0
  let mut last : List (Nat × Nat) := []
  for (txt, o) in obs do
    match o with
    | .enter t a =>
      if tids.any fun x => x != t && !(s.thr x).stack.isEmpty then overlap := true
      match last.lookup a with
      | some u => if u != t then overlap := true
      | none => pure ()
      last := (a, t) :: last.filter (·.1 != a)
    | _ => pure ()
    match (if exact then applyExact s o else applyObs s o) with
    | .ok (s', m) =>
      s := compact tids names s'
      n := n + m
    | .error e => return { ok := false, why := s!"{pos}:{txt}:{e}", events := n, overlap := overlap, final := s }
    pos := pos + 1
  return { ok := true, why := "", events := n, overlap := overlap, final := s }

def quiescent (tids : List Nat) (s : State) : Bool :=
  tids.all (fun t => (s.thr t).pc == .run && (s.thr t).stack.isEmpty) &&
  [0, 1, 2].all (fun a => (s.mtx a).locked == false && (s.mtx a).owner == 0)

def runCase (line : String) : String :=
  match line.splitOn "\t" with
  | [payload, trace] =>
    match payload.splitOn " " with
    | ["I", g, per, _seed, variant] =>
      -- the id generator under contention and across pool life-cycles: every id ever handed out
      -- is distinct and > 0 (`ids_distinct`, `id_counter_monotone`)
      let g := g.toNat!
      let v := variant.toList.headD 'p'
      let phases := if v = 'r' || v = 'f' then (variant.drop 1).toString.toNat! + 1 else 1
      let wk := if v = 'w' || v = 'r' || v = 'f' then g * phases else 0
      if v = 'x' then
        -- two generators (the provider's processor was replaced in between): each hands out 1..n,
        -- ids are unique per pool only — the second n ids repeat the first
        s!"ids={2 * g * per.toNat!} dup={g * per.toNat!} zero=0 wk=0 wdup=0\treplay=ok"
      else
      s!"ids={g * per.toNat! * phases} dup=0 zero=0 wk={wk} wdup=0\treplay=ok"
    | [mode, threads, iters, _seed, roles] =>
      let threads := threads.toNat!
      let iters := iters.toNat!
      match (roles.splitOn "|").mapM roleCounts with
      | none => "bad-program"
      | some rcs =>
        -- mode C: `iters` fresh providers, on each `threads` direct threads run their role once
        let (exs, total) :=
          if mode = "C" then
            let one := executions "D" threads 1 rcs.length
            ((List.replicate iters one.1).flatten, one.2 * iters)
          else executions mode threads iters rcs.length
        let sum : Cnt × Nat := exs.foldl (fun acc r =>
          let rc := rcs.getD r ((0, 0, 0), 0)
          (acc.1.plus rc.1, acc.2 + rc.2)) ((0, 0, 0), 0)
        let cnt := sum.1
        let occ : Cnt := (min cnt.1 1, min cnt.2.1 1, min cnt.2.2 1)
        let res := s!"occ={occ.str} cnt={cnt.str} done={total}/{total} meet={(sum.2 % 1000000) / 2} term={sum.2 / 1000000} end=0,0"
        let toks := if trace = "-" || trace = "" then [] else trace.splitOn "."
        match toks.mapM (fun t => (parseObs t).map fun o => (t, o)) with
        | none => res ++ "\treplay=bad-trace"
        | some obs =>
          let tids := (obs.map fun p => obsThread p.2).eraseDups
          let exact := obs.any fun p => p.2.isProtocol
          let r := replay exact tids obs
          let verdict :=
            if !r.ok then r.why
            else if !quiescent tids r.final then "end:not-quiescent"
            else if ((r.final.mtx 0).ctr, (r.final.mtx 1).ctr, (r.final.mtx 2).ctr) != cnt then
              s!"end:model-counters-{(r.final.mtx 0).ctr},{(r.final.mtx 1).ctr},{(r.final.mtx 2).ctr}"
            else "ok"
          res ++ s!"\treplay={verdict}\tev={r.events}" ++ (if exact then "\texact=1" else "") ++
            (if r.overlap then "\tnt=1" else "")
    | _ => "bad-payload"
  | _ => "bad-line"

def run (_args : List String) : IO Unit := lineLoop runCase
end Ecal.Drv.C12
