import Ecal.Drivers.Util
import Ecal.Model.Bridge
import Ecal.Model.Reentry
/-!
Driver of C19. Payload (space separated):

  `<name> <mode> <params>;<V|N>;<results> <body> <arg>…`

* mode `D` = `ECALFunctionAdapter.Run` called directly, `I` = ECAL call through the
  interpreter, `T` = the same inside `try … except`.
* types (comma separated, `-` = none): `int int8 … uintptr f32 f64 bool str iface error io<n>
  emap o<n>`, `S<type>` for a slice, `N<n>(<type>)` for a defined type with that underlying type; with `V` the last parameter is the variadic slice.
* body: `echo` (returns what it received), `echo+<value>|…` (… followed by these values), `vlen` (returns the fixed arguments and the number of
  variadic ones), `k:<value>|<value>…` (returns these values; `k:` = none), `panic`, `panicnil` (a panic for which recover() returns nil), `pfirst`/`pstr`/`pnum`/`plen` (plugin functions: return the first argument — any, a string, a
  number; panic otherwise — resp. the number of arguments), `opaque`
  (a function of the generated stdlib: assumed not to panic, values unknown), `notfunc`.
* values: `z` nil, `b:0|1`, `n:<float64 bits|nan>`, `g:<bits>` float32 (as float64 bits),
  `i:<kind>:<decimal>`, `s:<hex>`, `l[…]`, `m{…}`, `q<type>[v,…]` (a Go slice/array), `p<ktype>/<vtype>{k=v,…}` (a Go map), `N<n>(<value>)` (a value of a defined type), `f` (an ECAL function object), `e` (the
  harness's error value). An argument number carries the platform's conversion to the
  parameter's integer kind as `n:<bits>:<decimal>` (`-` if the parameter is not of integer kind),
  followed by `!` when the value is outside the kind's range: Go leaves that conversion
  implementation-defined, so at that position the received value — and the returned one where the
  body hands the argument back — is printed as `~` on both sides.

Result: `V <value> recv=[…]` | `E f recv=[…]` (the function's own error) | `E b recv=…` (an error
made by the bridge; `recv=-`: function not reached) | `X` (escaped panic). Modes I/T: `V <value> …`,
`E …` resp. `C …` (caught). For `opaque` bodies: `V ? recv=?`.
-/
namespace Ecal.Drv.C19
open Ecal.Drv Ecal.Bridge

def splitFirst (s : String) (c : Char) : String × String :=
  let cs := s.toList
  (String.ofList (cs.takeWhile (· != c)), String.ofList ((cs.dropWhile (· != c)).drop 1))

def parseHexNat (s : String) : Option Nat :=
  s.toList.foldlM (fun acc c => do let v ← hexVal c; pure (acc * 16 + v)) 0

def parseKind : String → Option IntKind
  | "int" => some .int | "int8" => some .int8 | "int16" => some .int16 | "int32" => some .int32
  | "int64" => some .int64 | "uint" => some .uint | "uint8" => some .uint8 | "uint16" => some .uint16
  | "uint32" => some .uint32 | "uint64" => some .uint64 | "uintptr" => some .uintptr
  | _ => none

def kindName : IntKind → String
  | .int => "int" | .int8 => "int8" | .int16 => "int16" | .int32 => "int32" | .int64 => "int64"
  | .uint => "uint" | .uint8 => "uint8" | .uint16 => "uint16" | .uint32 => "uint32"
  | .uint64 => "uint64" | .uintptr => "uintptr"

partial def parseTy (s : String) : Option Ty :=
  match parseKind s with
  | some k => some (.int k)
  | none =>
    match s with
    | "f32" => some .f32 | "f64" => some .f64 | "bool" => some .bool | "str" => some .str
    | "iface" => some .iface | "error" => some .error | "emap" => some .emap
    | _ =>
      match s.toList with
      | 'S' :: rest => (parseTy (String.ofList rest)).map Ty.slice
      | 'N' :: rest =>
        let idS := String.ofList (rest.takeWhile (· != '('))
        let inner := ((rest.dropWhile (· != '(')).drop 1).dropLast
        do let id ← idS.toNat?; let u ← parseTy (String.ofList inner); pure (Ty.named id u)
      | 'i' :: 'o' :: rest => (String.ofList rest).toNat?.map Ty.ifaceOther
      | 'o' :: rest => (String.ofList rest).toNat?.map Ty.other
      | _ => none

partial def showTy : Ty → String
  | .int k => kindName k
  | .f32 => "f32" | .f64 => "f64" | .bool => "bool" | .str => "str"
  | .iface => "iface" | .error => "error" | .ifaceOther n => "io" ++ toString n
  | .slice t => "S" ++ showTy t
  | .emap => "emap"
  | .other n => "o" ++ toString n
  | .gmap k v => "M" ++ showTy k ++ "/" ++ showTy v
  | .named n u => "N" ++ toString n ++ "(" ++ showTy u ++ ")"

def parseTys (s : String) : Option (List Ty) :=
  if s = "-" then some [] else (s.splitOn ",").mapM parseTy

def parseSig (s : String) : Option Sig :=
  match s.splitOn ";" with
  | [p, v, r] => do
    let ps ← parseTys p
    let rs ← parseTys r
    pure { params := ps, variadic := v = "V", results := rs }
  | _ => none

/-! float64 bits ↔ `Num` -/

def decodeF64 (b : Nat) : Num :=
  let neg := b / 2 ^ 63 % 2 == 1
  let ex : Nat := b / 2 ^ 52 % 2048
  let mant : Nat := b % 2 ^ 52
  let sgn (n : Nat) : Int := if neg then -(n : Int) else (n : Int)
  if ex == 2047 then (if mant == 0 then .inf neg else .nan)
  else if ex == 0 then (if mant == 0 && neg then .negZero else .fin (sgn mant) (-1074))
  else .fin (sgn (mant + 2 ^ 52)) ((ex : Int) - 1075)

def hex16 (n : Nat) : String :=
  String.ofList ((List.range 16).reverse.map fun i => hexDigit (n / 16 ^ i % 16))

def encodeF64 : Num → String
  | .nan => "nan"
  | .negZero => "8000000000000000"
  | .inf neg => if neg then "fff0000000000000" else "7ff0000000000000"
  | .fin m e =>
    if m == 0 then "0000000000000000" else
    let r := roundSig 53 m e
    let a := r.1.natAbs
    let l := bitLen a
    let a' := a * 2 ^ (53 - l)
    let e' : Int := r.2 - ((53 - l : Nat) : Int)
    let biased : Int := e' + 1075
    let sign := if m < 0 then 2 ^ 63 else 0
    if biased ≥ 2047 then (if m < 0 then "fff0000000000000" else "7ff0000000000000")
    else if biased ≤ 0 then hex16 (sign + a' / 2 ^ (1 - biased).toNat)
    else hex16 (sign + biased.toNat * 2 ^ 52 + (a' - 2 ^ 52))

def parseNumBits (s : String) : Option Num :=
  if s = "nan" then some .nan else (parseHexNat s).map decodeF64

/-- split at the top-level occurrences of `sep` (outside brackets / braces / parentheses) -/
def splitTop (cs : List Char) (sep : Char) : List (List Char) :=
  let rec go (cs : List Char) (depth : Nat) (cur : List Char) (acc : List (List Char)) : List (List Char) :=
    match cs with
    | [] => (cur.reverse :: acc).reverse
    | c :: rest =>
      if c == sep && depth == 0 then go rest depth [] (cur.reverse :: acc)
      else if c == '[' || c == '{' || c == '(' then go rest (depth + 1) (c :: cur) acc
      else if c == ']' || c == '}' || c == ')' then go rest (depth - 1) (c :: cur) acc
      else go rest depth (c :: cur) acc
  go cs 0 [] []

def valsOfList : List Val → Vals
  | [] => .nil
  | v :: vs => .cons v (valsOfList vs)

/-- a value token; for `n:<bits>:<oracle>` also the oracle -/
partial def parseVal (s : String) : Option (Val × Option Int) :=
  match s.toList with
  -- q<type>[v,v,…] a Go slice / array; p<ktype>/<vtype>{k=v,…} a Go map
  | 'q' :: rest =>
    let tyS := String.ofList (rest.takeWhile (· != '['))
    let inner := ((rest.dropWhile (· != '[')).drop 1).dropLast
    do
      let t ← parseTy tyS
      let items ← (if inner.isEmpty then some [] else
        (splitTop inner ',').mapM fun cs => (parseVal (String.ofList cs)).map (·.1))
      pure (.seq t (valsOfList items), none)
  | 'p' :: rest =>
    let tyS := String.ofList (rest.takeWhile (· != '{'))
    let inner := ((rest.dropWhile (· != '{')).drop 1).dropLast
    match tyS.splitOn "/" with
    | [kS, vS] => do
      let kt ← parseTy kS
      let vt ← parseTy vS
      let items ← (if inner.isEmpty then some [] else
        (splitTop inner ',').mapM fun cs =>
          match splitTop cs '=' with
          | [k, v] => do
            let k ← parseVal (String.ofList k); let v ← parseVal (String.ofList v); pure [k.1, v.1]
          | _ => none)
      pure (.gomap kt vt (valsOfList items.flatten), none)
    | _ => none
  | 'N' :: rest =>
    let idS := String.ofList (rest.takeWhile (· != '('))
    let inner := ((rest.dropWhile (· != '(')).drop 1).dropLast
    do let id ← idS.toNat?; let v ← parseVal (String.ofList inner); pure (.named id v.1, none)
  | ['z'] => some (.nil, none)
  | ['f'] => some (.foreign (.other 1) "f", none)
  | 'e' :: _ => some (.foreign (.other 2) s, none)   -- error values: e plain, en typed nil, eb Error() panics, er runtime error, ez nil runtime error
  | 'b' :: ':' :: r => some (.bool (r == ['1']), none)
  | 's' :: ':' :: _ => some (.str s, none)
  | 'l' :: _ => some (.list s, none)
  | 'm' :: _ => some (.map s, none)
  | 'g' :: ':' :: r => (parseNumBits (String.ofList r)).map fun x => (.f32 x, none)
  | 'i' :: ':' :: r =>
    let (k, n) := splitFirst (String.ofList r) ':'
    do let k ← parseKind k; let n ← n.toInt?; pure (.int k n, none)
  | 'n' :: ':' :: r =>
    let (b, o) := splitFirst (String.ofList r) ':'
    let o := String.ofList (o.toList.filter (· != '!'))
    do let x ← parseNumBits b; pure (.f64 x, o.toInt?)
  | _ => none

partial def showVal : Val → String
  | .seq t xs => "q" ++ showTy t ++ "[" ++ ",".intercalate (xs.toList.map showVal) ++ "]"
  | .gomap kt vt kvs => "p" ++ showTy kt ++ "/" ++ showTy vt ++ "{" ++ ",".intercalate (showPairs kvs.toList) ++ "}"
  | .elist xs => "l[" ++ ",".intercalate (xs.toList.map showVal) ++ "]"
  | .emapv kvs => "m{" ++ ",".intercalate (showPairs kvs.toList) ++ "}"
  | .nil => "z"
  | .bool b => if b then "b:1" else "b:0"
  | .int k n => "i:" ++ kindName k ++ ":" ++ toString n
  | .f32 x => "g:" ++ encodeF64 x
  | .f64 x => "n:" ++ encodeF64 x
  | .str c => c
  | .list c => c
  | .map c => c
  | .foreign _ c => c
  | .named id v => "N" ++ toString id ++ "(" ++ showVal v ++ ")"
where
  showPairs : List Val → List String := fun l =>
    let rec pairs : List Val → List String
      | k :: v :: rest => (showVal k ++ "=" ++ showVal v) :: pairs rest
      | _ => []
    ((pairs l).toArray.qsort (· < ·)).toList

def showRet : Ret → String
  | .one v => showVal v
  | .many vs => "l[" ++ ",".intercalate (vs.map showVal) ++ "]"

def showRecv : Option (List Val) → String
  | none => "recv=-"
  | some l => "recv=[" ++ ";".intercalate (l.map showVal) ++ "]"

def mkBody (sig : Sig) (b : String) : Option (List Val → BodyOut) :=
  if b = "echo" then some .ret
  else if b = "vlen" then
    let n := sig.params.length - 1
    some fun l => .ret (l.take n ++ [.int .int ((l.length - n : Nat) : Int)])
  else if b = "panic" then some fun _ => .panic
  else if b = "panicnil" then some fun _ => .panicNil
  -- plugin bodies: first argument (any / a string / a number), number of arguments
  else if b = "pfirst" then some fun l => match l with | a :: _ => .ret [a, .nil] | [] => .panic
  else if b = "pstr" then some fun l => match l with | .str c :: _ => .ret [.str c, .nil] | _ => .panic
  else if b = "pnum" then some fun l => match l with | .f64 x :: _ => .ret [.f64 x, .nil] | _ => .panic
  else if b = "plen" then some fun l => .ret [.f64 (Num.ofInt l.length), .nil]
  else if b = "plenint" then some fun l => .ret [.int .int l.length, .nil]
  else if b = "opaque" then some fun _ => .ret []
  else if b.startsWith "echo+" then
    let r := String.ofList (b.toList.drop 5)
    (r.splitOn "|").mapM (fun t => (parseVal t).map (·.1)) |>.map fun vs => fun l => .ret (l ++ vs)
  else if b.startsWith "k:" then
    let r := String.ofList (b.toList.drop 2)
    if r = "" then some fun _ => .ret []
    else (r.splitOn "|").mapM (fun t => (parseVal t).map (·.1)) |>.map fun vs => fun _ => .ret vs
  else none

/-- The model runs with the shape of `Run` that the proof requires (`Props.C19.shape_recovers` checks
    that the regenerated facts do not refute it): if the source loses its recover, the run shows a
    concrete crashing input instead of agreeing with the broken code. -/
def requiredShape : Shape :=
  { recovers := true, arityChecked := true, nilPanicReported := true }

/-- how `executeFunction` experiences the harness's error values -/
def errKind : Val → ErrKind
  | .foreign _ c =>
    if c = "en" || c = "eb" then .errorPanics
    else if c = "er" then .runtimeError
    else if c.startsWith "ez" then .nilRuntimeError        -- ez: nil pointer; ezd: non-nil *RuntimeErrorWithDetail with nil embedded pointer
    else if c.startsWith "et" then .runtimeErrorNoType     -- et / etd: a runtime error whose Type is nil
    else .plain
  | _ => .plain

def runCase (payload : String) : String :=
  match payload.splitOn " " with
  | _name :: mode :: sigS :: bodyS :: argS =>
    -- d / i / t = D / I / T executed under GODEBUG=panicnil=1 (the body description says what that means)
    let mode := mode.toUpper
    match parseSig sigS, argS.mapM parseVal with
    | some sig, some argsO =>
      let args := argsO.map (·.1)
      -- `!` on an argument = the harness says its conversion is out of the parameter kind's range;
      -- the model decides the same question itself (`IntKind.inRange` of the truncation) and must agree
      let marked := argS.map (·.endsWith "!")
      let rec kindTy : Ty → Ty
        | .named _ u => kindTy u
        | t => t
      let modelOob := (args.zip (sig.params.map (fun t => some (kindTy t)) ++ List.replicate args.length none)).map fun (v, p) =>
        match v, p with
        | .f64 x, some (.int k) => (match x.trunc with | some n => !k.inRange n | none => true)
        | _, _ => false
      if marked != modelOob then "RANGE-MARKER-MISMATCH" else
      -- per position: a received value is masked where its argument is marked; a returned value where
      -- the body hands a marked argument back (echo, echo+…, the fixed part of vlen)
      let maskRes : List Bool :=
        if bodyS = "echo" || bodyS.startsWith "echo+" then marked
        else if bodyS = "vlen" then marked.take (sig.params.length - 1)
        else []
      let showM := fun (m : Bool) (v : Val) => if m then "~" else showVal v
      let zipM := fun (ms : List Bool) (vs : List Val) =>
        (vs.zip (ms ++ List.replicate vs.length false)).map fun (v, m) => showM m v
      -- the platform's out-of-range conversions, keyed by (kind, number)
      let table : List (IntKind × Num × Int) := (argsO.zip sig.params).filterMap fun ((v, o), p) =>
        match v, o, p with
        | .f64 x, some n, .int k => some (k, x, n)
        | _, _, _ => none
      let oob : IntKind → Num → Int := fun k x =>
        match table.find? (fun t => t.1 == k && t.2.1 == x) with
        | some t => t.2.2
        | none => 0
      let tgt? : Option Target :=
        if bodyS = "notfunc" then some .notFunc else (mkBody sig bodyS).map (Target.fn sig)
      match tgt? with
      | none => "bad-body"
      | some tgt =>
        let showRet := fun (r : Ret) => match r with
          | .one v => showM (maskRes.headD false) v
          | .many vs => "l[" ++ ",".intercalate (zipM maskRes vs) ++ "]"
        let opaqueV := bodyS = "opaque"
        -- the result line for an argument vector; `tr` is applied to what Run returned before it is printed:
        -- `id` = the code as it is (model); `demandedResult` = what the property demands of nested results
        let lineFor := fun (args : List Val) (tr : Ret → Ret) =>
          let out := run requiredShape oob tgt args
          let reached := if bodyS = "notfunc" then none else reaches oob sig args
          let recv := if bodyS = "opaque" && reached.isSome then "recv=?"
            else match reached with
              | none => "recv=-"
              | some l => "recv=[" ++ ";".intercalate (zipM marked l) ++ "]"
          let txt :=
            if mode = "D" then
              match out with
              | .escaped => "X"
              | .done r none => "V " ++ (if opaqueV then "?" else showRet (tr r)) ++ " " ++ recv
              | .done _ (some (.func _)) => "E f " ++ recv
              | .done _ (some _) => "E b " ++ recv
            else if mode = "T" then
              match tryExcept (executeFunction true errKind out) with
              | .crash => "X"
              | .value r => "V " ++ (if opaqueV then "?" else showRet (tr r)) ++ " " ++ recv
              | .handled => "C " ++ recv
            else
              match executeFunction true errKind out with
              | .crash => "X"
              | .value r => "V " ++ (if opaqueV then "?" else showRet (tr r)) ++ " " ++ recv
              | .runtimeError => "E " ++ recv
              | .brokenRuntimeError => "E " ++ recv
          (txt, reached.isSome)
        let demand : Ret → Ret := fun r => match r with
          | .one v => .one (demandedResult .iface v)
          | .many vs => .many (vs.map (demandedResult .iface))
        let (res, reachedB) := lineFor args id
        let nt := if reachedB then "\tnt=1" else ""
        let spec := (lineFor args demand).1
        -- A number for a parameter of a DEFINED numeric type (time.Duration …) is rejected by the code
        -- (`named_numeric_param_rejects_numbers`); the property permits that answer and the obvious repair
        -- alike, so the line of a bridge that converts to the defined type is accepted as well (spec=).
        let argsAlt := (args.zip (sig.params.map some ++ List.replicate args.length none)).map fun (v, p) =>
          match v, p with
          | .f64 x, some (.named id u) =>
            if (kindTy u).isNumeric && numberFits x u then Val.named id (convertNumber oob x u) else v
          | v, _ => v
        let alt := (lineFor argsAlt id).1
        let res :=
          if spec != res then res ++ "\tkf=nested-result-numbers\tspec=" ++ spec
          else if alt != res then res ++ "\tspec=" ++ alt
          else res
        res ++ nt
    | _, _ => "bad-payload"
  | _ => "bad-payload"

/-! ## mode R: one program, evaluated repeatedly / concurrently, whose bridged call sites are re-entered

  `reent R <goroutines> <rounds> <main> <fn>…`, expressions in postfix notation, tokens joined by `,`:
  `c.<int>` constant, `v.<name>` variable, `+`, `-`, `B.<name>.<argc>` bridged call, `U.<name>.<argc>`
  user call; `<fn>` = `<name>;<param>/<param>…;<base>;<step>` (body: `if p₀ == 0 { return base } return step`).
  Result: `V <value> recv=[<vector>|<vector>…]` — the argument vectors the Go functions received, for
  one goroutine in call order (repeated per round), for several as a sorted multiset. -/
open Ecal.Reentry in
def parseRpn (s : String) : Option Expr :=
  let step (st : Option (List Expr)) (tok : String) : Option (List Expr) := do
    let st ← st
    match tok.splitOn "." with
    | ["c", n] => do let n ← n.toInt?; pure (.num n :: st)
    | ["v", x] => pure (.var x :: st)
    | ["+"] => match st with | b :: a :: r => pure (.add a b :: r) | _ => none
    | ["-"] => match st with | b :: a :: r => pure (.sub a b :: r) | _ => none
    | [k, f, n] => do
      let n ← n.toNat?
      if st.length < n then none else
      let args := ((st.take n).reverse).foldr (fun e acc => Args.cons e acc) Args.nil
      if k = "B" then pure (.callB f args :: st.drop n)
      else if k = "U" then pure (.callU f args :: st.drop n) else none
    | _ => none
  match (s.splitOn ",").foldl step (some []) with
  | some [e] => some e
  | _ => none

open Ecal.Reentry in
def parseFn (s : String) : Option FnDef :=
  match s.splitOn ";" with
  | [name, ps, b, st] => do
    let b ← parseRpn b
    let st ← parseRpn st
    pure { name := name, params := ps.splitOn "/", base := b, step := st }
  | _ => none

open Ecal.Reentry in
def runReentry (fields : List String) : String :=
  match fields with
  | g :: rounds :: mainS :: fnS =>
    match g.toNat?, rounds.toNat?, parseRpn mainS, fnS.mapM parseFn with
    | some g, some rounds, some main, some fns =>
      match eval fns 400 [] main [] with
      | none => "MODEL-ERROR"
      | some (v, log) =>
        let vecs := log.map fun l => ";".intercalate (l.map showVal)
        let all := (List.replicate (g * rounds) vecs).flatten
        let all := if g ≤ 1 then all else (all.toArray.qsort (· < ·)).toList
        "V " ++ showVal (.f64 (Num.ofInt v)) ++ " recv=[" ++ "|".intercalate all ++ "]\tnt=1"
    | _, _, _, _ => "bad-payload"
  | _ => "bad-payload"

def runCaseAll (payload : String) : String :=
  match payload.splitOn " " with
  | _ :: "R" :: rest => runReentry rest
  | _ => runCase payload

def run (_args : List String) : IO Unit := lineLoop runCaseAll
end Ecal.Drv.C19
