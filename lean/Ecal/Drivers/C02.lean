import Ecal.Drivers.Util
import Ecal.Model.Cascade
/-!
Driver of C02 (payload format: see `go/cmd/harness/c02.go`).

* `driver C02`        : for every cascade plan of the case, executes the plan on the transition
  system `Ecal.Cascade.step` (sequential schedule on worker 0 — the quantities printed are fixed by the
  theorems of `Props.C02` in every final state: `errors_exact`, `finish_notification_exactly_once`,
  `all_handed_monitors_finish`, `wait_after_cascade`) and prints the expected canonical result.
* `driver C02 replay` : payload = `<plan> ~ <trace> ; <trace> …`; maps the recorded trace tokens of
  every cascade to events of the transition system and replays them with `step`, checking the
  recorded counter values. Result: `ok <number of events>` or `reject <cascade> <position> <token> <why>`.
-/
namespace Ecal.Drv.C02
open Ecal.Drv Ecal.Cascade

structure Node where
  parent : Option Nat
  prule  : Nat
  kind   : Char
  rules  : List Bool
  deriving Repr

structure Casc where
  wait  : Bool
  nodes : Array Node

structure Plan where
  workers   : Nat
  failFirst : Bool
  ecal      : Bool
  cascs     : List Casc

def parseNode (s : String) : Option Node :=
  match s.splitOn "." with
  | [p, r, k, rs] =>
    let kind := k.toList.headD 't'
    let rules := if rs = "-" then [] else rs.toList.map (· == 'o')
    if p = "-" then some { parent := none, prule := 0, kind, rules }
    else do
      let p ← p.toNat?
      let r ← r.toNat?
      some { parent := some p, prule := r, kind, rules }
  | _ => none

def parseCasc (s : String) : Option Casc :=
  match s.splitOn "=" with
  | [m, ns] => do
    let nodes ← (ns.splitOn "/").mapM parseNode
    some { wait := m = "w", nodes := nodes.toArray }
  | _ => none

def parsePlan (s : String) : Option Plan :=
  match s.splitOn " " with
  | hdr :: cs => do
    let mut workers := 1
    let mut ff := false
    let mut ecal := false
    for h in hdr.splitOn "," do
      let v := ((h.drop 1).toString.toNat?).getD 0
      if h.startsWith "W" then workers := v
      if h.startsWith "F" then ff := v == 1
      if h.startsWith "M" then ecal := v == 1
    let cascs ← cs.mapM parseCasc
    some { workers, failFirst := ff, ecal, cascs }
  | _ => none

def childrenOf (c : Casc) (n k : Nat) : List Nat :=
  (List.range c.nodes.size).filter fun i =>
    match c.nodes[i]? with
    | some nd => nd.parent == some n && nd.prule == k
    | none => false

/-- the `addEvent` event of plan node `n` for monitor `m` -/
def addEv (c : Casc) (m n : Nat) : Event :=
  match c.nodes[n]? with
  | some nd =>
    if nd.kind == 't' then .addEvent m true (List.range nd.rules.length)
    else if nd.kind == 'z' then .addEvent m true []
    else .addEvent m false []
  | none => .addEvent m false []

def steps (s : State) (es : List Event) : Option State := run s es

/-- execute the rules of monitor `m` (plan node `n`): children of a rule are created and added
    while the rule's action executes -/
def ruleLoop (c : Casc) (n m : Nat) : Nat → State → Array Nat → List Nat → Option (State × Array Nat × List Nat)
  | 0, s, nodeOf, kids => some (s, nodeOf, kids)
  | fuel + 1, s, nodeOf, kids =>
    match s.mons[m]? with
    | some mon =>
      match mon.todo with
      | [] => some (s, nodeOf, kids)
      | k :: _ => do
        let mut s := s
        let mut nodeOf := nodeOf
        let mut kids := kids
        for ch in childrenOf c n k do
          let cid := s.mons.length
          s ← step s (.newChild m)
          s ← step s (addEv c cid ch)
          nodeOf := nodeOf.push ch
          match s.mons[cid]? with
          | some cm => if cm.phase == .queued then kids := kids ++ [cid]
          | none => pure ()
        let ok := match c.nodes[n]? with
          | some nd => nd.rules.getD k true
          | none => true
        s ← step s (.ruleReturns m ok)
        ruleLoop c n m fuel s nodeOf kids
    | none => none

def taskLoop (c : Casc) : Nat → List Nat → State → Array Nat → Option (State × Array Nat)
  | 0, _, s, nodeOf => some (s, nodeOf)
  | _, [], s, nodeOf => some (s, nodeOf)
  | fuel + 1, m :: rest, s, nodeOf => do
    let n := nodeOf.getD m 0
    let s ← step s (.pop 0 m)
    let (s, nodeOf, kids) ← ruleLoop c n m 64 s nodeOf []
    let s ← step s (.taskDone m)
    let failing : Bool := match s.mons[m]? with
      | some mon => mon.phase != .done
      | none => false
    let s ← if failing then steps s [.setErrors m, .allErrors, .errFinish m, .allErrors, .notified m] else some s
    taskLoop c fuel (rest ++ kids) s nodeOf

def repeatStep (e : Event) : Nat → State → State
  | 0, s => s
  | n + 1, s => match step s e with
    | some s' => repeatStep e n s'
    | none => s

def insertSorted (x : Nat × Nat) : List (Nat × Nat) → List (Nat × Nat)
  | [] => [x]
  | y :: ys => if x.1 < y.1 || (x.1 == y.1 && x.2 ≤ y.2) then x :: y :: ys else y :: insertSorted x ys

def sortPairs (l : List (Nat × Nat)) : List (Nat × Nat) := l.foldr insertSorted []

/-- run the plan of one cascade to its end; result line of the cascade -/
def expected (p : Plan) (c : Casc) : String :=
  let r : Option (State × Array Nat) := do
    let s := init p.workers p.failFirst
    let s ← if c.wait then step s .register else some s
    let s ← match addEv c 0 0 with
      | .addEvent _ true _ => step s .regHandler   -- AddEvent of a triggering root event: observer first
      | _ => some s
    let s ← step s (addEv c 0 0)
    let work := match s.mons[0]? with
      | some r => if r.phase == .queued then [0] else []
      | none => []
    let (s, nodeOf) ← taskLoop c 100000 work s #[0]
    let s := repeatStep .post 2 s
    let s := repeatStep (.observerRuns .queue) 1000 s
    let s := repeatStep (.observerRuns .handler) 2 s
    let s := repeatStep (.observerRuns .wait) 2 s
    let s := repeatStep .waitReturns 1 s
    some (s, nodeOf)
  match r with
  | none => "model-stuck"
  | some (s, nodeOf) =>
    let rootTrig := match s.mons[0]? with
      | some r => !r.skipped
      | none => false
    let returned := if c.wait then s.waitReturned else (s.handlerCalls ≥ 1 || !rootTrig)
    if !returned || s.panicked then "ret=0"
    else
      let handed := s.mons.filter fun m => m.phase != .fresh
      let fin := handed.filter fun m => m.phase.finished
      let pending := s.mons.filter fun m => !m.todo.isEmpty
      let errs := (allErrors s).flatMap fun (i, e) =>
        match e with
        | some rs => rs.map fun r => (nodeOf.getD i 9999, r)
        | none => [(9999, 9999)]
      let errs := sortPairs errs
      let es := if errs.isEmpty then "-" else ",".intercalate (errs.map fun (n, k) => s!"{n}.{k}e")
      -- through ECAL sinks the root monitor is created inside the builtin: handler and monitors are not observable
      let hf := if p.ecal then "handler=- fin=-" else s!"handler={s.handlerCalls} fin={fin.length}/{handed.length}"
      s!"ret=1 early={pending.length} {hf} errs={es} foreign=0 nil=0"

def nontrivial (p : Plan) : Bool :=
  p.cascs.any fun c => c.nodes.size ≥ 3 && c.nodes.any fun n => n.rules.any (!·)

def runCase (payload : String) : String :=
  match parsePlan payload with
  | none => "bad-payload"
  | some p =>
    " ; ".intercalate (p.cascs.map (expected p)) ++ (if nontrivial p then "\tnt=1" else "")

/-! ### trace replay -/

def nats (s : String) : List Nat := (s.splitOn ".").map fun x => x.toNat?.getD 9999

def chk (b : Bool) (msg : String) : Except String Unit := if b then .ok () else .error msg

def stepE (s : State) (e : Event) : Except String State :=
  match step s e with
  | some s' => .ok s'
  | none => .error s!"event not enabled in the model: {repr e}"

def replayTok (c : Casc) (s : State) (tok : String) : Except String State := do
  let kind := tok.toList.headD ' '
  let a := nats (tok.drop 1).toString
  let phaseOf (m : Nat) : Option Phase := (s.mons[m]?).map (·.phase)
  match kind, a with
  | 'W', _ => stepE s .register
  | 'J', _ => stepE s .regHandler
  | 'K', [m] => do
    chk (match phaseOf m with | some .fresh => false | none => false | _ => true) "AddTask returned for a monitor that was not handed over"
    pure s
  | 'R', [n] => do
    let s' ← stepE s .waitReturns
    chk (n == (allErrors s').length) s!"AllErrors after the return: model {(allErrors s').length} entries, code {n}"
    pure s'
  | 'P', _ => stepE s .post
  | 'D', _ => stepE s .dropQueue
  | 'O', _ =>
    -- the pump calls the callbacks of its snapshot in registration order: wait, handler, queue
    if tok == "Ow" then stepE s (.observerRuns .wait)
    else if tok == "Oh" then do
      chk (s.dWait == 0) "handler callback before the wait callback"
      stepE s (.observerRuns .handler)
    else do
      chk (s.dWait == 0 && s.dHandler == 0) "queue callback before the wait/handler callbacks"
      stepE s (.observerRuns .queue)
  | 'A', [m, n] =>
    match addEv c m n with
    | .addEvent m true rs => stepE s (.addEvent m true rs)
    | _ => .error "a task was queued for an event the plan calls non-triggering"
  | 'C', [p, m, u] => do
    chk (m == s.mons.length) "child id out of creation order"
    let s' ← stepE s (.newChild p)
    chk (s'.unfinished == u) s!"unfinished after NewChildMonitor: model {s'.unfinished}, code {u}"
    pure s'
  | 'B', [m, w] => stepE s (.pop w m)
  | 'G', [m] => do
    chk (match phaseOf m with | some (.running _) => true | _ => false) "Task.Run of a monitor which is not running"
    pure s
  | 'E', [m, k, ok] => do
    chk (((s.mons[m]?).bind (·.todo.head?)) == some k) s!"action {k} returned but is not the head of the trigger sequence"
    stepE s (.ruleReturns m (ok == 1))
  | 'N', [m, nerr] => do
    match s.mons[m]? with
    | some mon =>
      chk (mon.todo.isEmpty) "ProcessEvent returned with rules left"
      chk (mon.failed.length == nerr) s!"number of errors: model {mon.failed.length}, code {nerr}"
      if nerr > 0 then stepE s (.taskDone m) else pure s
    | none => .error "unknown monitor"
  | 'T', [m] => stepE s (.setErrors m)
  | 'H', [m] => stepE s (.notified m)
  | 'F', [m, u, n] => do
    let s' ← match phaseOf m with
      | some .fresh => do
        chk ((c.nodes[n]?).map (·.kind) == some 's') "Skip of an event the plan calls triggering"
        stepE s (.addEvent m false [])
      | some (.running _) => stepE s (.taskDone m)
      | some (.errSet _) => stepE s (.errFinish m)
      | _ => .error "descendantFinished for a monitor which cannot finish"
    chk (s'.unfinished == u) s!"unfinished after Finish: model {s'.unfinished}, code {u}"
    chk ((s'.mons[m]?).map (·.phase.finished) == some true) "monitor not finished after Finish"
    pure s'
  | 'U', [_m, b] => do
    chk (b == 0 || s.postPending ≥ 1) "descendantFinished saw zero but the model did not"
    pure s
  | 'X', [n] => do
    let s' ← stepE s .allErrors
    chk (1 ≤ n && n ≤ (s.mons.filter fun m => !m.failed.isEmpty).length) "AllErrors entries seen by the error observer: more than failed tasks, or none"
    pure s'
  | _, _ => .error "unknown token"

def replayCasc (p : Plan) (c : Casc) (trace : String) : Except String Nat := do
  let toks := if trace.trimAscii.toString.isEmpty then [] else trace.trimAscii.toString.splitOn ","
  let mut s := init p.workers p.failFirst
  let mut k := 0
  -- a tree without the call sites `cascade.handler.registered` / `cascade.added` (hooks/C02b.patch):
  -- the registration of the finish-handler observer is not visible, assume it where the code has it
  let legacy := toks.any (·.startsWith "A") && !(toks.any (·.startsWith "K"))
  for t in toks do
    if legacy && t.startsWith "A0." then
      match step s .regHandler with
      | some s' => s := s'
      | none => throw s!"{k} {t} regHandler not enabled"
    match replayTok c s t with
    | .ok s' => s := s'
    | .error e => throw s!"{k} {t} {e}"
    k := k + 1
  -- end of the recorded run: the cascade is over
  chk (s.posted == 1) "finished message not posted exactly once at the end of the trace"
  chk (s.mons.all fun m => m.phase.finished) "unfinished monitor at the end of the trace"
  chk (!c.wait || s.waitReturned) "wait did not return in the trace"
  chk (!s.panicked) "model assertion failed"
  pure (if legacy then k * 2 + 1 else k * 2)

def replayCase (payload : String) : String :=
  match payload.splitOn " ~ " with
  | [pl, trs] =>
    match parsePlan pl with
    | none => "bad-payload"
    | some p =>
      let traces := trs.splitOn " ; "
      if traces.length != p.cascs.length then "bad-trace-count"
      else
        let rs := (p.cascs.zip traces).zipIdx.map fun ((c, t), i) =>
          match replayCasc p c t with
          | .ok n => (i, n, "")
          | .error e => (i, 0, e)
        match rs.find? (fun (_, _, e) => e != "") with
        | some (i, _, e) => s!"reject {i} {e}"
        | none => s!"ok {rs.foldl (fun acc (_, n, _) => acc + n / 2) 0} legacy={rs.foldl (fun acc (_, n, _) => acc + n % 2) 0}"
  | _ => "bad-payload"

def run (args : List String) : IO Unit :=
  match args with
  | ["replay"] => lineLoop replayCase
  | _ => lineLoop runCase

end Ecal.Drv.C02
