import Ecal.Drivers.Util
import Ecal.Model.Cascade
import Ecal.Model.CascadeShared
import Std.Data.HashSet
/-!
Driver of C02 (payload format: see `go/cmd/harness/c02.go`).

* `driver C02`        : for every cascade plan of the case, executes the plan on the transition
  system `Ecal.Cascade.step` (sequential schedule on worker 0 — the quantities printed are fixed by the
  theorems of `Props.C02` in every final state: `errors_exact`, `finish_notification_exactly_once`,
  `all_handed_monitors_finish`, `wait_after_cascade`) and prints the expected canonical result.
* `driver C02 replay` : payload = `<plan> ~ <trace> ; <trace> …`; maps the recorded trace tokens of
  every cascade to events of the transition system and replays them with `step`, checking the
  recorded counter values. Result: `ok <number of events>` or `reject <cascade> <position> <token> <why>`.
-/
namespace Ecal.Drv.C02
open Ecal.Drv Ecal.Cascade

structure Node where
  parent : Option Nat
  prule  : Nat
  kind   : Char
  /-- outcome per rule: true = returns nil -/
  rules  : List Bool
  /-- the rule characters (o x O X r) -/
  raw    : List Char
  /-- c child monitor; n nested wait; d/l/u detached (new root monitor) -/
  link   : Char
  deriving Repr

/-- a UNIT: the cascade of one root monitor — the outer cascade of a plan cascade, or a nested /
    detached cascade started by an action on a new root monitor -/
structure Casc where
  wait     : Bool
  detached : Bool
  root     : Nat
  nodes    : Array Node
  /-- (unit, node, rule) whose action starts this unit -/
  startedBy : Option (Nat × Nat × Nat)

structure Plan where
  workers   : Nat
  failFirst : Bool
  ecal      : Bool
  noHandler : Bool
  nilRoot   : Bool
  cascs     : List Casc

def parseNode (s : String) : Option Node :=
  let f := s.splitOn "."
  match f with
  | p :: r :: k :: rs :: rest =>
    let kind := k.toList.headD 't'
    let raw := if rs = "-" then [] else rs.toList
    let rules := raw.map fun ch => ch == 'o' || ch == 'O' || ch == 'P'
    let link := (rest.head?.bind (·.toList.head?)).getD 'c'
    if p = "-" then some { parent := none, prule := 0, kind, rules, raw, link := 'c' }
    else do
      let p ← p.toNat?
      let r ← r.toNat?
      some { parent := some p, prule := r, kind, rules, raw, link }
  | _ => none

/-- the units of one plan cascade, in node order; `base` = index of the first one in the flat list -/
def parseCasc (base : Nat) (s : String) : Option (List Casc) :=
  match s.splitOn "=" with
  | [m, ns] => do
    let nodes ← (ns.splitOn "/").mapM parseNode
    let arr := nodes.toArray
    -- owner unit (local index) of every node
    let mut owner : Array Nat := #[]
    let mut units : List Casc := []
    let mut ni := 0
    for nd in nodes do
      match nd.parent with
      | none =>
        owner := owner.push units.length
        units := units ++ [{ wait := m = "w", detached := false, root := ni, nodes := arr, startedBy := none }]
      | some pn =>
        if nd.link != 'c' then
          owner := owner.push units.length
          units := units ++ [{ wait := nd.link == 'n', detached := nd.link != 'n', root := ni, nodes := arr,
                               startedBy := some (base + owner.getD pn 0, pn, nd.prule) }]
        else owner := owner.push (owner.getD pn 0)
      ni := ni + 1
    some units
  | _ => none

def parsePlan (s : String) : Option Plan :=
  match s.splitOn " " with
  | hdr :: cs => do
    let mut workers := 1
    let mut ff := false
    let mut ecal := false
    let mut noHandler := false
    let mut nilRoot := false
    for h in hdr.splitOn "," do
      let v := ((h.drop 1).toString.toNat?).getD 0
      if h.startsWith "W" then workers := v
      if h.startsWith "F" then ff := v == 1
      if h.startsWith "M" then ecal := v == 1
      if h.startsWith "H" then noHandler := noHandler || v == 0
      -- R0: AddEventAndWait(ev, nil): no handler can be set on the monitor created inside
      if h.startsWith "R" then nilRoot := v == 0
    let mut cascs : List Casc := []
    for c in cs do
      let us ← parseCasc cascs.length c
      cascs := cascs ++ us
    some { workers, failFirst := ff, ecal, noHandler, nilRoot, cascs }
  | _ => none

def childrenOf (c : Casc) (n k : Nat) : List Nat :=
  (List.range c.nodes.size).filter fun i =>
    match c.nodes[i]? with
    | some nd => nd.parent == some n && nd.prule == k && nd.link == 'c'
    | none => false

/-- the `addEvent` event of plan node `n` for monitor `m` -/
def addEv (c : Casc) (m n : Nat) : Event :=
  match c.nodes[n]? with
  | some nd =>
    if nd.kind == 't' then .addEvent m true (List.range nd.rules.length)
    else if nd.kind == 'z' then .addEvent m true []
    else .addEvent m false []
  | none => .addEvent m false []

def steps (s : State) (es : List Event) : Option State := run s es

/-- execute the rules of monitor `m` (plan node `n`): children of a rule are created and added
    while the rule's action executes -/
def ruleLoop (c : Casc) (n m : Nat) : Nat → State → Array Nat → List Nat → Option (State × Array Nat × List Nat)
  | 0, s, nodeOf, kids => some (s, nodeOf, kids)
  | fuel + 1, s, nodeOf, kids =>
    match s.mons[m]? with
    | some mon =>
      match mon.todo with
      | [] => some (s, nodeOf, kids)
      | k :: _ => do
        let mut s := s
        let mut nodeOf := nodeOf
        let mut kids := kids
        for ch in childrenOf c n k do
          let cid := s.mons.length
          s ← step s (.newChild m)
          s ← step s (addEv c cid ch)
          nodeOf := nodeOf.push ch
          match s.mons[cid]? with
          | some cm => if cm.phase == .queued then kids := kids ++ [cid]
          | none => pure ()
        let ok := match c.nodes[n]? with
          | some nd => nd.rules.getD k true
          | none => true
        s ← step s (.ruleReturns m ok)
        ruleLoop c n m fuel s nodeOf kids
    | none => none

def taskLoop (c : Casc) : Nat → List Nat → State → Array Nat → Option (State × Array Nat)
  | 0, _, s, nodeOf => some (s, nodeOf)
  | _, [], s, nodeOf => some (s, nodeOf)
  | fuel + 1, m :: rest, s, nodeOf => do
    let n := nodeOf.getD m 0
    let s ← step s (.pop 0 m)
    let (s, nodeOf, kids) ← ruleLoop c n m 64 s nodeOf []
    let s ← step s (.taskDone m)
    let failing : Bool := match s.mons[m]? with
      | some mon => mon.phase != .done
      | none => false
    let s ← if failing then steps s [.setErrors m, .allErrors, .errFinish m, .allErrors, .notified m] else some s
    taskLoop c fuel (rest ++ kids) s nodeOf

def repeatStep (e : Event) : Nat → State → State
  | 0, s => s
  | n + 1, s => match step s e with
    | some s' => repeatStep e n s'
    | none => s

def insertSorted (x : Nat × Nat) : List (Nat × Nat) → List (Nat × Nat)
  | [] => [x]
  | y :: ys => if x.1 < y.1 || (x.1 == y.1 && x.2 ≤ y.2) then x :: y :: ys else y :: insertSorted x ys

def sortPairs (l : List (Nat × Nat)) : List (Nat × Nat) := l.foldr insertSorted []

/-- the canonical result line of a cascade read off a final state -/
def resultOf (p : Plan) (c : Casc) (s : State) (nodeOf : List Nat) : String :=
  let rootTrig := match s.mons[0]? with
    | some r => !r.skipped
    | none => false
  let returned := if c.wait then s.waitReturned else (s.handlerCalls ≥ 1 || !rootTrig)
  if !returned || s.panicked then "ret=0"
  else
    let handed := s.mons.filter fun m => m.phase != .fresh
    let fin := handed.filter fun m => m.phase.finished
    let pending := s.mons.filter fun m => !m.todo.isEmpty
    let errs := (allErrors s).flatMap fun (i, e) =>
      match e with
      | some rs => rs.map fun r => (nodeOf.getD i 9999, r)
      | none => [(9999, 9999)]
    let errs := sortPairs errs
    -- error class: e = the planned error, r = (ECAL) the sink ended in `return`
    let cls := fun (n k : Nat) => match (c.nodes[n]?).bind (·.raw[k]?) with
      | some 'r' => "r"
      | _ => "e"
    let es := if errs.isEmpty then "-" else ",".intercalate (errs.map fun (n, k) => s!"{n}.{k}{cls n k}")
    -- through ECAL sinks the root monitor is created inside the builtin: handler and monitors are not observable
    let hf := if p.ecal then "handler=- fin=-"
      else if (p.noHandler || (p.nilRoot && (c.nodes[c.root]?).map (·.kind) != some 's')) && c.wait && c.startedBy.isNone then s!"handler=- fin={fin.length}/{handed.length}"
      else s!"handler={s.handlerCalls} fin={fin.length}/{handed.length}"
    s!"ret=1 early={pending.length} {hf} errs={es} foreign=0 nil=0"

/-- run the plan of one unit to its end on the transition system -/
def runUnit (p : Plan) (c : Casc) : Option (State × List Nat) := do
  let s := init p.workers p.failFirst
  let s ← if c.wait then step s .register else some s
  let s ← match addEv c 0 c.root with
    | .addEvent _ true _ => step s .regHandler   -- AddEvent of a triggering root event: observer first
    | _ => some s
  let s ← step s (addEv c 0 c.root)
  let work := match s.mons[0]? with
    | some r => if r.phase == .queued then [0] else []
    | none => []
  let (s, nodeOf) ← taskLoop c 100000 work s #[c.root]
  let s := repeatStep .post 2 s
  let s := repeatStep (.observerRuns .queue) 1000 s
  let s := repeatStep (.observerRuns .handler) 2 s
  let s := repeatStep (.observerRuns .wait) 2 s
  let s := repeatStep .waitReturns 1 s
  some (s, nodeOf.toList)

/-- number of rules of plan node `n` that execute (failOnFirstError cuts after the first failure) -/
def rulesRun (p : Plan) (c : Casc) (n : Nat) : Nat :=
  match c.nodes[n]? with
  | some nd =>
    if nd.kind != 't' then 0
    else if p.failFirst then
      match nd.rules.findIdx? (!·) with
      | some i => i + 1
      | none => nd.rules.length
    else nd.rules.length
  | none => 0

/-- did rule `k` of plan node `n` run in the final state of its unit? -/
def ranRule (p : Plan) (c : Casc) (s : State) (nodeOf : List Nat) (n k : Nat) : Bool :=
  (nodeOf.zip s.mons).any (fun (nd, m) => nd == n && m.phase.finished && !m.skipped) && k < rulesRun p c n

/-- result line of the unit (stand-alone: outer cascade, or a unit known to be started) -/
def expected (p : Plan) (c : Casc) : String :=
  match runUnit p c with
  | none => "model-stuck"
  | some (s, nodeOf) =>
    if c.detached then
      let done := (nodeOf.zip s.mons).foldl (fun a (nd, m) => if m.skipped then a else a + rulesRun p c nd) 0
      s!"det done={done}"
    else resultOf p c s nodeOf

/-- all units of the plan, in order; a unit runs iff the rule that starts it ran in its parent unit -/
def expectedAll (p : Plan) : List String :=
  let rec go (cs : List Casc) (acc : List (Option (State × List Nat)) ) (out : List String) : List String :=
    match cs with
    | [] => out.reverse
    | c :: rest =>
      let started := match c.startedBy with
        | none => true
        | some (pu, n, k) =>
          match acc.reverse[pu]?, p.cascs[pu]? with
          | some (some (s, nodeOf)), some pc => ranRule p pc s nodeOf n k
          | _, _ => false
      if started then go rest (runUnit p c :: acc) (expected p c :: out)
      else go rest (none :: acc) ("notrun" :: out)
  go p.cascs [] []

def nontrivial (p : Plan) : Bool :=
  p.cascs.any fun c => c.nodes.size ≥ 3 && c.nodes.any fun n => n.rules.any (!·)

def runCase (payload : String) : String :=
  match parsePlan payload with
  | none => "bad-payload"
  | some p =>
    " ; ".intercalate (expectedAll p) ++ (if nontrivial p then "\tnt=1" else "")

/-! ### exhaustive exploration of a plan on the transition system -/

structure XState where
  s : State
  nodeOf : List Nat

def phaseTag : Phase → Nat
  | .fresh => 0 | .queued => 1 | .running _ => 2 | .failing _ => 3 | .errSet _ => 4 | .notifying _ => 5 | .done => 6

def b2n (b : Bool) : Nat := if b then 1 else 0

/-- canonical key of a state: monitors listed by PLAN NODE (creation order and worker identities
    do not matter), then the scalar fields -/
def key (c : Casc) (x : XState) : List Nat :=
  let s := x.s
  let mons := (List.range c.nodes.size).flatMap fun n =>
    match (x.nodeOf.zip s.mons).find? (fun (nd, _) => nd == n) with
    | some (_, m) => [1, phaseTag m.phase, m.todo.length, m.failed.foldl (fun a r => a + 2 ^ r) 0, b2n m.skipped,
                      b2n m.inErrors, b2n m.err.isSome]
    | none => [0]
  mons ++ [s.unfinished, s.postPending, s.posted, s.obsWait, s.obsHandler, s.obsQueue, b2n s.hasQueue, s.dWait,
           s.dHandler, s.dQueue, b2n s.waiting, b2n s.handlerReg, s.released, b2n s.waitReturned, s.handlerCalls,
           b2n s.panicked]

/-- plan node of the next child the action executing under monitor `i` creates, if any -/
def nextKid (c : Casc) (x : XState) (i : Nat) (m : Mon) : Option Nat :=
  match m.todo with
  | [] => none
  | k :: _ =>
    let kids := childrenOf c (x.nodeOf.getD i 0) k
    let created := (x.nodeOf.zip x.s.mons).filter fun (nd, cm) => cm.parent == some i && kids.contains nd
    kids[created.length]?

/-- the events the code can perform next in state `x` when it executes plan `c`: each goroutine
    (adder, each worker inside a task, the poster) has one next step; `pop` uses the lowest free
    worker (workers are symmetric); `dropQueue` whenever the queue entry is empty -/
def enabledEvents (p : Plan) (c : Casc) (x : XState) : List (Event × Option Nat) :=
  let s := x.s
  let rootFresh : Bool := match s.mons[0]? with
    | some r => r.phase == .fresh
    | none => false
  let rootEv := addEv c 0 c.root
  let adder : List (Event × Option Nat) :=
    if rootFresh == true then
      if c.wait && !s.waiting then [(.register, none)]
      else match rootEv with
        | .addEvent _ true _ => if s.handlerReg then [(rootEv, none)] else [(.regHandler, none)]
        | _ => [(rootEv, none)]
    else if c.wait && s.released > 0 && !s.waitReturned then [(.waitReturns, none)] else []
  let freeW := (List.range p.workers).find? fun w => s.workerFree w
  let perMon := (List.range s.mons.length).flatMap fun i =>
    match s.mons[i]? with
    | none => []
    | some m =>
      match m.phase with
      | .queued => match freeW with
        | some w => [(Event.pop w i, none)]
        | none => []
      | .running _ =>
        match m.todo with
        | [] => [(.taskDone i, none)]
        | k :: _ =>
          -- a child created by this action and not yet added?
          match (List.range s.mons.length).find? (fun j => match s.mons[j]? with
              | some cm => cm.parent == some i && cm.phase == .fresh
              | none => false) with
          | some j => [(addEv c j (x.nodeOf.getD j 0), none)]
          | none =>
            match nextKid c x i m with
            | some nd => [(.newChild i, some nd)]
            | none =>
              let ok := match c.nodes[x.nodeOf.getD i 0]? with
                | some nd => nd.rules.getD k true
                | none => true
              [(.ruleReturns i ok, none)]
      | .failing _ => [(.setErrors i, none)]
      | .errSet _ => [(.errFinish i, none)]
      | .notifying _ => [(.notified i, none)]
      | _ => []
  let pump : List (Event × Option Nat) :=
    (if s.postPending > 0 then [(Event.post, none)] else []) ++
    (if s.dWait > 0 then [(.observerRuns .wait, none)]
     else if s.dHandler > 0 then [(.observerRuns .handler, none)]
     else if s.dQueue > 0 then [(.observerRuns .queue, none)] else []) ++
    (if s.hasQueue && !s.anyQueued then [(.dropQueue, none)] else [])
  adder ++ perMon ++ pump

def succs (p : Plan) (c : Casc) (x : XState) : List XState :=
  (enabledEvents p c x).filterMap fun (e, nd) =>
    match step x.s e with
    | some s' => some { s := s', nodeOf := match nd with | some n => x.nodeOf ++ [n] | none => x.nodeOf }
    | none => none

structure Explored where
  seen : Std.HashSet (List Nat) := {}
  trans : Nat := 0
  terminal : Nat := 0
  outcomes : List String := []
  stuck : Nat := 0      -- enabled event list non-empty but `step` refused one of them
  bad : Nat := 0        -- a state violating an invariant checked at run time

/-- invariants re-checked on every explored state (they are theorems; this guards the driver) -/
def stateOk (s : State) : Bool :=
  s.unfinished == (s.mons.filter fun m => !m.phase.finished).length && s.posted ≤ 1 && s.handlerCalls ≤ 1 &&
  s.released ≤ 1 && !s.panicked && (s.released == 0 || s.mons.all fun m => m.phase.finished && m.todo.isEmpty)

partial def exploreLoop (p : Plan) (c : Casc) (work : List XState) (acc : Explored) : Explored :=
  match work with
  | [] => acc
  | x :: rest =>
    let evs := enabledEvents p c x
    let nexts := succs p c x
    let acc := { acc with trans := acc.trans + nexts.length,
                          stuck := acc.stuck + (evs.length - nexts.length),
                          bad := acc.bad + (if stateOk x.s then 0 else 1) }
    let acc := if evs.isEmpty then
        let r := resultOf p c x.s x.nodeOf
        { acc with terminal := acc.terminal + 1, outcomes := if acc.outcomes.contains r then acc.outcomes else r :: acc.outcomes }
      else acc
    let (work', acc) := nexts.foldl (fun (w, a) y =>
      let k := key c y
      if a.seen.contains k then (w, a) else (y :: w, { a with seen := a.seen.insert k })) (rest, acc)
    exploreLoop p c work' acc

def explore (p : Plan) (c : Casc) : Explored :=
  let x0 : XState := { s := init p.workers p.failFirst, nodeOf := [c.root] }
  exploreLoop p c [x0] { seen := ({} : Std.HashSet (List Nat)).insert (key c x0) }

/-- `driver C02 explore`: payload = plan with ONE cascade -/
def exploreCase (payload : String) : String :=
  match parsePlan payload with
  | some p =>
    match p.cascs with
    | [c] =>
      let r := explore p c
      let same := r.outcomes.length == 1 && r.outcomes.head? == some (expected p c)
      s!"states={r.seen.size} trans={r.trans} terminal={r.terminal} outcomes={r.outcomes.length} same={b2n same} stuck={r.stuck} bad={r.bad}"
    | _ => "bad-payload"
  | none => "bad-payload"

/-! ### trace replay -/

def nats (s : String) : List Nat := (s.splitOn ".").map fun x => x.toNat?.getD 9999

/-- replay monad: errors + the log of model events performed -/
abbrev RM := StateT (List Event) (Except String)

def chk (b : Bool) (msg : String) : RM Unit := if b then pure () else throw msg

def stepE (s : State) (e : Event) : RM State :=
  match step s e with
  | some s' => do modify (e :: ·); pure s'
  | none => throw s!"event not enabled in the model: {repr e}"

def replayTok (c : Casc) (s : State) (tok : String) : RM State := do
  let kind := tok.toList.headD ' '
  let a := nats (tok.drop 1).toString
  let phaseOf (m : Nat) : Option Phase := (s.mons[m]?).map (·.phase)
  match kind, a with
  | 'W', _ => stepE s .register
  | 'J', _ => stepE s .regHandler
  | 'K', [m] => do
    chk (match phaseOf m with | some .fresh => false | none => false | _ => true) "AddTask returned for a monitor that was not handed over"
    pure s
  | 'R', [n] => do
    let s' ← stepE s .waitReturns
    chk (n == (allErrors s').length) s!"AllErrors after the return: model {(allErrors s').length} entries, code {n}"
    pure s'
  | 'P', _ => stepE s .post
  | 'D', _ => stepE s .dropQueue
  | 'O', _ =>
    -- the pump calls the callbacks of its snapshot in registration order: wait, handler, queue
    if tok == "Ow" then stepE s (.observerRuns .wait)
    else if tok == "Oh" then do
      chk (s.dWait == 0) "handler callback before the wait callback"
      stepE s (.observerRuns .handler)
    else do
      chk (s.dWait == 0 && s.dHandler == 0) "queue callback before the wait/handler callbacks"
      stepE s (.observerRuns .queue)
  | 'A', [m, n] =>
    match addEv c m n with
    | .addEvent m true rs => stepE s (.addEvent m true rs)
    | _ => throw "a task was queued for an event the plan calls non-triggering"
  | 'C', [p, m, u] => do
    chk (m == s.mons.length) "child id out of creation order"
    let s' ← stepE s (.newChild p)
    chk (s'.unfinished == u) s!"unfinished after NewChildMonitor: model {s'.unfinished}, code {u}"
    pure s'
  | 'B', [m, w] => stepE s (.pop w m)
  | 'G', [m] => do
    chk (match phaseOf m with | some (.running _) => true | _ => false) "Task.Run of a monitor which is not running"
    pure s
  | 'E', [m, k, ok] => do
    chk (((s.mons[m]?).bind (·.todo.head?)) == some k) s!"action {k} returned but is not the head of the trigger sequence"
    stepE s (.ruleReturns m (ok == 1))
  | 'N', [m, nerr] => do
    match s.mons[m]? with
    | some mon =>
      chk (mon.todo.isEmpty) "ProcessEvent returned with rules left"
      chk (mon.failed.length == nerr) s!"number of errors: model {mon.failed.length}, code {nerr}"
      if nerr > 0 then stepE s (.taskDone m) else pure s
    | none => throw "unknown monitor"
  | 'T', [m] => stepE s (.setErrors m)
  | 'H', [m] => stepE s (.notified m)
  | 'F', [m, u, n] => do
    let s' ← match phaseOf m with
      | some .fresh => do
        chk ((c.nodes[n]?).map (·.kind) == some 's') "Skip of an event the plan calls triggering"
        stepE s (.addEvent m false [])
      | some (.running _) => stepE s (.taskDone m)
      | some (.errSet _) => stepE s (.errFinish m)
      | _ => throw "descendantFinished for a monitor which cannot finish"
    chk (s'.unfinished == u) s!"unfinished after Finish: model {s'.unfinished}, code {u}"
    chk ((s'.mons[m]?).map (·.phase.finished) == some true) "monitor not finished after Finish"
    pure s'
  | 'U', [_m, b] => do
    chk (b == 0 || s.postPending ≥ 1) "descendantFinished saw zero but the model did not"
    pure s
  | 'X', [n] => do
    let s' ← stepE s .allErrors
    chk (1 ≤ n && n ≤ (s.mons.filter fun m => !m.failed.isEmpty).length) "AllErrors entries seen by the error observer: more than failed tasks, or none"
    pure s'
  | _, _ => throw "unknown token"

/-- replay the tokens of one cascade; returns (number of tokens, legacy?, keys of the states visited when `collect`) -/
def replayCasc (p : Plan) (c : Casc) (toks : List String) (collect : Bool := false) :
    Except String (Nat × Bool × List (List Nat)) := do
  let mut x : XState := { s := init p.workers p.failFirst, nodeOf := [c.root] }
  let mut k := 0
  let mut keys : List (List Nat) := if collect then [key c x] else []
  -- a tree without the call sites `cascade.handler.registered` / `cascade.added` (hooks/C02b.patch):
  -- the registration of the finish-handler observer is not visible, assume it where the code has it
  let legacy := toks.any (·.startsWith "A") && !(toks.any (·.startsWith "K"))
  for t in toks do
    if legacy && t.startsWith "A0." then
      match step x.s .regHandler with
      | some s' => x := { x with s := s' }
      | none => throw s!"{k} {t} regHandler not enabled"
    -- plan node of a child created by this token
    let nd : Option Nat := if t.startsWith "C" then
        match nats (t.drop 1).toString with
        | [pm, _, _] => match x.s.mons[pm]? with
          | some m => (nextKid c x pm m).orElse fun _ => some 9999
          | none => some 9999
        | _ => some 9999
      else none
    match (replayTok c x.s t).run [] with
    | .ok (s', _) =>
      x := { s := s', nodeOf := match nd with | some n => x.nodeOf ++ [n] | none => x.nodeOf }
      if collect then keys := key c x :: keys
    | .error e => throw s!"{k} {t} {e}"
    k := k + 1
  -- a unit that was never started has no events
  if toks.isEmpty && c.startedBy.isSome then return (0, false, keys)
  -- end of the recorded run: the cascade is over
  let s := x.s
  if s.posted != 1 then throw "finished message not posted exactly once at the end of the trace"
  if !(s.mons.all fun m => m.phase.finished) then throw "unfinished monitor at the end of the trace"
  if c.wait && !s.waitReturned then throw "wait did not return in the trace"
  if s.panicked then throw "model assertion failed"
  pure (k, legacy, keys)

/-- a recorded trace is a global sequence `<cascade>:<token>,…` -/
def parseTrace (t : String) : List (Nat × String) :=
  if t.trimAscii.toString.isEmpty then [] else
  (t.trimAscii.toString.splitOn ",").map fun x =>
    match x.splitOn ":" with
    | [ci, tok] => (ci.toNat?.getD 9999, tok)
    | _ => (9999, x)

/-- replay the GLOBAL trace of a case on the shared system `Conc` (one observer table, one queue
    map, shared workers): every token's model events must also be steps of `Conc.step` — in
    particular a `pop` needs its worker free in EVERY cascade — and the view of the stepping
    cascade must equal the state the single-cascade replay computes (`conc_refines` at run time). -/
def replayJoint (p : Plan) (toks : List (Nat × String)) : Except String Nat := do
  let mut C : Conc := { workers := p.workers, failFirst := p.failFirst,
                        roots := p.cascs.map fun _ => (init p.workers p.failFirst).local }
  let legacy := toks.any (·.2.startsWith "A") && !(toks.any (·.2.startsWith "K"))
  let mut k := 0
  for (ci, t) in toks do
    match p.cascs[ci]? with
    | none => throw s!"{k} {t} unknown cascade"
    | some c =>
      if legacy && t.startsWith "A0." then
        match C.step ci .regHandler with
        | some C' => C := C'
        | none => throw s!"{k} {t} regHandler not enabled in the shared system"
      match C.view ci with
      | none => throw s!"{k} {t} no such root"
      | some v =>
        match (replayTok c v t).run [] with
        | .error e => throw s!"{k} {ci}:{t} {e}"
        | .ok (v', evs) =>
          for e in evs.reverse do
            match C.step ci e with
            | some C' => C := C'
            | none => throw s!"{k} {ci}:{t} enabled for the cascade alone but not in the shared system (worker busy in another cascade?): {repr e}"
          if C.view ci != some v' then throw s!"{k} {ci}:{t} view of the shared system differs from the cascade's state"
    k := k + 1
  if !(C.table.isEmpty) then throw "observer table not empty at the end of the run"
  if !(C.pending.isEmpty) then throw "callbacks pending at the end of the run"
  pure k

def replayCase (payload : String) : String :=
  match payload.splitOn " ~ " with
  | [pl, tr] =>
    match parsePlan pl with
    | none => "bad-payload"
    | some p =>
      let toks := parseTrace tr
      let rs := p.cascs.zipIdx.map fun (c, i) =>
        match replayCasc p c ((toks.filter (·.1 == i)).map (·.2)) with
        | .ok (n, lg, _) => (i, n, lg, "")
        | .error e => (i, 0, false, e)
      match rs.find? (fun (_, _, _, e) => e != "") with
      | some (i, _, _, e) => s!"reject {i} {e}"
      | none =>
        match replayJoint p toks with
        | .error e => s!"reject joint {e}"
        | .ok _ => s!"ok {rs.foldl (fun acc (_, n, _, _) => acc + n) 0} legacy={rs.foldl (fun acc (_, _, lg, _) => acc + b2n lg) 0}"
  | _ => "bad-payload"

/-- `driver C02 cover`: payload = `<plan with one cascade> ~ <trace> | <trace> | …` — how much of the
    exhaustively explored state space of the plan did the recorded runs of the real code visit? -/
def coverCase (payload : String) : String :=
  match payload.splitOn " ~ " with
  | [pl, trs] =>
    match parsePlan pl with
    | some p =>
      match p.cascs with
      | [c] =>
        let r := explore p c
        let traces := trs.splitOn " | "
        let (visited, outside, rejected, distinct) := traces.foldl (fun (v, o, rj, d) t =>
          let toks := (parseTrace t).map (·.2)
          match replayCasc p c toks true with
          | .ok (_, _, keys) =>
            let (v, o) := keys.foldl (fun (v, o) k =>
              if r.seen.contains k then (v.insert k, o) else (v, o + 1)) (v, o)
            (v, o, rj, d.insert (toks.filter fun t => !(t.startsWith "X")))
          | .error _ => (v, o, rj + 1, d)) (({} : Std.HashSet (List Nat)), 0, 0, ({} : Std.HashSet (List String)))
        let same := r.outcomes.length == 1 && r.outcomes.head? == some (expected p c)
        s!"reach={r.seen.size} visited={visited.size} outside={outside} traces={traces.length} rejected={rejected} distinct={distinct.size} trans={r.trans} terminal={r.terminal} same={b2n same} stuck={r.stuck} bad={r.bad}"
      | _ => "bad-payload"
    | none => "bad-payload"
  | _ => "bad-payload"

def run (args : List String) : IO Unit :=
  match args with
  | ["replay"] => lineLoop replayCase
  | ["explore"] => lineLoop exploreCase
  | ["cover"] => lineLoop coverCase
  | _ => lineLoop runCase

end Ecal.Drv.C02
