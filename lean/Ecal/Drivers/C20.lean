import Ecal.Drivers.Util
namespace Ecal.Drv.C20
/-- model driver of property C20 (stub: not implemented yet) -/
def run (_args : List String) : IO Unit := Ecal.Drv.lineLoop fun _ => "unimplemented"
end Ecal.Drv.C20
