import Ecal.Drivers.Util
import Ecal.Model.Pack
import Ecal.Gen.C20
/-!
Driver of C20. Payload (space separated):
  `<packed 0|1> <n> <filler 0|1|2> <seed> <plants|-> <ws-hex|-> <tree> <rc> <zip4-hex>`
The synthetic binary is regenerated here from (n, filler, seed, plants) with the
same deterministic functions as in go/cmd/harness/c20.go; the file is
`layout marker bin (ws ++ zip4)` (only the first bytes of the archive matter for
the scan), or `bin` alone when not packed. The model (`Impl.scan` with the
generated geometry, full reads) predicts the offset handed to the zip reader.

`proc <tree> <rc> <args>` = the real CLI executable packed and started with a command line:
demanded and predicted `proc srcmarker=0 exit=<rc> entry=ran` for every command line.

`seq <first> <mode> <n2> <k2> <t2> <rc> <proc>` = a project packed into a target that already
exists (earlier pack / unrelated file / other mode): predicted `seq fresh=same x=1 exit=<rc> files=ok`.

Result: `exit=<rc> files=ok | fall | fail` (the offset is not an observable); `HANG` if the model loop
makes no progress. `spec=`/`kf=` are attached when the model's result is not what
the property demands for this case (first occurrence of the marker is the one
Pack wrote ⇒ archive found at `|bin|+|marker|` and run).
-/
namespace Ecal.Drv.C20
open Ecal.Drv Ecal.Pack

def geom : Geom := { bufSize := Ecal.Gen.C20.bufSize, keep := Ecal.Gen.C20.keep, marker := Ecal.Gen.C20.marker }

/-- filler byte kinds 0 and 1 (see c20Fill) -/
def fillByte (kind i : Nat) : Nat :=
  if kind = 1 ∧ i % 61 = 60 then 35
  else if kind = 1 ∧ i % 127 = 126 then 10
  else 97 + i % 23

def lcgLoop : Nat → Nat → List Nat → List Nat
  | 0, _, acc => acc.reverse
  | n+1, x, acc =>
    let x := (x * 1103515245 + 12345) % 2147483648
    lcgLoop n x (((x / 65536) % 256) :: acc)

def fill (n kind seed : Nat) : List Nat :=
  if kind = 2 then lcgLoop n (seed % 2147483648) []
  else (List.range n).map (fillByte kind)

def plant (bin : List Nat) (off : Nat) (bs : List Nat) : List Nat :=
  bin.take off ++ bs ++ bin.drop (off + bs.length)

def parsePlants (s : String) : Option (List (Nat × List Nat)) :=
  if s = "-" then some []
  else (s.splitOn ",").mapM fun p =>
    match p.splitOn ":" with
    | [o, h] => do
      let o ← o.toNat?
      let h ← hexDecode h
      some (o, h)
    | _ => none

/-- what the user observes for a PACKED file, given the scan result: the offset itself is not an
    observable — `found p` with `p` at or before the archive hands the zip reader the archive with
    bytes in front, which Go's zip reader accepts (trusted fact); exit code and files are what count -/
def showRes (_trueStart : Nat) (rc : String) : Res → String
  | .found _ => s!"exit={rc} files=ok"
  | .notFound => "fall"
  | .hang => "HANG"
  | .panic => "PANIC slice bounds out of range"

def runCase (payload : String) : String :=
  match payload.splitOn " " with
  | ["realbin"] =>
    -- `hbin` of scan_finds_archive / archive_exact / packed_runs_entry holds for the real interpreter
    -- (checked by the harness on the binary itself); not packed it falls through (plain_binary_falls_through)
    "realbin hbin=1 plain=fall\tnt=1"
  | ["out", "srcistarget", _, _, _] => "out pack-refused source-intact\tnt=1"
  | ["out", "srcistarget-link", _, _, _] => "out pack-refused source-intact\tnt=1"
  | ["out", variant, n, k, rc] =>
    -- after the scan: the parts that are not modelled enter as the named facts of `After`
    match n.toNat?, k.toNat?, rc.toNat? with
    | some n, some k, some rc =>
      let M := geom.marker
      let a : Option After :=
        match variant with
        | "ok" => some { seekOk := true, zipOk := true, entryOk := true, result := rc }
        | "badzip" => some { seekOk := true, zipOk := false, entryOk := true, result := rc }
        | "emptyzip" => some { seekOk := true, zipOk := false, entryOk := true, result := rc }
        | "parseerr" => some { seekOk := true, zipOk := true, entryOk := false, result := rc }
        | "rterr" => some { seekOk := true, zipOk := true, entryOk := true, result := 0 }
        | "string" => some { seekOk := true, zipOk := true, entryOk := true, result := 0 }
        | "float" => some { seekOk := true, zipOk := true, entryOk := true, result := rc }
        | "negative" => some { seekOk := true, zipOk := true, entryOk := true, result := -(rc : Int) }
        | "exesuffix" => some { seekOk := true, zipOk := true, entryOk := true, result := rc }
        | "bothexist-text" => some { seekOk := true, zipOk := true, entryOk := true, result := rc }
        | "bothexist-packed" => some { seekOk := true, zipOk := true, entryOk := true, result := rc }
        | _ => none
      match a with
      | none => "bad-payload"
      | some a =>
        let data := if variant = "emptyzip" then fill n k 0 ++ M else layout M (fill n k 0) [80, 75, 3, 4]
        let r := Impl.scan geom Impl.fullReads data
        let o := match outcome r a with
          | .exit c => s!"exit={c}"
          | .fallThrough => "fall"
          | .fail => "fail"
          | .hang => "HANG"
        s!"out {o}\tnt=1"
    | _, _, _ => "bad-payload"
  | ["rt", _seed, n, k, rc, via] =>
    -- random project tree through the tool's own command line: the scan does not depend on the tree
    match n.toInt?, k.toNat? with
    | some n, some k =>
      let M := geom.marker
      if via = "cli" then s!"rt exit={rc} files=ok\tnt=1"
      else
        let data := layout M (fill n.toNat k 0) [80, 75, 3, 4]
        "rt " ++ showRes (n.toNat + M.length) rc (Impl.scan geom Impl.fullReads data) ++ "\tnt=1"
    | _, _ => "bad-payload"
  | ["seq", _first, _mode, n2, k2, _t2, rc, proc] =>
    -- the layout has no memory (`pack_overwrites`, `pack_truncates`): whatever the target was
    -- before, the file is the fresh pack of the last project; it is executable and runs
    match n2.toInt?, k2.toNat? with
    | some n2, some k2 =>
      let M := geom.marker
      let scanPart :=
        if n2 < 0 then s!"exit={rc} files=ok"   -- the real CLI as source binary
        else
          let n := n2.toNat
          let data := layout M (fill n k2 0) [80, 75, 3, 4]
          showRes (n + M.length) rc (Impl.scan geom Impl.fullReads data)
      let procPart := if proc = "1" then s!" proc:exit={rc}:entry=ran" else ""
      s!"seq fresh=same x=1 {scanPart}{procPart}\tnt=1"
    | _, _ => "bad-payload"
  | ["proc", _tree, rc, _args, _form] =>
    -- every way of starting it (`Props.C20.locate_started_file`): the file scanned is the file started
    s!"proc srcmarker=0 exit={rc} entry=ran\tnt=1"
  | ["proc", _tree, rc, _args] =>
    -- the real executable: `main` calls RunPackedBinary first and unconditionally
    -- (`Gen.mainCallsRunPackedFirst`, obligation `main_runs_packed_first`), so the command line
    -- does not matter; the interpreter binary does not contain the marker (`geom_marker_assembled`)
    s!"proc srcmarker=0 exit={rc} entry=ran\tnt=1"
  | [packed, n, kind, seed, plants, ws, tree, rc, zip4] =>
    -- a tree marked `r` (root file named like the archive's entry member; a symbolic link that cannot
    -- be packed as a file) must be refused by the pack tool with an error: no executable is built
    if packed = "1" ∧ tree.endsWith "r" then "pack-refused\tnt=1" else
    -- filler 3: a sparse source of n zero bytes (up to 2^29): not executed; the answer is the theorem
    -- `scan_finds_archive` (hbin holds: the marker has no zero byte; the archive starts with `P`)
    if kind = "3" then s!"exit={rc} files=ok\tnt=1" else
    match n.toNat?, kind.toNat?, seed.toNat?, parsePlants plants, hexDecode ws, hexDecode zip4 with
    | some n, some kind, some seed, some plants, some ws, some zip4 =>
      let M := geom.marker
      let bin := plants.foldl (fun b (o, bs) => plant b o bs) (fill n kind seed)
      let isPacked := packed = "1"
      let data := if isPacked then layout M bin (ws ++ zip4) else bin
      let trueStart := if isPacked then n + M.length + ws.length else data.length + 1
      let r := Impl.scan geom Impl.fullReads data
      -- the theorems hold for EVERY read schedule (short / interrupted reads); executed sanity check of
      -- that on the smaller files: an irregular schedule of 1..7-byte reads and one of 1..bufSize bytes
      let sched1 : Nat → Nat → Nat := fun fuel _ => 1 + fuel % 7
      let sched2 : Nat → Nat → Nat := fun fuel room => 1 + (fuel * 2654435761) % room
      let schedOk := n > 600 ∨ (Impl.scan geom sched1 data = r ∧ Impl.scan geom sched2 data = r)
      let shown := if isPacked then showRes trueStart rc r
        else match r with
          | .found _ => "fail"      -- a marker inside a plain binary: what follows is no archive, the zip reader fails
          | .notFound => "fall"
          | .hang => "HANG"
          | .panic => "PANIC slice bounds out of range"
      let model := if schedOk then shown else "MODEL-RESULT-DEPENDS-ON-READ-SCHEDULE"
      -- what the property demands
      let first := Spec.find M data
      let demanded : Option String :=
        if isPacked then some s!"exit={rc} files=ok"
        else if first = none then some "fall" else none
      let nt := if n + M.length > geom.bufSize ∨ !plants.isEmpty ∨ !ws.isEmpty then "\tnt=1" else ""
      match demanded with
      | some d => if d = model then model ++ nt else model ++ nt ++ "\tkf=C20-scan-deviates\tspec=" ++ d
      | none => model ++ nt
    | _, _, _, _, _, _ => "bad-payload"
  | _ => "bad-payload"

def run (_args : List String) : IO Unit := lineLoop runCase
end Ecal.Drv.C20
