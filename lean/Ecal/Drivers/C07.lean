import Ecal.Drivers.Util
import Ecal.Model.Parser
import Ecal.Model.TokenChannel
import Ecal.Model.ParserWF
import Ecal.Model.ParserWalk
/-!
Driver of C07. Payload (space separated): `<source-hex> <token>,<token>,…` where the token list
is what the REAL lexer (`parser.LexToList`) produced for the source and
`<token> = id.pos.valhex.identifier.allowEscapes.prefixNewlines.line.col`.
The model parser runs on these tokens. Result:
  `OK <tree> wf=<0|1> leak=<0|1> rt=same`   or   `ERR <kind> <line> <col> at=<tok|unpos|none> leak=<0|1> rt=same`
`<tree>` = `(name valhex raw child…)` without positions; `wf` = `WellFormed`, `WellFormedRoot` (strict) and `walkable` decided on that
tree; `leak` = verdict of the channel model (with drain) for the number of tokens the model parser
had taken when it returned.
-/
namespace Ecal.Drv.C07
open Ecal.Drv Ecal.Lex Ecal.Parse

def parseInt (s : String) : Option Int :=
  if s.startsWith "-" then (s.drop 1).toString.toNat?.map (fun n => - (Int.ofNat n))
  else s.toNat?.map Int.ofNat

def parseTok (s : String) : Option Tok :=
  match s.splitOn "." with
  | [id, pos, val, ident, esc, pnl, line, col] => do
    let id ← id.toNat?
    let pos ← pos.toNat?
    let val ← hexDecode val
    let pnl ← pnl.toNat?
    let line ← line.toNat?
    let col ← parseInt col
    some { id := id, pos := pos, val := val, identifier := ident = "1", allowEscapes := esc = "1",
           prefixNl := pnl, line := line, col := col }
  | _ => none

/-- the message text of an error token is not compared -/
def noMsg (t : Tok) : Tok := if t.id = 0 then { t with val := [] } else t

def nameText (s : String) : String := if s.isEmpty then "~" else s

partial def treeText (n : Node) : String :=
  let tokText := match n.tok with
    | some t => hexEnc t.val ++ " " ++ (if t.allowEscapes then "e" else "r")
    | none => "~ ~"
  let kids := n.children.map fun c => match c with
    | some c => " " ++ treeText c
    | none => " NIL"
  "(" ++ nameText n.name ++ " " ++ tokText ++ String.join kids ++ ")"

def kindText (k : String) : String :=
  if k = "Unexpected end" then "UnexpectedEnd"
  else if k = "Lexical error" then "LexicalError"
  else if k = "Unknown term" then "UnknownToken"
  else if k = "Term cannot start an expression" then "ImpossibleNullDenotation"
  else if k = "Term can only start an expression" then "ImpossibleLeftDenotation"
  else if k = "Unexpected term" then "UnexpectedToken"
  else "?" ++ k

def b01 (b : Bool) : String := if b then "1" else "0"

def runCase (payload : String) : String :=
  match payload.splitOn " " with
  | ["CONC", _] => "CONC-OK"                         -- eight concurrent callers: every answer that of a single caller, nothing left
  | [_src, "UNVERIFIED"] => "SKIPPED"                -- the real lexer is broken; this source was not lexed
  | [_src, "LEXCRASH"] => "LEXER-FAILED-IN-GENERATOR"   -- the real lexer died / hung on this source
  | [src, toks] =>
    let toks? := if toks = "-" then some [] else (toks.splitOn ",").mapM parseTok
    match toks? with
    | none => "bad-payload"
    | some ts =>
      let both := parseBoth ts      -- = (parseToks ts, consumed ts): `parseBoth_fst`, `parseBoth_snd`
      let k := both.2
      let tail := " leak=" ++ b01 (Ecal.Chan.leaks .sync ts.length (k + 2)) ++ " rt=same"
      -- `la`: the LEXER MODEL (Model/Lexer.lean; `parse_end_to_end` is about `parse = parseToks ∘ lex`) yields the
      -- token list of the real lexer on this source (not compared - the lexer tie is C18's; counted as evidence)
      let la := match hexDecode src with
        | some bytes => if bytes.length > 300000 then "-" else b01 (((lex bytes).toList.map noMsg) == ts.map noMsg)
        | none => "-"
      let nt := (if ts.length ≥ 3 then "\tnt=1" else "") ++ "\tla=" ++ la
      match both.1 with
      | (some t, none) => "OK " ++ treeText t ++ " wf=" ++ b01 (WellFormed t && WellFormedRoot t && walkable t) ++ tail ++ nt
      | (none, some (.perr kind l c)) =>
        -- `at`: the error points at a token of the input (always, by `error_position_from_input`) or nowhere
        let atv := if ts.any (fun t => t.line = l ∧ t.col = c) then "tok"
          else if kind = "Unexpected end" ∧ l = 0 then "unpos" else "none"
        let line := "ERR " ++ kindText kind ++ " " ++ toString l ++ " " ++ toString c ++ " at=" ++ atv ++ tail
        -- known finding `unexpected-end-unpositioned`: a premature end is reported without a position
        -- (Line 0, Pos 0); the property demands a positioned error: the position of the EOF token
        if kind = "Unexpected end" ∧ l = 0 then
          let eof := match (ts.filter (·.id = 1)).getLast? with
            | some t => some t
            | none => ts.getLast?
          match eof with
          | some t => line ++ nt ++ "\tkf=unexpected-end-unpositioned\tspec=ERR UnexpectedEnd " ++ toString t.line ++ " "
              ++ toString t.col ++ " at=tok" ++ tail
          | none => line ++ nt
        else line ++ nt
      | (none, some .panic) => "PANIC-PREDICTED" ++ tail
      | (none, some .fuel) => "OUT-OF-FUEL" ++ tail
      | (some _, some _) => "BOTH" ++ tail
      | (none, none) => "NEITHER" ++ tail
  | _ => "bad-payload"

def run (_args : List String) : IO Unit := lineLoop runCase
end Ecal.Drv.C07
