import Ecal.Drivers.Util
namespace Ecal.Drv.C11
/-- model driver of property C11 (stub: not implemented yet) -/
def run (_args : List String) : IO Unit := Ecal.Drv.lineLoop fun _ => "unimplemented"
end Ecal.Drv.C11
