import Ecal.Drivers.Util
import Ecal.Model.Conc
import Ecal.Model.SinkSpec
import Ecal.Model.SinkClosure
import Ecal.Model.Scope
import Ecal.Gen.C11
/-!
Driver of C11. Payload (space separated `key=value`):
  `w=<workers> h=<submitters> ev=<events> sinks=<n> ff=<0|1> body=<light|heavy> glob=<0|1> burst=<n>
   shadow=<0|1> nap=<0|1> feat=<letters|-> seed=<n>`
The model side is an ORACLE (`Ecal.SinkSpec`, plain definitions without theorems): it computes, from the payload alone, every invocation each event must cause and the
outcome of each (`Ecal.SinkSpec`: a function of (sink, event)), and prints the digest of the
records this implies — errors recorded per (event, sink) with shape, id and sink named inside the
error; echo records with the accumulator and `m.k`; the lock-protected global counter; the
declaring scope intact. By `errors_attributed` / `event_is_local` the interleaved model returns
exactly these outcomes for every schedule, so the digest does not depend on w, h, burst, nap or
the sink-body features; as a self-check the first invocations are also run through the
interleaving models (`Ecal.Closure.closureSys Gen.capturedWrites`, `Ecal.Scope.setupSys` with the extracted set-up
order: with a captured `err` / a parent-first order this self-check fails → ` MODEL-INCONSISTENT`) under a
schedule derived from the seed.
Result: `E<n>:<digest> R<n>:<digest> T<counter|-> S<1|-> D0` (D = duplicate root monitor ids: every event
has its own root monitor, the engine's ids are distinct).
-/
namespace Ecal.Drv.C11
open Ecal.Drv Ecal.Conc Ecal.SinkSpec

def field (fs : List String) (k : String) : Nat :=
  match fs.find? (·.startsWith (k ++ "=")) with
  | some s => ((s.drop (k.length + 1)).toString.toNat?).getD 0
  | none => 0

def fieldStr (fs : List String) (k : String) : String :=
  match fs.find? (·.startsWith (k ++ "=")) with
  | some s => (s.drop (k.length + 1)).toString
  | none => ""

def lcg (x : Nat) : Nat := (x * 6364136223846793005 + 1442695040888963407) % 18446744073709551616

/-- interleaving: a window of `w` invocations in flight, a random one of them steps -/
def schedOf : Nat → Nat → Nat → Nat → List Nat
  | 0, _, _, _ => []
  | fuel + 1, x, w, n =>
    let x := lcg x
    let base := (fuel / 4) % n
    ((base + (x / 65536) % w) % n) :: schedOf fuel x w n

/-- self-check: the interleaved closure / scope models return the specified outcomes -/
def modelConsistent (c : Cfg) (w : Nat) : Bool :=
  let invs := ((List.range (min c.ev 24)).flatMap (invocations c)).take 48
  let n := invs.length
  if n = 0 then true else
  let inv := fun t => invs.getD t ⟨0, 0, 0⟩
  let outcome : Nat → Nat → Ecal.Closure.Outcome := fun s ev =>
    match Ecal.SinkSpec.outcome c s ev with
    | 0 => (none, none)
    | m => (some (m + 10 * s + 100 * ev), some ev)
  let sched := schedOf (n * 6) c.seed w n ++ (List.range (n * 5)).map (· % n)
  -- the closure model with the captured-write list EXTRACTED from the source under test
  let fin := run (Ecal.Closure.closureSys Ecal.Gen.C11.capturedWrites outcome)
    ⟨fun _ => none, fun t => Ecal.Closure.fresh (inv t).sink (inv t).event⟩ sched
  let g0 : Unit → Ecal.Scope.Chain := fun _ =>
    [fun x => if c.shadow ∧ x = "event" then some 4242 else none]
  -- the scope model with the set-up order extracted from the source under test (a literal when not established)
  let setup := if Ecal.Gen.C11.sinkSetupKnown then Ecal.Gen.C11.sinkScopeSetup
               else [("NewScope", ""), ("SetValue", "event"), ("SetParentOfScope", ""), ("Eval", "")]
  let sfin := run Ecal.Scope.setupSys
    ⟨g0, fun t => { rest := setup, val := fun _ => (inv t).event, probe := "event" }⟩ sched
  (List.range n).all fun t =>
    (fin.locals t).ret == some (outcome (inv t).sink (inv t).event) &&
    ((sfin.locals t).reads.all (· == some (inv t).event)) && !(sfin.locals t).reads.isEmpty

def runCase (payload : String) : String :=
  let fs := payload.splitOn " "
  let w := field fs "w"
  let c : Cfg := { seed := field fs "seed", sinks := field fs "sinks", ev := field fs "ev",
                   ff := field fs "ff" = 1, glob := field fs "glob" = 1, heavy := fieldStr fs "body" = "heavy",
                   shadow := field fs "shadow" = 1 || (fieldStr fs "feat").contains 'l', featC := (fieldStr fs "feat").contains 'c',
                   featG := (fieldStr fs "feat").contains 'g' && (fieldStr fs "feat").contains 'c' }
  if w = 0 ∨ c.ev = 0 ∨ c.sinks = 0 then "bad-payload" else
  line c ++ (if modelConsistent c w then "" else " MODEL-INCONSISTENT")
    ++ (if c.featG && line c true != line c then "\tkf=error-lost-under-nested-instance-state\tspec=" ++ line c true else "")
    ++ (if w ≥ 2 ∧ field fs "h" * (max 1 (field fs "burst")) ≥ 2 ∧ c.ev ≥ 100 then "\tnt=1" else "")

def run (_args : List String) : IO Unit := lineLoop runCase
end Ecal.Drv.C11
