import Ecal.Drivers.Util
import Ecal.Model.Conc
/-!
Driver of C11. Payload (space separated `key=value`):
  `w=<workers> h=<submitters> ev=<events> sinks=<n> ff=<0|1> body=<…> glob=<0|1> burst=<n> shadow=<0|1> nap=<0|1> seed=<n>`
The model side instantiates `Ecal.Conc.sinkSys []` (the action closure as it is: no
captured assignment) with min(ev, 48) overlapping invocations whose outcomes and whose
interleaving (at most `w` invocations in flight) are derived from the seed, and counts
lost / duplicated / mis-attributed results and wrong echoes against the outcome
function. Result: `<lost> <dup> <misattr> <echo>` (theorem `errors_attributed`: all 0).
-/
namespace Ecal.Drv.C11
open Ecal.Drv Ecal.Conc

def field (fs : List String) (k : String) : Nat :=
  match fs.find? (·.startsWith (k ++ "=")) with
  | some s => ((s.drop (k.length + 1)).toString.toNat?).getD 0
  | none => 0

def lcg (x : Nat) : Nat := (x * 6364136223846793005 + 1442695040888963407) % 18446744073709551616

/-- outcome of the invocation for event `ev`: fails with an error naming the event, or succeeds -/
def outcomeOf (seed ev : Nat) : Option Nat :=
  if (lcg (seed + 31 * ev) / 65536) % 2 = 0 then some (1000 + ev) else none

/-- interleaving: a window of `w` invocations in flight, a random one of them steps -/
def schedOf : Nat → Nat → Nat → Nat → List Nat
  | 0, _, _, _ => []
  | fuel + 1, x, w, n =>
    let x := lcg x
    let base := (fuel / 4) % n
    ((base + (x / 65536) % w) % n) :: schedOf fuel x w n

def runCase (payload : String) : String :=
  let fs := payload.splitOn " "
  let w := field fs "w"
  let ev := field fs "ev"
  let seed := field fs "seed"
  if w = 0 ∨ ev = 0 then "bad-payload" else
  let n := min ev 48
  let outcome := outcomeOf seed
  let init : State String (Option Nat) SLoc := ⟨fun _ => none, fun t => { event := t }⟩
  let sched := schedOf (n * 6) seed w n ++ (List.range (n * 3)).map (· % n)
  let fin := run (sinkSys [] outcome) init sched
  let ts := List.range n
  let lost := (ts.filter fun t => (outcome t).isSome ∧ (fin.locals t).ret ≠ some (outcome t)).length
  let mis := (ts.filter fun t =>
    match (fin.locals t).ret with
    | some (some e) => outcome t ≠ some e
    | _ => false).length
  -- an error value returned by more invocations than produced it
  let dup := (ts.filter fun t =>
    match outcome t with
    | some e => (ts.filter fun u => (fin.locals u).ret = some (some e)).length > 1
    | none => false).length
  -- the scope model (`event` stored before the parent link); shadow=1: the declaring scope defines `event`
  let g0 : String → Option Nat := fun x => if field fs "shadow" = 1 ∧ x = eventCell then some 4242 else none
  let sfin := run (scopeSys false) ⟨g0, fun t => { event := t }⟩ sched
  let echo := (ts.filter fun t => (fin.locals t).echo ≠ some t).length
    + (ts.filter fun t => (sfin.locals t).read1 ≠ some t ∨ (sfin.locals t).read2 ≠ some t).length
    + (if sfin.shared eventCell = g0 eventCell then 0 else 1)
  s!"{lost} {dup} {mis} {echo}" ++ (if w ≥ 2 ∧ field fs "h" * (max 1 (field fs "burst")) ≥ 2 ∧ ev ≥ 100 then "\tnt=1" else "")

def run (_args : List String) : IO Unit := lineLoop runCase
end Ecal.Drv.C11
