import Ecal.Drivers.Util
namespace Ecal.Drv.C03
/-- model driver of property C03 (stub: not implemented yet) -/
def run (_args : List String) : IO Unit := Ecal.Drv.lineLoop fun _ => "unimplemented"
end Ecal.Drv.C03
